import OjgVerif.JPMut.LemmasDescentRem
import OjgVerif.JPMut.LemmasDescentOne
/-! # Del through a recursive descent at the head of the path (`$..rest`)

`Expr.set` runs on the path as it is (no wrapper), so `Del $..a.b` is `descGo` of the rest of the path on the root. Del creates
nothing: when no error is reported the data is `delAll` at exactly the locations `JPath.eval` selects — selected object members
gone, selected array elements null. Deletions below a node lie too deep to change what the rest of the path selects from the
node (`delAll_shape`); deeper deletions followed by shallower ones compose (`delAll_seq`). The rest of the path must be free of
filters and descents, and good (`GoodPath`, `GoodPathS`) on every value — which it is for the code as it is when it has no union. -/
set_option linter.unusedSimpArgs false
set_option linter.unusedSectionVars false
set_option linter.unusedVariables false

namespace OjgVerif.JPMut
open OjgVerif OjgVerif.JPath

variable {σ : SliceFn} [NodupSlice σ]

/-! ## `delAll` looks at its location set through `contains [l]` and `strip l` only -/

theorem delArr_of_strip (T T' : List Path) (hc : ∀ l, T.contains [l] = T'.contains [l]) (hs : ∀ l, strip l T = strip l T') :
    ∀ (xs : List JV) (i : Nat), delArr T i xs = delArr T' i xs
  | [], _ => rfl
  | x :: r, i => by simp only [delArr, hc, hs, delArr_of_strip T T' hc hs r (i + 1)]

theorem delObj_of_strip (T T' : List Path) (hc : ∀ l, T.contains [l] = T'.contains [l]) (hs : ∀ l, strip l T = strip l T') :
    ∀ (kvs : List (Bytes × JV)), delObj T kvs = delObj T' kvs
  | [] => rfl
  | kv :: r => by simp only [delObj, hc, hs, delObj_of_strip T T' hc hs r]

theorem delAll_of_strip (T T' : List Path) (hc : ∀ l, T.contains [l] = T'.contains [l]) (hs : ∀ l, strip l T = strip l T') (d : JV) :
    delAll T d = delAll T' d := by
  cases d <;> simp [delAll, delArr_of_strip T T' hc hs, delObj_of_strip T T' hc hs]

theorem delArr_seq (A B : List Path) (hA : ∀ l, [l] ∉ A)
    (hk : ∀ l c, delAll (strip l (A ++ B)) c = delAll (strip l B) (delAll (strip l A) c)) : ∀ (xs : List JV) (i : Nat),
    delArr (A ++ B) i xs = delArr B i (mapArr (fun l c => delAll (strip l A) c) i xs)
  | [], _ => rfl
  | x :: r, i => by
    simp only [delArr, mapArr, contains_append_right A B _ (hA _), hk, delArr_seq A B hA hk r (i + 1)]

theorem delObj_seq (A B : List Path) (hA : ∀ l, [l] ∉ A)
    (hk : ∀ l c, delAll (strip l (A ++ B)) c = delAll (strip l B) (delAll (strip l A) c)) : ∀ (kvs : List (Bytes × JV)),
    delObj (A ++ B) kvs = delObj B (kvs.map fun kv => (kv.1, delAll (strip (.key kv.1) A) kv.2))
  | [] => rfl
  | kv :: r => by
    simp only [delObj, List.map_cons, contains_append_right A B _ (hA _), hk, delObj_seq A B hA hk r]

/-- deeper deletions first, then the shallower ones -/
theorem delAll_seq : ∀ (N : Nat) (A B : List Path) (d : JV), (∀ b ∈ B, b.length < N) →
    (∀ a ∈ A, ∀ b ∈ B, b.length < a.length) → delAll (A ++ B) d = delAll B (delAll A d)
  | 0, A, B, d, hN, _ => by
    have : B = [] := by
      cases B with
      | nil => rfl
      | cons b r => exact absurd (hN b (by simp)) (by omega)
    subst this
    simp [delAll_nil]
  | N + 1, A, B, d, hN, hlt => by
    by_cases hall : ∀ b ∈ B, b = []
    · have e1 : delAll (A ++ B) d = delAll A d := by
        apply delAll_of_strip
        · intro l
          exact contains_append_left A B [l] (fun h => by have := hall _ h; cases this)
        · intro l; rw [strip_append, strip_all_nil l B hall, List.append_nil]
      have e2 : ∀ x, delAll B x = x := by
        intro x
        rw [delAll_of_strip B [] (fun l => by
          cases hc : B.contains [l] with
          | false => rfl
          | true => have := hall _ ((contains_iff _ _).1 hc); cases this) (fun l => strip_all_nil l B hall) x, delAll_nil]
      rw [e1, e2]
    · have hex : ∃ b ∈ B, 1 ≤ b.length := by
        apply Classical.byContradiction
        intro hne
        apply hall
        intro b hb
        cases b with
        | nil => rfl
        | cons l q => exact absurd ⟨l :: q, hb, by simp⟩ hne
      obtain ⟨b0, hb0, hl0⟩ := hex
      have hA : ∀ l, [l] ∉ A := by
        intro l h
        have := hlt [l] h b0 hb0
        simp only [List.length_cons, List.length_nil] at this; omega
      have hk : ∀ l c, delAll (strip l (A ++ B)) c = delAll (strip l B) (delAll (strip l A) c) := by
        intro l c
        rw [strip_append]
        apply delAll_seq N
        · intro b hb
          obtain ⟨p, hp, hl⟩ := strip_length l B b hb
          have := hN p hp
          omega
        · intro a ha b hb
          obtain ⟨p, hp, hl⟩ := strip_length l A a ha
          obtain ⟨p', hp', hl'⟩ := strip_length l B b hb
          have := hlt p hp p' hp'
          omega
      rw [delAll_inner A hA d]
      cases d with
      | arr xs => simp only [delAll, mapKids, delArr_seq A B hA hk xs 0]
      | obj kvs => simp only [delAll, mapKids, delObj_seq A B hA hk kvs]
      | _ => rfl

theorem delAll_shape : ∀ (N : Nat) (T : List Path) (d : JV), (∀ p ∈ T, N + 1 ≤ p.length) → ShapeEq N d (delAll T d)
  | 0, _, _, _ => trivial
  | N + 1, T, d, h => by
    have hno : ∀ l, [l] ∉ T := by
      intro l hl
      have := h [l] hl
      simp only [List.length_cons, List.length_nil] at this; omega
    rw [delAll_inner T hno d]
    refine ⟨(topShape_mapKids _ d).symm, ?_⟩
    intro l c c' hc hc'
    rw [child?_mapKids, hc] at hc'
    simp only [Option.map_some, Option.some.injEq] at hc'
    rw [← hc']
    apply delAll_shape N
    intro q hq
    obtain ⟨p, hp, hl⟩ := strip_length l T q hq
    have := h p hp
    omega

theorem keysOf_delObj_sublist (T : List Path) : ∀ (kvs : List (Bytes × JV)), (keysOf (delObj T kvs)).Sublist (keysOf kvs)
  | [] => List.Sublist.slnil
  | kv :: r => by
    simp only [delObj]
    split
    · exact List.Sublist.cons _ (keysOf_delObj_sublist T r)
    · exact List.Sublist.cons₂ _ (keysOf_delObj_sublist T r)

mutual
  theorem WF_delAll : ∀ (d : JV) (T : List Path), WF d → WF (delAll T d)
    | .arr xs, T, hw => by simp only [delAll, WF]; exact WFL_delArr xs T 0 (by simpa [WF] using hw)
    | .obj kvs, T, hw => by
      simp only [WF] at hw
      simp only [delAll, WF]
      exact ⟨List.Nodup.sublist (keysOf_delObj_sublist T kvs) hw.1, WFK_delObj kvs T hw.2⟩
    | .null, _, hw => hw
    | .bool _, _, hw => hw
    | .int _, _, hw => hw
    | .flt _, _, hw => hw
    | .big _, _, hw => hw
    | .num _, _, hw => hw
    | .str _, _, hw => hw
  theorem WFL_delArr : ∀ (xs : List JV) (T : List Path) (i : Nat), WFL xs → WFL (delArr T i xs)
    | [], _, _, _ => trivial
    | x :: r, T, i, hw => by
      simp only [WFL] at hw
      simp only [delArr]
      split
      · exact ⟨trivial, WFL_delArr r T (i + 1) hw.2⟩
      · exact ⟨WF_delAll x _ hw.1, WFL_delArr r T (i + 1) hw.2⟩
  theorem WFK_delObj : ∀ (kvs : List (Bytes × JV)) (T : List Path), WFK kvs → WFK (delObj T kvs)
    | [], _, _ => trivial
    | kv :: r, T, hw => by
      simp only [WFK] at hw
      simp only [delObj]
      split
      · exact WFK_delObj r T hw.2
      · exact ⟨WF_delAll kv.2 _ hw.1, WFK_delObj r T hw.2⟩
end

theorem locsD_scalar' (rest : List Frag) (hne : rest ≠ []) (hnd : NoDescent rest) (d : JV) (hd : isContainer d = false) :
    locsD σ rest d = [] := by
  obtain ⟨g, r, hr⟩ : ∃ g r, rest = g :: r := by cases rest with | nil => exact absurd rfl hne | cons g r => exact ⟨g, r, rfl⟩
  exact locsD_scalar (σ := σ) rest g r hr (hnd g (by rw [hr]; simp)) d hd

/-! ## one node of the descent -/

theorem delAll_locsD_node (rest : List Frag) (hne : rest ≠ []) (hnd : NoDescent rest) (d : JV) (hw : WF d) :
    delAll (locsD σ rest d) d = delAll (locsG σ rest d) (mapKids (fun _ c => delAll (locsD σ rest c) c) d) := by
  have hn1 : 1 ≤ rest.length := by cases rest with | nil => exact absurd rfl hne | cons g r => simp
  have hn := WF_top d hw
  have hB : ∀ p ∈ locsG σ rest d, p.length = rest.length := fun p hp => locs_len (σ := σ) rest hnd d hw p hp
  -- the deeper part of the selection
  have hsame : SameSet (locsD σ rest d) ((locsD σ rest d).filter (fun p => decide (rest.length < p.length)) ++ locsG σ rest d) := by
    intro p
    rw [List.mem_append, List.mem_filter]
    constructor
    · intro hp
      rcases locsD_cases rest d hn p hp with h | ⟨l, c, q, hc, hq, rfl⟩
      · exact Or.inr h
      · left
        refine ⟨hp, ?_⟩
        have := locsD_len (σ := σ) rest hnd c (WF_child l d c hw hc) q hq
        simp only [List.length_cons, decide_eq_true_eq]; omega
    · rintro (⟨hp, _⟩ | hp)
      · exact hp
      · exact mem_locsD_self rest d p hp
  rw [delAll_congr d _ _ hsame]
  rw [delAll_seq (rest.length + 1) _ _ d (fun b hb => by rw [hB b hb]; omega)
    (fun a ha b hb => by
      have h1 := (List.mem_filter.1 ha).2
      simp only [decide_eq_true_eq] at h1
      rw [hB b hb]; exact h1)]
  congr 1
  have hnoA : ∀ l, [l] ∉ (locsD σ rest d).filter (fun p => decide (rest.length < p.length)) := by
    intro l hl
    have h1 := (List.mem_filter.1 hl).2
    simp only [List.length_cons, List.length_nil, decide_eq_true_eq] at h1
    omega
  rw [delAll_inner _ hnoA d]
  apply mapKids_congr d hn
  intro l c hc
  apply delAll_congr
  intro q
  rw [mem_strip, List.mem_filter]
  constructor
  · rintro ⟨hq, hlen⟩
    have := (strip_locsD (σ := σ) rest d c l hn hc q).1 ((mem_strip l _ q).2 hq)
    rcases List.mem_append.1 this with h | h
    · exact h
    · obtain ⟨p, hp, hl⟩ := strip_length l _ q h
      have := hB p hp
      simp only [List.length_cons, decide_eq_true_eq] at hlen
      omega
  · intro hq
    refine ⟨mem_locsD_child rest d c l hn hc q hq, ?_⟩
    have := locsD_len (σ := σ) rest hnd c (WF_child l d c hw hc) q hq
    simp only [List.length_cons, decide_eq_true_eq]; omega

/-- one node: the members' subtrees are done, the rest of the path deletes from the node -/
theorem del_node (dev : Dev) (rest : List Frag) (hne : rest ≠ []) (hnd : NoDescent rest) (hnf : NoFilter rest)
    (hl : ∀ f, rest.getLast? = some f → endable f = true)
    (hgm : ∀ c, GoodPath σ dev rest c) (hgs : ∀ c, GoodPathS σ dev rest c) (d : JV) (hw : WF d)
    (hst : (setF false dev false .del rest false (mapKids (fun _ c => delAll (locsD σ rest c) c) d)).st = .go) :
    (setF false dev false .del rest false (mapKids (fun _ c => delAll (locsD σ rest c) c) d)).d = delAll (locsD σ rest d) d := by
  obtain ⟨k, hk⟩ : ∃ k, rest.length = k + 1 := by
    cases rest with
    | nil => exact absurd rfl hne
    | cons g r => exact ⟨r.length, by simp⟩
  have hw' : WF (mapKids (fun _ c => delAll (locsD σ rest c) c) d) :=
    WF_mapKids _ d hw (fun l c hc => WF_delAll c _ (WF_child l d c hw hc))
  have hshape : ShapeEq rest.length d (mapKids (fun _ c => delAll (locsD σ rest c) c) d) := by
    rw [hk]
    refine ⟨(topShape_mapKids _ d).symm, ?_⟩
    intro l c c' hc hc'
    rw [child?_mapKids, hc] at hc'
    simp only [Option.map_some, Option.some.injEq] at hc'
    rw [← hc']
    apply delAll_shape k
    intro p hp
    have := locsD_len (σ := σ) rest hnd c (WF_child l d c hw hc) p hp
    omega
  obtain ⟨hsame, _⟩ := locs_shape (σ := σ) dev rest hnd hnf d _ hw hw' (hgm d) hshape
  rw [delF_eq (σ := σ) dev rest hne hnd hl false _ hw' (hgs _) hst, ← delAll_congr _ _ _ hsame]
  exact (delAll_locsD_node (σ := σ) rest hne hnd d hw).symm

mutual
  theorem descGo_del (dev : Dev) (rest : List Frag) (hne : rest ≠ []) (hnd : NoDescent rest) (hnf : NoFilter rest)
      (hl : ∀ f, rest.getLast? = some f → endable f = true) (hgm : ∀ c, GoodPath σ dev rest c) (hgs : ∀ c, GoodPathS σ dev rest c) :
      ∀ (d : JV), WF d → (descGo (setF false dev false .del rest false) d).st = .go →
        (descGo (setF false dev false .del rest false) d).d = delAll (locsD σ rest d) d
    | .arr xs, hw, hst => by
      simp only [descGo] at hst ⊢
      cases hs : (descArr (setF false dev false .del rest false) xs).st with
      | go =>
        have hL := descArr_del dev rest hne hnd hnf hl hgm hgs xs (by simpa [WF] using hw) hs
        rw [hs] at hst
        simp only [hs, hL] at hst ⊢
        have := del_node (σ := σ) dev rest hne hnd hnf hl hgm hgs (.arr xs) hw
        simp only [mapKids, mapArr_const] at this
        exact this hst
      | stop => rw [hs] at hst; cases hst
      | err e => rw [hs] at hst; cases hst
      | fault => rw [hs] at hst; cases hst
      | stale => rw [hs] at hst; cases hst
    | .obj kvs, hw, hst => by
      simp only [descGo] at hst ⊢
      cases hs : (descObj (setF false dev false .del rest false) kvs).st with
      | go =>
        have hL := descObj_del dev rest hne hnd hnf hl hgm hgs kvs (by simp only [WF] at hw; exact hw.2) hs
        rw [hs] at hst
        simp only [hs, hL] at hst ⊢
        have := del_node (σ := σ) dev rest hne hnd hnf hl hgm hgs (.obj kvs) hw
        simp only [mapKids] at this
        exact this hst
      | stop => rw [hs] at hst; cases hst
      | err e => rw [hs] at hst; cases hst
      | fault => rw [hs] at hst; cases hst
      | stale => rw [hs] at hst; cases hst
    | .null, _, _ => by rw [locsD_scalar' (σ := σ) rest hne hnd _ rfl, delAll_nil]; rfl
    | .bool _, _, _ => by rw [locsD_scalar' (σ := σ) rest hne hnd _ rfl, delAll_nil]; rfl
    | .int _, _, _ => by rw [locsD_scalar' (σ := σ) rest hne hnd _ rfl, delAll_nil]; rfl
    | .flt _, _, _ => by rw [locsD_scalar' (σ := σ) rest hne hnd _ rfl, delAll_nil]; rfl
    | .big _, _, _ => by rw [locsD_scalar' (σ := σ) rest hne hnd _ rfl, delAll_nil]; rfl
    | .num _, _, _ => by rw [locsD_scalar' (σ := σ) rest hne hnd _ rfl, delAll_nil]; rfl
    | .str _, _, _ => by rw [locsD_scalar' (σ := σ) rest hne hnd _ rfl, delAll_nil]; rfl
  theorem descArr_del (dev : Dev) (rest : List Frag) (hne : rest ≠ []) (hnd : NoDescent rest) (hnf : NoFilter rest)
      (hl : ∀ f, rest.getLast? = some f → endable f = true) (hgm : ∀ c, GoodPath σ dev rest c) (hgs : ∀ c, GoodPathS σ dev rest c) :
      ∀ (xs : List JV), WFL xs → (descArr (setF false dev false .del rest false) xs).st = .go →
        (descArr (setF false dev false .del rest false) xs).xs = xs.map fun c => delAll (locsD σ rest c) c
    | [], _, _ => rfl
    | x :: r, hw, hst => by
      simp only [WFL] at hw
      simp only [descArr] at hst ⊢
      cases hs : (descGo (setF false dev false .del rest false) x).st with
      | go =>
        rw [hs] at hst
        simp only at hst
        simp only [hs, descGo_del dev rest hne hnd hnf hl hgm hgs x hw.1 hs, descArr_del dev rest hne hnd hnf hl hgm hgs r hw.2 hst,
          List.map_cons]
      | stop => rw [hs] at hst; cases hst
      | err e => rw [hs] at hst; cases hst
      | fault => rw [hs] at hst; cases hst
      | stale => rw [hs] at hst; cases hst
  theorem descObj_del (dev : Dev) (rest : List Frag) (hne : rest ≠ []) (hnd : NoDescent rest) (hnf : NoFilter rest)
      (hl : ∀ f, rest.getLast? = some f → endable f = true) (hgm : ∀ c, GoodPath σ dev rest c) (hgs : ∀ c, GoodPathS σ dev rest c) :
      ∀ (kvs : List (Bytes × JV)), WFK kvs → (descObj (setF false dev false .del rest false) kvs).st = .go →
        (descObj (setF false dev false .del rest false) kvs).kvs = kvs.map fun kv => (kv.1, delAll (locsD σ rest kv.2) kv.2)
    | [], _, _ => rfl
    | kv :: r, hw, hst => by
      simp only [WFK] at hw
      simp only [descObj] at hst ⊢
      cases hs : (descGo (setF false dev false .del rest false) kv.2).st with
      | go =>
        rw [hs] at hst
        simp only at hst
        simp only [hs, descGo_del dev rest hne hnd hnf hl hgm hgs kv.2 hw.1 hs, descObj_del dev rest hne hnd hnf hl hgm hgs r hw.2 hst,
          List.map_cons]
      | stop => rw [hs] at hst; cases hst
      | err e => rw [hs] at hst; cases hst
      | fault => rw [hs] at hst; cases hst
      | stale => rw [hs] at hst; cases hst
end

/-- DEL THROUGH A DESCENT AT THE HEAD OF THE PATH (`$..rest`; all matches, simple data; `rest` non-empty, free of filters and
descents, good on every value): when no error is reported the data is the input with the selected object members gone and the
selected array elements null — `delAll` at exactly the locations `JPath.eval` (descent clause included) selects -/
theorem delM_descent (dev : Dev) (rest : List Frag) (hne : rest ≠ []) (hnd : NoDescent rest) (hnf : NoFilter rest)
    (hgm : ∀ c, GoodPath σ dev rest c) (hgs : ∀ c, GoodPathS σ dev rest c) (d d' : JV) (hw : WF d)
    (h : setM false dev false .del (.descent :: rest) d = .ok d') : d' = delSpecG σ (.descent :: rest) d := by
  have hlast : (Frag.descent :: rest).getLast? = rest.getLast? := by
    cases rest with
    | nil => exact absurd rfl hne
    | cons g r => simp [List.getLast?_cons_cons]
  have hre : rest.isEmpty = false := by cases rest with | nil => exact absurd rfl hne | cons g r => rfl
  simp only [setM] at h
  by_cases hr : setRefuses (Frag.descent :: rest).getLast? = true
  · rw [if_pos hr] at h; cases h
  · rw [if_neg hr] at h
    have hl : ∀ f, rest.getLast? = some f → endable f = true := by
      intro f hf
      rw [hlast, hf] at hr
      cases f <;> simp_all [setRefuses, endable]
    have e : setF false dev false .del (.descent :: rest) false d = descGo (setF false dev false .del rest false) d := by
      simp only [setF, hre, Bool.false_eq_true, if_false]
    rw [e] at h
    cases hst : (descGo (setF false dev false .del rest false) d).st with
    | go =>
      have := descGo_del (σ := σ) dev rest hne hnd hnf hl hgm hgs d hw hst
      cases hv : descGo (setF false dev false .del rest false) d with
      | mk dd ss =>
        rw [hv] at hst this h
        simp only at hst this
        subst hst
        simp only [R.out] at h
        injection h with h
        rw [← h, this]; rfl
    | stop =>
      have := setF_nostop false dev .del (.descent :: rest) false d
      rw [e] at this
      exact absurd hst this
    | err e' =>
      cases hv : descGo (setF false dev false .del rest false) d with
      | mk dd ss => rw [hv] at hst h; simp only at hst; subst hst; simp [R.out] at h
    | fault =>
      cases hv : descGo (setF false dev false .del rest false) d with
      | mk dd ss => rw [hv] at hst h; simp only at hst; subst hst; simp [R.out] at h
    | stale =>
      cases hv : descGo (setF false dev false .del rest false) d with
      | mk dd ss => rw [hv] at hst h; simp only at hst; subst hst; simp [R.out] at h

end OjgVerif.JPMut
