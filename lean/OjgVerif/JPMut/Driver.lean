import OjgVerif.Common.Driver
import OjgVerif.JPMut.Model
/-! Driver ops of the path-mutation family (C13).

Requests (tab separated):
* `set|del|mod|rem <gen 0|1> <dev> <one 0|1> <path> <data> <arg>` — the MODEL of the mutator
  (`arg`: the new value for `set`, a modifier code for `mod`, `-` otherwise). Answers
  `ok <tree>`, `err <class> <tree>`, `fault <tree>`, `unmodelled`.
* `spec set|del|mod|rem <path> <data> <arg>` — the SPECIFICATION: `<selected locations> <created
  locations> <expected tree>`.
* `judge set|del|mod|rem <one> <path> <data> <arg> ok|err <tree afterwards>` — the specification's
  verdict on what the real code did: `ok` or `viol <clause>`.
* dev: the deviation flags that are on, one letter each (`-` none, `C` = `Dev.current`):
  `i` sliceInclusive, `e` removeStepEnd, `z` setEmptySlice, `s` descentSiblings, `u` removeUnionNeg,
  `o` genUnionOOB, `n` genModifyNil, `f` filterMapNil, `r` rootScalar.
* `script <name> <value>` — the truth value of a filter script on a value.
* `current` — the letters of `Dev.current` (the harness asks once, so that flipping a flag in Model.lean is enough).
* path: fragments separated by `/` (`-` = the empty path): `c:<hex key>`, `n:<int>`, `w`, `d`,
  `u:<member>,…` (`k<hex>` / `i<int>`), `s:<start>:<end>:<step>` (`_` absent), `f:<script name>` — one of
  the scripts of `script` below (the harness checks that the library's Script.Match computes the same
  truth values on every value the case contains).
* modifier codes: `I` (v, true) · `U` (v, false) · `N` int i ↦ (i+1, true), else (v, false) ·
  `W` ([v], true) · `C<value>` (value, true).
* data, values: canonical text (`JV.render` / `lib.Render`); the member order of objects is kept as
  written (it stands for the Go map iteration order). -/
namespace OjgVerif.JPMut
open OjgVerif OjgVerif.JPath

/-! ### canonical text → JV (member order kept) -/

def takeParen (cs : List Char) : Option (String × List Char) :=
  match cs with
  | '(' :: r =>
    let body := r.takeWhile (· ≠ ')')
    match r.dropWhile (· ≠ ')') with
    | ')' :: rest => some (String.ofList body, rest)
    | _ => none
  | _ => none

def parseElems (pv : List Char → Option (JV × List Char)) : Nat → List Char → Option (List JV × List Char)
  | 0, _ => none
  | f + 1, cs =>
    match pv cs with
    | none => none
    | some (v, r) =>
      match r with
      | ',' :: r' =>
        match parseElems pv f r' with
        | some (vs, r'') => some (v :: vs, r'')
        | none => none
      | ']' :: r' => some ([v], r')
      | _ => none

def parseMembers (pv : List Char → Option (JV × List Char)) : Nat → List Char → Option (List (Bytes × JV) × List Char)
  | 0, _ => none
  | f + 1, cs =>
    match cs with
    | 'K' :: r =>
      match takeParen r with
      | none => none
      | some (hx, r1) =>
        match ofHex hx, pv r1 with
        | some k, some (v, r2) =>
          match r2 with
          | ',' :: r3 =>
            match parseMembers pv f r3 with
            | some (ms, r4) => some ((k, v) :: ms, r4)
            | none => none
          | '}' :: r3 => some ([(k, v)], r3)
          | _ => none
        | _, _ => none
    | _ => none

def parseValue : Nat → List Char → Option (JV × List Char)
  | 0, _ => none
  | f + 1, cs =>
    match cs with
    | 'n' :: r => some (.null, r)
    | 't' :: r => some (.bool true, r)
    | 'f' :: r => some (.bool false, r)
    | 'I' :: r =>
      match takeParen r with
      | some (t, r') => (t.toInt?).map fun i => (.int i, r')
      | none => none
    | 'S' :: r =>
      match takeParen r with
      | some (t, r') => (ofHex t).map fun b => (.str b, r')
      | none => none
    | '[' :: ']' :: r => some (.arr [], r)
    | '[' :: r =>
      match parseElems (parseValue f) (r.length + 1) r with
      | some (vs, r') => some (.arr vs, r')
      | none => none
    | '{' :: '}' :: r => some (.obj [], r)
    | '{' :: r =>
      match parseMembers (parseValue f) (r.length + 1) r with
      | some (ms, r') => some (.obj ms, r')
      | none => none
    | _ => none

def parseJV (s : String) : Option JV :=
  let cs := s.toList
  match parseValue (cs.length + 1) cs with
  | some (v, []) => some v
  | _ => none

/-! ### filter scripts (a fixed family; `@`-relative) -/

def keyA : Bytes := [97]
def keyB : Bytes := [98]

def intOf : Option JV → Option Int
  | some (.int i) => some i
  | _ => none

def memberOf (k : Bytes) : JV → Option JV
  | .obj kvs => lookup k kvs
  | _ => none

def firstOf : JV → Option JV
  | .arr (x :: _) => some x
  | _ => none

def script (name : String) : Option (JV → Bool) :=
  if name = "gt1" then some fun v => match intOf (some v) with | some i => decide (1 < i) | none => false        -- @ > 1
  else if name = "eq2" then some fun v => match intOf (some v) with | some i => decide (i = 2) | none => false   -- @ == 2
  else if name = "aeq1" then some fun v => match intOf (memberOf keyA v) with | some i => decide (i = 1) | none => false  -- @.a == 1
  else if name = "agt1" then some fun v => match intOf (memberOf keyA v) with | some i => decide (1 < i) | none => false  -- @.a > 1
  else if name = "i0eq1" then some fun v => match intOf (firstOf v) with | some i => decide (i = 1) | none => false       -- @[0] == 1
  else if name = "aeq1orbeq2" then some fun v =>                                                               -- @.a == 1 || @.b == 2
    (match intOf (memberOf keyA v) with | some i => decide (i = 1) | none => false) ||
    (match intOf (memberOf keyB v) with | some i => decide (i = 2) | none => false)
  else if name = "lt3" then some fun v => match intOf (some v) with | some i => decide (i < 3) | none => false   -- @ < 3
  else none

/-! ### root-relative filter scripts (`$.q` as an operand): root → element → truth value

`==` of the script language (`sameValue`: Go's `==` on the normalised operands) on the values the trees contain (no
floats): both sides absent (`Nothing == Nothing`), or the same null, truth value, integer or string; a container equals
nothing. `!=` is its negation. -/

def keyQ : Bytes := [113]

def eqVal (x y : Option JV) : Bool :=
  match x, y with
  | none, none => true
  | some .null, some .null => true
  | some (.bool a), some (.bool b) => a == b
  | some (.int a), some (.int b) => decide (a = b)
  | some (.str a), some (.str b) => a == b
  | _, _ => false

def rscript (name : String) : Option (JV → JV → Bool) :=
  if name = "eqq" then some fun r v => eqVal (some v) (memberOf keyQ r)                 -- @ == $.q
  else if name = "neqq" then some fun r v => !eqVal (some v) (memberOf keyQ r)          -- @ != $.q
  else if name = "aeqq" then some fun r v => eqVal (memberOf keyA v) (memberOf keyQ r)  -- @.a == $.q
  else if name = "aneqq" then some fun r v => !eqVal (memberOf keyA v) (memberOf keyQ r) -- @.a != $.q
  else if name = "qeqa" then some fun r v => eqVal (memberOf keyQ r) (memberOf keyA v)  -- $.q == @.a
  else none

/-! ### path text → fragments -/

def parseOptInt (s : String) : Option (Option Int) :=
  if s = "_" then some none else s.toInt?.map some

def parseMember (s : String) : Option Member :=
  match s.toList with
  | 'k' :: r => (ofHex (String.ofList r)).map Member.key
  | 'i' :: r => (String.ofList r).toInt?.map Member.idx
  | _ => none

/-- `root`: the document (what `$` in a filter stands for). `elemRoot`: the deviation `t` at this fragment — `$` stands
for the element under test (modify.go and filter.go `remove`/`removeOne` use `Script.Match` for a filter in last
position, whose root is the element itself). -/
def parseFrag (root : JV) (elemRoot : Bool) (s : String) : Option Frag :=
  if s = "w" then some .wild
  else if s = "d" then some .descent
  else
    match s.splitOn ":" with
    | ["c", hx] => (ofHex hx).map Frag.child
    | ["n", i] => i.toInt?.map Frag.nth
    | ["u", ms] => ((ms.splitOn ",").mapM parseMember).map Frag.union
    | ["s", a, b, c] =>
      match parseOptInt a, parseOptInt b, parseOptInt c with
      | some a, some b, some c => some (.slice a b c)
      | _, _, _ => none
    | ["f", name] =>
      match script name with
      | some p => some (.filter p)
      | none => (rscript name).map fun p => Frag.filter (if elemRoot then fun v => p v v else p root)
    | _ => none

/-- the last `k` fragments are read with the element as `$` -/
def parseFrags (root : JV) (k : Nat) : List String → Option (List Frag)
  | [] => some []
  | s :: r =>
    match parseFrag root (decide (r.length < k)) s, parseFrags root k r with
    | some f, some fs => some (f :: fs)
    | _, _ => none

/-- the path as the specification reads it (`$` in a filter is the document) -/
def parsePath (root : JV) (s : String) : Option (List Frag) :=
  if s = "-" then some [] else parseFrags root 0 (s.splitOn "/")

/-- the path as the code reads it under the driver-level deviation `t` (filterRootLast): Modify evaluates a filter in
last position with the element as `$` (`k = 1`); Remove is Modify along the path without its last fragment with that
fragment's `remove` method as the modifier, so there it is the last TWO positions (`k = 2`) -/
def parsePathT (root : JV) (k : Nat) (s : String) : Option (List Frag) :=
  if s = "-" then some [] else parseFrags root k (s.splitOn "/")

def parseBool (s : String) : Option Bool :=
  if s = "1" then some true else if s = "0" then some false else none

def parseDev (s : String) : Option Dev :=
  if s = "C" then some Dev.current
  else if s = "-" then some Dev.fixed
  else if s.toList.all fun c => "iezsuonfra".toList.contains c then
    some { sliceInclusive := s.contains 'i', removeStepEnd := s.contains 'e', setEmptySlice := s.contains 'z',
           descentSiblings := s.contains 's', removeUnionNeg := s.contains 'u', genUnionOOB := s.contains 'o',
           genModifyNil := s.contains 'n', filterMapNil := s.contains 'f', rootScalar := s.contains 'r',
           delOneAbsent := s.contains 'a' }
  else none

/-- the letters of a request: `C` is the code as it is, `t` is split off the others -/
def parseDevT (s : String) : Option (Dev × Bool) :=
  if s = "C" then some (Dev.current, currentT)
  else
    let t := s.contains 't'
    let rest := String.ofList (s.toList.filter (· != 't'))
    (parseDev (if rest = "" then "-" else rest)).map fun d => (d, t)

/-- the letters of the deviations a `Dev` has on -/
def devLetters (d : Dev) : String :=
  let l := (if d.sliceInclusive then "i" else "") ++ (if d.removeStepEnd then "e" else "") ++ (if d.setEmptySlice then "z" else "") ++
    (if d.descentSiblings then "s" else "") ++ (if d.removeUnionNeg then "u" else "") ++ (if d.genUnionOOB then "o" else "") ++
    (if d.genModifyNil then "n" else "") ++ (if d.filterMapNil then "f" else "") ++ (if d.rootScalar then "r" else "") ++
    (if d.delOneAbsent then "a" else "")
  if l = "" then "-" else l

def parseModifier (s : String) : Option Modifier :=
  if s = "I" then some fun v => (v, true)
  else if s = "U" then some fun v => (v, false)
  else if s = "N" then some fun v => match v with | .int i => (.int (i + 1), true) | _ => (v, false)
  else if s = "W" then some fun v => (.arr [v], true)
  else
    match s.toList with
    | 'C' :: r => (parseJV (String.ofList r)).map fun c => fun _ => (c, true)
    | _ => none

/-! ### answers -/

def renderLoc : Loc → String
  | .key k => "k" ++ toHexF k
  | .idx i => "i" ++ toString i

def renderPath (p : Path) : String :=
  if p.isEmpty then "-" else String.intercalate "." (p.map renderLoc)

def renderPaths (ps : List Path) : String :=
  if ps.isEmpty then "none" else String.intercalate ";" (ps.map renderPath)

def renderE : E → String
  | .endsWith => "endsWith"
  | .canNotFollow => "canNotFollow"
  | .outOfBounds => "outOfBounds"
  | .noLength => "noLength"
  | .noElement => "noElement"
  | .lastDescent => "lastDescent"
  | .notRemovable => "notRemovable"
  | .notNode => "notNode"

def renderOut : Out → String
  | .ok d => "ok " ++ d.render
  | .err e d => "err " ++ renderE e ++ " " ++ d.render
  | .fault d => "fault " ++ d.render
  | .unmodelled => "unmodelled"

def parseOp (op arg : String) : Option Op :=
  if op = "set" then (parseJV arg).map Op.set
  else if op = "del" then some .del
  else if op = "mod" then (parseModifier arg).map Op.mod
  else if op = "rem" then some .rem
  else none

/-! ### the specification's verdict -/

def judgeOk (one : Bool) (x : List Frag) (d d' : JV) (op : Op) : String :=
  if one then
    if (locs x d).any fun p => sameV d' (single p d op) then "ok"
    else
      match op with
      | .set v =>
        if (creates v x d).any fun c => sameV d' (insAll [c] d) then "ok"
        else if (locs x d).isEmpty && (creates v x d).isEmpty && sameV d' d then "ok"
        else if sameV d' d then "viol one-none" else "viol one"
      | _ =>
        if (locs x d).isEmpty && sameV d' d then "ok"
        else if sameV d' d then "viol one-none" else "viol one"
  else if sameV d' (expected x d op) then "ok"
  else if !frameB (frameSet x d op) d d' then "viol frame"
  else
    match op with
    | .set v => if hitB (locs x d) v d' then "viol created" else "viol hit"
    | .del => "viol gone"
    | .mod _ => "viol hit"
    | .rem => "viol remove"

def judgeErr (x : List Frag) (d d' : JV) (op : Op) : String :=
  if frameB (frameSet x d op) d d' then "ok" else "viol frame-on-error"

def handle : List String → String
  | [op, gen, dev, one, path, data, arg] =>
    match parseOp op arg, parseBool gen, parseDevT dev, parseBool one, parseJV data with
    | some o, some gen, some (dev, t), some one, some d =>
      let k := if t then (match o with | .mod _ => 1 | .rem => 2 | _ => 0) else 0
      match parsePathT d k path with
      | some x => renderOut (runModel gen dev one x d o)
      | none => "bad-op"
    | _, _, _, _, _ => "bad-op"
  | ["spec", op, path, data, arg] =>
    match parseOp op arg, parseJV data with
    | some o, some d =>
     match parsePath d path with
     | none => "bad-op"
     | some x =>
      renderPaths (locs x d) ++ " " ++
      (match o with | .set v => renderPaths ((creates v x d).map (·.1)) | _ => "none") ++ " " ++ (expected x d o).render
    | _, _ => "bad-op"
  | ["judge", op, one, path, data, arg, outcome, after] =>
    match parseOp op arg, parseBool one, parseJV data, parseJV after with
    | some o, some one, some d, some d' =>
      match parsePath d path with
      | none => "bad-op"
      | some x =>
        if outcome = "ok" then judgeOk one x d d' o
        else if outcome = "err" then judgeErr x d d' o
        else "bad-op"
    | _, _, _, _ => "bad-op"
  | ["current"] =>
    let l := devLetters Dev.current
    if currentT then (if l = "-" then "t" else l ++ "t") else l
  | ["rscript", name, root, value] =>
    match rscript name, parseJV root, parseJV value with
    | some p, some r, some v => toString (p r v)
    | _, _, _ => "bad-op"
  | ["script", name, value] =>
    match script name, parseJV value with
    | some p, some v => toString (p v)
    | _, _ => "bad-op"
  | _ => "bad-op"

end OjgVerif.JPMut
