import OjgVerif.JPMut.LemmasOneExact
/-! # SetOne / DelOne exactly: the single change is the write (deletion) at ONE selected location, or ONE created member

For paths without recursive descent on simple data, with the `delOneAbsent` deviation off: when SetOne/DelOne stop, the
data is `single p d op` for a selected location `p`, or (Set) `insAll [c] d` for one member `c` the path creates; when
they run to the end nothing has changed and nothing is selected (or to be created). -/
set_option linter.unusedSimpArgs false
set_option linter.unusedSectionVars false
set_option linter.unusedVariables false

namespace OjgVerif.JPMut
open OjgVerif OjgVerif.JPath

variable {σ : SliceFn} [NodupSlice σ]

/-- the edit of Set/Del at one location -/
def singleA (a : SetArg) (p : Path) (d : JV) : JV :=
  match a with
  | .val v => updAll (fun _ => v) [p] d
  | .del => delAll [p] d

/-- the mutation a `SetArg` stands for -/
def SetArg.op : SetArg → Op
  | .val v => .set v
  | .del => .del

theorem singleA_eq (a : SetArg) (p : Path) (d : JV) : singleA a p d = single p d a.op := by
  cases a <;> rfl

/-! ## one level of the edits at one location -/

theorem delAll_single_cons (l : Loc) (p : Path) (hp : p ≠ []) (d c : JV) (hn : TopNodup d) (hc : child? l d = some c) :
    delAll [l :: p] d = putChild l (delAll [p] c) d := by
  have hno : ∀ l', [l'] ∉ [l :: p] := by
    intro l' h
    simp only [List.mem_singleton, List.cons.injEq] at h
    exact hp h.2.symm
  rw [delAll_inner _ hno d, putChild_eq_mapKids l _ d c hn hc]
  apply mapKids_congr d hn
  intro l' c' hc'
  by_cases e : l' = l
  · subst e
    rw [hc] at hc'
    injection hc' with hc'
    subst hc'
    simp [strip_single_same]
  · simp [strip_single_ne l l' p e, e, delAll_nil]

theorem delAll_one_key (k : Bytes) (kvs : List (Bytes × JV)) : delAll [[Loc.key k]] (.obj kvs) = .obj (kvErase k kvs) := by
  simp only [delAll]
  rw [delObj_last _ (fun p hp => ⟨.key k, by simpa using hp⟩), kvErase_eq_filter]
  congr 1
  apply List.filter_congr
  intro kv _
  simp [List.contains_cons]

theorem delAll_one_idx (j : Nat) (xs : List JV) : delAll [[Loc.idx j]] (.arr xs) = .arr (xs.set j .null) := by
  simp only [delAll]
  rw [delArr_last _ (fun p hp => ⟨.idx j, by simpa using hp⟩), set_eq_mapArr .null xs j 0]
  congr 1
  apply mapArr_congr
  intro i x _
  simp [List.contains_cons, eq_comm]

theorem singleA_cons (a : SetArg) (l : Loc) (p : Path) (hp : p ≠ []) (d c : JV) (hn : TopNodup d) (hc : child? l d = some c) :
    singleA a (l :: p) d = putChild l (singleA a p c) d := by
  cases a with
  | val v => exact updAll_single_cons _ l p d c hn hc
  | del => exact delAll_single_cons l p hp d c hn hc

theorem singleA_key (a : SetArg) (k : Bytes) (kvs : List (Bytes × JV)) (c : JV) (hn : (keysOf kvs).Nodup) (hl : lookup k kvs = some c) :
    singleA a [.key k] (.obj kvs) = .obj (writeKey a k kvs) := by
  cases a with
  | val v =>
    simp only [singleA, writeKey]
    rw [updAll_single_cons _ (.key k) [] (.obj kvs) c hn hl, updAll_here]
    rfl
  | del => exact delAll_one_key k kvs

theorem singleA_idx (a : SetArg) (j : Nat) (xs : List JV) (hj : j < xs.length) :
    singleA a [.idx j] (.arr xs) = .arr (xs.set j a.elem) := by
  cases a with
  | val v =>
    simp only [singleA, SetArg.elem]
    have hc : child? (.idx j) (.arr xs) = some xs[j] := by simp [child?, hj]
    rw [updAll_single_cons _ (.idx j) [] (.arr xs) _ trivial hc, updAll_here]
    rfl
  | del => exact delAll_one_idx j xs

theorem stripC_single_same (l : Loc) (p : Path) (s : JV) : stripC l [(l :: p, s)] = [(p, s)] := by simp [stripC]

theorem stripC_single_ne (l l' : Loc) (p : Path) (s : JV) (h : l' ≠ l) : stripC l' [(l :: p, s)] = [] := by
  simp [stripC, Ne.symm h]

theorem insAll_single_cons (l : Loc) (p : Path) (s : JV) (hp : p ≠ []) (d c : JV) (hn : TopNodup d) (hc : child? l d = some c) :
    insAll [(l :: p, s)] d = putChild l (insAll [(p, s)] c) d := by
  have hno : ∀ c' ∈ [(l :: p, s)], ∀ k, c'.1 ≠ [Loc.key k] := by
    intro c' h k
    simp only [List.mem_singleton] at h
    subst h
    intro e
    simp only [List.cons.injEq] at e
    exact hp e.2
  rw [insAll_inner _ hno d, putChild_eq_mapKids l _ d c hn hc]
  apply mapKids_congr d hn
  intro l' c' hc'
  by_cases e : l' = l
  · subst e
    rw [hc] at hc'
    injection hc' with hc'
    subst hc'
    simp [stripC_single_same]
  · simp [stripC_single_ne l l' p s e, e, insAll_nil]

theorem insAll_key (k : Bytes) (s : JV) (kvs : List (Bytes × JV)) (h : lookup k kvs = none) :
    insAll [([Loc.key k], s)] (.obj kvs) = .obj (kvInsert k s kvs) := by
  rw [insAll_new_key k s kvs h, kvInsert_absent k s kvs h]

/-! ## the chain a One form creates -/

theorem chain_arr_one (dev : Dev) (v : JV) (i : Int) (r : List Frag) (fl : Bool) (hi : 0 ≤ i)
    (hst : (setF false dev true (.val v) (.nth i :: r) fl (.arr (List.replicate (i.toNat + 1) .null))).st = .stop) :
    skel (.nth i :: r) v = some (setF false dev true (.val v) (.nth i :: r) fl (.arr (List.replicate (i.toNat + 1) .null))).d := by
  cases r with
  | nil =>
    rw [setF_single_eq _ _ _ _ _ rfl]
    simp only [setLast, List.length_replicate, absIdx_replicate i hi, skel, hi, true_and, SetArg.elem, replicate_set_last,
      List.isEmpty_nil, if_true]
  | cons g r' =>
    rw [setF_nth_eq] at hst
    simp only [List.length_replicate, absIdx_replicate i hi] at hst
    have : (List.replicate (i.toNat + 1) JV.null)[i.toNat]? = some JV.null := by simp
    simp only [this, setFollow, isContainer, Bool.false_eq_true, if_false] at hst
    cases hst

theorem chain_obj_one (dev : Dev) (v : JV) : ∀ (rest : List Frag) (k : Bytes) (fl : Bool),
    (setF false dev true (.val v) (.child k :: rest) fl (.obj [])).st = .stop →
    skel (.child k :: rest) v = some (setF false dev true (.val v) (.child k :: rest) fl (.obj [])).d
  | [], k, fl, _ => by
    rw [setF_single_eq _ _ _ _ _ rfl]
    simp [setLast, writeKey, kvInsert, skel]
  | g :: r, k, fl, hst => by
    rw [setF_child_eq] at hst ⊢
    simp only [lookup, setCreate, List.head?_cons] at hst ⊢
    cases g with
    | child k' =>
      simp only at hst ⊢
      have ih := chain_obj_one dev v r k' false hst
      simp only [skel] at ih ⊢
      rw [ih]
      simp [kvInsert]
    | nth i =>
      simp only at hst ⊢
      by_cases hi : i < 0
      · simp [hi] at hst
      · simp only [hi, if_false] at hst ⊢
        have ih := chain_arr_one dev v i r false (by omega) hst
        simp only [skel] at ih ⊢
        rw [ih]
        simp [kvInsert]
    | wild => simp at hst
    | descent => simp at hst
    | union ms => simp at hst
    | slice s e t => simp at hst
    | filter p => simp at hst

/-! ## the invariant -/

/-- what a One form of `set` has done: gone on — nothing changed, nothing is selected or to be created —, or stopped after
the write at one selected location or the creation of one member -/
def SetOne (σ : SliceFn) (a : SetArg) (x : List Frag) (d : JV) (r : R) : Prop :=
  (r.st = .go → r.d = d ∧ locsG σ x d = [] ∧ ∀ v, a = .val v → createsG σ v x d = []) ∧
  (r.st = .stop → (∃ p ∈ locsG σ x d, r.d = singleA a p d) ∨
    (∃ v c, a = .val v ∧ c ∈ createsG σ v x d ∧ r.d = insAll [c] d))

theorem setOne_err (a : SetArg) (x : List Frag) (d d' : JV) (e : E) : SetOne σ a x d ⟨d', .err e⟩ :=
  ⟨(fun h => by cases h), fun h => by cases h⟩

/-- gone on with nothing selected and nothing to create -/
theorem setOne_go (a : SetArg) (x : List Frag) (d : JV) (h1 : locsG σ x d = []) (h2 : ∀ v, a = .val v → createsG σ v x d = []) :
    SetOne σ a x d ⟨d, .go⟩ :=
  ⟨fun _ => ⟨rfl, h1, h2⟩, fun h => by cases h⟩

theorem setOne_stop_loc (a : SetArg) (x : List Frag) (d d' : JV) (p : Path) (hp : p ∈ locsG σ x d) (hd : d' = singleA a p d) :
    SetOne σ a x d ⟨d', .stop⟩ :=
  ⟨(fun h => by cases h), fun _ => Or.inl ⟨p, hp, hd⟩⟩

theorem setOne_stop_new (v : JV) (x : List Frag) (d d' : JV) (c : Path × JV) (hc : c ∈ createsG σ v x d) (hd : d' = insAll [c] d) :
    SetOne σ (.val v) x d ⟨d', .stop⟩ :=
  ⟨(fun h => by cases h), fun _ => Or.inr ⟨v, c, rfl, hc, hd⟩⟩

theorem mem_locs_single (f : Frag) (d c : JV) (l : Loc) (hs : ([l], c) ∈ selG σ f d) : [l] ∈ locsG σ [f] d :=
  (mem_locs_cons (σ := σ) f [] d [l]).2 ⟨([l], c), hs, [], by simp [locs_nil], by simp⟩

theorem oneKey_present (dev : Dev) (a : SetArg) (k : Bytes) (kvs : List (Bytes × JV)) (c : JV) (h : lookup k kvs = some c) :
    oneKey dev true a k kvs = true := by simp [oneKey, h]

theorem oneKey_val (dev : Dev) (v : JV) (k : Bytes) (kvs : List (Bytes × JV)) : oneKey dev true (.val v) k kvs = true := by
  simp [oneKey, SetArg.isDel]

theorem oneKey_del_absent (dev : Dev) (hda : dev.delOneAbsent = false) (k : Bytes) (kvs : List (Bytes × JV)) (h : lookup k kvs = none) :
    oneKey dev true .del k kvs = false := by simp [oneKey, SetArg.isDel, hda, h]

/-- a name on an object in last position -/
theorem setOne_key (dev : Dev) (hda : dev.delOneAbsent = false) (a : SetArg) (f : Frag) (k : Bytes) (kvs : List (Bytes × JV))
    (hn : (keysOf kvs).Nodup)
    (hsel : ∀ c, lookup k kvs = some c → ([Loc.key k], c) ∈ selG σ f (.obj kvs))
    (hnew : ∀ v, lookup k kvs = none → ([Loc.key k], v) ∈ createsG σ v [f] (.obj kvs)) :
    (oneKey dev true a k kvs = true → SetOne σ a [f] (.obj kvs) ⟨.obj (writeKey a k kvs), .stop⟩) ∧
    (oneKey dev true a k kvs = false → writeKey a k kvs = kvs ∧ a = .del ∧ lookup k kvs = none) := by
  cases hl : lookup k kvs with
  | some c =>
    refine ⟨fun _ => ?_, fun h => by rw [oneKey_present dev a k kvs c hl] at h; cases h⟩
    exact setOne_stop_loc a [f] _ _ [.key k] (mem_locs_single f _ c _ (hsel c hl)) (singleA_key a k kvs c hn hl).symm
  | none =>
    cases a with
    | val v =>
      refine ⟨fun _ => ?_, fun h => by rw [oneKey_val] at h; cases h⟩
      exact setOne_stop_new v [f] _ _ ([.key k], v) (hnew v hl) (insAll_key k v kvs hl).symm
    | del =>
      refine ⟨(fun h => by rw [oneKey_del_absent dev hda k kvs hl] at h; cases h), fun _ => ⟨kvErase_absent k kvs hl, rfl, rfl⟩⟩

theorem creates_union_obj (v : JV) (ms : List Member) (kvs : List (Bytes × JV)) :
    createsG σ v [.union ms] (.obj kvs) = ((unionKeys ms).filter fun k => (lookup k kvs).isNone).map fun k => ([Loc.key k], v) := by
  rw [creates_single]
  simp [ownCreates]

theorem mem_unionKeys_of (ms : List Member) (k : Bytes) (h : Member.key k ∈ ms) : k ∈ unionKeys ms := by
  apply (mem_unionKeys ms k).2
  simp only [hasKey, List.any_eq_true]
  exact ⟨.key k, h, by simp⟩

/-- Union in last position, One form: the first member that writes carries the result -/
theorem setLastUnion_one (dev : Dev) (hda : dev.delOneAbsent = false) (a : SetArg) (ms0 : List Member) (d : JV) (hw : TopNodup d)
    (hn : (unionLocs ms0 d).Nodup) : ∀ (ms : List Member), (∀ mb ∈ ms, mb ∈ ms0) →
      (∀ mb ∈ ms0, mb ∉ ms → selMember d mb = [] ∧ ∀ k v, mb = .key k → a = .val v → ∀ kvs, d ≠ .obj kvs) →
      SetOne σ a [.union ms0] d (setLastUnion false dev true a ms d)
  | [], _, hdone => by
    apply setOne_go
    · apply locs_nosel
      simp only [selG, sel, List.flatMap_eq_nil_iff]
      intro mb hmb
      exact (hdone mb hmb (by simp)).1
    · intro v hv
      cases d with
      | obj kvs =>
        rw [creates_union_obj]
        have : unionKeys ms0 = [] := by
          cases hk : unionKeys ms0 with
          | nil => rfl
          | cons k r =>
            have hk' : k ∈ unionKeys ms0 := by rw [hk]; simp
            have := (mem_unionKeys ms0 k).1 hk'
            simp only [hasKey, List.any_eq_true] at this
            obtain ⟨mb, hmb, hm⟩ := this
            cases mb with
            | idx i => simp at hm
            | key k' => exact absurd rfl ((hdone (.key k') hmb (by simp)).2 k' v rfl hv kvs)
        simp [this]
      | _ => rw [creates_single]; simp [ownCreates]
  | mb :: ms, hsub, hdone => by
    have hmb0 : mb ∈ ms0 := hsub mb (by simp)
    have hsub' : ∀ mb' ∈ ms, mb' ∈ ms0 := fun mb' h => hsub mb' (List.mem_cons_of_mem _ h)
    have hnext : selMember d mb = [] → (∀ k v, mb = .key k → a = .val v → ∀ kvs, d ≠ .obj kvs) →
        ∀ mb' ∈ ms0, mb' ∉ ms → selMember d mb' = [] ∧ ∀ k v, mb' = .key k → a = .val v → ∀ kvs, d ≠ .obj kvs := by
      intro h1 h2 mb' hmb' hnot
      by_cases e : mb' = mb
      · rw [e]; exact ⟨h1, h2⟩
      · exact hdone mb' hmb' (fun h => by rcases List.mem_cons.1 h with h | h; exact e h; exact hnot h)
    cases mb with
    | key k =>
      cases d with
      | obj kvs =>
        simp only [setLastUnion]
        have hk := setOne_key (σ := σ) dev hda a (.union ms0) k kvs hw
          (fun c hl => (union_mem (σ := σ) ms0 (.obj kvs) (.key k) c hl).1 (mem_unionLocs_key ms0 _ k hmb0))
          (fun v hl => by
            rw [creates_union_obj]
            exact List.mem_map.2 ⟨k, List.mem_filter.2 ⟨mem_unionKeys_of ms0 k hmb0, by simp [hl]⟩, rfl⟩)
        cases ho : oneKey dev true a k kvs with
        | true => simp only [if_true]; exact hk.1 ho
        | false =>
          simp only [Bool.false_eq_true, if_false]
          obtain ⟨h1, h2, h3⟩ := hk.2 ho
          rw [h1]
          refine setLastUnion_one dev hda a ms0 _ hw hn ms hsub' (hnext (by simp [selMember, h3]) ?_)
          intro k' v _ hv; rw [h2] at hv; cases hv
      | arr xs =>
        simp only [setLastUnion]
        exact setLastUnion_one dev hda a ms0 _ hw hn ms hsub' (hnext (by simp [selMember]) (fun _ _ _ _ kvs h => by cases h))
      | _ =>
        rw [setLastUnion_scalar _ _ _ _ _ _ rfl]
        exact setOne_go a _ _ (locs_scalar (σ := σ) _ [] _ rfl rfl) (fun v _ => by rw [creates_single]; exact ownCreates_scalar v _ _ _ rfl)
    | idx i =>
      cases d with
      | arr xs =>
        simp only [setLastUnion]
        cases ha : absIdx xs.length i with
        | some j =>
          simp only [if_true]
          have hj := absIdx_lt _ _ _ ha
          have hc : child? (.idx j) (.arr xs) = some xs[j] := by simp [child?, hj]
          exact setOne_stop_loc a _ _ _ [.idx j]
            (mem_locs_single _ _ xs[j] _ ((union_mem (σ := σ) ms0 (.arr xs) (.idx j) _ hc).1 (mem_unionLocs_idx ms0 xs i j hmb0 ha)))
            (singleA_idx a j xs hj).symm
        | none =>
          simp only [Bool.false_and, Bool.false_eq_true, if_false]
          exact setLastUnion_one dev hda a ms0 _ hw hn ms hsub' (hnext (by simp [selMember, ha]) (fun _ _ h => by cases h))
      | obj kvs =>
        simp only [setLastUnion]
        exact setLastUnion_one dev hda a ms0 _ hw hn ms hsub' (hnext (by simp [selMember]) (fun _ _ h => by cases h))
      | _ =>
        rw [setLastUnion_scalar _ _ _ _ _ _ rfl]
        exact setOne_go a _ _ (locs_scalar (σ := σ) _ [] _ rfl rfl) (fun v _ => by rw [creates_single]; exact ownCreates_scalar v _ _ _ rfl)

theorem setOne_scalar (a : SetArg) (f : Frag) (r : List Frag) (d : JV) (hf : isDescentF f = false) (hd : isContainer d = false) :
    SetOne σ a (f :: r) d ⟨d, .go⟩ := by
  apply setOne_go
  · exact locs_scalar (σ := σ) f r d hf hd
  · intro v _
    rw [creates_cons, ownCreates_scalar v f r d hd, sel_scalar (σ := σ) f d hf hd]
    rfl

/-- the last fragment of SetOne / DelOne -/
theorem setLast_one (dev : Dev) (hda : dev.delOneAbsent = false) (a : SetArg) (f : Frag) (d : JV) (hw : TopNodup d)
    (he : endable f = true) (hg : GoodAtS σ dev f d) : SetOne σ a [f] d (setLast false dev true a f d) := by
  cases f with
  | descent => simp [endable] at he
  | slice s e t => simp [endable] at he
  | filter p => simp [endable] at he
  | union ms =>
    exact setLastUnion_one dev hda a ms d hw hg ms (fun _ h => h) (fun mb h hn => absurd h hn)
  | child k =>
    cases d with
    | obj kvs =>
      simp only [setLast]
      have hk := setOne_key (σ := σ) dev hda a (.child k) k kvs hw
        (fun c hl => by simp [selG, sel, selMember, hl])
        (fun v hl => by rw [creates_single]; simp [ownCreates, hl, skel])
      cases ho : oneKey dev true a k kvs with
      | true => exact hk.1 ho
      | false =>
        obtain ⟨h1, _, h3⟩ := hk.2 ho
        rw [h1]
        exact setOne_go a _ _ (locs_nosel (σ := σ) _ _ _ (by simp [selG, sel, selMember, h3]))
          (fun v hv => by rw [creates_single]; simp [ownCreates, h3] ; rw [(hk.2 ho).2.1] at hv; cases hv)
    | arr xs =>
      exact setOne_go a _ _ (locs_nosel (σ := σ) _ _ _ (by simp [selG, sel, selMember])) (fun v _ => by rw [creates_single]; simp [ownCreates])
    | _ => exact setOne_scalar a _ [] _ rfl rfl
  | nth i =>
    cases d with
    | arr xs =>
      simp only [setLast]
      cases ha : absIdx xs.length i with
      | none => exact setOne_err a _ _ _ _
      | some j =>
        have hj := absIdx_lt _ _ _ ha
        simp only [stopIf, if_true]
        exact setOne_stop_loc a _ _ _ [.idx j] (mem_locs_single _ _ xs[j] _ (by simp [selG, sel, selMember, ha, hj])) (singleA_idx a j xs hj).symm
    | obj kvs =>
      exact setOne_go a _ _ (locs_nosel (σ := σ) _ _ _ (by simp [selG, sel, selMember])) (fun v _ => by rw [creates_single]; simp [ownCreates])
    | _ => exact setOne_scalar a _ [] _ rfl rfl
  | wild =>
    cases d with
    | obj kvs =>
      simp only [setLast, if_true]
      cases kvs with
      | nil =>
        exact setOne_go a _ _ (locs_nosel (σ := σ) _ _ _ (by simp [selG, sel, members])) (fun v _ => by rw [creates_single]; simp [ownCreates])
      | cons m r =>
        simp only
        have hl : lookup m.1 (m :: r) = some m.2 := by simp [lookup]
        apply setOne_stop_loc a _ _ _ [.key m.1] (mem_locs_single _ _ m.2 _ (by simp [selG, sel, members]))
        rw [singleA_key a m.1 (m :: r) m.2 hw hl]
        cases a with
        | val v => simp [SetArg.isDel, writeKey, kvInsert, SetArg.elem]
        | del =>
          simp only [SetArg.isDel, if_true, writeKey, kvErase]
          simp only [TopNodup, keysOf, List.map_cons, List.nodup_cons] at hw
          rw [kvErase_absent m.1 r ((lookup_none_iff m.1 r).2 hw.1)]
    | arr xs =>
      simp only [setLast, if_true]
      cases xs with
      | nil =>
        exact setOne_go a _ _ (locs_nosel (σ := σ) _ _ _ (by simp [selG, sel, members, elemsFrom])) (fun v _ => by rw [creates_single]; simp [ownCreates])
      | cons x r =>
        simp only
        apply setOne_stop_loc a _ _ _ [.idx 0] (mem_locs_single _ _ x _ (by simp [selG, sel, members, elemsFrom]))
        rw [singleA_idx a 0 (x :: r) (by simp)]
        rfl
    | _ => exact setOne_scalar a _ [] _ rfl rfl

/-! ## inner positions -/

theorem mem_creates_cons (v : JV) (f : Frag) (rest : List Frag) (d c : JV) (l : Loc) (hs : ([l], c) ∈ selG σ f d)
    (c' : Path × JV) (hc' : c' ∈ createsG σ v rest c) : (l :: c'.1, c'.2) ∈ createsG σ v (f :: rest) d := by
  rw [creates_cons]
  apply List.mem_append_right
  exact List.mem_flatMap.2 ⟨([l], c), hs, List.mem_map.2 ⟨c', hc', rfl⟩⟩

theorem creates_scalar (v : JV) (g : Frag) (r : List Frag) (c : JV) (hg : isDescentF g = false) (hc : isContainer c = false) :
    createsG σ v (g :: r) c = [] := by
  rw [creates_cons, ownCreates_scalar v g r c hc, sel_scalar (σ := σ) g c hg hc]
  rfl

/-- what the traversal needs to know about the rest of the path after an inner fragment -/
structure TailOK (σ : SliceFn) (tail : List Frag) : Prop where
  locs_ne : ∀ c, WF c → ∀ p ∈ locsG σ tail c, p ≠ []
  creates_ne : ∀ v c, WF c → ∀ c' ∈ createsG σ v tail c, c'.1 ≠ []
  locs_sc : ∀ c, isContainer c = false → locsG σ tail c = []
  creates_sc : ∀ v c, isContainer c = false → createsG σ v tail c = []

theorem tailOK_of_noDescent (g : Frag) (r : List Frag) (hnd : NoDescent (g :: r)) : TailOK σ (g :: r) :=
  ⟨fun c hw p hp e => locs_no_nil (σ := σ) (g :: r) (by simp) hnd c (WF_top c hw) (e ▸ hp),
   fun v c hw c' hc' => creates_ne_nil (σ := σ) v (g :: r) hnd c hw c' hc',
   fun c hc => locs_scalar (σ := σ) g r c (hnd g (by simp)) hc,
   fun v c hc => creates_scalar v g r c (hnd g (by simp)) hc⟩

/-- lifting the result of the rest of the path on the member `l` to the container -/
theorem setOne_lift (a : SetArg) (f g : Frag) (r : List Frag) (d c : JV) (l : Loc) (hw : WF d) (ht : TailOK σ (g :: r))
    (hc : child? l d = some c) (hs : ([l], c) ∈ selG σ f d) (rr : R) (hr : SetOne σ a (g :: r) c rr) (hst : rr.st = .stop) :
    SetOne σ a (f :: g :: r) d ⟨putChild l rr.d d, .stop⟩ := by
  have hwc := WF_child l d c hw hc
  rcases hr.2 hst with ⟨p, hp, hd⟩ | ⟨v, c', rfl, hc', hd⟩
  · have hpne : p ≠ [] := ht.locs_ne c hwc p hp
    refine setOne_stop_loc a _ _ _ (l :: p) ((mem_locs_cons (σ := σ) f (g :: r) d _).2 ⟨([l], c), hs, p, hp, rfl⟩) ?_
    rw [hd, singleA_cons a l p hpne d c (WF_top d hw) hc]
  · have hpne : c'.1 ≠ [] := ht.creates_ne v c hwc c' hc'
    refine setOne_stop_new v _ _ _ (l :: c'.1, c'.2) (mem_creates_cons v f (g :: r) d c l hs c' hc') ?_
    rw [hd]
    exact (insAll_single_cons l c'.1 c'.2 hpne d c (WF_top d hw) hc).symm

/-- nothing selected, nothing created when every selected member yields nothing -/
theorem setOne_go_of (a : SetArg) (f g : Frag) (r : List Frag) (d : JV)
    (hown : ∀ v, a = .val v → ownCreates v f (g :: r) d = [])
    (hall : ∀ m ∈ selG σ f d, locsG σ (g :: r) m.2 = [] ∧ ∀ v, a = .val v → createsG σ v (g :: r) m.2 = []) :
    SetOne σ a (f :: g :: r) d ⟨d, .go⟩ := by
  apply setOne_go
  · apply List.eq_nil_iff_forall_not_mem.2
    intro p hp
    obtain ⟨m, hm, q, hq, _⟩ := (mem_locs_cons (σ := σ) f (g :: r) d p).1 hp
    rw [(hall m hm).1] at hq
    cases hq
  · intro v hv
    rw [creates_cons, hown v hv]
    apply List.eq_nil_iff_forall_not_mem.2
    intro c hc
    simp only [List.nil_append] at hc
    obtain ⟨m, hm, hc'⟩ := List.mem_flatMap.1 hc
    rw [(hall m hm).2 v hv] at hc'
    cases hc'

theorem setFollow_one (a : SetArg) (f g : Frag) (r : List Frag) (d c : JV) (l : Loc) (k : Bool → JV → R) (hw : WF d)
    (ht : TailOK σ (g :: r)) (hc : child? l d = some c) (hs : ([l], c) ∈ selG σ f d)
    (honly : ∀ m ∈ selG σ f d, m = ([l], c)) (hown : ∀ v, a = .val v → ownCreates v f (g :: r) d = [])
    (hk : isContainer c = true → SetOne σ a (g :: r) c (k false c))
    (hkgo : (k false c).st = .go → (k false c).d = c) :
    SetOne σ a (f :: g :: r) d (setFollow l c k d) := by
  simp only [setFollow]
  by_cases hcont : isContainer c = true
  · simp only [hcont, if_true]
    have hr := hk hcont
    cases hst : (k false c).st with
    | go =>
      rw [hkgo hst, putChild_self l d c hc]
      apply setOne_go_of a f g r d hown
      intro m hm
      rw [honly m hm]
      exact (hr.1 hst).2
    | stop => exact setOne_lift a f g r d c l hw ht hc hs _ hr hst
    | err e => exact ⟨(fun h => by cases h), fun h => by cases h⟩
    | fault => exact ⟨(fun h => by cases h), fun h => by cases h⟩
    | stale => exact ⟨(fun h => by cases h), fun h => by cases h⟩
  · simp only [hcont, Bool.false_eq_true, if_false]
    exact setOne_err a _ _ _ _

theorem setVisit_one (dev : Dev) (a : SetArg) (cont sib : Bool) (f g : Frag) (r : List Frag) (d : JV) (hw : WF d)
    (ht : TailOK σ (g :: r)) (hf : ∀ k, f ≠ .child k) (hok : StepsOK σ (setSteps dev f d) f d) (kk : Bool → JV → R)
    (hk : ∀ fl' c, (kk fl' c).st = .go → (kk fl' c).d = c)
    (ih : ∀ l c, child? l d = some c → ([l], c) ∈ selG σ f d → ∀ fl, SetOne σ a (g :: r) c (kk fl c)) :
    SetOne σ a (f :: g :: r) d (visitD cont sib kk false (setSteps dev f d) d) := by
  have h := visitD_one cont sib _ hk (setSteps dev f d) false d
  cases hst : (visitD cont sib kk false (setSteps dev f d) d).st with
  | go =>
    obtain ⟨h1, h2⟩ := h.1 hst
    have hR : visitD cont sib kk false (setSteps dev f d) d = ⟨d, .go⟩ := by
      cases hv : visitD cont sib kk false (setSteps dev f d) d with
      | mk dd ss => rw [hv] at hst h1; simp only at hst h1; rw [hst, h1]
    rw [hR]
    apply setOne_go_of a f g r d (fun v _ => ownCreates_inner_nil v f g r d hf)
    intro m hm
    obtain ⟨l, hl, hc⟩ := hok.shape m hm
    have hsel : ([l], m.2) ∈ selG σ f d := by rw [← hl]; exact hm
    have hmem : l ∈ setSteps dev f d := (hok.mem l m.2 hc).2 hsel
    by_cases hp : pass cont m.2 = true
    · obtain ⟨fl', hgo⟩ := h2 l hmem m.2 hc hp
      exact ((ih l m.2 hc hsel fl').1 hgo).2
    · have hsc : isContainer m.2 = false := by
        simp only [pass, Bool.not_eq_true', Bool.not_eq_false, Bool.and_eq_true, Bool.not_eq_true'] at hp
        exact hp.2
      exact ⟨ht.locs_sc m.2 hsc, fun v _ => ht.creates_sc v m.2 hsc⟩
  | stop =>
    have hne : (visitD cont sib kk false (setSteps dev f d) d).st ≠ .go := by
      rw [hst]; simp
    obtain ⟨l, hl, c, fl', hc, _, hst', hd⟩ := h.2 hne
    rw [hst] at hst'
    have hsel := (hok.mem l c hc).1 hl
    have hlift := setOne_lift a f g r d c l hw ht hc hsel _ (ih l c hc hsel fl') hst'
    have hR : visitD cont sib kk false (setSteps dev f d) d =
        ⟨putChild l (kk fl' c).d d, .stop⟩ := by
      cases hv : visitD cont sib kk false (setSteps dev f d) d with
      | mk dd ss => rw [hv] at hst hd; simp only at hst hd; rw [hst, hd]
    rw [hR]; exact hlift
  | err e => exact ⟨(fun h => by rw [hst] at h; cases h), fun h => by rw [hst] at h; cases h⟩
  | fault => exact ⟨(fun h => by rw [hst] at h; cases h), fun h => by rw [hst] at h; cases h⟩
  | stale => exact ⟨(fun h => by rw [hst] at h; cases h), fun h => by rw [hst] at h; cases h⟩

theorem setCreate_one (dev : Dev) (a : SetArg) (key : Bytes) (g : Frag) (r : List Frag) (kvs : List (Bytes × JV))
    (hl : lookup key kvs = none) :
    SetOne σ a (.child key :: g :: r) (.obj kvs) (setCreate a key (g :: r) (setF false dev true a (g :: r)) kvs) := by
  have hnosel : selG σ (.child key) (.obj kvs) = [] := by simp [selG, sel, selMember, hl]
  cases a with
  | del =>
    exact setOne_go .del _ _ (locs_nosel (σ := σ) _ _ _ hnosel) (fun v hv => by cases hv)
  | val v =>
    have hstopnew : ∀ (rr : R) (s : JV), skel (g :: r) v = some s → rr.d = s →
        SetOne σ (.val v) (.child key :: g :: r) (.obj kvs) ⟨.obj (kvInsert key rr.d kvs), .stop⟩ := by
      intro rr s hs hd
      refine setOne_stop_new v _ _ _ ([.key key], s) ?_ ?_
      · rw [creates_cons]
        apply List.mem_append_left
        simp [ownCreates, hl, hs]
      · rw [hd]; exact (insAll_key key s kvs hl).symm
    simp only [setCreate, List.head?_cons]
    cases g with
    | child k' =>
      simp only
      cases hst : (setF false dev true (.val v) (.child k' :: r) false (.obj [])).st with
      | go => exact absurd hst (chain_obj_nogo false dev v r k' false)
      | stop => exact hstopnew _ _ (chain_obj_one dev v r k' false hst) rfl
      | err e => exact setOne_err _ _ _ _ _
      | fault => exact ⟨(fun h => by cases h), fun h => by cases h⟩
      | stale => exact ⟨(fun h => by cases h), fun h => by cases h⟩
    | nth i =>
      simp only
      by_cases hi : i < 0
      · simp only [hi, if_true]; exact setOne_err _ _ _ _ _
      · simp only [hi, if_false]
        cases hst : (setF false dev true (.val v) (.nth i :: r) false (.arr (List.replicate (i.toNat + 1) .null))).st with
        | go => exact absurd hst (chain_arr_nogo false dev v i r false (by omega))
        | stop => exact hstopnew _ _ (chain_arr_one dev v i r false (by omega) hst) rfl
        | err e => exact setOne_err _ _ _ _ _
        | fault => exact ⟨(fun h => by cases h), fun h => by cases h⟩
        | stale => exact ⟨(fun h => by cases h), fun h => by cases h⟩
    | wild => exact setOne_err _ _ _ _ _
    | descent => exact setOne_err _ _ _ _ _
    | union ms => exact setOne_err _ _ _ _ _
    | slice s e t => exact setOne_err _ _ _ _ _
    | filter p => exact setOne_err _ _ _ _ _

/-- SetOne / DelOne: the invariant of the traversal (simple data, a path without recursive descent) -/
theorem setF_one (dev : Dev) (hda : dev.delOneAbsent = false) (a : SetArg) : ∀ (x : List Frag), x ≠ [] → NoDescent x →
    (∀ f, x.getLast? = some f → endable f = true) → ∀ (fl : Bool) (d : JV), WF d → GoodPathS σ dev x d →
    SetOne σ a x d (setF false dev true a x fl d)
  | [], h, _, _, _, _, _, _ => absurd rfl h
  | [f], _, hnd, hl, fl, d, hw, hg => by
    rw [setF_single_eq _ _ _ _ _ (hnd f (by simp))]
    exact setLast_one dev hda a f d (WF_top d hw) (hl f rfl) hg.1
  | f :: g :: r, _, hnd, hl, fl, d, hw, hg => by
    have hndf : isDescentF f = false := hnd f (by simp)
    have hndr : NoDescent (g :: r) := fun g' hg' => hnd g' (List.mem_cons_of_mem _ hg')
    have hlr : ∀ f', (g :: r).getLast? = some f' → endable f' = true := by
      intro f' hf'; exact hl f' (by rw [getLast?_cons_cons]; exact hf')
    have ih : ∀ l c, child? l d = some c → ([l], c) ∈ selG σ f d → ∀ fl',
        SetOne σ a (g :: r) c (setF false dev true a (g :: r) fl' c) :=
      fun l c hc hs fl' => setF_one dev hda a (g :: r) (by simp) hndr hlr fl' c (WF_child l d c hw hc) (hg.2 ([l], c) hs)
    have hkgo : ∀ fl' c, (setF false dev true a (g :: r) fl' c).st = .go → (setF false dev true a (g :: r) fl' c).d = c :=
      fun fl' c h => (setF_inv false dev a (g :: r) fl' c).1 h
    cases f with
    | descent => simp [isDescentF] at hndf
    | child k =>
      cases d with
      | obj kvs =>
        rw [setF_child_eq]
        cases hlk : lookup k kvs with
        | some c =>
          simp only
          have hc : child? (.key k) (.obj kvs) = some c := hlk
          have hs : ([Loc.key k], c) ∈ selG σ (.child k) (.obj kvs) := by simp [selG, sel, selMember, hlk]
          refine setFollow_one a (.child k) g r _ c (.key k) _ hw (tailOK_of_noDescent g r hndr) hc hs ?_ ?_ (fun _ => ih _ c hc hs false) (hkgo false c)
          · intro m hm; simpa [selG, sel, selMember, hlk] using hm
          · intro v _; simp [ownCreates, hlk]
        | none => simp only; exact setCreate_one dev a k g r kvs hlk
      | arr xs =>
        have : setF false dev true a (.child k :: g :: r) fl (.arr xs) = ⟨.arr xs, .go⟩ := rfl
        rw [this]
        exact setOne_go_of a _ g r _ (fun v _ => by simp [ownCreates]) (fun m hm => by simp [selG, sel, selMember] at hm)
      | _ =>
        exact setOne_scalar a (.child k) (g :: r) _ rfl rfl
    | nth i =>
      cases d with
      | arr xs =>
        rw [setF_nth_eq]
        cases ha : absIdx xs.length i with
        | none => exact setOne_err _ _ _ _ _
        | some j =>
          simp only
          cases hx : xs[j]? with
          | none => exact setOne_err _ _ _ _ _
          | some c =>
            simp only
            have hc : child? (.idx j) (.arr xs) = some c := hx
            have hs : ([Loc.idx j], c) ∈ selG σ (.nth i) (.arr xs) := by simp [selG, sel, selMember, ha, hx]
            refine setFollow_one a (.nth i) g r _ c (.idx j) _ hw (tailOK_of_noDescent g r hndr) hc hs ?_ ?_ (fun _ => ih _ c hc hs false) (hkgo false c)
            · intro m hm; simpa [selG, sel, selMember, ha, hx] using hm
            · intro v _; simp [ownCreates]
      | obj kvs =>
        have : setF false dev true a (.nth i :: g :: r) fl (.obj kvs) = ⟨.obj kvs, .go⟩ := rfl
        rw [this]
        exact setOne_go_of a _ g r _ (fun v _ => by simp [ownCreates]) (fun m hm => by simp [selG, sel, selMember] at hm)
      | _ =>
        exact setOne_scalar a (.nth i) (g :: r) _ rfl rfl
    | wild =>
      have hok := setSteps_ok (σ := σ) dev .wild d (WF_top d hw) hg.1 (fun _ h => by cases h) (fun _ h => by cases h)
      simp only [setF, List.isEmpty_cons, Bool.false_eq_true, if_false]
      exact setVisit_one dev a _ dev.descentSiblings .wild g r d hw (tailOK_of_noDescent g r hndr) (fun _ h => by cases h) hok _ hkgo ih
    | union ms =>
      have hok := setSteps_ok (σ := σ) dev (.union ms) d (WF_top d hw) hg.1 (fun _ h => by cases h) (fun _ h => by cases h)
      simp only [setF, List.isEmpty_cons, Bool.false_eq_true, if_false, Bool.false_and]
      exact setVisit_one dev a _ dev.descentSiblings (.union ms) g r d hw (tailOK_of_noDescent g r hndr) (fun _ h => by cases h) hok _ hkgo ih
    | slice s e t =>
      have hok := setSteps_ok (σ := σ) dev (.slice s e t) d (WF_top d hw) hg.1 (fun _ h => by cases h) (fun _ h => by cases h)
      simp only [setF, List.isEmpty_cons, Bool.false_eq_true, if_false]
      exact setVisit_one dev a _ dev.descentSiblings (.slice s e t) g r d hw (tailOK_of_noDescent g r hndr) (fun _ h => by cases h) hok _ hkgo ih
    | filter p =>
      have hok := setSteps_ok (σ := σ) dev (.filter p) d (WF_top d hw) hg.1 (fun _ h => by cases h) (fun _ h => by cases h)
      simp only [setF, List.isEmpty_cons, Bool.false_eq_true, if_false]
      exact setVisit_one dev a _ dev.descentSiblings (.filter p) g r d hw (tailOK_of_noDescent g r hndr) (fun _ h => by cases h) hok _ hkgo ih

/-- SetOne / DelOne EXACTLY (simple data, a path without recursive descent, `delOneAbsent` off): when no error is reported
the data afterwards is the input with the new value written (the member deleted, the element set to null) at ONE
selected location, or (Set) with ONE member created, or the input as it was when nothing is selected or to be created -/
theorem setOne_exact (dev : Dev) (hda : dev.delOneAbsent = false) (a : SetArg) (x : List Frag) (d d' : JV) (hnd : NoDescent x)
    (hw : WF d) (hg : GoodPathS σ dev x d) (h : setM false dev true a x d = .ok d') : OneOKG σ x d d' a.op := by
  simp only [setM] at h
  by_cases hr : setRefuses x.getLast? = true
  · simp [hr] at h
  · simp only [hr, Bool.false_eq_true, if_false] at h
    have hx : x ≠ [] := by
      intro e; subst e; simp [setRefuses] at hr
    have hl : ∀ f, x.getLast? = some f → endable f = true := by
      intro f hf
      rw [hf] at hr
      cases f <;> simp_all [setRefuses, endable]
    have hone := setF_one (σ := σ) dev hda a x hx hnd hl false d hw hg
    cases hv : setF false dev true a x false d with
    | mk dd ss =>
      rw [hv] at h hone
      cases ss with
      | go =>
        simp only [R.out] at h
        injection h with h
        subst h
        obtain ⟨h1, h2, h3⟩ := hone.1 rfl
        simp only at h1
        refine Or.inl ⟨h2, ?_, h1⟩
        cases a with
        | val v => exact h3 v rfl
        | del => trivial
      | stop =>
        simp only [R.out] at h
        injection h with h
        subst h
        rcases hone.2 rfl with ⟨p, hp, hd⟩ | ⟨v, c, rfl, hc, hd⟩
        · exact Or.inr (Or.inl ⟨p, hp, by rw [← singleA_eq]; exact hd⟩)
        · exact Or.inr (Or.inr ⟨c, hc, hd⟩)
      | err e => simp [R.out] at h
      | fault => simp [R.out] at h
      | stale => simp [R.out] at h

end OjgVerif.JPMut
