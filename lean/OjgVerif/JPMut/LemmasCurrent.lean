import OjgVerif.JPMut.LemmasDel
/-! # The code as it is now (`Dev.current`): what `Slice.remove` drops is what modify.go's slice loop visits

Since /repo 18e5d18 `inStep` aligns a negative step from the start of the range. `remSel_current`: on an array of length
`n` the positions `Slice.remove` drops are exactly the indexes `for i := start; i <= end; i += step` (resp. `end <= i`)
visits — pure index arithmetic over the normalised bounds (`incBounds_spec`). -/
namespace OjgVerif.JPMut
open OjgVerif OjgVerif.JPath

theorem mem_takeWhile_of_pairwise {α : Type} (R : α → α → Prop) (p : α → Bool) (hp : ∀ a b, R a b → p b = true → p a = true) :
    ∀ (l : List α), l.Pairwise R → ∀ x, x ∈ l.takeWhile p ↔ x ∈ l ∧ p x = true
  | [], _, x => by simp
  | a :: r, hl, x => by
    have hl' := List.pairwise_cons.1 hl
    simp only [List.takeWhile]
    cases hpa : p a with
    | true =>
      simp only [List.mem_cons, mem_takeWhile_of_pairwise R p hp r hl'.2 x]
      constructor
      · rintro (rfl | h)
        · exact ⟨Or.inl rfl, hpa⟩
        · exact ⟨Or.inr h.1, h.2⟩
      · rintro ⟨rfl | h, h2⟩
        · exact Or.inl rfl
        · exact Or.inr ⟨h, h2⟩
    | false =>
      simp only [List.not_mem_nil, false_iff, not_and, List.mem_cons]
      rintro (rfl | h) h2
      · rw [hpa] at h2; cases h2
      · have := hp a x (hl'.1 x h) h2
        rw [hpa] at this; cases this

theorem incBounds_spec (n : Nat) (s e t : Option Int) (b : Bnd) (h : incBounds n s e t = some b) :
    0 ≤ b.start ∧ b.start < n ∧ 0 ≤ b.stop ∧ b.stop < n ∧ b.step ≠ 0 := by
  unfold incBounds at h
  simp only [] at h
  generalize (if s.getD 0 < 0 then s.getD 0 + (n : Int) else s.getD 0) = start at h
  generalize he1 : (if e.getD (-1) < 0 then e.getD (-1) + (n : Int) else e.getD (-1)) = e1 at h
  generalize he2 : (if (n : Int) ≤ e1 then (n : Int) - 1 else e1) = e2 at h
  by_cases hc : start < 0 ∨ e2 < 0 ∨ (n : Int) ≤ start ∨ t.getD 1 = 0
  · rw [if_pos hc] at h; cases h
  · rw [if_neg hc] at h
    injection h with h
    subst h
    simp only [not_or, Int.not_lt, Int.not_le] at hc
    refine ⟨hc.1, hc.2.2.1, hc.2.1, ?_, hc.2.2.2⟩
    simp only
    rw [← he2]
    split <;> omega

theorem mem_progression (n : Nat) (a d x : Int) : x ∈ progression n a d ↔ ∃ k : Nat, k < n ∧ x = a + k * d := by
  simp only [progression, List.mem_map, List.mem_range]
  constructor
  · rintro ⟨k, hk, rfl⟩; exact ⟨k, hk, rfl⟩
  · rintro ⟨k, hk, rfl⟩; exact ⟨k, hk, rfl⟩

/-- upwards: the positions `incRange` lists are those `inStep` accepts -/
theorem incRange_up (n : Nat) (b : Bnd) (hs : 0 ≤ b.start) (hstop : b.stop < n) (hd : 0 < b.step) (i : Nat) (hi : i < n) :
    i ∈ incRange n b ↔ (b.start ≤ (i : Int) ∧ (i : Int) ≤ b.stop ∧ ((i : Int) - b.start) % b.step = 0) := by
  simp only [incRange, hd, if_true, List.mem_map]
  have hmono : ∀ x, x ∈ (progression n b.start b.step).takeWhile (fun y => decide (y ≤ b.stop)) ↔
      x ∈ progression n b.start b.step ∧ decide (x ≤ b.stop) = true :=
    mem_takeWhile_of_pairwise (· < ·) _ (by
      intro a c hac hc
      simp only [decide_eq_true_eq] at hc ⊢
      omega) _ (progression_pairwise_lt n b.start b.step hd)
  constructor
  · rintro ⟨x, hx, hxi⟩
    obtain ⟨hm, hle⟩ := (hmono x).1 hx
    obtain ⟨k, _, rfl⟩ := (mem_progression n _ _ x).1 hm
    simp only [decide_eq_true_eq] at hle
    have hk : 0 ≤ (k : Int) * b.step := Int.mul_nonneg (by omega) (Int.le_of_lt hd)
    have hxi' : (i : Int) = b.start + k * b.step := by omega
    refine ⟨by omega, by omega, ?_⟩
    rw [hxi']
    have : b.start + ↑k * b.step - b.start = ↑k * b.step := by omega
    rw [this, Int.mul_emod_left]
  · rintro ⟨h1, h2, h3⟩
    refine ⟨(i : Int), ?_, by simp⟩
    rw [hmono]
    refine ⟨?_, by simpa using h2⟩
    rw [mem_progression]
    have hdiv : ((i : Int) - b.start) / b.step * b.step = (i : Int) - b.start := Int.ediv_mul_cancel (Int.dvd_of_emod_eq_zero h3)
    have hq : 0 ≤ ((i : Int) - b.start) / b.step := Int.ediv_nonneg (by omega) (Int.le_of_lt hd)
    refine ⟨(((i : Int) - b.start) / b.step).toNat, ?_, ?_⟩
    · have hle : ((i : Int) - b.start) / b.step * 1 ≤ ((i : Int) - b.start) / b.step * b.step :=
        Int.mul_le_mul_of_nonneg_left (by omega) hq
      omega
    · rw [Int.toNat_of_nonneg hq, hdiv]; omega

/-- downwards -/
theorem incRange_down (n : Nat) (b : Bnd) (hs : b.start < n) (hstop : 0 ≤ b.stop) (hd : b.step < 0) (i : Nat) :
    i ∈ incRange n b ↔ (b.stop ≤ (i : Int) ∧ (i : Int) ≤ b.start ∧ (b.start - (i : Int)) % (-b.step) = 0) := by
  have hnd : ¬ 0 < b.step := by omega
  simp only [incRange, hnd, if_false, List.mem_map]
  have hmono : ∀ x, x ∈ (progression n b.start b.step).takeWhile (fun y => decide (b.stop ≤ y)) ↔
      x ∈ progression n b.start b.step ∧ decide (b.stop ≤ x) = true :=
    mem_takeWhile_of_pairwise (· > ·) _ (by
      intro a c hac hc
      simp only [decide_eq_true_eq] at hc ⊢
      omega) _ (progression_pairwise_gt n b.start b.step hd)
  constructor
  · rintro ⟨x, hx, hxi⟩
    obtain ⟨hm, hle⟩ := (hmono x).1 hx
    obtain ⟨k, _, rfl⟩ := (mem_progression n _ _ x).1 hm
    simp only [decide_eq_true_eq] at hle
    have hk : 0 ≤ (k : Int) * (-b.step) := Int.mul_nonneg (by omega) (by omega)
    have hneg : (k : Int) * b.step = -((k : Int) * (-b.step)) := by rw [Int.mul_neg, Int.neg_neg]
    have hxi' : (i : Int) = b.start + k * b.step := by omega
    refine ⟨by omega, by omega, ?_⟩
    have : b.start - (i : Int) = ↑k * (-b.step) := by omega
    rw [this, Int.mul_emod_left]
  · rintro ⟨h1, h2, h3⟩
    refine ⟨(i : Int), ?_, by simp⟩
    rw [hmono]
    refine ⟨?_, by simpa using h1⟩
    rw [mem_progression]
    have hm : 0 < -b.step := by omega
    have hdiv : (b.start - (i : Int)) / (-b.step) * (-b.step) = b.start - (i : Int) := Int.ediv_mul_cancel (Int.dvd_of_emod_eq_zero h3)
    have hq : 0 ≤ (b.start - (i : Int)) / (-b.step) := Int.ediv_nonneg (by omega) (Int.le_of_lt hm)
    refine ⟨((b.start - (i : Int)) / (-b.step)).toNat, ?_, ?_⟩
    · have hle : (b.start - (i : Int)) / (-b.step) * 1 ≤ (b.start - (i : Int)) / (-b.step) * (-b.step) :=
        Int.mul_le_mul_of_nonneg_left (by omega) hq
      omega
    · rw [Int.toNat_of_nonneg hq]
      have hneg : (b.start - (i : Int)) / (-b.step) * b.step = -((b.start - (i : Int)) / (-b.step) * (-b.step)) := by
        rw [Int.mul_neg, Int.neg_neg]
      rw [hneg, hdiv]; omega

/-- since 18e5d18 `Slice.remove` drops exactly the positions modify.go's loop visits -/
theorem remSel_current (n : Nat) (s e t : Option Int) (i : Nat) (hi : i < n) :
    remSel Dev.current n s e t i = (modIdx Dev.current n s e t).contains i := by
  have hc : Dev.current.sliceInclusive = true := rfl
  have he : Dev.current.removeStepEnd = false := rfl
  simp only [remSel, modIdx, inclIdx, hc, if_true]
  cases hb : incBounds n s e t with
  | none => simp
  | some b =>
    obtain ⟨h1, h2, h3, h4, h5⟩ := incBounds_spec n s e t b hb
    simp only [inStep, he, Bool.false_eq_true, if_false]
    by_cases hd : 0 < b.step
    · simp only [hd, if_true]
      have := incRange_up n b h1 h4 hd i hi
      by_cases hm : i ∈ incRange n b
      · rw [decide_eq_true (this.1 hm)]; simp [hm]
      · rw [decide_eq_false (fun h => hm (this.2 h))]; simp [hm]
    · simp only [hd, if_false]
      have := incRange_down n b h2 h3 (by omega) i
      by_cases hm : i ∈ incRange n b
      · rw [decide_eq_true (this.1 hm)]; simp [hm]
      · rw [decide_eq_false (fun h => hm (this.2 h))]; simp [hm]

/-! ## the inclusive reading as a reading of slices -/

theorem modIdx_current (n : Nat) (s e t : Option Int) : modIdx Dev.current n s e t = inclIdx n s e t := rfl

theorem setIdx_current (n : Nat) (s e t : Option Int) : setIdx Dev.current n s e t = inclIdx n s e t := by
  simp [setIdx, inclIdx, Dev.current]

theorem remSel_incl (n : Nat) (s e t : Option Int) (i : Nat) (hi : i < n) :
    remSel Dev.current n s e t i = (inclIdx n s e t).contains i := by
  rw [remSel_current n s e t i hi, modIdx_current]

theorem inclIdx_nodup (n : Nat) (s e t : Option Int) : (inclIdx n s e t).Nodup := by
  simp only [inclIdx]
  cases hb : incBounds n s e t with
  | none => exact List.nodup_nil
  | some b =>
    obtain ⟨h1, _, h3, _, h5⟩ := incBounds_spec n s e t b hb
    simp only [incRange]
    by_cases hd : 0 < b.step
    · simp only [hd, if_true]; exact up_nodup n b.start b.step _ h1 hd
    · simp only [hd, if_false]
      have hneg : b.step < 0 := by omega
      rw [List.Nodup, List.pairwise_map]
      have hp := (progression_pairwise_gt n b.start b.step hneg).sublist (List.takeWhile_sublist (fun i => decide (b.stop ≤ i)))
      refine List.Pairwise.imp_of_mem ?_ hp
      intro x y hx hy hxy
      have hx' := mem_takeWhile_true _ _ x hx
      have hy' := mem_takeWhile_true _ _ y hy
      simp only [decide_eq_true_eq] at hx' hy'
      omega

instance : NodupSlice inclIdx := ⟨inclIdx_nodup⟩

/-- under the inclusive reading every fragment but a union that lists a member twice is good for the code as it is -/
theorem goodAt_incl (f : Frag) (e : JV) (hf : isDescentF f = false) (hu : ∀ ms, f = .union ms → (unionLocs ms e).Nodup) :
    GoodAt inclIdx Dev.current f e := by
  cases f with
  | filter p => exact Or.inl rfl
  | union ms => exact hu ms rfl
  | slice s e' t => intro xs _; rfl
  | descent => simp [isDescentF] at hf
  | child k => trivial
  | nth i => trivial
  | wild => trivial

theorem goodAtS_incl (f : Frag) (e : JV) (hf : isDescentF f = false) (hu : ∀ ms, f = .union ms → (unionLocs ms e).Nodup) :
    GoodAtS inclIdx Dev.current f e := by
  cases f with
  | slice s e' t => intro xs _; exact setIdx_current _ s e' t
  | union ms => exact hu ms rfl
  | descent => simp [isDescentF] at hf
  | filter p => trivial
  | child k => trivial
  | nth i => trivial
  | wild => trivial

theorem remGood_incl (f : Frag) (c : JV) (hf : isDescentF f = false) : RemGood inclIdx Dev.current f c := by
  cases f with
  | union ms => exact Or.inl rfl
  | slice s e t => intro xs _ i hi; exact remSel_incl xs.length s e t i hi
  | descent => simp [isDescentF] at hf
  | child k => trivial
  | nth i => trivial
  | wild => trivial
  | filter p => trivial

end OjgVerif.JPMut
