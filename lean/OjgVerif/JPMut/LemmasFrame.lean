import OjgVerif.JPMut.LemmasSet
/-! # Hit and frame of the specification's edits for Del and Set (facts about Spec.lean only)

* `delAll_frame`, `delAll_gone_key`, `delAll_null_idx`;
* `insAll_frame`, `insAll_keeps`; `setSpec_frame`, `setSpec_hit`. -/
namespace OjgVerif.JPMut
open OjgVerif OjgVerif.JPath

variable {σ : SliceFn} [NodupSlice σ]

/-! ## Del -/

theorem delArr_getElem? (T : List Path) : ∀ (xs : List JV) (o j : Nat),
    (delArr T o xs)[j]? = (xs[j]?).map fun x => if T.contains [Loc.idx (o + j)] then JV.null else delAll (strip (.idx (o + j)) T) x
  | [], _, _ => by simp [delArr]
  | x :: r, o, 0 => by simp [delArr]
  | x :: r, o, j + 1 => by
    simp only [delArr, List.getElem?_cons_succ]
    rw [delArr_getElem? T r (o + 1) j]
    have : o + 1 + j = o + (j + 1) := by omega
    rw [this]

theorem delObj_lookup (T : List Path) (k : Bytes) : ∀ (kvs : List (Bytes × JV)),
    lookup k (delObj T kvs) = if T.contains [Loc.key k] then none else (lookup k kvs).map (delAll (strip (.key k) T))
  | [] => by simp [delObj, lookup]
  | kv :: r => by
    have ih := delObj_lookup T k r
    simp only [delObj]
    by_cases hc : T.contains [Loc.key kv.1] = true
    · simp only [hc, if_true, ih]
      by_cases e : kv.1 = k
      · subst e; simp only [hc, if_true]
      · simp only [lookup, e, if_false]
    · simp only [hc, Bool.false_eq_true, if_false, lookup]
      by_cases e : kv.1 = k
      · subst e; simp only [hc, Bool.false_eq_true, if_false, if_true, Option.map_some]
      · simp only [e, if_false, ih]

/-- a member below which (and at which) nothing is selected keeps its place; its content is edited further down -/
theorem child?_delAll (T : List Path) (l : Loc) (d : JV) (h : T.contains [l] = false) :
    child? l (delAll T d) = (child? l d).map (delAll (strip l T)) := by
  cases d with
  | arr xs =>
    cases l with
    | idx i =>
      simp only [delAll, child?, delArr_getElem?, Nat.zero_add, h, Bool.false_eq_true, if_false]
    | key k => simp [delAll, child?]
  | obj kvs =>
    cases l with
    | idx i => simp [delAll, child?]
    | key k => simp only [delAll, child?, delObj_lookup, h, Bool.false_eq_true, if_false]
  | _ => cases l <;> simp [delAll, child?]

theorem not_contains_of_untouched (T : List Path) (l : Loc) (q : Path) (h : touched T (l :: q) = false) : T.contains [l] = false := by
  cases hc : T.contains [l] with
  | false => rfl
  | true =>
    have hm := (contains_iff T _).1 hc
    simp only [touched, List.any_eq_false, Bool.or_eq_true, not_or, Bool.not_eq_true] at h
    have := (h [l] hm).1
    simp [List.isPrefixOf] at this

/-- frame of Del: what is not at, above or below a selected location is untouched -/
theorem delAll_frame : ∀ (q : Path) (T : List Path) (d : JV), touched T q = false → valAt q (delAll T d) = valAt q d
  | [], T, d, h => by
    rw [touched_nil] at h
    have : T = [] := by cases T <;> simp_all
    subst this
    rw [delAll_nil]
  | l :: q, T, d, h => by
    rw [valAt_cons, valAt_cons, child?_delAll T l d (not_contains_of_untouched T l q h)]
    cases hc : child? l d with
    | none => rfl
    | some c =>
      simp only [Option.map_some, Option.bind_some]
      exact delAll_frame q (strip l T) c (touched_strip l T q h)

/-- a selected object member is gone -/
theorem delAll_gone_key (T : List Path) (k : Bytes) (kvs : List (Bytes × JV)) (h : [Loc.key k] ∈ T) :
    child? (.key k) (delAll T (.obj kvs)) = none := by
  simp only [delAll, child?, delObj_lookup, (contains_iff T _).2 h, if_true]

/-- a selected array element is null -/
theorem delAll_null_idx (T : List Path) (i : Nat) (xs : List JV) (x : JV) (hx : xs[i]? = some x) (h : [Loc.idx i] ∈ T) :
    child? (.idx i) (delAll T (.arr xs)) = some .null := by
  simp only [delAll, child?, delArr_getElem?, hx, Nat.zero_add, (contains_iff T _).2 h, if_true, Option.map_some]

/-! ## Set -/

theorem lookup_append_left (k : Bytes) : ∀ (A B : List (Bytes × JV)) (c : JV), lookup k A = some c → lookup k (A ++ B) = some c
  | [], _, _, h => by simp [lookup] at h
  | m :: r, B, c, h => by
    simp only [lookup, List.cons_append] at h ⊢
    by_cases e : m.1 = k
    · simp only [e, if_true] at h ⊢; exact h
    · simp only [e, if_false] at h ⊢; exact lookup_append_left k r B c h

/-- adding members keeps every member that exists; its content is extended further down -/
theorem child?_insAll (C : List (Path × JV)) (l : Loc) (d c : JV) (h : child? l d = some c) :
    child? l (insAll C d) = some (insAll (stripC l C) c) := by
  cases d with
  | arr xs =>
    cases l with
    | idx i =>
      simp only [child?] at h
      simp [insAll, child?, insArr_eq, mapArr_getElem?, h]
    | key k => simp [child?] at h
  | obj kvs =>
    cases l with
    | idx i => simp [child?] at h
    | key k =>
      simp only [child?] at h
      simp only [insAll, child?, insObj_eq]
      apply lookup_append_left
      have := lookup_map (fun l c => insAll (stripC l C) c) k kvs
      rw [this, h]; rfl
  | _ => cases l <;> simp [child?] at h

theorem touchedC_strip (l : Loc) (C : List (Path × JV)) (q : Path) (h : touched (C.map (·.1)) (l :: q) = false) :
    touched ((stripC l C).map (·.1)) q = false := by
  simp only [touched, List.any_eq_false, Bool.or_eq_true, not_or, Bool.not_eq_true, List.mem_map] at h ⊢
  rintro p ⟨c, hc, rfl⟩
  simp only [stripC, List.mem_filterMap] at hc
  obtain ⟨c0, hc0, hm⟩ := hc
  cases c0 with
  | mk p0 s0 =>
    cases p0 with
    | nil => simp at hm
    | cons l' q' =>
      by_cases e : l' = l
      · subst e
        simp only [if_true, Option.some.injEq] at hm
        subst hm
        have := h (l' :: q') ⟨(l' :: q', s0), hc0, rfl⟩
        simpa [isPrefixOf_cons_cons] using this
      · simp [e] at hm

/-- a location that exists and is not at, above or below a created member is untouched by the creation -/
theorem insAll_frame : ∀ (q : Path) (C : List (Path × JV)) (d c : JV), valAt q d = some c →
    touched (C.map (·.1)) q = false → valAt q (insAll C d) = some c
  | [], C, d, c, hv, h => by
    rw [touched_nil] at h
    have : C = [] := by cases C <;> simp_all
    subst this
    rw [insAll_nil]; exact hv
  | l :: q, C, d, c, hv, h => by
    rw [valAt_cons] at hv ⊢
    cases hc : child? l d with
    | none => rw [hc] at hv; cases hv
    | some c0 =>
      rw [hc] at hv
      simp only [Option.bind_some] at hv
      rw [child?_insAll C l d c0 hc]
      simp only [Option.bind_some]
      exact insAll_frame q (stripC l C) c0 c hv (touchedC_strip l C q h)

/-- every location that exists still exists after the creation -/
theorem insAll_keeps : ∀ (q : Path) (C : List (Path × JV)) (d : JV), (valAt q d).isSome → (valAt q (insAll C d)).isSome
  | [], _, _, _ => rfl
  | l :: q, C, d, h => by
    rw [valAt_cons] at h ⊢
    cases hc : child? l d with
    | none => rw [hc] at h; cases h
    | some c0 =>
      rw [hc] at h
      rw [child?_insAll C l d c0 hc]
      exact insAll_keeps q (stripC l C) c0 h

/-- every selected location exists -/
theorem locs_exist : ∀ (x : List Frag), NoDescent x → ∀ (d : JV), WF d → ∀ p ∈ locsG σ x d, (valAt p d).isSome
  | [], _, d, _, p, hp => by
    simp only [locs_nil, List.mem_singleton] at hp
    subst hp; rfl
  | f :: r, hnd, d, hw, p, hp => by
    obtain ⟨m, hm, q, hq, rfl⟩ := (mem_locs_cons (σ := σ) f r d p).1 hp
    obtain ⟨l, hl, hc⟩ := Shape_of (σ := σ) f d (hnd f (by simp)) (WF_top d hw) m hm
    rw [hl]
    simp only [List.singleton_append, valAt_cons, hc, Option.bind_some]
    exact locs_exist r (fun g hg => hnd g (List.mem_cons_of_mem _ hg)) m.2 (WF_child l d m.2 hw hc) q hq

/-- hit of Set: afterwards every selected location that stands alone among the selected ones holds the new value -/
theorem setSpec_hit (v : JV) (x : List Frag) (hnd : NoDescent x) (d : JV) (hw : WF d) (p : Path) (hp : p ∈ locsG σ x d)
    (ha : Alone (locsG σ x d) p) : valAt p (setSpecG σ x v d) = some v := by
  simp only [setSpecG]
  rw [updAll_hit (fun _ => v) p (locsG σ x d) _ hp ha]
  have := insAll_keeps p (createsG σ v x d) d (locs_exist (σ := σ) x hnd d hw p hp)
  cases h : valAt p (insAll (createsG σ v x d) d) with
  | none => rw [h] at this; cases this
  | some c => rfl

/-- frame of Set: a location that exists and is not at, above or below a selected location or a created member
holds what it held -/
theorem setSpec_frame (v : JV) (x : List Frag) (d c : JV) (q : Path) (hv : valAt q d = some c)
    (h1 : touched (locsG σ x d) q = false) (h2 : touched ((createsG σ v x d).map (·.1)) q = false) :
    valAt q (setSpecG σ x v d) = some c := by
  simp only [setSpecG]
  rw [updAll_frame (fun _ => v) q (locsG σ x d) _ h1]
  exact insAll_frame q (createsG σ v x d) d c hv h2

end OjgVerif.JPMut
