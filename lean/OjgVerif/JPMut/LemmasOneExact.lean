import OjgVerif.JPMut.LemmasErr
/-! # The One forms exactly: the single change is the edit of ONE SELECTED location

`LemmasOne.lean` shows that a One form changes at most one member of one container. Here, for paths without recursive
descent: the change IS the all-matches edit at one of the selected locations — `updAll m.eff [p] d` for ModifyOne with
`p ∈ locsG σ x d` the first location (in the order modify.go pops them) at which the modifier reports a change; nothing
changes only when the modifier reports no change at any selected location. -/
set_option linter.unusedSimpArgs false
set_option linter.unusedSectionVars false
set_option linter.unusedVariables false

namespace OjgVerif.JPMut
open OjgVerif OjgVerif.JPath

variable {σ : SliceFn} [NodupSlice σ]

/-! ## edits at one location, one level at a time -/

theorem strip_single_same (l : Loc) (p : Path) : strip l [l :: p] = [p] := by simp [strip]

theorem strip_single_ne (l l' : Loc) (p : Path) (h : l' ≠ l) : strip l' [l :: p] = [] := by
  simp [strip, Ne.symm h]

theorem updAll_single_cons (m : JV → JV) (l : Loc) (p : Path) (d c : JV) (hn : TopNodup d) (hc : child? l d = some c) :
    updAll m [l :: p] d = putChild l (updAll m [p] c) d := by
  rw [updAll_eq]
  have : hasNil [l :: p] = false := by simp [hasNil]
  rw [this]
  simp only [Bool.false_eq_true, if_false]
  rw [putChild_eq_mapKids l _ d c hn hc]
  apply mapKids_congr d hn
  intro l' c' hc'
  by_cases e : l' = l
  · subst e
    rw [hc] at hc'
    injection hc' with hc'
    subst hc'
    simp [strip_single_same]
  · simp [strip_single_ne l l' p e, e, updAll_nil]

/-! ## `visitD` in a One form -/

/-- a One form's `visitD`: as long as the rest of the path leaves the data alone when it goes on, either every handed-on
member let it go on (nothing changed), or the first member whose run did not go on carries the result -/
theorem visitD_one (cont sib : Bool) (k : Bool → JV → R) (hk : ∀ fl c, (k fl c).st = .go → (k fl c).d = c) :
    ∀ (steps : List Loc) (fl : Bool) (d : JV),
      ((visitD cont sib k fl steps d).st = .go →
        (visitD cont sib k fl steps d).d = d ∧
          ∀ l ∈ steps, ∀ c, child? l d = some c → pass cont c = true → ∃ fl', (k fl' c).st = .go) ∧
      ((visitD cont sib k fl steps d).st ≠ .go →
        ∃ l ∈ steps, ∃ c fl', child? l d = some c ∧ pass cont c = true ∧ (k fl' c).st = (visitD cont sib k fl steps d).st ∧
          (visitD cont sib k fl steps d).d = putChild l (k fl' c).d d)
  | [], _, d => ⟨fun _ => ⟨rfl, fun _ h => by cases h⟩, fun h => absurd rfl h⟩
  | l :: ls, fl, d => by
    simp only [visitD]
    cases hc : child? l d with
    | none =>
      have ih := visitD_one cont sib k hk ls fl d
      refine ⟨fun h => ?_, fun h => ?_⟩
      · obtain ⟨h1, h2⟩ := ih.1 h
        refine ⟨h1, ?_⟩
        intro l' hl' c hc' hp
        rcases List.mem_cons.1 hl' with e | e
        · rw [e, hc] at hc'; cases hc'
        · exact h2 l' e c hc' hp
      · obtain ⟨l', hl', rest⟩ := ih.2 h
        exact ⟨l', List.mem_cons_of_mem _ hl', rest⟩
    | some c =>
      by_cases hp : (cont && !isContainer c) = true
      · simp only [hp, if_true]
        have ih := visitD_one cont sib k hk ls fl d
        refine ⟨fun h => ?_, fun h => ?_⟩
        · obtain ⟨h1, h2⟩ := ih.1 h
          refine ⟨h1, ?_⟩
          intro l' hl' c' hc' hp'
          rcases List.mem_cons.1 hl' with e | e
          · rw [e, hc] at hc'; injection hc' with hc'; subst hc'
            simp [pass, hp] at hp'
          · exact h2 l' e c' hc' hp'
        · obtain ⟨l', hl', rest⟩ := ih.2 h
          exact ⟨l', List.mem_cons_of_mem _ hl', rest⟩
      · have hp' : pass cont c = true := by
          simp only [pass]
          cases hx : (cont && !isContainer c) with
          | false => rfl
          | true => exact absurd hx hp
        simp only [hp, Bool.false_eq_true, if_false]
        cases hst : (k (fl && sib) c).st with
        | go =>
          simp only
          rw [hk _ _ hst, putChild_self l d c hc]
          have ih := visitD_one cont sib k hk ls (fl || isContainer c) d
          refine ⟨fun h => ?_, fun h => ?_⟩
          · obtain ⟨h1, h2⟩ := ih.1 h
            refine ⟨h1, ?_⟩
            intro l' hl' c' hc' hpc
            rcases List.mem_cons.1 hl' with e | e
            · rw [e, hc] at hc'; injection hc' with hc'; subst hc'
              exact ⟨_, hst⟩
            · exact h2 l' e c' hc' hpc
          · obtain ⟨l', hl', rest⟩ := ih.2 h
            exact ⟨l', List.mem_cons_of_mem _ hl', rest⟩
        | stop => exact ⟨(fun h => by cases h), fun _ => ⟨l, by simp, c, _, hc, hp', hst, rfl⟩⟩
        | err e => exact ⟨(fun h => by cases h), fun _ => ⟨l, by simp, c, _, hc, hp', hst, rfl⟩⟩
        | fault => exact ⟨(fun h => by cases h), fun _ => ⟨l, by simp, c, _, hc, hp', hst, rfl⟩⟩
        | stale => exact ⟨(fun h => by cases h), fun _ => ⟨l, by simp, c, _, hc, hp', hst, rfl⟩⟩

/-! ## ModifyOne -/

/-- what a One form of `modify` has done: gone on — nothing changed, no selected location wants a change —, or stopped
after the edit of one selected location -/
def ModOne (σ : SliceFn) (m : Modifier) (x : List Frag) (d : JV) (r : R) : Prop :=
  (r.st = .go → r.d = d ∧ ∀ p ∈ locsG σ x d, ∀ c, valAt p d = some c → (m c).2 = false) ∧
  (r.st = .stop → ∃ p ∈ locsG σ x d, ∃ c, valAt p d = some c ∧ (m c).2 = true ∧ r.d = updAll m.eff [p] d) ∧
  Quiet r.st

theorem modSeq_one (dev : Dev) (m : Modifier) : ∀ (steps : List Loc) (d : JV),
    ((modSeq false dev true m false steps d).st = .go →
      (modSeq false dev true m false steps d).d = d ∧ ∀ l ∈ steps, ∀ c, child? l d = some c → (m c).2 = false) ∧
    ((modSeq false dev true m false steps d).st = .stop →
      ∃ l ∈ steps, ∃ c, child? l d = some c ∧ (m c).2 = true ∧ (modSeq false dev true m false steps d).d = putChild l (m c).1 d)
  | [], d => ⟨fun _ => ⟨rfl, fun _ h => by cases h⟩, fun h => by cases h⟩
  | l :: ls, d => by
    simp only [modSeq]
    have ih := modSeq_one dev m ls d
    cases hc : child? l d with
    | none =>
      refine ⟨fun h => ?_, fun h => ?_⟩
      · obtain ⟨h1, h2⟩ := ih.1 h
        refine ⟨h1, ?_⟩
        intro l' hl' c hc'
        rcases List.mem_cons.1 hl' with e | e
        · rw [e, hc] at hc'; cases hc'
        · exact h2 l' e c hc'
      · obtain ⟨l', hl', rest⟩ := ih.2 h
        exact ⟨l', List.mem_cons_of_mem _ hl', rest⟩
    | some c =>
      simp only [ap, Bool.false_and, Bool.false_eq_true, if_false]
      by_cases hm : (m c).2 = true
      · simp only [hm, if_true, Bool.false_and, Bool.false_eq_true, if_false]
        exact ⟨(fun h => by cases h), fun _ => ⟨l, by simp, c, hc, hm, rfl⟩⟩
      · simp only [hm, Bool.false_eq_true, if_false]
        refine ⟨fun h => ?_, fun h => ?_⟩
        · obtain ⟨h1, h2⟩ := ih.1 h
          refine ⟨h1, ?_⟩
          intro l' hl' c' hc'
          rcases List.mem_cons.1 hl' with e | e
          · rw [e, hc] at hc'; injection hc' with hc'; subst hc'; simpa using hm
          · exact h2 l' e c' hc'
        · obtain ⟨l', hl', rest⟩ := ih.2 h
          exact ⟨l', List.mem_cons_of_mem _ hl', rest⟩

theorem valAt_single (l : Loc) (d : JV) : valAt [l] d = child? l d := by
  rw [valAt_cons]; cases child? l d <;> rfl

theorem eff_of_changed (m : Modifier) (c : JV) (h : (m c).2 = true) : m.eff c = (m c).1 := by
  simp [Modifier.eff, h]

/-- ModifyOne's traversal (simple data, a path without recursive descent) -/
theorem modF_one (dev : Dev) (m : Modifier) (hfm : dev.filterMapNil = false) : ∀ (x : List Frag), x ≠ [] → NoDescent x →
    ∀ (fl : Bool) (d : JV), WF d → GoodPath σ dev x d → ModOne σ m x d (modF false dev true m x fl d)
  | [], h, _, _, _, _, _ => absurd rfl h
  | [f], _, _, fl, d, hw, hg => by
    have hgf : GoodAt σ dev f d := hg.1
    have hnd := hgf.notDescent
    have hok := modLastSteps_ok (σ := σ) dev f d (WF_top d hw) hgf
    have e1 : modF false dev true m [f] fl d = modSeq false dev true m false (modLastSteps dev f d) d := by
      have : modF false dev true m [f] fl d = modLast false dev true m f d := by
        cases f <;> simp_all [modF, isDescentF]
      rw [this]
      simp only [modLast, hfm]
      split <;> rfl
    rw [e1]
    have hq := modSeq_quiet false dev true m (by simp) false (modLastSteps dev f d) d
    have h := modSeq_one dev m (modLastSteps dev f d) d
    refine ⟨fun hst => ?_, fun hst => ?_, hq⟩
    · obtain ⟨h1, h2⟩ := h.1 hst
      refine ⟨h1, ?_⟩
      intro p hp c hv
      obtain ⟨m', hm', q, hq', rfl⟩ := (mem_locs_cons (σ := σ) f [] d p).1 hp
      simp only [locs_nil, List.mem_singleton] at hq'
      subst hq'
      obtain ⟨l, hl, hc⟩ := hok.shape m' hm'
      rw [hl] at hv
      simp only [List.append_nil, valAt_single, hc, Option.some.injEq] at hv
      subst hv
      have hmem : l ∈ modLastSteps dev f d := (hok.mem l m'.2 hc).2 (by rw [← hl]; exact hm')
      exact h2 l hmem m'.2 hc
    · obtain ⟨l, hl, c, hc, hm, hd⟩ := h.2 hst
      have hsel := (hok.mem l c hc).1 hl
      refine ⟨[l], (mem_locs_cons (σ := σ) f [] d [l]).2 ⟨([l], c), hsel, [], by simp [locs_nil], by simp⟩, c, ?_, hm, ?_⟩
      · rw [valAt_single]; exact hc
      · rw [hd, updAll_single_cons m.eff l [] d c (WF_top d hw) hc, updAll_here, eff_of_changed m c hm]
  | f :: g :: r, _, hnd', fl, d, hw, hg => by
    have hgf : GoodAt σ dev f d := hg.1
    have hnd := hgf.notDescent
    have hndg : isDescentF g = false := hnd' g (by simp)
    have hndr : NoDescent (g :: r) := fun f' hf' => hnd' f' (List.mem_cons_of_mem _ hf')
    have hok := modSteps_ok (σ := σ) dev f d (WF_top d hw) hgf
    have e1 : modF false dev true m (f :: g :: r) fl d =
        visitD (contOnly f) dev.descentSiblings (modF false dev true m (g :: r)) false (modSteps dev f d) d := by
      cases f <;> simp_all [modF, isDescentF]
    rw [e1]
    have ih : ∀ l c, child? l d = some c → ([l], c) ∈ selG σ f d → ∀ fl', ModOne σ m (g :: r) c (modF false dev true m (g :: r) fl' c) :=
      fun l c hc hs fl' => modF_one dev m hfm (g :: r) (by simp) hndr fl' c (WF_child l d c hw hc) (hg.2 ([l], c) hs)
    have hk : ∀ fl' c, (modF false dev true m (g :: r) fl' c).st = .go → (modF false dev true m (g :: r) fl' c).d = c :=
      fun fl' c h => (modF_inv (fun _ _ => True) false dev m (fun _ _ => trivial) (g :: r) fl' c).1 h
    have hq := visitD_quiet (contOnly f) dev.descentSiblings _
      (fun fl' c => modF_quiet false dev true m (by simp) (g :: r) fl' c) (modSteps dev f d) false d
    have h := visitD_one (contOnly f) dev.descentSiblings _ hk (modSteps dev f d) false d
    refine ⟨fun hst => ?_, fun hst => ?_, hq⟩
    · obtain ⟨h1, h2⟩ := h.1 hst
      refine ⟨h1, ?_⟩
      intro p hp c hv
      obtain ⟨m', hm', q, hq', rfl⟩ := (mem_locs_cons (σ := σ) f (g :: r) d p).1 hp
      obtain ⟨l, hl, hc⟩ := hok.shape m' hm'
      have hsel : ([l], m'.2) ∈ selG σ f d := by rw [← hl]; exact hm'
      have hmem : l ∈ modSteps dev f d := (hok.mem l m'.2 hc).2 hsel
      rw [hl] at hv
      simp only [List.singleton_append, valAt_cons, hc, Option.bind_some] at hv
      by_cases hp' : pass (contOnly f) m'.2 = true
      · obtain ⟨fl', hgo⟩ := h2 l hmem m'.2 hc hp'
        exact ((ih l m'.2 hc hsel fl').1 hgo).2 q hq' c hv
      · have hsc : isContainer m'.2 = false := by
          simp only [pass, Bool.not_eq_true', Bool.not_eq_false, Bool.and_eq_true, Bool.not_eq_true'] at hp'
          exact hp'.2
        rw [locs_scalar (σ := σ) g r m'.2 hndg hsc] at hq'
        cases hq'
    · have hne : (visitD (contOnly f) dev.descentSiblings (modF false dev true m (g :: r)) false (modSteps dev f d) d).st ≠ .go := by
        rw [hst]; simp
      obtain ⟨l, hl, c, fl', hc, _, hst', hd⟩ := h.2 hne
      rw [hst] at hst'
      have hsel := (hok.mem l c hc).1 hl
      obtain ⟨q, hq', c', hv, hm, hd'⟩ := (ih l c hc hsel fl').2.1 hst'
      refine ⟨l :: q, (mem_locs_cons (σ := σ) f (g :: r) d (l :: q)).2 ⟨([l], c), hsel, q, hq', rfl⟩, c', ?_, hm, ?_⟩
      · simp only [valAt_cons, hc, Option.bind_some]; exact hv
      · rw [hd, hd', updAll_single_cons m.eff l q d c (WF_top d hw) hc]

theorem updAll_single_none (m : JV → JV) (l : Loc) (p : Path) (d : JV) (hn : TopNodup d) (hc : child? l d = none) :
    updAll m [l :: p] d = d := by
  rw [updAll_eq]
  have : hasNil [l :: p] = false := by simp [hasNil]
  rw [this]
  simp only [Bool.false_eq_true, if_false]
  have : mapKids (fun l' c => updAll m (strip l' [l :: p]) c) d = mapKids (fun _ c => c) d := by
    apply mapKids_congr d hn
    intro l' c' hc'
    have e : l' ≠ l := fun e => by rw [e, hc] at hc'; cases hc'
    simp [strip_single_ne l l' p e, updAll_nil]
  rw [this, mapKids_id]

/-- an edit that is the identity on what the location holds changes nothing -/
theorem updAll_single_noop (m : JV → JV) : ∀ (p : Path) (d : JV), WF d → (∀ c, valAt p d = some c → m c = c) → updAll m [p] d = d
  | [], d, _, h => by rw [updAll_here]; exact h d rfl
  | l :: q, d, hw, h => by
    cases hc : child? l d with
    | none => exact updAll_single_none m l q d (WF_top d hw) hc
    | some c =>
      rw [updAll_single_cons m l q d c (WF_top d hw) hc,
        updAll_single_noop m q c (WF_child l d c hw hc) (fun c' hv => h c' (by simp only [valAt_cons, hc, Option.bind_some]; exact hv)),
        putChild_self l d c hc]

/-- what `modify` returns in a One form with modifier `m` (simple data, a path without recursive descent): the tree as it
was — then no selected location wants a change —, or the tree edited at ONE selected location, one that wanted it -/
def ModOneOut (σ : SliceFn) (m : Modifier) (x : List Frag) (d d' : JV) : Prop :=
  (d' = d ∧ ∀ p ∈ locsG σ x d, ∀ c, valAt p d = some c → (m c).2 = false) ∨
  (∃ p ∈ locsG σ x d, ∃ c, valAt p d = some c ∧ (m c).2 = true ∧ d' = updAll m.eff [p] d)

theorem modifyCore_one_exact (dev : Dev) (m : Modifier) (x : List Frag) (d : JV) (hfm : dev.filterMapNil = false) (hnd : NoDescent x)
    (hw : WF d) (hg : GoodPath σ dev x d) (hroot : ¬ (x = [] ∧ dev.rootScalar = true ∧ isContainer d = false)) :
    ∃ d', modifyCore false dev true m x d = .ok d' ∧ ModOneOut σ m x d d' := by
  have hwrap : WF (.arr [d]) := by simp [WF, WFL, hw]
  have hsel0 : selG σ (.nth 0) (.arr [d]) = [([.idx 0], d)] := by
    simp [selG, sel, selMember, absIdx]
  have hgp : GoodPath σ dev (.nth 0 :: x) (.arr [d]) := by
    refine ⟨trivial, ?_⟩
    intro m' hm'
    rw [hsel0] at hm'
    simp only [List.mem_singleton] at hm'
    subst hm'
    exact hg
  have hndw : NoDescent (.nth 0 :: x) := by
    intro f hf
    rcases List.mem_cons.1 hf with rfl | hf
    · rfl
    · exact hnd f hf
  have hmain := modF_one (σ := σ) dev m hfm (.nth 0 :: x) (by simp) hndw false (.arr [d]) hwrap hgp
  have hmem : ∀ p, p ∈ locsG σ (.nth 0 :: x) (.arr [d]) ↔ ∃ q ∈ locsG σ x d, p = .idx 0 :: q := by
    intro p
    rw [mem_locs_cons, hsel0]
    simp
  have hc0 : child? (.idx 0) (.arr [d]) = some d := rfl
  simp only [modifyCore, hnd.last, Bool.false_eq_true, if_false, Bool.false_and]
  have hr : (x.isEmpty && dev.rootScalar && !isContainer d) = false := by
    cases hx : x.isEmpty <;> cases hr : dev.rootScalar <;> cases hc : isContainer d <;> simp_all
  simp only [hr, Bool.false_eq_true, if_false]
  rcases hmain.2.2 with hst | hst
  · rw [hst]
    obtain ⟨h1, h2⟩ := hmain.1 hst
    refine ⟨_, rfl, Or.inl ⟨by rw [h1]; rfl, ?_⟩⟩
    intro p hp c hv
    exact h2 (.idx 0 :: p) ((hmem _).2 ⟨p, hp, rfl⟩) c (by simp only [valAt_cons, hc0, Option.bind_some]; exact hv)
  · rw [hst]
    obtain ⟨p, hp, c, hv, hm, hd⟩ := hmain.2.1 hst
    obtain ⟨q, hq, rfl⟩ := (hmem p).1 hp
    refine ⟨_, rfl, Or.inr ⟨q, hq, c, ?_, hm, ?_⟩⟩
    · simpa only [valAt_cons, hc0, Option.bind_some] using hv
    · rw [hd, updAll_single_cons m.eff (.idx 0) q (.arr [d]) d (WF_top _ hwrap) hc0]
      rfl

/-- the demand of the property on a One form (`OneOK` of Spec.lean) under the reading `σ` of slices -/
def OneOKG (σ : SliceFn) (x : List Frag) (d d' : JV) (op : Op) : Prop :=
  (locsG σ x d = [] ∧ (match op with | .set v => createsG σ v x d = [] | _ => True) ∧ d' = d) ∨
    (∃ p ∈ locsG σ x d, d' = single p d op) ∨
    match op with
    | .set v => ∃ c ∈ createsG σ v x d, d' = insAll [c] d
    | _ => False

theorem oneOKG_spec (x : List Frag) (d d' : JV) (op : Op) : OneOKG sliceIdx x d d' op ↔ OneOK x d d' op := by
  cases op <;> exact Iff.rfl

/-- ModifyOne EXACTLY (simple data, a path without recursive descent): no error; the returned tree is the input with the
modifier applied at ONE selected location — one at which it reports a change —, or the input as it was when it reports
no change at any selected location. In particular the property's demand on a One form holds. -/
theorem modifyOne_exact (dev : Dev) (m : Modifier) (x : List Frag) (d : JV) (hfm : dev.filterMapNil = false) (hnd : NoDescent x)
    (hw : WF d) (hg : GoodPath σ dev x d) (hroot : ¬ (x = [] ∧ dev.rootScalar = true ∧ isContainer d = false)) :
    ∃ d', modifyM false dev true m x d = .ok d' ∧ ModOneOut σ m x d d' ∧ OneOKG σ x d d' (.mod m) := by
  obtain ⟨d', h1, h2⟩ := modifyCore_one_exact (σ := σ) dev m x d hfm hnd hw hg hroot
  refine ⟨d', h1, h2, ?_⟩
  rcases h2 with ⟨rfl, hno⟩ | ⟨p, hp, c, _, _, hd⟩
  · cases hl : locsG σ x d' with
    | nil => exact Or.inl ⟨hl, trivial, rfl⟩
    | cons p T =>
      have hp : p ∈ locsG σ x d' := by rw [hl]; simp
      refine Or.inr (Or.inl ⟨p, hp, ?_⟩)
      simp only [single]
      rw [updAll_single_noop m.eff p d' hw]
      intro c hv
      simp [Modifier.eff, hno p hp c hv]
  · exact Or.inr (Or.inl ⟨p, hp, hd⟩)

/-! ## RemoveOne -/

theorem remAll_one_idx (j : Nat) (xs : List JV) : remAll [[Loc.idx j]] (.arr xs) = .arr (xs.eraseIdx j) := by
  simp only [remAll]
  rw [remArr_last _ (fun p hp => ⟨.idx j, by simpa using hp⟩), eraseIdx_eq_dropIdx xs j 0]
  congr 1
  apply dropIdx_congr
  intro i _
  simp [List.contains_cons, eq_comm]

theorem remAll_one_key (k : Bytes) (kvs : List (Bytes × JV)) : remAll [[Loc.key k]] (.obj kvs) = .obj (kvErase k kvs) := by
  simp only [remAll]
  rw [remObj_last _ (fun p hp => ⟨.key k, by simpa using hp⟩), kvErase_eq_filter]
  congr 1
  apply List.filter_congr
  intro kv _
  simp [List.contains_cons]

theorem remAll_single_cons (l : Loc) (p : Path) (hp : p ≠ []) (d c : JV) (hn : TopNodup d) (hc : child? l d = some c) :
    remAll [l :: p] d = putChild l (remAll [p] c) d := by
  have hno : ∀ l', [l'] ∉ [l :: p] := by
    intro l' h
    simp only [List.mem_singleton, List.cons.injEq] at h
    exact hp h.2.symm
  rw [remAll_inner _ hno d, putChild_eq_mapKids l _ d c hn hc]
  apply mapKids_congr d hn
  intro l' c' hc'
  by_cases e : l' = l
  · subst e
    rw [hc] at hc'
    injection hc' with hc'
    subst hc'
    simp [strip_single_same]
  · simp [strip_single_ne l l' p e, e, remAll_nil]

/-- removing the member `l` of the value at `p` is the edit of that value -/
theorem upd_single_rem (g : JV → JV) (l : Loc) : ∀ (p : Path) (d c : JV), WF d → valAt p d = some c → g c = remAll [[l]] c →
    updAll g [p] d = remAll [p ++ [l]] d
  | [], d, c, _, hv, hg => by
    simp only [valAt, Option.some.injEq] at hv
    subst hv
    rw [updAll_here, hg]; rfl
  | l' :: q, d, c, hw, hv, hg => by
    rw [valAt_cons] at hv
    cases hc : child? l' d with
    | none => rw [hc] at hv; cases hv
    | some c' =>
      rw [hc] at hv
      simp only [Option.bind_some] at hv
      rw [updAll_single_cons g l' q d c' (WF_top d hw) hc, upd_single_rem g l q c' c (WF_child l' d c' hw hc) hv hg]
      exact (remAll_single_cons l' (q ++ [l]) (by simp) d c' (WF_top d hw) hc).symm

/-- a location of the longer path is a location of the front part followed by a location of the rest in what it holds -/
theorem mem_locs_append (y : List Frag) : ∀ (sx : List Frag), NoDescent sx → ∀ (d : JV), WF d → ∀ (p' : Path),
    p' ∈ locsG σ (sx ++ y) d ↔ ∃ p ∈ locsG σ sx d, ∃ c, valAt p d = some c ∧ ∃ q ∈ locsG σ y c, p' = p ++ q
  | [], _, d, _, p' => by
    simp only [List.nil_append, locs_nil, List.mem_singleton]
    constructor
    · intro h; exact ⟨[], rfl, d, rfl, p', h, rfl⟩
    · rintro ⟨p, rfl, c, hv, q, hq, rfl⟩
      simp only [valAt, Option.some.injEq] at hv
      subst hv
      exact hq
  | h :: r, hnd, d, hw, p' => by
    have hs := Shape_of (σ := σ) h d (hnd h (by simp)) (WF_top d hw)
    have hndr : NoDescent r := fun g hg => hnd g (List.mem_cons_of_mem _ hg)
    rw [List.cons_append, mem_locs_cons]
    constructor
    · rintro ⟨m, hm, q', hq', rfl⟩
      obtain ⟨l, hl, hc⟩ := hs m hm
      obtain ⟨p, hp, c, hv, q, hq, rfl⟩ := (mem_locs_append y r hndr m.2 (WF_child l d m.2 hw hc) q').1 hq'
      refine ⟨m.1 ++ p, (mem_locs_cons (σ := σ) h r d _).2 ⟨m, hm, p, hp, rfl⟩, c, ?_, q, hq, by simp⟩
      rw [hl]
      simp only [List.singleton_append, valAt_cons, hc, Option.bind_some]
      exact hv
    · rintro ⟨p, hp, c, hv, q, hq, rfl⟩
      obtain ⟨m, hm, p1, hp1, rfl⟩ := (mem_locs_cons (σ := σ) h r d p).1 hp
      obtain ⟨l, hl, hc⟩ := hs m hm
      rw [hl] at hv
      simp only [List.singleton_append, valAt_cons, hc, Option.bind_some] at hv
      exact ⟨m, hm, p1 ++ q, (mem_locs_append y r hndr m.2 (WF_child l d m.2 hw hc) _).2 ⟨p1, hp1, c, hv, q, hq, rfl⟩, by simp⟩

/-! ### the `removeOne` methods drop ONE SELECTED member -/

theorem dropFirstIdx_spec (p : Nat → Bool) : ∀ (xs : List JV) (o : Nat), (∃ j, j < xs.length ∧ p (o + j) = true) →
    ∃ j, j < xs.length ∧ p (o + j) = true ∧ dropFirstIdx p o xs = xs.eraseIdx j
  | [], _, h => by obtain ⟨j, hj, _⟩ := h; simp at hj
  | x :: r, o, h => by
    simp only [dropFirstIdx]
    by_cases h0 : p o = true
    · exact ⟨0, by simp, by simpa using h0, by simp [h0]⟩
    · have : ∃ j, j < r.length ∧ p (o + 1 + j) = true := by
        obtain ⟨j, hj, hp⟩ := h
        cases j with
        | zero => exact absurd hp (by simpa using h0)
        | succ n => exact ⟨n, by simpa using hj, by rw [← hp]; congr 1; omega⟩
      obtain ⟨j, hj, hp, he⟩ := dropFirstIdx_spec p r (o + 1) this
      refine ⟨j + 1, by simpa using hj, by rw [← hp]; congr 1; omega, ?_⟩
      simp [h0, he]

theorem anyIdx_true (p : Nat → Bool) (n : Nat) (h : anyIdx p n = true) : ∃ j, j < n ∧ p j = true := by
  simp only [anyIdx, List.any_eq_true, List.mem_range] at h
  exact h

theorem dropLastIdx_spec (p : Nat → Bool) (xs : List JV) (h : anyIdx p xs.length = true) :
    ∃ j, j < xs.length ∧ p j = true ∧ dropLastIdx p xs = xs.eraseIdx j := by
  simp only [dropLastIdx]
  cases hf : (List.range xs.length).reverse.find? p with
  | some j =>
    have h1 := List.find?_some hf
    have h2 := List.mem_of_find?_eq_some hf
    simp only [List.mem_reverse, List.mem_range] at h2
    exact ⟨j, h2, h1, rfl⟩
  | none =>
    obtain ⟨j, hj, hp⟩ := anyIdx_true p _ h
    have := List.find?_eq_none.1 hf j (by simp [hj])
    rw [hp] at this; exact absurd rfl this

theorem firstKey_some (q : Bytes → Bool) (kvs : List (Bytes × JV)) (k : Bytes) (h : firstKey q kvs = some k) :
    q k = true ∧ k ∈ keysOf kvs :=
  ⟨List.find?_some h, (mem_sortedKeys k kvs).1 (List.mem_of_find?_eq_some h)⟩

theorem firstKey_none (q : Bytes → Bool) (kvs : List (Bytes × JV)) (h : firstKey q kvs = none) : ∀ k ∈ keysOf kvs, q k = false := by
  intro k hk
  have := List.find?_eq_none.1 h k ((mem_sortedKeys k kvs).2 hk)
  simpa using this

theorem selG_nil_of (f : Frag) (c : JV) (hs : Shape σ f c) (h : ∀ l v, child? l c = some v → ([l], v) ∉ selG σ f c) : selG σ f c = [] := by
  cases hsel : selG σ f c with
  | nil => rfl
  | cons m r =>
    have hm : m ∈ selG σ f c := by rw [hsel]; simp
    obtain ⟨l, hl, hc⟩ := hs m hm
    have : m = ([l], m.2) := by cases m; simp_all
    rw [this] at hm
    exact absurd hm (h l m.2 hc)

/-- an array remover that drops one position satisfying `p`, where `p` holds exactly at the selected positions -/
theorem oneArr_of (f : Frag) (xs : List JV) (hs : Shape σ f (.arr xs)) (p : Nat → Bool)
    (hp : ∀ j v, xs[j]? = some v → (p j = true ↔ ([Loc.idx j], v) ∈ selG σ f (.arr xs))) :
    (anyIdx p xs.length = false → selG σ f (.arr xs) = []) ∧
    (∀ j, j < xs.length → p j = true → ∃ l v, ([l], v) ∈ selG σ f (.arr xs) ∧ JV.arr (xs.eraseIdx j) = remAll [[l]] (.arr xs)) := by
  refine ⟨fun h => ?_, fun j hj hpj => ?_⟩
  · apply selG_nil_of f _ hs
    intro l v hc hsel
    obtain ⟨j, rfl, hj⟩ := child?_arr_inv l xs v hc
    have := (hp j v hj).2 hsel
    rw [anyIdx_false p _ h j (List.getElem?_eq_some_iff.1 hj).1] at this
    cases this
  · have hv : xs[j]? = some xs[j] := by simp [hj]
    exact ⟨.idx j, xs[j], (hp j _ hv).1 hpj, (remAll_one_idx j xs).symm⟩

/-- an object remover that deletes the first key (sorted) satisfying `q`, where `q` holds exactly at the selected members -/
theorem oneObj_of (f : Frag) (kvs : List (Bytes × JV)) (hn : (keysOf kvs).Nodup) (hs : Shape σ f (.obj kvs)) (q : Bytes → Bool)
    (hq : ∀ kv ∈ kvs, (q kv.1 = true ↔ ([Loc.key kv.1], kv.2) ∈ selG σ f (.obj kvs))) :
    (firstKey q kvs = none → selG σ f (.obj kvs) = []) ∧
    (∀ k, firstKey q kvs = some k → ∃ l v, ([l], v) ∈ selG σ f (.obj kvs) ∧ JV.obj (kvErase k kvs) = remAll [[l]] (.obj kvs)) := by
  refine ⟨fun h => ?_, fun k hk => ?_⟩
  · apply selG_nil_of f _ hs
    intro l v hc hsel
    obtain ⟨k, rfl, hk⟩ := child?_obj_inv l kvs v hc
    have hmem := lookup_mem kvs k v hk
    have := (hq (k, v) hmem).2 hsel
    rw [firstKey_none q kvs h k (lookup_isSome_mem kvs k v hk)] at this
    cases this
  · obtain ⟨h1, h2⟩ := firstKey_some q kvs k hk
    obtain ⟨kv, hkv, rfl⟩ := List.mem_map.1 h2
    exact ⟨.key kv.1, kv.2, (hq kv hkv).1 h1, (remAll_one_key kv.1 kvs).symm⟩

/-- what a `removeOne` method (or, for Child/Nth, `remove`) does to a value: nothing — then the fragment selects nothing in
it —, or it drops ONE member the fragment selects -/
def RemOne (σ : SliceFn) (f : Frag) (m : Modifier) (c : JV) : Prop :=
  ((m c).2 = false → selG σ f c = []) ∧
  ((m c).2 = true → ∃ l v, ([l], v) ∈ selG σ f c ∧ (m c).1 = remAll [[l]] c)

theorem remOne_nosel (f : Frag) (m : Modifier) (c : JV) (h1 : (m c).2 = false) (h2 : selG σ f c = []) : RemOne σ f m c :=
  ⟨fun _ => h2, fun h => by rw [h1] at h; cases h⟩

theorem hasN_sel (dev : Dev) (ms : List Member) (xs : List JV) (hg : RemGood σ dev (.union ms) (.arr xs)) (j : Nat) (v : JV)
    (hv : xs[j]? = some v) : hasN dev xs.length ms j = true ↔ ([Loc.idx j], v) ∈ selG σ (.union ms) (.arr xs) := by
  have hjn := (List.getElem?_eq_some_iff.1 hv).1
  rw [← union_mem (σ := σ) ms (.arr xs) (.idx j) v hv]
  simp only [hasN, List.any_eq_true, unionLocs, List.mem_filterMap]
  constructor
  · rintro ⟨mb, hmb, h⟩
    refine ⟨mb, hmb, ?_⟩
    cases mb with
    | key k => simp at h
    | idx i' =>
      simp only [memberLoc]
      by_cases hf : dev.removeUnionNeg = true
      · simp only [hf, if_true, decide_eq_true_eq] at h
        rcases hg with hg | hg
        · rw [hg] at hf; cases hf
        · have := (absIdx_nonneg xs.length i' j (hg i' hmb) hjn).2 h
          simp [this]
      · simp only [hf, Bool.false_eq_true, if_false, decide_eq_true_eq] at h
        simp [h]
  · rintro ⟨mb, hmb, h⟩
    refine ⟨mb, hmb, ?_⟩
    cases mb with
    | key k => simp [memberLoc] at h
    | idx i' =>
      simp only [memberLoc] at h
      cases ha : absIdx xs.length i' with
      | none => simp [ha] at h
      | some j' =>
        simp only [ha, Option.map_some, Option.some.injEq, Loc.idx.injEq] at h
        subst h
        by_cases hf : dev.removeUnionNeg = true
        · simp only [hf, if_true, decide_eq_true_eq]
          rcases hg with hg | hg
          · rw [hg] at hf; cases hf
          · exact (absIdx_nonneg xs.length i' j' (hg i' hmb) hjn).1 ha
        · simp only [hf, Bool.false_eq_true, if_false, decide_eq_true_eq]
          exact ha

theorem hasKey_sel (ms : List Member) (kvs : List (Bytes × JV)) (hn : (keysOf kvs).Nodup) (kv : Bytes × JV) (hkv : kv ∈ kvs) :
    hasKey ms kv.1 = true ↔ ([Loc.key kv.1], kv.2) ∈ selG σ (.union ms) (.obj kvs) := by
  have hlk := lookup_of_mem_nodup kvs hn kv hkv
  rw [← union_mem (σ := σ) ms (.obj kvs) (.key kv.1) kv.2 hlk]
  simp only [hasKey, List.any_eq_true, unionLocs, List.mem_filterMap]
  constructor
  · rintro ⟨mb, hmb, h⟩
    refine ⟨mb, hmb, ?_⟩
    cases mb with
    | key k => simp only [decide_eq_true_eq] at h; simp [memberLoc, h]
    | idx i' => simp at h
  · rintro ⟨mb, hmb, h⟩
    refine ⟨mb, hmb, ?_⟩
    cases mb with
    | key k => simp only [memberLoc, Option.some.injEq, Loc.key.injEq] at h; simp [h]
    | idx i' => simp [memberLoc] at h

theorem lookupD_mem (kvs : List (Bytes × JV)) (hn : (keysOf kvs).Nodup) (kv : Bytes × JV) (hkv : kv ∈ kvs) : lookupD kv.1 kvs = kv.2 := by
  simp [lookupD, lookup_of_mem_nodup kvs hn kv hkv]

/-- every `removeOne` (Wildcard, Union, Slice, Filter) and the `remove` of Child and Nth: one selected member goes, or
nothing is selected -/
theorem removeOneOf_single (dev : Dev) (f : Frag) (m : Modifier) (hm : removeOneOf dev f = some m) (c : JV)
    (hw : TopNodup c) (hg : RemGood σ dev f c) : RemOne σ f m c := by
  cases f with
  | descent => cases hg
  | child k =>
    simp only [removeOneOf, removeAllOf, Option.some.injEq] at hm
    subst hm
    cases c with
    | obj kvs =>
      cases hl : lookup k kvs with
      | none => exact remOne_nosel _ _ _ (by simp [remChild, hl]) (by simp [selG, sel, selMember, hl])
      | some v =>
        refine ⟨fun h => by simp [remChild, hl] at h, fun _ => ⟨.key k, v, ?_, ?_⟩⟩
        · simp [selG, sel, selMember, hl]
        · simp only [remChild, hl, Option.isSome_some, if_true]; exact (remAll_one_key k kvs).symm
    | arr xs => exact remOne_nosel _ _ _ rfl (by simp [selG, sel, selMember])
    | _ => exact remOne_nosel _ _ _ rfl (sel_scalar (σ := σ) _ _ rfl rfl)
  | nth i =>
    simp only [removeOneOf, removeAllOf, Option.some.injEq] at hm
    subst hm
    cases c with
    | arr xs =>
      cases ha : absIdx xs.length i with
      | none => exact remOne_nosel _ _ _ (by simp [remNth, ha]) (by simp [selG, sel, selMember, ha])
      | some j =>
        have hj := absIdx_lt _ _ _ ha
        refine ⟨fun h => by simp [remNth, ha] at h, fun _ => ⟨.idx j, xs[j], ?_, ?_⟩⟩
        · simp [selG, sel, selMember, ha, hj]
        · simp only [remNth, ha]; exact (remAll_one_idx j xs).symm
    | obj kvs => exact remOne_nosel _ _ _ rfl (by simp [selG, sel, selMember])
    | _ => exact remOne_nosel _ _ _ rfl (sel_scalar (σ := σ) _ _ rfl rfl)
  | wild =>
    simp only [removeOneOf, Option.some.injEq] at hm
    subst hm
    cases c with
    | arr xs =>
      cases xs with
      | nil => exact remOne_nosel _ _ _ rfl (by simp [selG, sel, members, elemsFrom])
      | cons x r =>
        refine ⟨fun h => by simp [remWildOne] at h, fun _ => ⟨.idx 0, x, ?_, ?_⟩⟩
        · simp [selG, sel, members, elemsFrom]
        · simp only [remWildOne]; exact (remAll_one_idx 0 (x :: r)).symm
    | obj kvs =>
      have hs := Shape_of (σ := σ) .wild (.obj kvs) rfl hw
      have h := oneObj_of (σ := σ) .wild kvs hw hs (fun _ => true) (by
        intro kv hkv
        have hlk := lookup_of_mem_nodup kvs hw kv hkv
        rw [← (stepsOK_wild (σ := σ) (.obj kvs) hw).mem (.key kv.1) kv.2 hlk]
        simp only [mem_keyLocs, true_iff]
        exact ⟨kv.1, List.mem_map_of_mem (f := (·.1)) hkv, rfl⟩)
      cases hk : firstKey (fun _ => true) kvs with
      | none => exact remOne_nosel _ _ _ (by simp [remWildOne, hk]) (h.1 hk)
      | some k =>
        refine ⟨fun h' => by simp [remWildOne, hk] at h', fun _ => ?_⟩
        obtain ⟨l, v, h1, h2⟩ := h.2 k hk
        exact ⟨l, v, h1, by simp only [remWildOne, hk]; exact h2⟩
    | _ => exact remOne_nosel _ _ _ rfl (sel_scalar (σ := σ) _ _ rfl rfl)
  | union ms =>
    simp only [removeOneOf, Option.some.injEq] at hm
    subst hm
    cases c with
    | arr xs =>
      have hs := Shape_of (σ := σ) (.union ms) (.arr xs) rfl hw
      have h := oneArr_of (σ := σ) (.union ms) xs hs (hasN dev xs.length ms) (fun j v hv => hasN_sel dev ms xs hg j v hv)
      cases ha : anyIdx (hasN dev xs.length ms) xs.length with
      | false => exact remOne_nosel _ _ _ (by simp [remUnionOne, ha]) (h.1 ha)
      | true =>
        refine ⟨fun h' => by simp [remUnionOne, ha] at h', fun _ => ?_⟩
        obtain ⟨j, hj, hp, he⟩ := dropFirstIdx_spec (hasN dev xs.length ms) xs 0 (by simpa using anyIdx_true _ _ ha)
        obtain ⟨l, v, h1, h2⟩ := h.2 j hj (by simpa using hp)
        exact ⟨l, v, h1, by simp only [remUnionOne, ha, if_true, he]; exact h2⟩
    | obj kvs =>
      have hs := Shape_of (σ := σ) (.union ms) (.obj kvs) rfl hw
      have h := oneObj_of (σ := σ) (.union ms) kvs hw hs (hasKey ms) (fun kv hkv => hasKey_sel ms kvs hw kv hkv)
      cases hk : firstKey (hasKey ms) kvs with
      | none => exact remOne_nosel _ _ _ (by simp [remUnionOne, hk]) (h.1 hk)
      | some k =>
        refine ⟨fun h' => by simp [remUnionOne, hk] at h', fun _ => ?_⟩
        obtain ⟨l, v, h1, h2⟩ := h.2 k hk
        exact ⟨l, v, h1, by simp only [remUnionOne, hk]; exact h2⟩
    | _ => exact remOne_nosel _ _ _ rfl (sel_scalar (σ := σ) _ _ rfl rfl)
  | slice s e t =>
    simp only [removeOneOf, Option.some.injEq] at hm
    subst hm
    cases c with
    | arr xs =>
      have hs := Shape_of (σ := σ) (.slice s e t) (.arr xs) rfl hw
      have h := oneArr_of (σ := σ) (.slice s e t) xs hs (remSel dev xs.length s e t) (by
        intro j v hv
        have hjn := (List.getElem?_eq_some_iff.1 hv).1
        have hok := stepsOK_slice (σ := σ) s e t (.arr xs) (σ · s e t) (fun _ _ => rfl) (fun _ _ => NodupSlice.nodup _ s e t)
        rw [← hok.mem (.idx j) v hv, hg xs rfl j hjn]
        simp)
      cases ha : anyIdx (remSel dev xs.length s e t) xs.length with
      | false => exact remOne_nosel _ _ _ (by simp [remSliceOne, ha]) (h.1 ha)
      | true =>
        refine ⟨fun h' => by simp [remSliceOne, ha] at h', fun _ => ?_⟩
        by_cases hn : negStep t = true
        · obtain ⟨j, hj, hp, he⟩ := dropLastIdx_spec (remSel dev xs.length s e t) xs ha
          obtain ⟨l, v, h1, h2⟩ := h.2 j hj hp
          exact ⟨l, v, h1, by simp only [remSliceOne, ha, if_true, hn, he]; exact h2⟩
        · obtain ⟨j, hj, hp, he⟩ := dropFirstIdx_spec (remSel dev xs.length s e t) xs 0 (by simpa using anyIdx_true _ _ ha)
          obtain ⟨l, v, h1, h2⟩ := h.2 j hj (by simpa using hp)
          exact ⟨l, v, h1, by simp only [remSliceOne, ha, if_true, hn, Bool.false_eq_true, if_false, he]; exact h2⟩
    | obj kvs => exact remOne_nosel _ _ _ rfl (by simp [selG, sel])
    | _ => exact remOne_nosel _ _ _ rfl (sel_scalar (σ := σ) _ _ rfl rfl)
  | filter p =>
    simp only [removeOneOf, Option.some.injEq] at hm
    subst hm
    cases c with
    | arr xs =>
      have hs := Shape_of (σ := σ) (.filter p) (.arr xs) rfl hw
      have h := oneArr_of (σ := σ) (.filter p) xs hs (fun i => p (xs.getD i .null)) (by
        intro j v hv
        have hok := stepsOK_filter (σ := σ) p (.arr xs) hw _ (stepsOK_wild (σ := σ) (.arr xs) hw)
        rw [← hok.mem (.idx j) v hv, mem_filterLocs p (.arr xs) _ (.idx j) v hv]
        simp only [List.getD, hv, Option.getD_some, mem_idxLocs]
        constructor
        · intro h; exact ⟨⟨j, (List.getElem?_eq_some_iff.1 hv).1, rfl⟩, h⟩
        · intro h; exact h.2)
      have hany : xs.any p = anyIdx (fun i => p (xs.getD i .null)) xs.length := by
        cases h1 : xs.any p <;> cases h2 : anyIdx (fun i => p (xs.getD i .null)) xs.length <;> try rfl
        · obtain ⟨j, hj, hp⟩ := anyIdx_true _ _ h2
          simp only [List.any_eq_false] at h1
          have := h1 xs[j] (List.getElem_mem hj)
          simp [List.getD, hj] at hp
          exact absurd hp this
        · simp only [List.any_eq_true] at h1
          obtain ⟨v, hv, hp⟩ := h1
          obtain ⟨j, hj, rfl⟩ := List.getElem_of_mem hv
          have := anyIdx_false _ _ h2 j hj
          simp [List.getD, hj, hp] at this
      cases ha : anyIdx (fun i => p (xs.getD i .null)) xs.length with
      | false => exact remOne_nosel _ _ _ (by simp only [remFilterOne, hany, ha, Bool.false_eq_true, if_false]) (h.1 ha)
      | true =>
        refine ⟨(fun h' => by simp only [remFilterOne, hany, ha, if_true] at h'; cases h'), fun _ => ?_⟩
        obtain ⟨j, hj, hp, he⟩ := dropFirstIdx_spec (fun i => p (xs.getD i .null)) xs 0 (by simpa using anyIdx_true _ _ ha)
        obtain ⟨l, v, h1, h2⟩ := h.2 j hj (by simpa using hp)
        exact ⟨l, v, h1, by simp only [remFilterOne, hany, ha, if_true, he]; exact h2⟩
    | obj kvs =>
      have hs := Shape_of (σ := σ) (.filter p) (.obj kvs) rfl hw
      have h := oneObj_of (σ := σ) (.filter p) kvs hw hs (fun k => p (lookupD k kvs)) (by
        intro kv hkv
        have hlk := lookup_of_mem_nodup kvs hw kv hkv
        have hok := stepsOK_filter (σ := σ) p (.obj kvs) hw _ (stepsOK_wild (σ := σ) (.obj kvs) hw)
        rw [← hok.mem (.key kv.1) kv.2 hlk, mem_filterLocs p (.obj kvs) _ (.key kv.1) kv.2 hlk]
        simp only [mem_keyLocs, lookupD_mem kvs hw kv hkv]
        constructor
        · intro h; exact ⟨⟨kv.1, List.mem_map_of_mem (f := (·.1)) hkv, rfl⟩, h⟩
        · intro h; exact h.2)
      cases hk : firstKey (fun k => p (lookupD k kvs)) kvs with
      | none => exact remOne_nosel _ _ _ (by simp [remFilterOne, hk]) (h.1 hk)
      | some k =>
        refine ⟨fun h' => by simp [remFilterOne, hk] at h', fun _ => ?_⟩
        obtain ⟨l, v, h1, h2⟩ := h.2 k hk
        exact ⟨l, v, h1, by simp only [remFilterOne, hk]; exact h2⟩
    | _ => exact remOne_nosel _ _ _ rfl (sel_scalar (σ := σ) _ _ rfl rfl)

theorem WF_valAt : ∀ (p : Path) (d c : JV), WF d → valAt p d = some c → WF c
  | [], d, c, hw, hv => by
    simp only [valAt, Option.some.injEq] at hv
    rw [← hv]; exact hw
  | l :: q, d, c, hw, hv => by
    rw [valAt_cons] at hv
    cases hc : child? l d with
    | none => rw [hc] at hv; cases hv
    | some c' =>
      rw [hc] at hv
      exact WF_valAt q c' c (WF_child l d c' hw hc) hv

theorem remPath_at (dev : Dev) (f : Frag) : ∀ (sx : List Frag), NoDescent sx → ∀ (d : JV), WF d → RemPath σ dev f sx d →
    ∀ p ∈ locsG σ sx d, ∀ c, valAt p d = some c → RemGood σ dev f c
  | [], _, d, _, hr, p, hp, c, hv => by
    simp only [locs_nil, List.mem_singleton] at hp
    subst hp
    simp only [valAt, Option.some.injEq] at hv
    rw [← hv]; exact hr
  | h :: r, hnd, d, hw, hr, p, hp, c, hv => by
    obtain ⟨m, hm, q, hq, rfl⟩ := (mem_locs_cons (σ := σ) h r d p).1 hp
    obtain ⟨l, hl, hc⟩ := Shape_of (σ := σ) h d (hnd h (by simp)) (WF_top d hw) m hm
    rw [hl] at hv
    simp only [List.singleton_append, valAt_cons, hc, Option.bind_some] at hv
    exact remPath_at dev f r (fun g hg => hnd g (List.mem_cons_of_mem _ hg)) m.2 (WF_child l d m.2 hw hc) (hr m hm) q hq c hv

/-- RemoveOne EXACTLY (simple data, a path without recursive descent): no error; the returned tree is the input with ONE
selected member removed (`remAll [q] d`, `q` a selected location), or the input as it was when nothing is selected -/
theorem removeOne_exact (dev : Dev) (sx : List Frag) (f : Frag) (d : JV) (hfm : dev.filterMapNil = false)
    (hnd : NoDescent (sx ++ [f])) (hw : WF d) (hg : GoodPath σ dev sx d) (hr : RemPath σ dev f sx d) :
    ∃ d', removeM false dev true (sx ++ [f]) d = .ok d' ∧ OneOKG σ (sx ++ [f]) d d' .rem := by
  have hf : isDescentF f = false := hnd f (by simp)
  have hndx : NoDescent sx := fun g hg => hnd g (List.mem_append_left _ hg)
  obtain ⟨m, hm⟩ : ∃ m, removeOneOf dev f = some m := by
    cases f <;> simp_all [removeOneOf, removeAllOf, isDescentF]
  simp only [removeM, List.getLast?_append, List.getLast?_singleton, Option.some_or, hm, if_true, List.dropLast_concat]
  by_cases hroot : sx = [] ∧ dev.rootScalar = true ∧ isContainer d = false
  · obtain ⟨rfl, h2, h3⟩ := hroot
    have : isDescent ([] : List Frag).getLast? = false := rfl
    simp only [modifyCore, this, Bool.false_eq_true, if_false, List.isEmpty_nil, h2, h3, Bool.not_false, Bool.and_self, if_true,
      List.nil_append]
    exact ⟨d, rfl, Or.inl ⟨locs_scalar (σ := σ) f [] d hf h3, trivial, rfl⟩⟩
  · obtain ⟨d', h1, h2⟩ := modifyCore_one_exact (σ := σ) dev m sx d hfm hndx hw hg hroot
    refine ⟨d', h1, ?_⟩
    rcases h2 with ⟨rfl, hno⟩ | ⟨p, hp, c, hv, hch, hd⟩
    · refine Or.inl ⟨?_, trivial, rfl⟩
      apply List.eq_nil_iff_forall_not_mem.2
      intro p' hp'
      obtain ⟨p, hp, c, hv, q, hq, _⟩ := (mem_locs_append (σ := σ) [f] sx hndx d' hw p').1 hp'
      have hone := removeOneOf_single (σ := σ) dev f m hm c (WF_top c (WF_valAt p d' c hw hv))
        (remPath_at dev f sx hndx d' hw hr p hp c hv)
      rw [locs_nosel (σ := σ) f [] c (hone.1 (hno p hp c hv))] at hq
      cases hq
    · have hone := removeOneOf_single (σ := σ) dev f m hm c (WF_top c (WF_valAt p d c hw hv))
        (remPath_at dev f sx hndx d hw hr p hp c hv)
      obtain ⟨l, v, hsel, he⟩ := hone.2 hch
      refine Or.inr (Or.inl ⟨p ++ [l], ?_, ?_⟩)
      · exact (mem_locs_append (σ := σ) [f] sx hndx d hw _).2 ⟨p, hp, c, hv, [l],
          (mem_locs_cons (σ := σ) f [] c [l]).2 ⟨([l], v), hsel, [], by simp [locs_nil], by simp⟩, rfl⟩
      · rw [hd]
        exact upd_single_rem m.eff l p d c hw hv (by rw [eff_of_changed m c hch]; exact he)

end OjgVerif.JPMut
