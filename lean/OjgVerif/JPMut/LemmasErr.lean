import OjgVerif.JPMut.LemmasFrame
import OjgVerif.JPMut.LemmasAll
import OjgVerif.JPMut.LemmasOne
/-! # The frame condition does not depend on success

`setF_frame`: whatever `Expr.set` reports — a result, a One form's early stop, or an ERROR after some edits have
been made in place — every location that is not at, above or below a selected location (or, Set, a member the
path may create) holds what it held. Proved directly on the traversal (induction over the path, one level at a
time: `frame_put`, `visitD_frame`), not through the exactness theorems, which speak about error-free calls only.

`modF_noerr`: `Expr.modify` has no error exit of its own once `nv.(gen.Node)` cannot fail: an erroring
Modify/Remove (last fragment a Descent, a fragment without `remove`) has not touched the data. -/
set_option linter.unusedSimpArgs false
set_option linter.unusedSectionVars false
set_option linter.unusedVariables false

namespace OjgVerif.JPMut
open OjgVerif OjgVerif.JPath

variable {σ : SliceFn} [NodupSlice σ]

/-! ## `Frame` -/

theorem Frame.refl (T : List Path) (d : JV) : Frame T d d := fun _ _ => rfl

theorem Frame.trans {T : List Path} {d d1 d2 : JV} (h1 : Frame T d d1) (h2 : Frame T d1 d2) : Frame T d d2 :=
  fun q hq => (h2 q hq).trans (h1 q hq)

theorem touched_mono (T T' : List Path) (h : ∀ p ∈ T, p ∈ T') (q : Path) (hq : touched T' q = false) : touched T q = false := by
  simp only [touched, List.any_eq_false] at hq ⊢
  intro p hp
  exact hq p (h p hp)

theorem Frame.mono {T T' : List Path} {d d' : JV} (h : ∀ p ∈ T, p ∈ T') (hf : Frame T d d') : Frame T' d d' :=
  fun q hq => hf q (touched_mono T T' h q hq)

theorem child?_putChild (l l' : Loc) (v d c : JV) (hn : TopNodup d) (h : child? l d = some c) :
    child? l' (putChild l v d) = if l' = l then some v else child? l' d := by
  rw [putChild_eq_mapKids l v d c hn h, child?_mapKids]
  by_cases e : l' = l
  · subst e; simp [h]
  · cases child? l' d <;> simp [e]

theorem not_mem_of_untouched (T : List Path) (l : Loc) (q : Path) (h : touched T (l :: q) = false) : [l] ∉ T := by
  intro hm
  have := not_contains_of_untouched T l q h
  rw [(contains_iff T _).2 hm] at this
  cases this

/-- one level: the members outside the set are as they were, and an empty set means no change at all -/
theorem frame_top (T : List Path) (d d' : JV) (h0 : T = [] → d' = d) (hc : ∀ l, [l] ∉ T → child? l d' = child? l d) :
    Frame T d d' := by
  intro q hq
  cases q with
  | nil =>
    rw [touched_nil] at hq
    have : T = [] := by cases T <;> simp_all
    rw [h0 this]
  | cons l q' =>
    rw [valAt_cons, valAt_cons, hc l (not_mem_of_untouched T l q' hq)]

/-- a change of the one member `l`, which is in the set -/
theorem frame_member (T : List Path) (l : Loc) (d d' : JV) (hl : [l] ∈ T) (hc : ∀ l', l' ≠ l → child? l' d' = child? l' d) :
    Frame T d d' :=
  frame_top T d d' (fun e => by rw [e] at hl; cases hl) (fun l' hn => hc l' (fun e => hn (e ▸ hl)))

/-- a change inside the member `l` that respects the frame there -/
theorem frame_put (l : Loc) (d c c' : JV) (Tc T : List Path) (hn : TopNodup d) (h : child? l d = some c)
    (hf : Frame Tc c c') (hT : ∀ p ∈ Tc, l :: p ∈ T) : Frame T d (putChild l c' d) := by
  intro q hq
  cases q with
  | nil =>
    rw [touched_nil] at hq
    have hT0 : T = [] := by cases T <;> simp_all
    have hTc : Tc = [] := by
      cases Tc with
      | nil => rfl
      | cons p r => have := hT p (by simp); rw [hT0] at this; cases this
    subst hTc
    have := hf [] rfl
    simp only [valAt, Option.some.injEq] at this
    rw [this, putChild_self l d c h]
  | cons l' q' =>
    rw [valAt_cons, valAt_cons, child?_putChild l l' c' d c hn h]
    by_cases e : l' = l
    · subst e
      simp only [if_true, h, Option.bind_some]
      apply hf
      simp only [touched, List.any_eq_false, Bool.or_eq_true, not_or, Bool.not_eq_true] at hq ⊢
      intro p hp
      have := hq (l' :: p) (hT p hp)
      simpa [isPrefixOf_cons_cons] using this
    · simp only [e, if_false]

theorem TopNodup_putChild (l : Loc) (v d c : JV) (hn : TopNodup d) (h : child? l d = some c) : TopNodup (putChild l v d) := by
  rw [putChild_eq_mapKids l v d c hn h]; exact TopNodup_mapKids _ d hn

/-- `visitD` on pairwise different steps, WHATEVER its status: when the rest of the path respects the frame `Tc l c`
inside every visited member and these frames lie inside `T`, the visit respects `T` -/
theorem visitD_frame (cont sib : Bool) (k : Bool → JV → R) (T : List Path) (Tc : Loc → JV → List Path) (d0 : JV) (S : List Loc)
    (hk : ∀ l ∈ S, ∀ c fl, child? l d0 = some c → Frame (Tc l c) c (k fl c).d)
    (hT : ∀ l ∈ S, ∀ c, child? l d0 = some c → ∀ p ∈ Tc l c, l :: p ∈ T) :
    ∀ (steps : List Loc) (fl : Bool) (d : JV), steps.Nodup → TopNodup d → (∀ l ∈ steps, l ∈ S ∧ child? l d = child? l d0) →
      Frame T d (visitD cont sib k fl steps d).d
  | [], _, d, _, _, _ => Frame.refl T d
  | l :: ls, fl, d, hnd, htn, hsame => by
    have hnd' := List.nodup_cons.1 hnd
    have hrest : ∀ l' ∈ ls, l' ∈ S ∧ child? l' d = child? l' d0 := fun l' h' => hsame l' (List.mem_cons_of_mem _ h')
    simp only [visitD]
    cases hc : child? l d with
    | none => exact visitD_frame cont sib k T Tc d0 S hk hT ls fl d hnd'.2 htn hrest
    | some c =>
      by_cases hp : (cont && !isContainer c) = true
      · simp only [hp, if_true]; exact visitD_frame cont sib k T Tc d0 S hk hT ls fl d hnd'.2 htn hrest
      · simp only [hp, Bool.false_eq_true, if_false]
        have hlS : l ∈ S := (hsame l (by simp)).1
        have hc0 : child? l d0 = some c := by rw [← (hsame l (by simp)).2]; exact hc
        have hput : Frame T d (putChild l (k (fl && sib) c).d d) :=
          frame_put l d c _ (Tc l c) T htn hc (hk l hlS c _ hc0) (hT l hlS c hc0)
        cases hst : (k (fl && sib) c).st with
        | go =>
          simp only
          refine hput.trans (visitD_frame cont sib k T Tc d0 S hk hT ls _ _ hnd'.2 (TopNodup_putChild l _ d c htn hc) ?_)
          intro l' hl'
          have hne : l' ≠ l := fun e => hnd'.1 (e ▸ hl')
          rw [child?_putChild l l' _ d c htn hc]
          simp only [hne, if_false]
          exact hrest l' hl'
        | stop => exact hput
        | err e => exact hput
        | fault => exact hput
        | stale => exact hput

/-! ## what Set/Del may touch -/

/-- the locations at which Set may add a member (Del adds none) -/
def crG (σ : SliceFn) : SetArg → List Frag → JV → List Path
  | .val _, x, d => createRootsG σ x d
  | .del, _, _ => []

/-- the locations outside which `Expr.set` changes nothing, whatever it reports -/
def setFrameG (σ : SliceFn) (a : SetArg) (x : List Frag) (d : JV) : List Path := locsG σ x d ++ crG σ a x d

theorem mem_setFrame_cons (a : SetArg) (f : Frag) (rest : List Frag) (d c : JV) (l : Loc) (hs : ([l], c) ∈ selG σ f d)
    (p : Path) (hp : p ∈ setFrameG σ a rest c) : l :: p ∈ setFrameG σ a (f :: rest) d := by
  simp only [setFrameG, List.mem_append] at hp ⊢
  rcases hp with hp | hp
  · left
    exact (mem_locs_cons (σ := σ) f rest d (l :: p)).2 ⟨([l], c), hs, p, hp, rfl⟩
  · right
    cases a with
    | del => cases hp
    | val v =>
      simp only [crG, createRootsG, List.mem_append, List.mem_flatMap, List.mem_map]
      right
      exact ⟨([l], c), hs, p, hp, rfl⟩

theorem mem_setFrame_locs (a : SetArg) (x : List Frag) (d : JV) (p : Path) (h : p ∈ locsG σ x d) : p ∈ setFrameG σ a x d :=
  List.mem_append_left _ h

theorem mem_setFrame_single (a : SetArg) (f : Frag) (d c : JV) (l : Loc) (hs : ([l], c) ∈ selG σ f d) :
    [l] ∈ setFrameG σ a [f] d :=
  mem_setFrame_locs a [f] d [l] ((mem_locs_cons (σ := σ) f [] d [l]).2 ⟨([l], c), hs, [], by simp [locs_nil], by simp⟩)

/-! ## the last fragment of `Expr.set` -/

theorem lookup_kvInsert_ne (k k' : Bytes) (v : JV) (h : k' ≠ k) : ∀ (kvs : List (Bytes × JV)), lookup k' (kvInsert k v kvs) = lookup k' kvs
  | [] => by simp [kvInsert, lookup, Ne.symm h]
  | m :: r => by
    cases m with
    | mk k0 v0 =>
    by_cases e : k0 = k
    · subst e; simp [kvInsert, lookup, Ne.symm h]
    · by_cases e' : k0 = k'
      · subst e'; simp [kvInsert, lookup, h]
      · simp [kvInsert, lookup, e, e', lookup_kvInsert_ne k k' v h r]

theorem lookup_kvErase (k k' : Bytes) : ∀ (kvs : List (Bytes × JV)), lookup k' (kvErase k kvs) = if k' = k then none else lookup k' kvs
  | [] => by simp [kvErase, lookup]
  | m :: r => by
    have ih := lookup_kvErase k k' r
    by_cases e : m.1 = k
    · simp only [kvErase, e, if_true, ih, lookup]
      by_cases e' : k' = k
      · simp [e']
      · simp [e', Ne.symm e']
    · simp only [kvErase, e, if_false, lookup, ih]
      by_cases e' : k' = k
      · subst e'; simp [e]
      · simp [e']

theorem child?_writeKey_ne (a : SetArg) (k : Bytes) (kvs : List (Bytes × JV)) (l' : Loc) (h : l' ≠ .key k) :
    child? l' (.obj (writeKey a k kvs)) = child? l' (.obj kvs) := by
  cases l' with
  | idx i => rfl
  | key k' =>
    have hne : k' ≠ k := fun e => h (by rw [e])
    cases a with
    | val v => simp only [child?, writeKey]; exact lookup_kvInsert_ne k k' v hne kvs
    | del => simp only [child?, writeKey, lookup_kvErase, hne, if_false]

theorem child?_set_ne (j : Nat) (v : JV) (xs : List JV) (l' : Loc) (h : l' ≠ .idx j) :
    child? l' (.arr (xs.set j v)) = child? l' (.arr xs) := by
  cases l' with
  | key k => rfl
  | idx i =>
    have hne : j ≠ i := fun e => h (by rw [e])
    simp [child?, List.getElem?_set, hne]

/-- the union members still to be written land inside the frame `T` -/
def UnionIn (T : List Path) (a : SetArg) (ms : List Member) (d : JV) : Prop :=
  ∀ m ∈ ms,
    match m, d with
    | .key k, .obj kvs => (a.isDel = false ∨ (lookup k kvs).isSome = true) → [Loc.key k] ∈ T
    | .idx i, .arr xs => ∀ j, absIdx xs.length i = some j → [Loc.idx j] ∈ T
    | _, _ => True

theorem UnionIn.tail {T : List Path} {a : SetArg} {m : Member} {ms : List Member} {d : JV} (h : UnionIn T a (m :: ms) d) :
    UnionIn T a ms d := fun m' hm' => h m' (List.mem_cons_of_mem _ hm')

theorem setLastUnion_frame (gen : Bool) (dev : Dev) (one : Bool) (a : SetArg) (T : List Path) : ∀ (ms : List Member) (d : JV),
    UnionIn T a ms d → Frame T d (setLastUnion gen dev one a ms d).d
  | [], d, _ => Frame.refl T d
  | m :: ms, d, hu => by
    cases m with
    | key k =>
      cases d with
      | obj kvs =>
        simp only [setLastUnion]
        by_cases hw : a.isDel = false ∨ (lookup k kvs).isSome = true
        · have hin : [Loc.key k] ∈ T := hu (.key k) (by simp) hw
          have h1 : Frame T (.obj kvs) (.obj (writeKey a k kvs)) :=
            frame_member T (.key k) _ _ hin (fun l' hl' => child?_writeKey_ne a k kvs l' hl')
          split
          · exact h1
          · refine h1.trans (setLastUnion_frame gen dev one a T ms _ ?_)
            intro m' hm'
            have := hu m' (List.mem_cons_of_mem _ hm')
            cases m' with
            | idx i => trivial
            | key k' =>
              simp only at this ⊢
              intro hh
              apply this
              rcases hh with hh | hh
              · exact Or.inl hh
              · cases a with
                | val v => left; rfl
                | del =>
                  right
                  simp only [writeKey, lookup_kvErase] at hh
                  split at hh
                  · cases hh
                  · exact hh
        · have hnone : lookup k kvs = none := by
            cases hl : lookup k kvs with
            | none => rfl
            | some c => exact absurd (Or.inr (by simp [hl])) hw
          have hdel : a = .del := by
            cases a with
            | del => rfl
            | val v => exact absurd (Or.inl rfl) hw
          have hsame : writeKey a k kvs = kvs := by rw [hdel]; exact kvErase_absent k kvs hnone
          rw [hsame]
          split
          · exact Frame.refl T _
          · exact setLastUnion_frame gen dev one a T ms _ hu.tail
      | arr xs => simp only [setLastUnion]; exact setLastUnion_frame gen dev one a T ms _ hu.tail
      | null => simp only [setLastUnion]; exact setLastUnion_frame gen dev one a T ms _ hu.tail
      | bool b => simp only [setLastUnion]; exact setLastUnion_frame gen dev one a T ms _ hu.tail
      | int i => simp only [setLastUnion]; exact setLastUnion_frame gen dev one a T ms _ hu.tail
      | flt t => simp only [setLastUnion]; exact setLastUnion_frame gen dev one a T ms _ hu.tail
      | big t => simp only [setLastUnion]; exact setLastUnion_frame gen dev one a T ms _ hu.tail
      | num t => simp only [setLastUnion]; exact setLastUnion_frame gen dev one a T ms _ hu.tail
      | str s => simp only [setLastUnion]; exact setLastUnion_frame gen dev one a T ms _ hu.tail
    | idx i =>
      cases d with
      | arr xs =>
        simp only [setLastUnion]
        cases ha : absIdx xs.length i with
        | some j =>
          simp only
          have hin : [Loc.idx j] ∈ T := hu (.idx i) (by simp) j ha
          have h1 : Frame T (.arr xs) (.arr (xs.set j a.elem)) :=
            frame_member T (.idx j) _ _ hin (fun l' hl' => child?_set_ne j a.elem xs l' hl')
          split
          · exact h1
          · refine h1.trans (setLastUnion_frame gen dev one a T ms _ ?_)
            intro m' hm'
            have := hu m' (List.mem_cons_of_mem _ hm')
            cases m' with
            | key k' => trivial
            | idx i' => simpa using this
        | none =>
          simp only
          split
          · exact Frame.refl T _
          · exact setLastUnion_frame gen dev one a T ms _ hu.tail
      | obj kvs => simp only [setLastUnion]; exact setLastUnion_frame gen dev one a T ms _ hu.tail
      | null => simp only [setLastUnion]; exact setLastUnion_frame gen dev one a T ms _ hu.tail
      | bool b => simp only [setLastUnion]; exact setLastUnion_frame gen dev one a T ms _ hu.tail
      | int i => simp only [setLastUnion]; exact setLastUnion_frame gen dev one a T ms _ hu.tail
      | flt t => simp only [setLastUnion]; exact setLastUnion_frame gen dev one a T ms _ hu.tail
      | big t => simp only [setLastUnion]; exact setLastUnion_frame gen dev one a T ms _ hu.tail
      | num t => simp only [setLastUnion]; exact setLastUnion_frame gen dev one a T ms _ hu.tail
      | str s => simp only [setLastUnion]; exact setLastUnion_frame gen dev one a T ms _ hu.tail

theorem mem_unionLocs_key (ms : List Member) (d : JV) (k : Bytes) (h : Member.key k ∈ ms) : Loc.key k ∈ unionLocs ms d := by
  simp only [unionLocs, List.mem_filterMap]
  exact ⟨.key k, h, rfl⟩

theorem mem_unionLocs_idx (ms : List Member) (xs : List JV) (i : Int) (j : Nat) (h : Member.idx i ∈ ms)
    (ha : absIdx xs.length i = some j) : Loc.idx j ∈ unionLocs ms (.arr xs) := by
  simp only [unionLocs, List.mem_filterMap]
  exact ⟨.idx i, h, by simp [memberLoc, ha]⟩

theorem unionIn_init (a : SetArg) (ms : List Member) (d : JV) (hn : (unionLocs ms d).Nodup) :
    UnionIn (setFrameG σ a [.union ms] d) a ms d := by
  intro m hm
  have hok := stepsOK_union (σ := σ) ms d hn
  cases m with
  | key k =>
    cases d with
    | obj kvs =>
      simp only
      intro hw
      cases hl : lookup k kvs with
      | some c =>
        have hc : child? (.key k) (.obj kvs) = some c := hl
        exact mem_setFrame_single a _ _ c _ ((hok.mem (.key k) c hc).1 (mem_unionLocs_key ms _ k hm))
      | none =>
        rw [hl] at hw
        cases a with
        | del => simp [SetArg.isDel] at hw
        | val v =>
          apply List.mem_append_right
          simp only [crG, createRootsG, List.isEmpty_nil, if_true, List.mem_append, List.mem_map, List.mem_filter]
          left
          refine ⟨k, ⟨(mem_unionKeys ms k).2 ?_, by simp [hl]⟩, rfl⟩
          simp only [hasKey, List.any_eq_true]
          exact ⟨.key k, hm, by simp⟩
    | _ => trivial
  | idx i =>
    cases d with
    | arr xs =>
      simp only
      intro j ha
      have hj := absIdx_lt _ _ _ ha
      have hc : child? (.idx j) (.arr xs) = some xs[j] := by simp [child?, hj]
      exact mem_setFrame_single a _ _ _ _ ((hok.mem (.idx j) _ hc).1 (mem_unionLocs_idx ms xs i j hm ha))
    | _ => trivial

/-- the last fragment of `Expr.set`, whatever it reports, all matches or One -/
theorem setLast_frame (gen : Bool) (dev : Dev) (one : Bool) (a : SetArg) (f : Frag) (d : JV) (hw : TopNodup d)
    (hg : GoodAtS σ dev f d) : Frame (setFrameG σ a [f] d) d (setLast gen dev one a f d).d := by
  cases f with
  | descent => exact Frame.refl _ _
  | slice s e t => exact Frame.refl _ _
  | filter p => exact Frame.refl _ _
  | union ms => exact setLastUnion_frame gen dev one a _ ms d (unionIn_init a ms d hg)
  | child k =>
    cases d with
    | obj kvs =>
      simp only [setLast]
      cases hl : lookup k kvs with
      | some c =>
        have hc : child? (.key k) (.obj kvs) = some c := hl
        have hin := mem_setFrame_single (σ := σ) a (.child k) _ c _
          (((stepsOK_child (σ := σ) k (.obj kvs)).mem (.key k) c hc).1 (by simp))
        exact frame_member _ (.key k) _ _ hin (fun l' hl' => child?_writeKey_ne a k kvs l' hl')
      | none =>
        cases a with
        | del => simp only [writeKey]; rw [kvErase_absent k kvs hl]; exact Frame.refl _ _
        | val v =>
          have hin : [Loc.key k] ∈ setFrameG σ (.val v) [.child k] (.obj kvs) := by
            apply List.mem_append_right
            simp [crG, createRootsG, hl, startsChain]
          exact frame_member _ (.key k) _ _ hin (fun l' hl' => child?_writeKey_ne _ k kvs l' hl')
    | _ => exact Frame.refl _ _
  | nth i =>
    cases d with
    | arr xs =>
      simp only [setLast]
      cases ha : absIdx xs.length i with
      | none => exact Frame.refl _ _
      | some j =>
        simp only
        have hj := absIdx_lt _ _ _ ha
        have hc : child? (.idx j) (.arr xs) = some xs[j] := by simp [child?, hj]
        have hin := mem_setFrame_single (σ := σ) a (.nth i) _ _ _
          (((stepsOK_nth (σ := σ) i (.arr xs)).mem (.idx j) _ hc).1 (by simp [memberLoc, ha]))
        exact frame_member _ (.idx j) _ _ hin (fun l' hl' => child?_set_ne j a.elem xs l' hl')
    | _ => exact Frame.refl _ _
  | wild =>
    have hok := stepsOK_wild (σ := σ) d hw
    cases d with
    | obj kvs =>
      have hin : ∀ k c, lookup k kvs = some c → [Loc.key k] ∈ setFrameG σ a [.wild] (.obj kvs) := by
        intro k c hl
        have hc : child? (.key k) (.obj kvs) = some c := hl
        exact mem_setFrame_single a .wild _ c _ ((hok.mem (.key k) c hc).1 ((mem_keyLocs kvs _).2 ⟨k, lookup_isSome_mem kvs k c hl, rfl⟩))
      simp only [setLast]
      cases one with
      | true =>
        simp only [if_true]
        cases kvs with
        | nil => exact Frame.refl _ _
        | cons m r =>
          simp only
          refine frame_member _ (.key m.1) _ _ (hin m.1 m.2 (by simp [lookup])) ?_
          intro l' hl'
          cases l' with
          | idx i => rfl
          | key k' =>
            have hne : m.1 ≠ k' := fun e => hl' (by rw [e])
            split <;> simp [child?, lookup, hne]
      | false =>
        simp only [Bool.false_eq_true, if_false]
        apply frame_top
        · intro hT
          cases kvs with
          | nil => split <;> rfl
          | cons m r =>
            have := hin m.1 m.2 (by simp [lookup])
            rw [hT] at this; cases this
        · intro l hl
          cases l with
          | idx i => rfl
          | key k =>
            have hnone : lookup k kvs = none := by
              cases hl' : lookup k kvs with
              | none => rfl
              | some c => exact absurd (hin k c hl') hl
            split
            · simp [child?, lookup, hnone]
            · have := lookup_map (fun _ _ => a.elem) k kvs
              simp only [child?]
              rw [this, hnone]; rfl
    | arr xs =>
      have hin : ∀ j, j < xs.length → [Loc.idx j] ∈ setFrameG σ a [.wild] (.arr xs) := by
        intro j hj
        have hc : child? (.idx j) (.arr xs) = some xs[j] := by simp [child?, hj]
        exact mem_setFrame_single a .wild _ _ _ ((hok.mem (.idx j) _ hc).1 ((mem_idxLocs _ _).2 ⟨j, hj, rfl⟩))
      simp only [setLast]
      cases one with
      | true =>
        simp only [if_true]
        cases xs with
        | nil => exact Frame.refl _ _
        | cons x r =>
          simp only
          refine frame_member _ (.idx 0) _ _ (hin 0 (by simp)) ?_
          intro l' hl'
          cases l' with
          | key k => rfl
          | idx i =>
            cases i with
            | zero => exact absurd rfl hl'
            | succ n => simp [child?]
      | false =>
        simp only [Bool.false_eq_true, if_false]
        apply frame_top
        · intro hT
          cases xs with
          | nil => rfl
          | cons x r =>
            have := hin 0 (by simp)
            rw [hT] at this; cases this
        · intro l hl
          cases l with
          | key k => rfl
          | idx j =>
            have hj : ¬ j < xs.length := fun h => hl (hin j h)
            simp only [child?]
            rw [List.getElem?_eq_none (by simp; omega), List.getElem?_eq_none (by omega)]
    | _ => exact Frame.refl _ _

/-! ## `Expr.set`, every outcome -/

theorem setFollow_frame (a : SetArg) (f : Frag) (rest : List Frag) (l : Loc) (c d : JV) (k : Bool → JV → R)
    (hw : TopNodup d) (hc : child? l d = some c) (hs : ([l], c) ∈ selG σ f d)
    (hk : Frame (setFrameG σ a rest c) c (k false c).d) :
    Frame (setFrameG σ a (f :: rest) d) d (setFollow l c k d).d := by
  simp only [setFollow]
  split
  · exact frame_put l d c _ _ _ hw hc hk (fun p hp => mem_setFrame_cons a f rest d c l hs p hp)
  · exact Frame.refl _ _

theorem setCreate_frame (a : SetArg) (key : Bytes) (g : Frag) (r : List Frag) (k : Bool → JV → R) (kvs : List (Bytes × JV))
    (hl : lookup key kvs = none) :
    Frame (setFrameG σ a (.child key :: g :: r) (.obj kvs)) (.obj kvs) (setCreate a key (g :: r) k kvs).d := by
  cases a with
  | del => exact Frame.refl _ _
  | val v =>
    have hin : startsChain (g :: r) = true → [Loc.key key] ∈ setFrameG σ (.val v) (.child key :: g :: r) (.obj kvs) := by
      intro hsc
      apply List.mem_append_right
      simp [crG, createRootsG, hl, hsc]
    have hch : ∀ (c : JV) (l' : Loc), l' ≠ .key key → child? l' (.obj (kvInsert key c kvs)) = child? l' (.obj kvs) :=
      fun c l' hl' => child?_writeKey_ne (.val c) key kvs l' hl'
    simp only [setCreate, List.head?_cons]
    cases g with
    | child k' => exact frame_member _ (.key key) _ _ (hin rfl) (hch _)
    | nth i =>
      simp only
      by_cases hi : i < 0
      · simp only [hi, if_true]; exact Frame.refl _ _
      · simp only [hi, if_false]
        exact frame_member _ (.key key) _ _ (hin (by simp [startsChain]; omega)) (hch _)
    | wild => exact Frame.refl _ _
    | descent => exact Frame.refl _ _
    | union ms => exact Frame.refl _ _
    | slice s e t => exact Frame.refl _ _
    | filter p => exact Frame.refl _ _

theorem setVisit_frame (gen : Bool) (dev : Dev) (one : Bool) (a : SetArg) (cont : Bool) (f g : Frag) (r : List Frag) (d : JV)
    (hw : WF d) (hok : StepsOK σ (setSteps dev f d) f d)
    (ih : ∀ l c, child? l d = some c → ([l], c) ∈ selG σ f d → ∀ fl, Frame (setFrameG σ a (g :: r) c) c (setF gen dev one a (g :: r) fl c).d) :
    Frame (setFrameG σ a (f :: g :: r) d) d
      (visitD cont dev.descentSiblings (setF gen dev one a (g :: r)) false (setSteps dev f d) d).d := by
  refine visitD_frame cont dev.descentSiblings _ _ (fun _ c => setFrameG σ a (g :: r) c) d (setSteps dev f d) ?_ ?_ _ false d
    hok.nodup (WF_top d hw) (fun _ h => ⟨h, rfl⟩)
  · intro l hl c fl hc
    exact ih l c hc ((hok.mem l c hc).1 hl) fl
  · intro l hl c hc p hp
    exact mem_setFrame_cons a f (g :: r) d c l ((hok.mem l c hc).1 hl) p hp

/-- `Expr.set` (Set, SetOne, Del, DelOne; simple and gen data; a path without recursive descent), WHATEVER it reports:
every location that is not at, above or below a selected location or a member the path may create holds what it held -/
theorem setF_frame (gen : Bool) (dev : Dev) (one : Bool) (a : SetArg) : ∀ (x : List Frag), NoDescent x → ∀ (fl : Bool) (d : JV), WF d →
    GoodPathS σ dev x d → Frame (setFrameG σ a x d) d (setF gen dev one a x fl d).d
  | [], _, _, d, _, _ => Frame.refl _ d
  | [f], hnd, fl, d, hw, hg => by
    rw [setF_single_eq _ _ _ _ _ (hnd f (by simp))]
    exact setLast_frame gen dev one a f d (WF_top d hw) hg.1
  | f :: g :: r, hnd, fl, d, hw, hg => by
    have hndf : isDescentF f = false := hnd f (by simp)
    have hndr : NoDescent (g :: r) := fun g' hg' => hnd g' (List.mem_cons_of_mem _ hg')
    have ih : ∀ l c, child? l d = some c → ([l], c) ∈ selG σ f d → ∀ fl,
        Frame (setFrameG σ a (g :: r) c) c (setF gen dev one a (g :: r) fl c).d :=
      fun l c hc hs fl => setF_frame gen dev one a (g :: r) hndr fl c (WF_child l d c hw hc) (hg.2 ([l], c) hs)
    cases f with
    | descent => simp [isDescentF] at hndf
    | child k =>
      cases d with
      | obj kvs =>
        rw [setF_child_eq]
        cases hl : lookup k kvs with
        | some c =>
          simp only
          have hc : child? (.key k) (.obj kvs) = some c := hl
          have hs := ((stepsOK_child (σ := σ) k (.obj kvs)).mem (.key k) c hc).1 (by simp)
          exact setFollow_frame a (.child k) (g :: r) (.key k) c _ _ (WF_top _ hw) hc hs (ih _ c hc hs false)
        | none => simp only; exact setCreate_frame a k g r _ kvs hl
      | _ => exact Frame.refl _ _
    | nth i =>
      cases d with
      | arr xs =>
        rw [setF_nth_eq]
        cases ha : absIdx xs.length i with
        | none => exact Frame.refl _ _
        | some j =>
          simp only
          cases hx : xs[j]? with
          | none => exact Frame.refl _ _
          | some c =>
            simp only
            have hc : child? (.idx j) (.arr xs) = some c := hx
            have hs := ((stepsOK_nth (σ := σ) i (.arr xs)).mem (.idx j) c hc).1 (by simp [memberLoc, ha])
            exact setFollow_frame a (.nth i) (g :: r) (.idx j) c _ _ (WF_top _ hw) hc hs (ih _ c hc hs false)
      | _ => exact Frame.refl _ _
    | wild =>
      have hok := setSteps_ok (σ := σ) dev .wild d (WF_top d hw) hg.1 (fun _ h => by cases h) (fun _ h => by cases h)
      simp only [setF, List.isEmpty_cons, Bool.false_eq_true, if_false]
      exact setVisit_frame gen dev one a _ .wild g r d hw hok ih
    | union ms =>
      have hok := setSteps_ok (σ := σ) dev (.union ms) d (WF_top d hw) hg.1 (fun _ h => by cases h) (fun _ h => by cases h)
      simp only [setF, List.isEmpty_cons, Bool.false_eq_true, if_false]
      split
      · exact Frame.refl _ _
      · exact setVisit_frame gen dev one a _ (.union ms) g r d hw hok ih
    | slice s e t =>
      have hok := setSteps_ok (σ := σ) dev (.slice s e t) d (WF_top d hw) hg.1 (fun _ h => by cases h) (fun _ h => by cases h)
      simp only [setF, List.isEmpty_cons, Bool.false_eq_true, if_false]
      exact setVisit_frame gen dev one a _ (.slice s e t) g r d hw hok ih
    | filter p =>
      have hok := setSteps_ok (σ := σ) dev (.filter p) d (WF_top d hw) hg.1 (fun _ h => by cases h) (fun _ h => by cases h)
      simp only [setF, List.isEmpty_cons, Bool.false_eq_true, if_false]
      exact setVisit_frame gen dev one a _ (.filter p) g r d hw hok ih

/-- Set / SetOne / Del / DelOne, whatever is reported (a result, an error after partial edits): the frame holds -/
theorem setM_frame (gen : Bool) (dev : Dev) (one : Bool) (a : SetArg) (x : List Frag) (d : JV) (hnd : NoDescent x) (hw : WF d)
    (hg : GoodPathS σ dev x d) : Frame (setFrameG σ a x d) d ((setM gen dev one a x d).data d) := by
  simp only [setM]
  split
  · exact Frame.refl _ _
  · have := setF_frame (σ := σ) gen dev one a x hnd false d hw hg
    cases hv : setF gen dev one a x false d with
    | mk dd ss =>
      rw [hv] at this
      cases ss <;> simp only [R.out, Out.data] <;> first | exact this | exact Frame.refl _ _

/-! ## `Expr.modify` has no error exit of its own -/

/-- the traversal goes on or a One form has stopped: no error, no fault -/
def Quiet (s : St) : Prop := s = .go ∨ s = .stop

theorem quiet_cases {s : St} (h : Quiet s) {P : St → Prop} (hgo : P .go) (hstop : P .stop) : P s := by
  rcases h with h | h <;> rw [h] <;> assumption

theorem visitD_quiet (cont sib : Bool) (k : Bool → JV → R) (hk : ∀ fl c, Quiet (k fl c).st) :
    ∀ (steps : List Loc) (fl : Bool) (d : JV), Quiet (visitD cont sib k fl steps d).st
  | [], _, _ => Or.inl rfl
  | l :: ls, fl, d => by
    simp only [visitD]
    cases child? l d with
    | none => exact visitD_quiet cont sib k hk ls fl d
    | some c =>
      by_cases hp : (cont && !isContainer c) = true
      · simp only [hp, if_true]; exact visitD_quiet cont sib k hk ls fl d
      · simp only [hp, Bool.false_eq_true, if_false]
        rcases hk (fl && sib) c with hst | hst
        · rw [hst]; exact visitD_quiet cont sib k hk ls _ _
        · rw [hst]; exact Or.inr rfl

mutual
  theorem descGo_quiet (k : JV → R) (hk : ∀ c, Quiet (k c).st) : ∀ (d : JV), Quiet (descGo k d).st
    | .arr xs => by
      simp only [descGo]
      rcases descArr_quiet k hk xs with hst | hst
      · rw [hst]; exact hk _
      · rw [hst]; exact Or.inr rfl
    | .obj kvs => by
      simp only [descGo]
      rcases descObj_quiet k hk kvs with hst | hst
      · rw [hst]; exact hk _
      · rw [hst]; exact Or.inr rfl
    | .null => Or.inl rfl
    | .bool _ => Or.inl rfl
    | .int _ => Or.inl rfl
    | .flt _ => Or.inl rfl
    | .big _ => Or.inl rfl
    | .num _ => Or.inl rfl
    | .str _ => Or.inl rfl
  theorem descArr_quiet (k : JV → R) (hk : ∀ c, Quiet (k c).st) : ∀ (xs : List JV), Quiet (descArr k xs).st
    | [] => Or.inl rfl
    | x :: r => by
      simp only [descArr]
      rcases descGo_quiet k hk x with hst | hst
      · rw [hst]; exact descArr_quiet k hk r
      · rw [hst]; exact Or.inr rfl
  theorem descObj_quiet (k : JV → R) (hk : ∀ c, Quiet (k c).st) : ∀ (kvs : List (Bytes × JV)), Quiet (descObj k kvs).st
    | [] => Or.inl rfl
    | m :: r => by
      simp only [descObj]
      rcases descGo_quiet k hk m.2 with hst | hst
      · rw [hst]; exact descObj_quiet k hk r
      · rw [hst]; exact Or.inr rfl
end

theorem ap_not_bad (gen : Bool) (dev : Dev) (m : Modifier) (h : (gen && dev.genModifyNil) = false) (c : JV) :
    ap gen dev m c ≠ .bad := by
  simp only [ap]
  split
  · rw [Bool.and_assoc] at *
    cases hg : gen <;> cases hd : dev.genModifyNil <;> simp_all
  · simp

theorem modSeq_quiet (gen : Bool) (dev : Dev) (one : Bool) (m : Modifier) (h : (gen && dev.genModifyNil) = false) (nd : Bool) :
    ∀ (steps : List Loc) (d : JV), Quiet (modSeq gen dev one m nd steps d).st
  | [], _ => Or.inl rfl
  | l :: ls, d => by
    simp only [modSeq]
    cases child? l d with
    | none => exact modSeq_quiet gen dev one m h nd ls d
    | some c =>
      simp only
      cases hap : ap gen dev m c with
      | same => exact modSeq_quiet gen dev one m h nd ls d
      | bad => exact absurd hap (ap_not_bad gen dev m h c)
      | new v =>
        simp only
        cases one
        · exact modSeq_quiet gen dev false m h nd ls _
        · exact Or.inr rfl

theorem modLast_quiet (gen : Bool) (dev : Dev) (one : Bool) (m : Modifier) (h : (gen && dev.genModifyNil) = false) (f : Frag) (d : JV) :
    Quiet (modLast gen dev one m f d).st := by
  simp only [modLast]
  split
  · exact modSeq_quiet false dev one m (by simp) _ _ d
  · exact modSeq_quiet gen dev one m h _ _ d

/-- `Expr.modify` (every path, descent included; all matches or One): once the `gen.Node` assertion cannot fail the
traversal has no error exit -/
theorem modF_quiet (gen : Bool) (dev : Dev) (one : Bool) (m : Modifier) (h : (gen && dev.genModifyNil) = false) :
    ∀ (x : List Frag) (fl : Bool) (d : JV), Quiet (modF gen dev one m x fl d).st
  | [], _, _ => Or.inl rfl
  | f :: rest, fl, d => by
    have ih := modF_quiet gen dev one m h rest
    cases f with
    | descent =>
      simp only [modF]
      by_cases h1 : rest.isEmpty = true
      · simp only [h1, if_true]; exact Or.inl rfl
      · by_cases h2 : fl = true
        · simp only [h1, h2, Bool.false_eq_true, if_false, if_true]; exact ih false d
        · simp only [h1, h2, Bool.false_eq_true, if_false]; exact descGo_quiet _ (fun c => ih false c) d
    | child k =>
      simp only [modF]
      by_cases h1 : rest.isEmpty = true
      · simp only [h1, if_true]; exact modLast_quiet gen dev one m h _ d
      · simp only [h1, Bool.false_eq_true, if_false]; exact visitD_quiet _ _ _ ih _ _ _
    | nth i =>
      simp only [modF]
      by_cases h1 : rest.isEmpty = true
      · simp only [h1, if_true]; exact modLast_quiet gen dev one m h _ d
      · simp only [h1, Bool.false_eq_true, if_false]; exact visitD_quiet _ _ _ ih _ _ _
    | wild =>
      simp only [modF]
      by_cases h1 : rest.isEmpty = true
      · simp only [h1, if_true]; exact modLast_quiet gen dev one m h _ d
      · simp only [h1, Bool.false_eq_true, if_false]; exact visitD_quiet _ _ _ ih _ _ _
    | union ms =>
      simp only [modF]
      by_cases h1 : rest.isEmpty = true
      · simp only [h1, if_true]; exact modLast_quiet gen dev one m h _ d
      · simp only [h1, Bool.false_eq_true, if_false]; exact visitD_quiet _ _ _ ih _ _ _
    | slice s e t =>
      simp only [modF]
      by_cases h1 : rest.isEmpty = true
      · simp only [h1, if_true]; exact modLast_quiet gen dev one m h _ d
      · simp only [h1, Bool.false_eq_true, if_false]; exact visitD_quiet _ _ _ ih _ _ _
    | filter p =>
      simp only [modF]
      by_cases h1 : rest.isEmpty = true
      · simp only [h1, if_true]; exact modLast_quiet gen dev one m h _ d
      · simp only [h1, Bool.false_eq_true, if_false]; exact visitD_quiet _ _ _ ih _ _ _

/-- Modify / ModifyOne (every path): an error means the request was refused before anything was touched -/
theorem modifyCore_err_same (gen : Bool) (dev : Dev) (one : Bool) (m : Modifier) (h : (gen && dev.genModifyNil) = false)
    (x : List Frag) (d d' : JV) (e : E) (he : modifyCore gen dev one m x d = .err e d') : d' = d ∧ e = .lastDescent := by
  simp only [modifyCore] at he
  split at he
  · injection he with h1 h2; exact ⟨h2.symm, h1.symm⟩
  · split at he
    · cases he
    · have hq := modF_quiet (gen && !x.isEmpty) dev one m (by cases hg : gen <;> simp_all) (.nth 0 :: x) false (.arr [d])
      rcases hq with hst | hst <;> rw [hst] at he <;> cases he

/-- Remove / RemoveOne (every path): an error means the request was refused before anything was touched -/
theorem removeM_err_same (gen : Bool) (dev : Dev) (one : Bool) (h : (gen && dev.genModifyNil) = false)
    (x : List Frag) (d d' : JV) (e : E) (he : removeM gen dev one x d = .err e d') : d' = d := by
  simp only [removeM] at he
  split at he
  · injection he with _ h2; exact h2.symm
  · split at he
    · injection he with _ h2; exact h2.symm
    · exact (modifyCore_err_same gen dev one _ h _ d d' e he).1

end OjgVerif.JPMut
