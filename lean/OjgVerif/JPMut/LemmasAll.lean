import OjgVerif.JPMut.Model
/-! # Facts about the models that hold for every path (descent and filters included)

* `*_safe`: with the `genUnionOOB` deviation off no traversal ends in a run-time fault (or in the
  unmodelled stale-variable state): impossible requests are errors. `modify` (Modify, Remove and their One
  forms) never does, whatever the deviations.
* `*_gen`: with `genUnionOOB` and `genModifyNil` off the model on gen data is the model on simple data. -/
namespace OjgVerif.JPMut
open OjgVerif OjgVerif.JPath

/-- the traversal did not end in a run-time fault -/
def Safe (s : St) : Prop := s ≠ .fault ∧ s ≠ .stale

theorem safe_go : Safe .go := ⟨by simp, by simp⟩
theorem safe_stop : Safe .stop := ⟨by simp, by simp⟩
theorem safe_err (e : E) : Safe (.err e) := ⟨by simp, by simp⟩
theorem safe_stopIf (one : Bool) : Safe (stopIf one) := by
  cases one <;> simp [stopIf, Safe]

theorem visitD_safe (cont sib : Bool) (k : Bool → JV → R) (hk : ∀ fl c, Safe (k fl c).st) :
    ∀ (steps : List Loc) (fl : Bool) (d : JV), Safe (visitD cont sib k fl steps d).st
  | [], _, _ => safe_go
  | l :: ls, fl, d => by
    simp only [visitD]
    cases child? l d with
    | none => exact visitD_safe cont sib k hk ls fl d
    | some c =>
      by_cases hp : (cont && !isContainer c) = true
      · simp only [hp, if_true]; exact visitD_safe cont sib k hk ls fl d
      · simp only [hp, Bool.false_eq_true, if_false]
        have := hk (fl && sib) c
        cases hst : (k (fl && sib) c).st with
        | go => simp only; exact visitD_safe cont sib k hk ls _ _
        | stop => exact safe_stop
        | err e => exact safe_err e
        | fault => rw [hst] at this; exact absurd rfl this.1
        | stale => rw [hst] at this; exact absurd rfl this.2

mutual
  theorem descGo_safe (k : JV → R) (hk : ∀ c, Safe (k c).st) : ∀ (d : JV), Safe (descGo k d).st
    | .arr xs => by
      simp only [descGo]
      have := descArr_safe k hk xs
      cases hst : (descArr k xs).st with
      | go => exact hk _
      | stop => exact safe_stop
      | err e => exact safe_err e
      | fault => rw [hst] at this; exact absurd rfl this.1
      | stale => rw [hst] at this; exact absurd rfl this.2
    | .obj kvs => by
      simp only [descGo]
      have := descObj_safe k hk kvs
      cases hst : (descObj k kvs).st with
      | go => exact hk _
      | stop => exact safe_stop
      | err e => exact safe_err e
      | fault => rw [hst] at this; exact absurd rfl this.1
      | stale => rw [hst] at this; exact absurd rfl this.2
    | .null => safe_go
    | .bool _ => safe_go
    | .int _ => safe_go
    | .flt _ => safe_go
    | .big _ => safe_go
    | .num _ => safe_go
    | .str _ => safe_go
  theorem descArr_safe (k : JV → R) (hk : ∀ c, Safe (k c).st) : ∀ (xs : List JV), Safe (descArr k xs).st
    | [] => safe_go
    | x :: r => by
      simp only [descArr]
      have := descGo_safe k hk x
      cases hst : (descGo k x).st with
      | go => exact descArr_safe k hk r
      | stop => exact safe_stop
      | err e => exact safe_err e
      | fault => rw [hst] at this; exact absurd rfl this.1
      | stale => rw [hst] at this; exact absurd rfl this.2
  theorem descObj_safe (k : JV → R) (hk : ∀ c, Safe (k c).st) : ∀ (kvs : List (Bytes × JV)), Safe (descObj k kvs).st
    | [] => safe_go
    | m :: r => by
      simp only [descObj]
      have := descGo_safe k hk m.2
      cases hst : (descGo k m.2).st with
      | go => exact descObj_safe k hk r
      | stop => exact safe_stop
      | err e => exact safe_err e
      | fault => rw [hst] at this; exact absurd rfl this.1
      | stale => rw [hst] at this; exact absurd rfl this.2
end

/-! ## set -/

theorem setLastUnion_safe (gen : Bool) (dev : Dev) (one : Bool) (a : SetArg) (h : (gen && dev.genUnionOOB) = false) :
    ∀ (ms : List Member) (d : JV), Safe (setLastUnion gen dev one a ms d).st
  | [], _ => safe_go
  | m :: ms, d => by
    cases m with
    | key k =>
      cases d with
      | obj kvs =>
        simp only [setLastUnion]
        split
        · exact safe_stop
        · exact setLastUnion_safe gen dev one a h ms _
      | _ => simp only [setLastUnion]; exact setLastUnion_safe gen dev one a h ms _
    | idx i =>
      cases d with
      | arr xs =>
        simp only [setLastUnion]
        cases absIdx xs.length i with
        | some j =>
          cases one
          · exact setLastUnion_safe gen dev false a h ms _
          · exact safe_stop
        | none =>
          simp only [h, Bool.false_eq_true, if_false]
          exact setLastUnion_safe gen dev one a h ms _
      | _ => simp only [setLastUnion]; exact setLastUnion_safe gen dev one a h ms _

theorem setLast_safe (gen : Bool) (dev : Dev) (one : Bool) (a : SetArg) (h : (gen && dev.genUnionOOB) = false)
    (f : Frag) (d : JV) : Safe (setLast gen dev one a f d).st := by
  cases f with
  | child k => cases d <;> simp only [setLast] <;> first | exact safe_stopIf _ | exact safe_go
  | nth i =>
    cases d with
    | arr xs =>
      simp only [setLast]
      cases absIdx xs.length i with
      | some j => exact safe_stopIf one
      | none => exact safe_err _
    | _ => exact safe_go
  | wild =>
    cases d with
    | obj kvs =>
      simp only [setLast]
      cases one
      · exact safe_go
      · cases kvs <;> first | exact safe_go | exact safe_stop
    | arr xs =>
      simp only [setLast]
      cases one
      · exact safe_go
      · cases xs <;> first | exact safe_go | exact safe_stop
    | _ => exact safe_go
  | union ms => exact setLastUnion_safe gen dev one a h ms d
  | descent => exact safe_go
  | slice s e t => exact safe_go
  | filter p => exact safe_go

theorem setFollow_safe (l : Loc) (c : JV) (k : Bool → JV → R) (hk : ∀ fl c, Safe (k fl c).st) (d : JV) :
    Safe (setFollow l c k d).st := by
  simp only [setFollow]
  cases isContainer c
  · exact safe_err _
  · exact hk false c

theorem setCreate_safe (a : SetArg) (key : Bytes) (rest : List Frag) (k : Bool → JV → R) (hk : ∀ fl c, Safe (k fl c).st)
    (kvs : List (Bytes × JV)) : Safe (setCreate a key rest k kvs).st := by
  cases a with
  | del => exact safe_go
  | val v =>
    simp only [setCreate]
    cases rest.head? with
    | none => exact safe_err _
    | some f =>
      cases f with
      | child k' => exact hk false _
      | nth i =>
        simp only
        by_cases hi : i < 0
        · simp only [hi, if_true]; exact safe_err _
        · simp only [hi, if_false]; exact hk false _
      | _ => exact safe_err _

/-- Set/Del and their One forms: with the `genUnionOOB` deviation off (or on simple data) nothing faults -/
theorem setF_safe (gen : Bool) (dev : Dev) (one : Bool) (a : SetArg) (h : (gen && dev.genUnionOOB) = false) :
    ∀ (x : List Frag) (fl : Bool) (d : JV), Safe (setF gen dev one a x fl d).st
  | [], _, _ => safe_go
  | f :: rest, fl, d => by
    have ih := setF_safe gen dev one a h rest
    cases f with
    | descent =>
      simp only [setF]
      by_cases h1 : rest.isEmpty = true
      · simp only [h1, if_true]; exact safe_go
      · by_cases h2 : fl = true
        · simp only [h1, h2, Bool.false_eq_true, if_false, if_true]; exact ih false d
        · simp only [h1, h2, Bool.false_eq_true, if_false]; exact descGo_safe _ (fun c => ih false c) d
    | child key =>
      simp only [setF]
      by_cases h1 : rest.isEmpty = true
      · simp only [h1, if_true]; exact setLast_safe gen dev one a h _ d
      · simp only [h1, Bool.false_eq_true, if_false]
        cases d with
        | obj kvs =>
          simp only
          cases lookup key kvs with
          | some c => exact setFollow_safe _ c _ ih _
          | none => exact setCreate_safe a key rest _ ih kvs
        | _ => exact safe_go
    | nth i =>
      simp only [setF]
      by_cases h1 : rest.isEmpty = true
      · simp only [h1, if_true]; exact setLast_safe gen dev one a h _ d
      · simp only [h1, Bool.false_eq_true, if_false]
        cases d with
        | arr xs =>
          simp only
          cases absIdx xs.length i with
          | some j =>
            simp only
            cases xs[j]? with
            | some c => exact setFollow_safe _ c _ ih _
            | none => exact safe_err _
          | none => exact safe_err _
        | _ => exact safe_go
    | union ms =>
      simp only [setF]
      by_cases h1 : rest.isEmpty = true
      · simp only [h1, if_true]; exact setLast_safe gen dev one a h _ d
      · simp only [h1, Bool.false_eq_true, if_false, h, Bool.false_and]
        exact visitD_safe _ _ _ ih _ _ _
    | wild =>
      simp only [setF]
      by_cases h1 : rest.isEmpty = true
      · simp only [h1, if_true]; exact setLast_safe gen dev one a h _ d
      · simp only [h1, Bool.false_eq_true, if_false]; exact visitD_safe _ _ _ ih _ _ _
    | slice s e t =>
      simp only [setF]
      by_cases h1 : rest.isEmpty = true
      · simp only [h1, if_true]; exact setLast_safe gen dev one a h _ d
      · simp only [h1, Bool.false_eq_true, if_false]; exact visitD_safe _ _ _ ih _ _ _
    | filter p =>
      simp only [setF]
      by_cases h1 : rest.isEmpty = true
      · simp only [h1, if_true]; exact setLast_safe gen dev one a h _ d
      · simp only [h1, Bool.false_eq_true, if_false]; exact visitD_safe _ _ _ ih _ _ _

/-! ## modify -/

theorem modSeq_safe (gen : Bool) (dev : Dev) (one : Bool) (m : Modifier) (nd : Bool) : ∀ (steps : List Loc) (d : JV),
    Safe (modSeq gen dev one m nd steps d).st
  | [], _ => safe_go
  | l :: ls, d => by
    simp only [modSeq]
    cases child? l d with
    | none => exact modSeq_safe gen dev one m nd ls d
    | some c =>
      simp only
      cases ap gen dev m c with
      | same => exact modSeq_safe gen dev one m nd ls d
      | bad => exact safe_err _
      | new v =>
        simp only
        cases one
        · exact modSeq_safe gen dev false m nd ls _
        · exact safe_stop

theorem modLast_safe (gen : Bool) (dev : Dev) (one : Bool) (m : Modifier) (f : Frag) (d : JV) :
    Safe (modLast gen dev one m f d).st := by
  simp only [modLast]
  split <;> exact modSeq_safe _ dev one m _ _ d

/-- `modify` never ends in a fault -/
theorem modF_safe (gen : Bool) (dev : Dev) (one : Bool) (m : Modifier) :
    ∀ (x : List Frag) (fl : Bool) (d : JV), Safe (modF gen dev one m x fl d).st
  | [], _, _ => safe_go
  | f :: rest, fl, d => by
    have ih := modF_safe gen dev one m rest
    cases f with
    | descent =>
      simp only [modF]
      by_cases h1 : rest.isEmpty = true
      · simp only [h1, if_true]; exact safe_go
      · by_cases h2 : fl = true
        · simp only [h1, h2, Bool.false_eq_true, if_false, if_true]; exact ih false d
        · simp only [h1, h2, Bool.false_eq_true, if_false]; exact descGo_safe _ (fun c => ih false c) d
    | child k =>
      simp only [modF]
      by_cases h1 : rest.isEmpty = true
      · simp only [h1, if_true]; exact modLast_safe gen dev one m _ d
      · simp only [h1, Bool.false_eq_true, if_false]; exact visitD_safe _ _ _ ih _ _ _
    | nth i =>
      simp only [modF]
      by_cases h1 : rest.isEmpty = true
      · simp only [h1, if_true]; exact modLast_safe gen dev one m _ d
      · simp only [h1, Bool.false_eq_true, if_false]; exact visitD_safe _ _ _ ih _ _ _
    | wild =>
      simp only [modF]
      by_cases h1 : rest.isEmpty = true
      · simp only [h1, if_true]; exact modLast_safe gen dev one m _ d
      · simp only [h1, Bool.false_eq_true, if_false]; exact visitD_safe _ _ _ ih _ _ _
    | union ms =>
      simp only [modF]
      by_cases h1 : rest.isEmpty = true
      · simp only [h1, if_true]; exact modLast_safe gen dev one m _ d
      · simp only [h1, Bool.false_eq_true, if_false]; exact visitD_safe _ _ _ ih _ _ _
    | slice s e t =>
      simp only [modF]
      by_cases h1 : rest.isEmpty = true
      · simp only [h1, if_true]; exact modLast_safe gen dev one m _ d
      · simp only [h1, Bool.false_eq_true, if_false]; exact visitD_safe _ _ _ ih _ _ _
    | filter p =>
      simp only [modF]
      by_cases h1 : rest.isEmpty = true
      · simp only [h1, if_true]; exact modLast_safe gen dev one m _ d
      · simp only [h1, Bool.false_eq_true, if_false]; exact visitD_safe _ _ _ ih _ _ _

/-- the entry point reports a result or an error -/
def Out.Reported : Out → Prop
  | .ok _ => True
  | .err _ _ => True
  | .fault _ => False
  | .unmodelled => False

theorem out_reported (r : R) (h : Safe r.st) : r.out.Reported := by
  cases r with
  | mk d s =>
    cases s with
    | go => trivial
    | stop => trivial
    | err e => trivial
    | fault => exact absurd rfl h.1
    | stale => exact absurd rfl h.2

theorem setM_reported (gen : Bool) (dev : Dev) (one : Bool) (a : SetArg) (x : List Frag) (d : JV)
    (h : (gen && dev.genUnionOOB) = false) : (setM gen dev one a x d).Reported := by
  simp only [setM]
  split
  · trivial
  · exact out_reported _ (setF_safe gen dev one a h x false d)

theorem modifyCore_reported (gen : Bool) (dev : Dev) (one : Bool) (m : Modifier) (x : List Frag) (d : JV) :
    (modifyCore gen dev one m x d).Reported := by
  simp only [modifyCore]
  split
  · trivial
  · split
    · trivial
    · have := modF_safe (gen && !x.isEmpty) dev one m (.nth 0 :: x) false (.arr [d])
      cases hst : (modF (gen && !x.isEmpty) dev one m (.nth 0 :: x) false (.arr [d])).st with
      | go => simp only [Out.Reported]
      | stop => simp only [Out.Reported]
      | err e => simp only [Out.Reported]
      | fault => rw [hst] at this; exact absurd rfl this.1
      | stale => rw [hst] at this; exact absurd rfl this.2

theorem modifyM_reported (gen : Bool) (dev : Dev) (one : Bool) (m : Modifier) (x : List Frag) (d : JV) :
    (modifyM gen dev one m x d).Reported := modifyCore_reported gen dev one m x d

theorem removeM_reported (gen : Bool) (dev : Dev) (one : Bool) (x : List Frag) (d : JV) :
    (removeM gen dev one x d).Reported := by
  simp only [removeM]
  split
  · trivial
  · split
    · trivial
    · exact modifyCore_reported gen dev one _ _ d

/-! ## gen data behaves as simple data -/

theorem setLastUnion_gen (dev : Dev) (one : Bool) (a : SetArg) (h : dev.genUnionOOB = false) :
    ∀ (ms : List Member) (d : JV), setLastUnion true dev one a ms d = setLastUnion false dev one a ms d
  | [], _ => rfl
  | m :: ms, d => by
    cases m with
    | key k =>
      cases d with
      | obj kvs => simp only [setLastUnion, setLastUnion_gen dev one a h ms]
      | _ => simp only [setLastUnion, setLastUnion_gen dev one a h ms]
    | idx i =>
      cases d with
      | arr xs =>
        simp only [setLastUnion, h, Bool.and_false, Bool.false_eq_true, if_false, setLastUnion_gen dev one a h ms]
      | _ => simp only [setLastUnion, setLastUnion_gen dev one a h ms]

theorem setLast_gen (dev : Dev) (one : Bool) (a : SetArg) (h : dev.genUnionOOB = false) (f : Frag) (d : JV) :
    setLast true dev one a f d = setLast false dev one a f d := by
  cases f <;> simp only [setLast, setLastUnion_gen dev one a h]

/-- Set/Del on gen data = on simple data once the union branch of set.go tests its bounds -/
theorem setF_gen (dev : Dev) (one : Bool) (a : SetArg) (h : dev.genUnionOOB = false) :
    ∀ (x : List Frag), setF true dev one a x = setF false dev one a x
  | [] => by funext fl d; rfl
  | f :: rest => by
    have ih := setF_gen dev one a h rest
    funext fl d
    cases f <;> simp only [setF, ih, setLast_gen dev one a h, h, Bool.and_false, Bool.false_and, Bool.false_eq_true, if_false]

theorem setM_gen (dev : Dev) (one : Bool) (a : SetArg) (h : dev.genUnionOOB = false) (x : List Frag) (d : JV) :
    setM true dev one a x d = setM false dev one a x d := by
  simp only [setM, setF_gen dev one a h]

theorem ap_gen (dev : Dev) (m : Modifier) (h : dev.genModifyNil = false) (g : Bool) (c : JV) : ap g dev m c = ap false dev m c := by
  simp [ap, h]

theorem modSeq_gen (dev : Dev) (one : Bool) (m : Modifier) (h : dev.genModifyNil = false) (g nd : Bool) :
    ∀ (steps : List Loc) (d : JV), modSeq g dev one m nd steps d = modSeq false dev one m nd steps d
  | [], _ => rfl
  | l :: ls, d => by
    simp only [modSeq, ap_gen dev m h g, modSeq_gen dev one m h g nd ls]

theorem modLast_gen (dev : Dev) (one : Bool) (m : Modifier) (h : dev.genModifyNil = false) (g : Bool) (f : Frag) (d : JV) :
    modLast g dev one m f d = modLast false dev one m f d := by
  simp only [modLast, modSeq_gen dev one m h g]

/-- modify on gen data = on simple data once a null result of the modifier is stored instead of asserted -/
theorem modF_gen (dev : Dev) (one : Bool) (m : Modifier) (h : dev.genModifyNil = false) (g : Bool) :
    ∀ (x : List Frag), modF g dev one m x = modF false dev one m x
  | [] => by funext fl d; rfl
  | f :: rest => by
    have ih := modF_gen dev one m h g rest
    funext fl d
    cases f <;> simp only [modF, ih, modLast_gen dev one m h g]

theorem modifyCore_gen (dev : Dev) (one : Bool) (m : Modifier) (h : dev.genModifyNil = false) (x : List Frag) (d : JV) :
    modifyCore true dev one m x d = modifyCore false dev one m x d := by
  simp only [modifyCore, modF_gen dev one m h]

theorem modifyM_gen (dev : Dev) (one : Bool) (m : Modifier) (h : dev.genModifyNil = false) (x : List Frag) (d : JV) :
    modifyM true dev one m x d = modifyM false dev one m x d := modifyCore_gen dev one m h x d

theorem removeM_gen (dev : Dev) (one : Bool) (h : dev.genModifyNil = false) (x : List Frag) (d : JV) :
    removeM true dev one x d = removeM false dev one x d := by
  simp only [removeM, modifyCore_gen dev one _ h]

end OjgVerif.JPMut
