import OjgVerif.JPath.Spec
/-! # Path mutations: what they must do (specification, repository independent)

The locations a mutation works on are the locations the path *selects* — `locs x d`, taken from the
denotation of paths shared with C05/C11 (`JPath.eval`). A mutation is then a *simultaneous* edit of the
tree at a set of locations:

* `updAll m T d`   — every location of `T` gets `m (old value)`; where one selected location lies inside
  another the inner one is edited first (bottom up), so for a constant `m` the outer one wins;
* `delAll T d`     — selected object members disappear, selected array elements become `null`;
* `remAll T d`     — selected object members and array elements disappear, the later siblings of a
  removed element move up by exactly the number of removed elements before them;
* `insAll C d`     — members that do not exist yet are added (Set only).

Formalisation choices (the property text is silent; each is the reading the code implements
consistently):

* *Del versus Remove.* `Del` cannot hand back a shortened slice, so "a removed member is gone" reads:
  object members disappear under Del and Remove; array elements disappear under Remove and become
  `null` under Del.
* *What Set creates.* "the elements it creates along a child/index path": where a name fragment finds no
  such member in an existing object and the rest of the path consists of names and ends in a name or in
  a non-negative index (`skel`), the member is created holding the chain of objects (and the final
  array, `null`-filled up to the index) that leads to the new value. A name in *last* position always
  writes its member (existing or not); so does a name listed in a union in last position. Creation
  happens wherever the path gets to, also below a wildcard or a descent (`$..a.b` gives every object
  that has no `a` the member `a: {b: v}`).
* *Nested selections* (only a descent can select a location inside another selected location): "Get at
  each selected location returns the new value" is demanded of the outermost selected locations (the
  inner ones no longer exist, or lie inside the new value).
* *The One forms* change at most one location and do what the all-matches form does at one of them: the
  result is the input edited at one selected (or one created) location; the input itself only when nothing
  is selected or to be created (`OneOK`).
* *Errors.* Which requests are impossible is not specified; whatever is reported as an error must leave
  everything outside the selected and created locations as it was (`frame`).
* `valAt` of a location below an array element counts positions in the tree it is applied to; for
  Remove the frame is therefore expressed by `remAll` (the exact result), not by positions.
-/
namespace OjgVerif.JPMut
open OjgVerif OjgVerif.JPath

/-- the member of a container at one location step -/
def child? : Loc → JV → Option JV
  | .idx i, .arr xs => xs[i]?
  | .key k, .obj kvs => lookup k kvs
  | _, _ => none

/-- the value at a location (`none`: no such location) -/
def valAt : Path → JV → Option JV
  | [], d => some d
  | l :: p, d =>
    match child? l d with
    | some c => valAt p c
    | none => none

/-- a reading of slices: the indexes `[s:e:t]` selects in an array of length `n`, in selection order -/
abbrev SliceFn := Nat → Option Int → Option Int → Option Int → List Nat

/-- `JPath.sel` with the reading `σ` of slices (`selG sliceIdx = sel`, `selG_spec`) -/
def selG (σ : SliceFn) : Frag → JV → List (Path × JV)
  | .slice s e t, v =>
    match v with
    | .arr xs => (σ xs.length s e t).flatMap fun j => (xs[j]?).toList.map fun c => ([.idx j], c)
    | _ => []
  | f, v => sel f v

/-- `JPath.eval` with the reading `σ` of slices -/
def evalG (σ : SliceFn) : List Frag → JV → List (Path × JV)
  | [], v => [([], v)]
  | f :: r, v => (selG σ f v).flatMap fun m => (evalG σ r m.2).map fun q => (m.1 ++ q.1, q.2)

theorem selG_spec (f : Frag) (v : JV) : selG sliceIdx f v = sel f v := by
  cases f <;> rfl

theorem evalG_spec : ∀ (x : List Frag) (v : JV), evalG sliceIdx x v = eval x v
  | [], _ => rfl
  | f :: r, v => by
    simp only [evalG, eval, selG_spec]
    congr 1
    funext m
    rw [evalG_spec r m.2]

/-- the locations a path selects under the reading `σ` of slices -/
def locsG (σ : SliceFn) (x : List Frag) (d : JV) : List Path := (evalG σ x d).map (·.1)

/-- the locations a path selects — the same ones Get returns the values of (`JPath.eval`, `locs_eq_eval`) -/
def locs (x : List Frag) (d : JV) : List Path := locsG sliceIdx x d

theorem locs_eq_eval (x : List Frag) (d : JV) : locs x d = (eval x d).map (·.1) := by
  simp [locs, locsG, evalG_spec]

/-- the locations of `T` below the step `l`, relative to it -/
def strip (l : Loc) (T : List Path) : List Path :=
  T.filterMap fun p =>
    match p with
    | [] => none
    | l' :: q => if l' = l then some q else none

/-- the set contains the location "here" -/
def hasNil (T : List Path) : Bool := T.any fun p => p.isEmpty

/-- `q` is at, above or below one of the locations of `T` -/
def touched (T : List Path) (q : Path) : Bool := T.any fun p => p.isPrefixOf q || q.isPrefixOf p

/-- the selected locations that do not lie inside another selected location -/
def outer (T : List Path) : List Path :=
  T.filter fun p => !(T.any fun q => q.isPrefixOf p && q.length < p.length)

/-! ## simultaneous edits -/

mutual
  /-- edit every location of `T` with `m`, inner locations first -/
  def updAll (m : JV → JV) (T : List Path) : JV → JV
    | .arr xs => if hasNil T then m (.arr (updArr m T 0 xs)) else .arr (updArr m T 0 xs)
    | .obj kvs => if hasNil T then m (.obj (updObj m T kvs)) else .obj (updObj m T kvs)
    | .null => if hasNil T then m .null else .null
    | .bool b => if hasNil T then m (.bool b) else .bool b
    | .int i => if hasNil T then m (.int i) else .int i
    | .flt t => if hasNil T then m (.flt t) else .flt t
    | .big t => if hasNil T then m (.big t) else .big t
    | .num t => if hasNil T then m (.num t) else .num t
    | .str s => if hasNil T then m (.str s) else .str s
  def updArr (m : JV → JV) (T : List Path) : Nat → List JV → List JV
    | _, [] => []
    | i, x :: r => updAll m (strip (.idx i) T) x :: updArr m T (i + 1) r
  def updObj (m : JV → JV) (T : List Path) : List (Bytes × JV) → List (Bytes × JV)
    | [] => []
    | kv :: r => (kv.1, updAll m (strip (.key kv.1) T) kv.2) :: updObj m T r
end

mutual
  /-- Del: selected object members disappear, selected array elements become `null` -/
  def delAll (T : List Path) : JV → JV
    | .arr xs => .arr (delArr T 0 xs)
    | .obj kvs => .obj (delObj T kvs)
    | .null => .null
    | .bool b => .bool b
    | .int i => .int i
    | .flt t => .flt t
    | .big t => .big t
    | .num t => .num t
    | .str s => .str s
  def delArr (T : List Path) : Nat → List JV → List JV
    | _, [] => []
    | i, x :: r => (if T.contains [.idx i] then JV.null else delAll (strip (.idx i) T) x) :: delArr T (i + 1) r
  def delObj (T : List Path) : List (Bytes × JV) → List (Bytes × JV)
    | [] => []
    | kv :: r =>
      if T.contains [.key kv.1] then delObj T r
      else (kv.1, delAll (strip (.key kv.1) T) kv.2) :: delObj T r
end

mutual
  /-- Remove: selected object members and array elements disappear; array elements are numbered as in
  the input, so the survivors keep their order and close up -/
  def remAll (T : List Path) : JV → JV
    | .arr xs => .arr (remArr T 0 xs)
    | .obj kvs => .obj (remObj T kvs)
    | .null => .null
    | .bool b => .bool b
    | .int i => .int i
    | .flt t => .flt t
    | .big t => .big t
    | .num t => .num t
    | .str s => .str s
  def remArr (T : List Path) : Nat → List JV → List JV
    | _, [] => []
    | i, x :: r =>
      if T.contains [.idx i] then remArr T (i + 1) r
      else remAll (strip (.idx i) T) x :: remArr T (i + 1) r
  def remObj (T : List Path) : List (Bytes × JV) → List (Bytes × JV)
    | [] => []
    | kv :: r =>
      if T.contains [.key kv.1] then remObj T r
      else (kv.1, remAll (strip (.key kv.1) T) kv.2) :: remObj T r
end

/-! ## what Set creates -/

/-- the value a created member holds: the chain of objects (and the final `null`-filled array) that the
rest of the path names, around the new value; `none`: the rest of the path does not say what to build -/
def skel : List Frag → JV → Option JV
  | [], v => some v
  | f :: r, v =>
    match f with
    | .child k => (skel r v).map fun s => JV.obj [(k, s)]
    | .nth i => if 0 ≤ i ∧ r.isEmpty then some (.arr (List.replicate i.toNat .null ++ [v])) else none
    | _ => none

/-- the rest of the path starts the way a creatable chain starts -/
def startsChain : List Frag → Bool
  | [] => true
  | .child _ :: _ => true
  | .nth i :: _ => decide (0 ≤ i)
  | _ => false

/-- the names of a union, in listed order -/
def unionKeys : List Member → List Bytes
  | [] => []
  | .key k :: r => k :: unionKeys r
  | .idx _ :: r => unionKeys r

/-- the members Set creates *in this value* for the fragment `f` followed by `r` (location, content) -/
def ownCreates (v : JV) (f : Frag) (r : List Frag) (d : JV) : List (Path × JV) :=
  match f, d with
  | .child k, .obj kvs =>
    if (lookup k kvs).isNone then (skel r v).toList.map fun s => ([Loc.key k], s) else []
  | .union ms, .obj kvs =>
    if r.isEmpty then ((unionKeys ms).filter fun k => (lookup k kvs).isNone).map fun k => ([Loc.key k], v) else []
  | _, _ => []

/-- every member Set creates, with its content (reading `σ` of slices) -/
def createsG (σ : SliceFn) (v : JV) : List Frag → JV → List (Path × JV)
  | [], _ => []
  | f :: r, d =>
    ownCreates v f r d ++ (selG σ f d).flatMap fun m => (createsG σ v r m.2).map fun c => (m.1 ++ c.1, c.2)

/-- every member Set creates, with its content -/
def creates (v : JV) : List Frag → JV → List (Path × JV) := createsG sliceIdx v

/-- the locations at which Set may add a member, whether or not the request can be completed (frame of
an erroneous Set: `$.a[1].b` on `{}` adds `a: [null, null]` and then reports that it can not go on) -/
def createRootsG (σ : SliceFn) : List Frag → JV → List Path
  | [], _ => []
  | f :: r, d =>
    (match f, d with
      | .child k, .obj kvs => if (lookup k kvs).isNone ∧ startsChain r then [[Loc.key k]] else []
      | .union ms, .obj kvs =>
        if r.isEmpty then ((unionKeys ms).filter fun k => (lookup k kvs).isNone).map fun k => [Loc.key k] else []
      | _, _ => []) ++
    (selG σ f d).flatMap fun m => (createRootsG σ r m.2).map fun c => m.1 ++ c

def createRoots : List Frag → JV → List Path := createRootsG sliceIdx

/-- the creations below the step `l`, relative to it -/
def stripC (l : Loc) (C : List (Path × JV)) : List (Path × JV) :=
  C.filterMap fun c =>
    match c.1 with
    | [] => none
    | l' :: q => if l' = l then some (q, c.2) else none

/-- the members to add to an object with the members `kvs`: first creation per name wins -/
def newMembers (kvs : List (Bytes × JV)) : List (Path × JV) → List (Bytes × JV)
  | [] => []
  | c :: r =>
    match c.1 with
    | [.key k] =>
      if (lookup k kvs).isNone then (k, c.2) :: newMembers (kvs ++ [(k, c.2)]) r else newMembers kvs r
    | _ => newMembers kvs r

mutual
  /-- add the created members -/
  def insAll (C : List (Path × JV)) : JV → JV
    | .arr xs => .arr (insArr C 0 xs)
    | .obj kvs => .obj (insObj C kvs ++ newMembers kvs C)
    | .null => .null
    | .bool b => .bool b
    | .int i => .int i
    | .flt t => .flt t
    | .big t => .big t
    | .num t => .num t
    | .str s => .str s
  def insArr (C : List (Path × JV)) : Nat → List JV → List JV
    | _, [] => []
    | i, x :: r => insAll (stripC (.idx i) C) x :: insArr C (i + 1) r
  def insObj (C : List (Path × JV)) : List (Bytes × JV) → List (Bytes × JV)
    | [] => []
    | kv :: r => (kv.1, insAll (stripC (.key kv.1) C) kv.2) :: insObj C r
end

/-! ## the four mutators, as the property describes them -/

/-- a modifier function as the library takes it: (new value, changed) -/
abbrev Modifier := JV → JV × Bool

/-- what a modifier does to a value -/
def Modifier.eff (m : Modifier) (v : JV) : JV := if (m v).2 then (m v).1 else v

def setSpecG (σ : SliceFn) (x : List Frag) (v : JV) (d : JV) : JV :=
  updAll (fun _ => v) (locsG σ x d) (insAll (createsG σ v x d) d)

def delSpecG (σ : SliceFn) (x : List Frag) (d : JV) : JV := delAll (locsG σ x d) d

def removeSpecG (σ : SliceFn) (x : List Frag) (d : JV) : JV := remAll (locsG σ x d) d

def modifySpecG (σ : SliceFn) (x : List Frag) (m : Modifier) (d : JV) : JV := updAll m.eff (locsG σ x d) d

/-- the four mutators under the specification's reading of slices (the property) -/
def setSpec (x : List Frag) (v : JV) (d : JV) : JV := setSpecG sliceIdx x v d

def delSpec (x : List Frag) (d : JV) : JV := delSpecG sliceIdx x d

def removeSpec (x : List Frag) (d : JV) : JV := removeSpecG sliceIdx x d

def modifySpec (x : List Frag) (m : Modifier) (d : JV) : JV := modifySpecG sliceIdx x m d

/-- a mutation: Set with a value, Del, Modify with a modifier, Remove -/
inductive Op where
  | set (v : JV)
  | del
  | mod (m : Modifier)
  | rem

/-- the tree a mutation (all matches) must leave under the reading `σ` of slices -/
def expectedG (σ : SliceFn) (x : List Frag) (d : JV) : Op → JV
  | .set v => setSpecG σ x v d
  | .del => delSpecG σ x d
  | .mod m => modifySpecG σ x m d
  | .rem => removeSpecG σ x d

/-- the tree the property demands after the mutation (all matches) -/
def expected (x : List Frag) (d : JV) : Op → JV := expectedG sliceIdx x d

/-- the locations outside which nothing may change, whatever the outcome (for Remove the containers of the
selected members: positions inside them shift) -/
def frameSet (x : List Frag) (d : JV) : Op → List Path
  | .set _ => locs x d ++ createRoots x d
  | .del => locs x d
  | .mod _ => locs x d
  | .rem => (locs x d).map List.dropLast

/-- the edit of one location only -/
def single (p : Path) (d : JV) : Op → JV
  | .set v => updAll (fun _ => v) [p] d
  | .del => delAll [p] d
  | .mod m => updAll m.eff [p] d
  | .rem => remAll [p] d

/-- frame: every location that is not at, above or below a location of `T` holds what it held -/
def Frame (T : List Path) (d d' : JV) : Prop := ∀ q, touched T q = false → valAt q d' = valAt q d

/-- what the property demands of the tree `d'` a One form leaves: the edit of ONE selected location, or (Set) one
created member; the tree as it was only when nothing is selected (and, for Set, nothing is to be created).
*Formalisation choice*: "the One forms change at most one location" is read together with their purpose — they do what
the all-matches form does at one of the selected locations: a One form that stops without an edit although a location
is selected contradicts it (the edit itself may be the identity: a modifier that reports no change, a value that is
already there). -/
def OneOK (x : List Frag) (d d' : JV) (op : Op) : Prop :=
  (locs x d = [] ∧ (match op with | .set v => creates v x d = [] | _ => True) ∧ d' = d) ∨
    (∃ p ∈ locs x d, d' = single p d op) ∨
    match op with
    | .set v => ∃ c ∈ creates v x d, d' = insAll [c] d
    | _ => False

/-! ## the clauses of the property as decidable tests (used by the driver to judge the real code) -/

mutual
  /-- every location of a value -/
  def allPaths : JV → List Path
    | .arr xs => [] :: allPathsArr 0 xs
    | .obj kvs => [] :: allPathsObj kvs
    | _ => [[]]
  def allPathsArr : Nat → List JV → List Path
    | _, [] => []
    | i, x :: r => (allPaths x).map (Loc.idx i :: ·) ++ allPathsArr (i + 1) r
  def allPathsObj : List (Bytes × JV) → List Path
    | [] => []
    | kv :: r => (allPaths kv.2).map (Loc.key kv.1 :: ·) ++ allPathsObj r
end

/-- equality of values up to the order of object members (the canonical text sorts them) -/
def sameV (a b : JV) : Bool := a.render == b.render

def sameO : Option JV → Option JV → Bool
  | none, none => true
  | some a, some b => sameV a b
  | _, _ => false

/-- frame: every location of either tree that is not at, above or below a location of `T` holds the
same value in both trees -/
def frameB (T : List Path) (d d' : JV) : Bool :=
  (allPaths d ++ allPaths d').all fun q => touched T q || sameO (valAt q d) (valAt q d')

/-- hit: every outermost location of `T` holds `v` -/
def hitB (T : List Path) (v : JV) (d' : JV) : Bool :=
  (outer T).all fun p => sameO (valAt p d') (some v)

end OjgVerif.JPMut
