import OjgVerif.JPMut.LemmasDel
/-! # Set writes the new value at exactly the selected locations and createsG σ what the path names
(paths without a descent)

`setM_eq`: when Set (all matches, simple data, a path without recursive descent whose unions list no member
twice and whose slices — as set.go reads them — select the indexes of the specification on the arrays they
meet) reports no error, the data afterwards is `setSpecG σ x v d`: the new value at every selected location,
the members created along name/index chains (`createsG σ`), everything else as it was. -/
namespace OjgVerif.JPMut
open OjgVerif OjgVerif.JPath

variable {σ : SliceFn} [NodupSlice σ]

/-! ## `insAll` -/

theorem stripC_nil (l : Loc) : stripC l [] = [] := rfl

theorem newMembers_nil (kvs : List (Bytes × JV)) : newMembers kvs [] = [] := rfl

mutual
  theorem insAll_nil : ∀ (d : JV), insAll [] d = d
    | .arr xs => by simp [insAll, insArr_nil xs 0]
    | .obj kvs => by simp [insAll, insObj_nil kvs, newMembers_nil]
    | .null => rfl
    | .bool _ => rfl
    | .int _ => rfl
    | .flt _ => rfl
    | .big _ => rfl
    | .num _ => rfl
    | .str _ => rfl
  theorem insArr_nil : ∀ (xs : List JV) (i : Nat), insArr [] i xs = xs
    | [], _ => rfl
    | x :: r, i => by simp [insArr, stripC_nil, insAll_nil x, insArr_nil r (i + 1)]
  theorem insObj_nil : ∀ (kvs : List (Bytes × JV)), insObj [] kvs = kvs
    | [] => rfl
    | kv :: r => by simp [insObj, stripC_nil, insAll_nil kv.2, insObj_nil r]
end

theorem insArr_eq (C : List (Path × JV)) : ∀ (xs : List JV) (i : Nat),
    insArr C i xs = mapArr (fun l c => insAll (stripC l C) c) i xs
  | [], _ => rfl
  | x :: r, i => by simp [insArr, mapArr, insArr_eq C r (i + 1)]

theorem insObj_eq (C : List (Path × JV)) : ∀ (kvs : List (Bytes × JV)),
    insObj C kvs = kvs.map fun kv => (kv.1, insAll (stripC (.key kv.1) C) kv.2)
  | [] => rfl
  | kv :: r => by simp [insObj, insObj_eq C r]

/-- no creation is a one-step location: nothing is added at this level -/
theorem newMembers_none (C : List (Path × JV)) (h : ∀ c ∈ C, ∀ k, c.1 ≠ [Loc.key k]) : ∀ (kvs : List (Bytes × JV)), newMembers kvs C = [] := by
  induction C with
  | nil => intro kvs; rfl
  | cons c r ih =>
    intro kvs
    have hc := h c (by simp)
    have hr : ∀ c' ∈ r, ∀ k, c'.1 ≠ [Loc.key k] := fun c' hc' => h c' (List.mem_cons_of_mem _ hc')
    cases c with
    | mk p s =>
      cases p with
      | nil => simp only [newMembers]; exact ih hr kvs
      | cons l q =>
        cases q with
        | cons l2 q2 => simp only [newMembers]; exact ih hr kvs
        | nil =>
          cases l with
          | idx i => simp only [newMembers]; exact ih hr kvs
          | key k => exact absurd rfl (hc k)

theorem insAll_inner (C : List (Path × JV)) (h : ∀ c ∈ C, ∀ k, c.1 ≠ [Loc.key k]) (d : JV) :
    insAll C d = mapKids (fun l c => insAll (stripC l C) c) d := by
  cases d <;> simp [insAll, mapKids, insArr_eq, insObj_eq, newMembers_none C h]

/-! ## what is created lies below what is selected -/

def preC (p : Path) (c : Path × JV) : Path × JV := (p ++ c.1, c.2)

theorem creates_cons (v : JV) (f : Frag) (r : List Frag) (d : JV) :
    createsG σ v (f :: r) d = ownCreates v f r d ++ (selG σ f d).flatMap fun m => (createsG σ v r m.2).map (preC m.1) := rfl

theorem stripC_append (l : Loc) (A B : List (Path × JV)) : stripC l (A ++ B) = stripC l A ++ stripC l B := by
  simp [stripC, List.filterMap_append]

theorem stripC_map_same (l : Loc) : ∀ (X : List (Path × JV)), stripC l (X.map (preC [l])) = X
  | [] => rfl
  | c :: r => by
    have := stripC_map_same l r
    simp only [stripC] at this ⊢
    simp [preC, this]

theorem stripC_map_other (l l' : Loc) (h : l' ≠ l) : ∀ (X : List (Path × JV)), stripC l (X.map (preC [l'])) = []
  | [] => rfl
  | c :: r => by
    have := stripC_map_other l l' h r
    simp only [stripC] at this ⊢
    simp [preC, h, this]

/-- below a selected member: what the rest of the path createsG σ in it (the member is selected once) -/
theorem stripC_nested (F : Path × JV → List (Path × JV)) (l : Loc) : ∀ (L : List (Path × JV)),
    (L.map (·.1)).Nodup → (∀ m ∈ L, ∃ l', m.1 = [l']) → ∀ m ∈ L, m.1 = [l] →
    stripC l (L.flatMap fun m => (F m).map (preC m.1)) = F m
  | [], _, _, m, hm, _ => by cases hm
  | a :: L, hn, hs, m, hm, hml => by
    simp only [List.map_cons, List.nodup_cons] at hn
    simp only [List.flatMap_cons, stripC_append]
    obtain ⟨la, hla⟩ := hs a (by simp)
    have hnone : ∀ (L' : List (Path × JV)), (∀ m' ∈ L', ∃ l', m'.1 = [l'] ∧ l' ≠ l) →
        stripC l (L'.flatMap fun m => (F m).map (preC m.1)) = [] := by
      intro L'
      induction L' with
      | nil => intro _; rfl
      | cons b L'' ih =>
        intro hb
        obtain ⟨lb, hlb, hne⟩ := hb b (by simp)
        simp only [List.flatMap_cons, stripC_append, hlb, stripC_map_other l lb hne, List.nil_append]
        exact ih (fun m' hm' => hb m' (List.mem_cons_of_mem _ hm'))
    rcases List.mem_cons.1 hm with rfl | hm'
    · rw [hml, stripC_map_same]
      rw [hnone L]
      · simp
      · intro m' hm'
        obtain ⟨l', hl'⟩ := hs m' (List.mem_cons_of_mem _ hm')
        refine ⟨l', hl', ?_⟩
        intro e
        apply hn.1
        rw [hml, ← e, ← hl']
        exact List.mem_map_of_mem (f := (·.1)) hm'
    · have hne : la ≠ l := by
        intro e
        apply hn.1
        rw [hla, e, ← hml]
        exact List.mem_map_of_mem (f := (·.1)) hm'
      rw [hla, stripC_map_other l la hne, List.nil_append]
      exact stripC_nested F l L hn.2 (fun m' hm' => hs m' (List.mem_cons_of_mem _ hm')) m hm' hml

theorem stripC_nested_none (F : Path × JV → List (Path × JV)) (l : Loc) (L : List (Path × JV))
    (hs : ∀ m ∈ L, ∃ l', m.1 = [l']) (hno : ∀ m ∈ L, m.1 ≠ [l]) :
    stripC l (L.flatMap fun m => (F m).map (preC m.1)) = [] := by
  induction L with
  | nil => rfl
  | cons b L ih =>
    obtain ⟨lb, hlb⟩ := hs b (by simp)
    have hne : lb ≠ l := by intro e; exact hno b (by simp) (by rw [hlb, e])
    simp only [List.flatMap_cons, stripC_append, hlb, stripC_map_other l lb hne, List.nil_append]
    exact ih (fun m hm => hs m (List.mem_cons_of_mem _ hm)) (fun m hm => hno m (List.mem_cons_of_mem _ hm))

/-- the nested creations are at least two steps long -/
theorem nested_not_key (F : Path × JV → List (Path × JV)) (L : List (Path × JV)) (hs : ∀ m ∈ L, ∃ l', m.1 = [l'])
    (hF : ∀ m ∈ L, ∀ c ∈ F m, c.1 ≠ []) :
    ∀ c ∈ L.flatMap (fun m => (F m).map (preC m.1)), ∀ k, c.1 ≠ [Loc.key k] := by
  intro c hc k
  obtain ⟨m, hm, hc'⟩ := List.mem_flatMap.1 hc
  obtain ⟨c0, hc0, rfl⟩ := List.mem_map.1 hc'
  obtain ⟨l', hl'⟩ := hs m hm
  have := hF m hm c0 hc0
  simp only [preC, hl', List.singleton_append]
  intro e
  injection e with _ e2
  exact this e2

theorem ownCreates_shape (v : JV) (f : Frag) (r : List Frag) (d : JV) : ∀ c ∈ ownCreates v f r d, ∃ k, c.1 = [Loc.key k] := by
  intro c hc
  cases f with
  | child k =>
    cases d with
    | obj kvs =>
      simp only [ownCreates] at hc
      split at hc
      · obtain ⟨s, _, rfl⟩ := List.mem_map.1 hc; exact ⟨k, rfl⟩
      · cases hc
    | _ => simp [ownCreates] at hc
  | union ms =>
    cases d with
    | obj kvs =>
      simp only [ownCreates] at hc
      split at hc
      · obtain ⟨k, _, rfl⟩ := List.mem_map.1 hc; exact ⟨k, rfl⟩
      · cases hc
    | _ => simp [ownCreates] at hc
  | _ => simp [ownCreates] at hc

/-- nothing is created "here" -/
theorem creates_ne_nil (v : JV) : ∀ (x : List Frag), NoDescent x → ∀ (d : JV), WF d → ∀ c ∈ createsG σ v x d, c.1 ≠ []
  | [], _, _, _, c, hc => by simp [createsG] at hc
  | f :: r, hnd, d, hw, c, hc => by
    rw [creates_cons] at hc
    rcases List.mem_append.1 hc with hc | hc
    · obtain ⟨k, hk⟩ := ownCreates_shape v f r d c hc
      rw [hk]; simp
    · obtain ⟨m, hm, hc'⟩ := List.mem_flatMap.1 hc
      obtain ⟨c0, _, rfl⟩ := List.mem_map.1 hc'
      obtain ⟨l, hl, _⟩ := Shape_of (σ := σ) f d (hnd f (by simp)) (WF_top d hw) m hm
      simp [preC, hl]

/-! ## a fragment selects a member at most once -/

theorem elemsFrom_paths (xs : List JV) (o : Nat) : (elemsFrom o xs).map (·.1) = (List.range' o xs.length).map fun j => [Loc.idx j] := by
  induction xs generalizing o with
  | nil => rfl
  | cons x r ih => simp [elemsFrom, List.range'_succ, ih (o + 1)]

theorem selMember_paths_le (d : JV) (mb : Member) : (selMember d mb).map (·.1) = ((memberLoc d mb).toList.filter fun l => (child? l d).isSome).map fun l => [l] := by
  cases mb with
  | key k =>
    cases d with
    | obj kvs =>
      simp only [selMember, memberLoc, Option.toList_some]
      cases hl : lookup k kvs <;> simp [child?, hl]
    | arr xs => simp [selMember, memberLoc, child?]
    | _ => simp [selMember, memberLoc, child?]
  | idx i =>
    cases d with
    | arr xs =>
      simp only [selMember, memberLoc]
      cases ha : absIdx xs.length i with
      | none => simp
      | some j =>
        simp only [Option.map_some, Option.toList_some]
        cases hx : xs[j]? <;> simp [child?, hx]
    | obj kvs => simp [selMember, memberLoc]
    | _ => simp [selMember, memberLoc]

theorem sel_union_paths (ms : List Member) (d : JV) :
    (selG σ (.union ms) d).map (·.1) = ((unionLocs ms d).filter fun l => (child? l d).isSome).map fun l => [l] := by
  simp only [selG, sel, unionLocs]
  induction ms with
  | nil => rfl
  | cons mb r ih =>
    simp only [List.flatMap_cons, List.map_append, ih, selMember_paths_le, List.filterMap_cons]
    cases memberLoc d mb with
    | none => simp
    | some l =>
      simp only [Option.toList_some]
      by_cases hc : (child? l d).isSome = true <;> simp [List.filter_cons, hc]

theorem sel_wild_nodup (d : JV) (hw : TopNodup d) : ((selG σ .wild d).map (·.1)).Nodup := by
  cases d with
  | arr xs =>
    simp only [selG, sel, members, elemsFrom_paths]
    exact nodup_map_inj _ (fun a b h => by injection h with h; injection h) List.nodup_range'
  | obj kvs =>
    simp only [selG, sel, members, List.map_map]
    have : (kvs.map ((fun m => m.1) ∘ fun m => ([Loc.key m.1], m.2))) = (keysOf kvs).map fun k => [Loc.key k] := by
      simp [keysOf, List.map_map, Function.comp_def]
    rw [this]
    exact nodup_map_inj _ (fun a b h => by injection h with h; injection h) hw
  | _ => simp [selG, sel, members]

/-- the locations a fragment selects in a value are pairwise different (for a union: when it lists no member twice) -/
theorem sel_paths_nodup (dev : Dev) (f : Frag) (d : JV) (hw : TopNodup d) (hg : GoodAtS σ dev f d) : ((selG σ f d).map (·.1)).Nodup := by
  have hsing : ∀ a b : Loc, [a] = [b] → a = b := fun a b h => by injection h
  cases f with
  | descent => cases hg
  | child k =>
    simp only [selG, sel]
    rw [selMember_paths_le]
    exact nodup_map_inj _ hsing ((memberLoc_toList_nodup d _).sublist List.filter_sublist)
  | nth i =>
    simp only [selG, sel]
    rw [selMember_paths_le]
    exact nodup_map_inj _ hsing ((memberLoc_toList_nodup d _).sublist List.filter_sublist)
  | wild => exact sel_wild_nodup (σ := σ) d hw
  | union ms =>
    rw [sel_union_paths]
    exact nodup_map_inj _ hsing (List.Nodup.sublist List.filter_sublist hg)
  | slice s e t =>
    cases d with
    | arr xs =>
      simp only [selG, sel]
      have : ((σ xs.length s e t).flatMap fun j => (xs[j]?).toList.map fun c => ([Loc.idx j], c)).map (·.1) =
          ((σ xs.length s e t).filter fun j => (xs[j]?).isSome).map fun j => [Loc.idx j] := by
        induction σ xs.length s e t with
        | nil => rfl
        | cons j r ih =>
          simp only [List.flatMap_cons, List.map_append, ih]
          cases hx : xs[j]? <;> simp [hx]
      rw [this]
      exact nodup_map_inj _ (fun a b h => by injection h with h; injection h)
        ((NodupSlice.nodup _ s e t).sublist List.filter_sublist)
    | _ => simp [selG, sel]
  | filter p =>
    have hwild := sel_wild_nodup (σ := σ) d hw
    simp only [selG, sel] at hwild ⊢
    exact List.Nodup.sublist (List.Sublist.map _ List.filter_sublist) hwild

/-! ## one level of the specification of Set -/

theorem updAll_mapKids (m : JV → JV) (T : List Path) (hn : hasNil T = false) (G : Loc → JV → JV) (d : JV) :
    updAll m T (mapKids G d) = mapKids (fun l c => updAll m (strip l T) (G l c)) d := by
  rw [updAll_eq, hn]
  simp only [Bool.false_eq_true, if_false]
  rw [mapKids_comp]

/-- one level of `setSpecG σ` where the fragment itself createsG σ nothing: the selected members get what the
specification says for the rest of the path, the others stay -/
theorem setSpec_level (dev : Dev) (v : JV) (f g : Frag) (r : List Frag) (d : JV) (hw : WF d) (hnd : NoDescent (f :: g :: r))
    (hgood : GoodAtS σ dev f d) (hown : ownCreates v f (g :: r) d = []) (G : Loc → JV → JV)
    (hG1 : ∀ l c, child? l d = some c → ([l], c) ∈ selG σ f d → G l c = setSpecG σ (g :: r) v c)
    (hG2 : ∀ l c, child? l d = some c → ([l], c) ∉ selG σ f d → G l c = c) :
    setSpecG σ (f :: g :: r) v d = mapKids G d := by
  have hndf : isDescentF f = false := hnd f (by simp)
  have hndr : NoDescent (g :: r) := fun g' hg' => hnd g' (List.mem_cons_of_mem _ hg')
  have hs := Shape_of (σ := σ) f d hndf (WF_top d hw)
  have hsing : ∀ m ∈ selG σ f d, ∃ l', m.1 = [l'] := fun m hm => by obtain ⟨l, hl, _⟩ := hs m hm; exact ⟨l, hl⟩
  have hsn := sel_paths_nodup (σ := σ) dev f d (WF_top d hw) hgood
  simp only [setSpecG]
  rw [creates_cons, hown, List.nil_append]
  have hnk := nested_not_key (fun m => createsG σ v (g :: r) m.2) (selG σ f d) hsing (by
    intro m hm c hc
    obtain ⟨l, _, hcl⟩ := hs m hm
    exact creates_ne_nil (σ := σ) v (g :: r) hndr m.2 (WF_child l d m.2 hw hcl) c hc)
  rw [insAll_inner _ hnk, updAll_mapKids _ _ (hasNil_locs_cons (σ := σ) f (g :: r) d hs)]
  apply mapKids_congr d (WF_top d hw)
  intro l c hc
  by_cases hsel : ([l], c) ∈ selG σ f d
  · rw [hG1 l c hc hsel, updAll_congr _ _ _ _ (strip_locs_sel (σ := σ) f (g :: r) d hs l c hc hsel),
      stripC_nested (fun m => createsG σ v (g :: r) m.2) l (selG σ f d) hsn hsing ([l], c) hsel rfl]
    rfl
  · rw [hG2 l c hc hsel, updAll_congr _ _ _ _ (strip_locs_not (σ := σ) f (g :: r) d hs l c hc hsel), updAll_nil,
      stripC_nested_none (fun m => createsG σ v (g :: r) m.2) l (selG σ f d) hsing (by
        intro m hm e
        obtain ⟨l', hl', hc'⟩ := hs m hm
        rw [hl'] at e
        injection e with e _
        subst e
        rw [hc] at hc'; injection hc' with hc'
        exact hsel (by rw [hc']; cases m; simp_all)), insAll_nil]

/-! ## creation -/

theorem kvInsert_absent (k : Bytes) (v : JV) : ∀ (kvs : List (Bytes × JV)), lookup k kvs = none → kvInsert k v kvs = kvs ++ [(k, v)]
  | [], _ => rfl
  | m :: r, h => by
    cases m with
    | mk k' v' =>
    simp only [lookup] at h
    by_cases e : k' = k
    · simp [e] at h
    · simp only [e, if_false] at h
      simp [kvInsert, e, kvInsert_absent k v r h]

theorem creates_single (v : JV) (f : Frag) (d : JV) : createsG σ v [f] d = ownCreates v f [] d := by
  simp only [createsG]
  have : ((selG σ f d).flatMap fun m => (([] : List (Path × JV))).map fun c => (m.1 ++ c.1, c.2)) = [] := by
    induction selG σ f d with
    | nil => rfl
    | cons a r ih => simp [ih]
  rw [this, List.append_nil]

/-- adding one member `k` that the object does not have -/
theorem insAll_new_key (k : Bytes) (s : JV) (kvs : List (Bytes × JV)) (h : lookup k kvs = none) :
    insAll [([Loc.key k], s)] (.obj kvs) = .obj (kvs ++ [(k, s)]) := by
  simp only [insAll, insObj_eq, newMembers, h, Option.isNone_none, if_true]
  congr 2
  have : ∀ kv ∈ kvs, (kv.1, insAll (stripC (.key kv.1) [([Loc.key k], s)]) kv.2) = kv := by
    intro kv hkv
    have hne : kv.1 ≠ k := by
      intro e
      have := lookup_isSome_mem kvs kv.1 kv.2
      have hmem : k ∈ keysOf kvs := by rw [← e]; exact List.mem_map_of_mem (f := (·.1)) hkv
      -- a key that is looked up without success is not a member name
      have : ∀ (kvs : List (Bytes × JV)), lookup k kvs = none → k ∉ keysOf kvs := by
        intro kvs
        induction kvs with
        | nil => intro _ h; cases h
        | cons m r ih =>
          intro hl hm
          simp only [lookup] at hl
          by_cases e' : m.1 = k
          · simp [e'] at hl
          · simp only [e', if_false] at hl
            simp only [keysOf, List.map_cons, List.mem_cons] at hm
            rcases hm with hm | hm
            · exact e' hm.symm
            · exact ih hl hm
      exact this kvs h hmem
    have hk : Loc.key k ≠ Loc.key kv.1 := by intro e; injection e with e; exact hne e.symm
    simp [stripC, hk, insAll_nil]
  calc kvs.map (fun kv => (kv.1, insAll (stripC (.key kv.1) [([Loc.key k], s)]) kv.2)) = kvs.map id := by
        apply List.map_congr_left; intro kv hkv; exact this kv hkv
    _ = kvs := by simp

/-- one level of `setSpecG σ`: a name that finds no member createsG σ it -/
theorem setSpec_create (v : JV) (k : Bytes) (rest : List Frag) (kvs : List (Bytes × JV)) (h : lookup k kvs = none) :
    setSpecG σ (.child k :: rest) v (.obj kvs) =
      match skel rest v with
      | some s => .obj (kvs ++ [(k, s)])
      | none => .obj kvs := by
  have hsel : selG σ (.child k) (.obj kvs) = [] := by simp [selG, sel, selMember, h]
  simp only [setSpecG, locs_nosel (σ := σ) (.child k) rest (.obj kvs) hsel, updAll_nil, creates_cons, hsel, List.flatMap_nil,
    List.append_nil, ownCreates, h, Option.isNone_none, if_true]
  cases skel rest v with
  | none => simp [insAll_nil]
  | some s => simp [insAll_new_key k s kvs h]

/-! ## the chain the model builds is the chain the specification names -/

theorem replicate_set_last (v : JV) : ∀ (i : Nat), (List.replicate (i + 1) JV.null).set i v = List.replicate i JV.null ++ [v]
  | 0 => rfl
  | n + 1 => by
    have ih := replicate_set_last v n
    rw [List.replicate_succ, List.set_cons_succ, ih, List.replicate_succ]
    rfl

theorem absIdx_replicate (i : Int) (h : 0 ≤ i) : absIdx (i.toNat + 1) i = some i.toNat := by
  have hn : ¬ i < 0 := by omega
  have e : ((i.toNat + 1 : Nat) : Int) = i + 1 := by
    rw [Int.natCast_add, Int.toNat_of_nonneg h]; rfl
  simp only [absIdx, hn, if_false, e]
  have : 0 ≤ i ∧ i < i + 1 := by omega
  simp [this]

theorem setF_child_eq (gen : Bool) (dev : Dev) (one : Bool) (a : SetArg) (key : Bytes) (g : Frag) (r : List Frag) (fl : Bool)
    (kvs : List (Bytes × JV)) :
    setF gen dev one a (.child key :: g :: r) fl (.obj kvs) =
      match lookup key kvs with
      | some c => setFollow (.key key) c (setF gen dev one a (g :: r)) (.obj kvs)
      | none => setCreate a key (g :: r) (setF gen dev one a (g :: r)) kvs := rfl

theorem setF_nth_eq (gen : Bool) (dev : Dev) (one : Bool) (a : SetArg) (i : Int) (g : Frag) (r : List Frag) (fl : Bool)
    (xs : List JV) :
    setF gen dev one a (.nth i :: g :: r) fl (.arr xs) =
      match absIdx xs.length i with
      | some j =>
        match xs[j]? with
        | some c => setFollow (.idx j) c (setF gen dev one a (g :: r)) (.arr xs)
        | none => ⟨.arr xs, .err .outOfBounds⟩
      | none => ⟨.arr xs, .err .outOfBounds⟩ := rfl

theorem setF_single_eq (gen : Bool) (dev : Dev) (one : Bool) (a : SetArg) (f : Frag) (hf : isDescentF f = false) (fl : Bool) (d : JV) :
    setF gen dev one a [f] fl d = setLast gen dev one a f d := by
  cases f <;> simp_all [setF, isDescentF]

/-- the array the model createsG σ for `[i]` -/
theorem chain_arr (dev : Dev) (v : JV) (i : Int) (r : List Frag) (fl : Bool) (hi : 0 ≤ i)
    (hst : (setF false dev false (.val v) (.nth i :: r) fl (.arr (List.replicate (i.toNat + 1) .null))).st = .go) :
    skel (.nth i :: r) v = some (setF false dev false (.val v) (.nth i :: r) fl (.arr (List.replicate (i.toNat + 1) .null))).d := by
  cases r with
  | nil =>
    rw [setF_single_eq _ _ _ _ _ rfl]
    simp only [setLast, List.length_replicate, absIdx_replicate i hi, skel, hi, true_and, SetArg.elem, replicate_set_last,
      List.isEmpty_nil, if_true]
  | cons g r' =>
    rw [setF_nth_eq] at hst
    simp only [List.length_replicate, absIdx_replicate i hi] at hst
    have : (List.replicate (i.toNat + 1) JV.null)[i.toNat]? = some JV.null := by simp
    simp only [this, setFollow, isContainer, Bool.false_eq_true, if_false] at hst
    cases hst

/-- the objects the model createsG σ along names -/
theorem chain_obj (dev : Dev) (v : JV) : ∀ (rest : List Frag) (k : Bytes) (fl : Bool),
    (setF false dev false (.val v) (.child k :: rest) fl (.obj [])).st = .go →
    skel (.child k :: rest) v = some (setF false dev false (.val v) (.child k :: rest) fl (.obj [])).d
  | [], k, fl, _ => by
    rw [setF_single_eq _ _ _ _ _ rfl]
    simp [setLast, writeKey, kvInsert, skel]
  | g :: r, k, fl, hst => by
    rw [setF_child_eq] at hst ⊢
    simp only [lookup, setCreate, List.head?_cons] at hst ⊢
    cases g with
    | child k' =>
      simp only at hst ⊢
      have ih := chain_obj dev v r k' false hst
      simp only [skel] at ih ⊢
      rw [ih]
      simp [kvInsert]
    | nth i =>
      simp only at hst ⊢
      by_cases hi : i < 0
      · simp [hi] at hst
      · simp only [hi, if_false] at hst ⊢
        have ih := chain_arr dev v i r false (by omega) hst
        simp only [skel] at ih ⊢
        rw [ih]
        simp [kvInsert]
    | wild => simp at hst
    | descent => simp at hst
    | union ms => simp at hst
    | slice s e t => simp at hst
    | filter p => simp at hst

/-! ## the last fragment of Set -/

/-- the last level of an edit: the selected members get `g`, the others stay -/
theorem updAll_last (g : JV → JV) (f : Frag) (d : JV) (hw : TopNodup d) (hs : Shape σ f d) (G : Loc → JV → JV)
    (hG1 : ∀ l c, child? l d = some c → ([l], c) ∈ selG σ f d → G l c = g c)
    (hG2 : ∀ l c, child? l d = some c → ([l], c) ∉ selG σ f d → G l c = c) :
    updAll g (locsG σ [f] d) d = mapKids G d := by
  rw [updAll_eq, hasNil_locs_cons (σ := σ) f [] d hs]
  simp only [Bool.false_eq_true, if_false]
  apply mapKids_congr d hw
  intro l c hc
  by_cases hsel : ([l], c) ∈ selG σ f d
  · rw [updAll_congr g c _ _ (strip_locs_sel (σ := σ) f [] d hs l c hc hsel), locs_nil, updAll_here, hG1 l c hc hsel]
  · rw [updAll_congr g c _ _ (strip_locs_not (σ := σ) f [] d hs l c hc hsel), updAll_nil, hG2 l c hc hsel]

theorem setSpec_last_plain (v : JV) (f : Frag) (d : JV) (h : ownCreates v f [] d = []) :
    setSpecG σ [f] v d = updAll (fun _ => v) (locsG σ [f] d) d := by
  simp only [setSpecG, creates_single, h, insAll_nil]

theorem setSpec_nosel (v : JV) (f : Frag) (d : JV) (h : ownCreates v f [] d = []) (hs : selG σ f d = []) : setSpecG σ [f] v d = d := by
  rw [setSpec_last_plain v f d h, locs_nosel (σ := σ) f [] d hs, updAll_nil]

def insKeys (v : JV) : List Bytes → List (Bytes × JV) → List (Bytes × JV)
  | [], kvs => kvs
  | k :: ks, kvs => insKeys v ks (kvInsert k v kvs)

theorem setLastUnion_val_obj (dev : Dev) (v : JV) : ∀ (ms : List Member) (kvs : List (Bytes × JV)),
    setLastUnion false dev false (.val v) ms (.obj kvs) = ⟨.obj (insKeys v (unionKeys ms) kvs), .go⟩
  | [], kvs => rfl
  | .key k :: ms, kvs => by
    simp only [setLastUnion, Bool.false_eq_true, if_false, writeKey, unionKeys, insKeys]
    exact setLastUnion_val_obj dev v ms _
  | .idx i :: ms, kvs => by
    simp only [setLastUnion, unionKeys]
    exact setLastUnion_val_obj dev v ms _

theorem lookup_none_iff (k : Bytes) : ∀ (kvs : List (Bytes × JV)), lookup k kvs = none ↔ k ∉ keysOf kvs
  | [] => by simp [lookup, keysOf]
  | m :: r => by
    simp only [lookup, keysOf, List.map_cons, List.mem_cons, not_or]
    by_cases e : m.1 = k
    · simp [e]
    · have := lookup_none_iff k r
      simp only [keysOf] at this
      have e' : ¬ k = m.1 := fun h => e h.symm
      simp only [e, if_false, this, e', not_false_eq_true, true_and]

theorem newMembers_congr (C : List (Path × JV)) : ∀ (A B : List (Bytes × JV)), keysOf A = keysOf B → newMembers A C = newMembers B C := by
  induction C with
  | nil => intro A B _; rfl
  | cons c r ih =>
    intro A B h
    have hl : ∀ k, (lookup k A).isNone = (lookup k B).isNone := by
      intro k
      have h1 := lookup_none_iff k A
      have h2 := lookup_none_iff k B
      rw [h] at h1
      cases ha : lookup k A <;> cases hb : lookup k B <;> simp_all
    cases c with
    | mk p s =>
      cases p with
      | nil => simp only [newMembers]; exact ih A B h
      | cons l q =>
        cases q with
        | cons l2 q2 => simp only [newMembers]; exact ih A B h
        | nil =>
          cases l with
          | idx i => simp only [newMembers]; exact ih A B h
          | key k =>
            simp only [newMembers, hl k]
            split
            · rw [ih (A ++ [(k, s)]) (B ++ [(k, s)]) (by simp [keysOf, List.map_append] at h ⊢; exact h)]
            · exact ih A B h

theorem keysOf_map_snd (kvs : List (Bytes × JV)) (g : Bytes × JV → JV) : keysOf (kvs.map fun kv => (kv.1, g kv)) = keysOf kvs := by
  simp [keysOf, List.map_map, Function.comp_def]

/-- the names a union writes one after the other: the members that exist get the value, the others are added in
listed order -/
theorem insKeys_eq (v : JV) : ∀ (ks : List Bytes) (kvs : List (Bytes × JV)), ks.Nodup → (keysOf kvs).Nodup →
    insKeys v ks kvs = (kvs.map fun kv => (kv.1, if kv.1 ∈ ks then v else kv.2)) ++
      newMembers kvs ((ks.filter fun k => (lookup k kvs).isNone).map fun k => ([Loc.key k], v))
  | [], kvs, _, _ => by simp [insKeys, newMembers]
  | k :: ks, kvs, hn, hk => by
    have hn' := List.nodup_cons.1 hn
    simp only [insKeys]
    cases hl : lookup k kvs with
    | some c =>
      have hmem := lookup_isSome_mem kvs k c hl
      rw [kvInsert_eq_map k v kvs hk hmem]
      have hk1 : (keysOf (kvs.map fun m => (m.1, if Loc.key m.1 = Loc.key k then v else m.2))).Nodup := by
        rw [keysOf_map_snd kvs (fun m => if Loc.key m.1 = Loc.key k then v else m.2)]; exact hk
      rw [insKeys_eq v ks _ hn'.2 hk1, List.map_map]
      congr 1
      · apply List.map_congr_left
        intro kv _
        simp only [Function.comp_def, List.mem_cons]
        by_cases e : kv.1 = k
        · simp [e]
        · have : Loc.key kv.1 ≠ Loc.key k := by intro h; injection h with h; exact e h
          simp [e, this]
      · have hkeys : keysOf (kvs.map fun m => (m.1, if Loc.key m.1 = Loc.key k then v else m.2)) = keysOf kvs :=
          keysOf_map_snd kvs (fun m => if Loc.key m.1 = Loc.key k then v else m.2)
        rw [newMembers_congr _ _ kvs hkeys]
        congr 2
        have hf : ∀ k', (lookup k' (kvs.map fun m => (m.1, if Loc.key m.1 = Loc.key k then v else m.2))).isNone = (lookup k' kvs).isNone := by
          intro k'
          have h1 := lookup_none_iff k' (kvs.map fun m => (m.1, if Loc.key m.1 = Loc.key k then v else m.2))
          have h2 := lookup_none_iff k' kvs
          rw [hkeys] at h1
          cases ha : lookup k' (kvs.map fun m => (m.1, if Loc.key m.1 = Loc.key k then v else m.2)) <;> cases hb : lookup k' kvs <;> simp_all
        simp only [List.filter_cons, hl, Option.isNone_some, Bool.false_eq_true, if_false]
        apply List.filter_congr
        intro k' _
        exact hf k'
    | none =>
      rw [kvInsert_absent k v kvs hl]
      have hknot : k ∉ keysOf kvs := (lookup_none_iff k kvs).1 hl
      have hk1 : (keysOf (kvs ++ [(k, v)])).Nodup := by
        simp only [keysOf, List.map_append, List.map_cons, List.map_nil]
        rw [List.nodup_append]
        refine ⟨hk, by simp, ?_⟩
        intro a ha b hb
        simp only [List.mem_singleton] at hb
        rw [hb]
        intro e; rw [e] at ha; exact hknot ha
      rw [insKeys_eq v ks _ hn'.2 hk1]
      simp only [List.map_append, List.map_cons, List.map_nil, List.filter_cons, hl, Option.isNone_none, if_true, newMembers,
        List.append_assoc, List.singleton_append, ite_self]
      congr 1
      · apply List.map_congr_left
        intro kv hkv
        have : kv.1 ≠ k := by intro e; exact hknot (by rw [← e]; exact List.mem_map_of_mem (f := (·.1)) hkv)
        simp [this]
      · congr 3
        apply List.filter_congr
        intro k' hk'
        have hne : k' ≠ k := by intro e; rw [e] at hk'; exact hn'.1 hk'
        have h1 := lookup_none_iff k' (kvs ++ [(k, v)])
        have h2 := lookup_none_iff k' kvs
        simp only [keysOf, List.map_append, List.map_cons, List.map_nil, List.mem_append, List.mem_singleton] at h1
        simp only [keysOf] at h2
        cases ha : lookup k' (kvs ++ [(k, v)]) <;> cases hb : lookup k' kvs <;> simp_all

theorem unionKeys_locs (ms : List Member) (kvs : List (Bytes × JV)) : unionLocs ms (.obj kvs) = (unionKeys ms).map Loc.key := by
  simp only [unionLocs]
  induction ms with
  | nil => rfl
  | cons mb r ih =>
    cases mb with
    | key k => simp only [List.filterMap_cons, memberLoc, unionKeys, List.map_cons, ih]
    | idx i => simp only [List.filterMap_cons, memberLoc, unionKeys]; exact ih

theorem unionKeys_nodup (ms : List Member) (kvs : List (Bytes × JV)) (h : (unionLocs ms (.obj kvs)).Nodup) : (unionKeys ms).Nodup := by
  rw [unionKeys_locs] at h
  exact (List.pairwise_map.1 h).imp (fun hab e => hab (by rw [e]))

theorem mem_unionKeys (ms : List Member) (k : Bytes) : k ∈ unionKeys ms ↔ hasKey ms k = true := by
  induction ms with
  | nil => simp [unionKeys, hasKey]
  | cons mb r ih =>
    cases mb with
    | key k' =>
      simp only [unionKeys, List.mem_cons, ih, hasKey, List.any_cons, Bool.or_eq_true, decide_eq_true_eq]
      constructor
      · rintro (h | h)
        · exact Or.inl h.symm
        · exact Or.inr h
      · rintro (h | h)
        · exact Or.inl h.symm
        · exact Or.inr h
    | idx i => simp only [unionKeys, ih, hasKey, List.any_cons, Bool.false_or]

theorem newMembers_absent (kvs : List (Bytes × JV)) : ∀ (C : List (Path × JV)) (A : List (Bytes × JV)),
    (∀ c ∈ C, ∃ k, c.1 = [Loc.key k] ∧ lookup k kvs = none) → ∀ kv ∈ newMembers A C, lookup kv.1 kvs = none
  | [], _, _, kv, h => by cases h
  | c :: r, A, hC, kv, h => by
    have hr : ∀ c' ∈ r, ∃ k, c'.1 = [Loc.key k] ∧ lookup k kvs = none := fun c' hc' => hC c' (List.mem_cons_of_mem _ hc')
    obtain ⟨k, hk1, hk2⟩ := hC c (by simp)
    cases c with
    | mk p s =>
      simp only at hk1
      subst hk1
      simp only [newMembers] at h
      split at h
      · rcases List.mem_cons.1 h with rfl | h
        · exact hk2
        · exact newMembers_absent kvs r _ hr kv h
      · exact newMembers_absent kvs r _ hr kv h

/-- the last level of `setSpecG σ` for a union on an object: the listed members that exist get the value, the
others are added in listed order -/
theorem setSpec_union_obj (v : JV) (ms : List Member) (kvs : List (Bytes × JV)) (hw : (keysOf kvs).Nodup) :
    setSpecG σ [.union ms] v (.obj kvs) =
      .obj ((kvs.map fun kv => (kv.1, if kv.1 ∈ unionKeys ms then v else kv.2)) ++
        newMembers kvs (((unionKeys ms).filter fun k => (lookup k kvs).isNone).map fun k => ([Loc.key k], v))) := by
  have hs := Shape_of (σ := σ) (.union ms) (.obj kvs) rfl hw
  simp only [setSpecG, creates_single, ownCreates, List.isEmpty_nil, if_true]
  generalize hC : (((unionKeys ms).filter fun k => (lookup k kvs).isNone).map fun k => ([Loc.key k], v)) = C
  have hCabs : ∀ c ∈ C, ∃ k, c.1 = [Loc.key k] ∧ lookup k kvs = none := by
    intro c hc
    rw [← hC] at hc
    obtain ⟨k, hk, rfl⟩ := List.mem_map.1 hc
    simp only [List.mem_filter, Option.isNone_iff_eq_none] at hk
    exact ⟨k, rfl, hk.2⟩
  have hins : insObj C kvs = kvs := by
    rw [insObj_eq]
    calc kvs.map (fun kv => (kv.1, insAll (stripC (.key kv.1) C) kv.2)) = kvs.map id := by
          apply List.map_congr_left
          intro kv hkv
          have hstrip : stripC (.key kv.1) C = [] := by
            cases hsc : stripC (.key kv.1) C with
            | nil => rfl
            | cons a r =>
              have : a ∈ stripC (.key kv.1) C := by rw [hsc]; simp
              simp only [stripC, List.mem_filterMap] at this
              obtain ⟨c, hc, hcm⟩ := this
              obtain ⟨k, hk1, hk2⟩ := hCabs c hc
              rw [hk1] at hcm
              by_cases e : Loc.key k = Loc.key kv.1
              · injection e with e
                have := lookup_of_mem_nodup kvs hw kv hkv
                rw [← e, hk2] at this; cases this
              · simp [e] at hcm
          simp [hstrip, insAll_nil]
      _ = kvs := by simp
  simp only [insAll, hins]
  rw [updAll_eq, hasNil_locs_cons (σ := σ) (.union ms) [] (.obj kvs) hs]
  simp only [Bool.false_eq_true, if_false, mapKids, List.map_append]
  congr 2
  · apply List.map_congr_left
    intro kv hkv
    have hlk := lookup_of_mem_nodup kvs hw kv hkv
    have hc : child? (.key kv.1) (.obj kvs) = some kv.2 := hlk
    by_cases hsel : ([Loc.key kv.1], kv.2) ∈ selG σ (.union ms) (.obj kvs)
    · have : kv.1 ∈ unionKeys ms := by
        have := (union_mem (σ := σ) ms (.obj kvs) (.key kv.1) kv.2 hc).2 hsel
        rw [unionKeys_locs] at this
        obtain ⟨k, hk, e⟩ := List.mem_map.1 this
        injection e with e
        rw [← e]; exact hk
      simp only [this, if_true]
      rw [updAll_congr _ _ _ _ (strip_locs_sel (σ := σ) (.union ms) [] (.obj kvs) hs (.key kv.1) kv.2 hc hsel), locs_nil, updAll_here]
    · have : kv.1 ∉ unionKeys ms := by
        intro h
        apply hsel
        apply (union_mem (σ := σ) ms (.obj kvs) (.key kv.1) kv.2 hc).1
        rw [unionKeys_locs]
        exact List.mem_map_of_mem h
      simp only [this, if_false]
      rw [updAll_congr _ _ _ _ (strip_locs_not (σ := σ) (.union ms) [] (.obj kvs) hs (.key kv.1) kv.2 hc hsel), updAll_nil]
  · -- the added members are not selected
    calc (newMembers kvs C).map (fun m => (m.1, updAll (fun _ => v) (strip (.key m.1) (locsG σ [.union ms] (.obj kvs))) m.2))
        = (newMembers kvs C).map id := by
          apply List.map_congr_left
          intro kv hkv
          have habs := newMembers_absent kvs C kvs hCabs kv hkv
          have hstrip : strip (.key kv.1) (locsG σ [.union ms] (.obj kvs)) = [] := by
            cases hst : strip (.key kv.1) (locsG σ [.union ms] (.obj kvs)) with
            | nil => rfl
            | cons q r =>
              have hq : q ∈ strip (.key kv.1) (locsG σ [.union ms] (.obj kvs)) := by rw [hst]; simp
              obtain ⟨m, hm, q', _, e⟩ := (mem_locs_cons (σ := σ) (.union ms) [] (.obj kvs) _).1 ((mem_strip _ _ q).1 hq)
              obtain ⟨l, hl, hc⟩ := hs m hm
              rw [hl] at e
              simp only [List.singleton_append, List.cons.injEq] at e
              rw [← e.1] at hc
              simp only [child?, habs] at hc
              cases hc
          simp [hstrip, updAll_nil]
      _ = newMembers kvs C := by simp

theorem map_snd_eq_mapKids (v : JV) (kvs : List (Bytes × JV)) :
    JV.obj (kvs.map fun m => (m.1, v)) = mapKids (fun _ _ => v) (.obj kvs) := rfl

theorem setLastUnion_scalar (gen : Bool) (dev : Dev) (one : Bool) (a : SetArg) : ∀ (ms : List Member) (c : JV),
    isContainer c = false → setLastUnion gen dev one a ms c = ⟨c, .go⟩ := by
  intro ms
  induction ms with
  | nil => intro c _; rfl
  | cons mb r ih =>
    intro c hc
    cases mb <;> cases c <;> simp_all [setLastUnion, isContainer]

theorem setLast_scalar (gen : Bool) (dev : Dev) (one : Bool) (a : SetArg) (f : Frag) (d : JV) (hd : isContainer d = false) :
    setLast gen dev one a f d = ⟨d, .go⟩ := by
  cases f with
  | union ms => simp only [setLast]; exact setLastUnion_scalar gen dev one a ms d hd
  | child k => cases d <;> simp_all [setLast, isContainer]
  | nth i => cases d <;> simp_all [setLast, isContainer]
  | wild => cases d <;> simp_all [setLast, isContainer]
  | descent => rfl
  | slice s e t => rfl
  | filter p => rfl

theorem ownCreates_scalar (v : JV) (f : Frag) (r : List Frag) (d : JV) (hd : isContainer d = false) : ownCreates v f r d = [] := by
  cases f <;> cases d <;> simp_all [ownCreates, isContainer]

/-- the last fragment of Set: the selected members hold the new value, a name that finds no member adds it -/
theorem setLast_set (dev : Dev) (v : JV) (f : Frag) (d : JV) (hw : TopNodup d) (he : endable f = true) (hg : GoodAtS σ dev f d)
    (hst : (setLast false dev false (.val v) f d).st = .go) :
    (setLast false dev false (.val v) f d).d = setSpecG σ [f] v d := by
  by_cases hcont : isContainer d = true
  case neg =>
    have hd : isContainer d = false := by simpa using hcont
    have hndf : isDescentF f = false := by cases f <;> simp_all [endable, isDescentF]
    rw [setLast_scalar _ _ _ _ f d hd]
    exact (setSpec_nosel v f d (ownCreates_scalar v f [] d hd) (sel_scalar (σ := σ) f d hndf hd)).symm
  cases f with
  | descent => simp [endable] at he
  | slice s e t => simp [endable] at he
  | filter p => simp [endable] at he
  | child k =>
    cases d with
    | obj kvs =>
      simp only [setLast, writeKey]
      cases hl : lookup k kvs with
      | none =>
        rw [kvInsert_absent k v kvs hl, setSpec_create v k [] kvs hl]
        simp [skel]
      | some c =>
        have hs := Shape_of (σ := σ) (.child k) (.obj kvs) rfl hw
        have hc : child? (.key k) (.obj kvs) = some c := hl
        have := putChild_eq_mapKids (.key k) v (.obj kvs) c hw hc
        simp only [putChild] at this
        rw [this, setSpec_last_plain v _ _ (by simp [ownCreates, hl])]
        symm
        apply updAll_last _ (.child k) _ hw hs
        · intro l c' hc' hsel
          have := (stepsOK_child (σ := σ) k (.obj kvs)).mem l c' hc'
          simp only [List.mem_singleton] at this
          simp [this.2 hsel]
        · intro l c' hc' hsel
          have := (stepsOK_child (σ := σ) k (.obj kvs)).mem l c' hc'
          simp only [List.mem_singleton] at this
          have : l ≠ .key k := fun e => hsel (this.1 e)
          simp [this]
    | arr xs =>
      have : (setLast false dev false (.val v) (.child k) (.arr xs)).d = .arr xs := rfl
      rw [this]; exact (setSpec_nosel v _ _ (by simp [ownCreates]) (by simp [selG, sel, selMember])).symm
    | _ => simp [isContainer] at hcont
  | nth i =>
    cases d with
    | arr xs =>
      have hs := Shape_of (σ := σ) (.nth i) (.arr xs) rfl hw
      simp only [setLast] at hst ⊢
      cases ha : absIdx xs.length i with
      | none => simp [ha] at hst
      | some j =>
        simp only [ha]
        have hj : j < xs.length := absIdx_lt _ _ _ ha
        obtain ⟨c0, hc0⟩ : ∃ c0, child? (.idx j) (.arr xs) = some c0 := ⟨xs[j], by simp [child?, hj]⟩
        have := putChild_eq_mapKids (.idx j) (SetArg.val v).elem (.arr xs) c0 trivial hc0
        simp only [putChild] at this
        rw [this, setSpec_last_plain v _ _ (by simp [ownCreates])]
        symm
        apply updAll_last _ (.nth i) _ hw hs
        · intro l c' hc' hsel
          have := ((stepsOK_nth (σ := σ) i (.arr xs)).mem l c' hc').2 hsel
          simp only [memberLoc, ha, Option.map_some, Option.toList_some, List.mem_singleton] at this
          simp [this, SetArg.elem]
        · intro l c' hc' hsel
          have : l ≠ .idx j := by
            intro e
            apply hsel
            apply ((stepsOK_nth (σ := σ) i (.arr xs)).mem l c' hc').1
            simp [memberLoc, ha, e]
          simp [this]
    | obj kvs =>
      have : (setLast false dev false (.val v) (.nth i) (.obj kvs)).d = .obj kvs := rfl
      rw [this]; exact (setSpec_nosel v _ _ (by simp [ownCreates]) (by simp [selG, sel, selMember])).symm
    | _ => simp [isContainer] at hcont
  | wild =>
    cases d with
    | obj kvs =>
      have hs := Shape_of (σ := σ) .wild (.obj kvs) rfl hw
      simp only [setLast, SetArg.isDel, Bool.false_eq_true, if_false, SetArg.elem]
      rw [map_snd_eq_mapKids, setSpec_last_plain v _ _ (by simp [ownCreates])]
      symm
      apply updAll_last _ .wild _ hw hs
      · intro l c' _ _; rfl
      · intro l c' hc' hsel
        obtain ⟨k, rfl, hk⟩ := child?_obj_inv l kvs c' hc'
        exfalso; apply hsel
        apply ((stepsOK_wild (σ := σ) (.obj kvs) hw).mem (.key k) c' hc').1
        exact (mem_keyLocs kvs _).2 ⟨k, lookup_isSome_mem kvs k c' hk, rfl⟩
    | arr xs =>
      have hs := Shape_of (σ := σ) .wild (.arr xs) rfl hw
      simp only [setLast, Bool.false_eq_true, if_false, SetArg.elem]
      rw [map_const_eq_mapArr _ xs 0, setSpec_last_plain v _ _ (by simp [ownCreates])]
      symm
      apply updAll_last _ .wild _ hw hs (fun _ _ => v)
      · intro l c' _ _; rfl
      · intro l c' hc' hsel
        obtain ⟨j, rfl, hj⟩ := child?_arr_inv l xs c' hc'
        exfalso; apply hsel
        apply ((stepsOK_wild (σ := σ) (.arr xs) hw).mem (.idx j) c' hc').1
        exact (mem_idxLocs _ _).2 ⟨j, (List.getElem?_eq_some_iff.1 hj).1, rfl⟩
    | _ => simp [isContainer] at hcont
  | union ms =>
    cases d with
    | obj kvs =>
      simp only [setLast, setLastUnion_val_obj]
      rw [insKeys_eq v _ kvs (unionKeys_nodup ms kvs hg) hw, setSpec_union_obj v ms kvs hw]
    | arr xs =>
      have hs := Shape_of (σ := σ) (.union ms) (.arr xs) rfl hw
      simp only [setLast, setLastUnion_arr]
      rw [setSpec_last_plain v _ _ (by simp [ownCreates])]
      symm
      apply updAll_last _ (.union ms) _ hw hs
      · intro l c' hc' hsel
        have := (union_mem (σ := σ) ms (.arr xs) l c' hc').2 hsel
        simp [this, SetArg.elem]
      · intro l c' hc' hsel
        have : l ∉ unionLocs ms (.arr xs) := fun h => hsel ((union_mem (σ := σ) ms (.arr xs) l c' hc').1 h)
        simp [this]
    | _ => simp [isContainer] at hcont

/-! ## the main theorem for Set -/

theorem setSpec_nosel_cons (v : JV) (f : Frag) (rest : List Frag) (d : JV) (ho : ownCreates v f rest d = []) (hs : selG σ f d = []) :
    setSpecG σ (f :: rest) v d = d := by
  simp only [setSpecG, locs_nosel (σ := σ) f rest d hs, updAll_nil, creates_cons, ho, hs, List.flatMap_nil, List.append_nil, insAll_nil]

/-- the visit of the members an inner Wildcard, Union, Slice or Filter of set.go hands on, for Set -/
theorem setF_visit (dev : Dev) (v : JV) (f g : Frag) (r : List Frag) (d : JV) (hw : WF d) (hnd : NoDescent (f :: g :: r))
    (hgood : GoodAtS σ dev f d) (hown : ownCreates v f (g :: r) d = [])
    (hok : StepsOK σ (setSteps dev f d) f d)
    (hrec : ∀ l c, child? l d = some c → ([l], c) ∈ selG σ f d →
      (setF false dev false (.val v) (g :: r) false c).st = .go →
      (setF false dev false (.val v) (g :: r) false c).d = setSpecG σ (g :: r) v c)
    (hst : (visitD (contOnly f) dev.descentSiblings (setF false dev false (.val v) (g :: r)) false (setSteps dev f d) d).st = .go) :
    (visitD (contOnly f) dev.descentSiblings (setF false dev false (.val v) (g :: r)) false (setSteps dev f d) d).d =
      setSpecG σ (f :: g :: r) v d := by
  have hndg : isDescentF g = false := hnd g (by simp)
  have hk : ∀ fl c, setF false dev false (.val v) (g :: r) fl c = setF false dev false (.val v) (g :: r) false c :=
    fun fl c => setF_fl false dev false (.val v) g r hndg fl c
  obtain ⟨h1, h2⟩ := visitD_go (contOnly f) dev.descentSiblings _ hk (setSteps dev f d) false d hok.nodup (WF_top d hw) hst
  rw [h1]
  symm
  apply setSpec_level dev v f g r d hw hnd hgood hown
  · intro l c hc hsel
    have hl := (hok.mem l c hc).2 hsel
    by_cases hp : pass (contOnly f) c = true
    · simp only [hl, hp, and_self, if_true]
      exact hrec l c hc hsel (h2 l hl c hc hp)
    · have hsc : isContainer c = false := by
        simp only [pass, Bool.not_eq_true', Bool.not_eq_false, Bool.and_eq_true, Bool.not_eq_true'] at hp
        exact hp.2
      simp only [hl, hp, and_false, Bool.false_eq_true, if_false]
      exact (setSpec_nosel_cons v g r c (ownCreates_scalar v g r c hsc) (sel_scalar (σ := σ) g c hndg hsc)).symm
  · intro l c hc hsel
    have hl : l ∉ setSteps dev f d := fun h => hsel ((hok.mem l c hc).1 h)
    simp [hl]

/-- following one existing member (Child, Nth in an inner position), for Set -/
theorem setF_follow (dev : Dev) (v : JV) (f g : Frag) (r : List Frag) (d c : JV) (l : Loc) (hw : WF d) (hnd : NoDescent (f :: g :: r))
    (hgood : GoodAtS σ dev f d) (hown : ownCreates v f (g :: r) d = [])
    (hc : child? l d = some c) (hsel : ∀ l' c', child? l' d = some c' → (([l'], c') ∈ selG σ f d ↔ l' = l))
    (hrec : (setF false dev false (.val v) (g :: r) false c).st = .go →
      (setF false dev false (.val v) (g :: r) false c).d = setSpecG σ (g :: r) v c)
    (hst : (setFollow l c (setF false dev false (.val v) (g :: r)) d).st = .go) :
    (setFollow l c (setF false dev false (.val v) (g :: r)) d).d = setSpecG σ (f :: g :: r) v d := by
  simp only [setFollow] at hst ⊢
  by_cases hcont : isContainer c = true
  · simp only [hcont, if_true] at hst ⊢
    rw [hrec hst, putChild_eq_mapKids l _ d c (WF_top d hw) hc]
    symm
    apply setSpec_level dev v f g r d hw hnd hgood hown
    · intro l' c' hc' hs'
      have e := (hsel l' c' hc').1 hs'
      subst e
      rw [hc] at hc'; injection hc' with hc'; subst hc'
      simp
    · intro l' c' hc' hs'
      have : l' ≠ l := fun e => hs' ((hsel l' c' hc').2 e)
      simp [this]
  · simp [hcont] at hst

theorem ownCreates_inner_nil (v : JV) (f g : Frag) (r : List Frag) (d : JV) (hf : ∀ k, f ≠ .child k) : ownCreates v f (g :: r) d = [] := by
  cases f with
  | child k => exact absurd rfl (hf k)
  | union ms => cases d <;> simp [ownCreates]
  | _ => cases d <;> simp [ownCreates]

/-- Set (all matches, simple data, no descent): when no error is reported the data is what the specification says -/
theorem setF_eq (dev : Dev) (v : JV) : ∀ (x : List Frag), x ≠ [] → NoDescent x → (∀ f, x.getLast? = some f → endable f = true) →
    ∀ (fl : Bool) (d : JV), WF d → GoodPathS σ dev x d →
    (setF false dev false (.val v) x fl d).st = .go → (setF false dev false (.val v) x fl d).d = setSpecG σ x v d
  | [], h, _, _, _, _, _, _, _ => absurd rfl h
  | [f], _, hnd, hl, fl, d, hw, hg, hst => by
    have hndf : isDescentF f = false := hnd f (by simp)
    rw [setF_single_eq _ _ _ _ f hndf] at hst ⊢
    exact setLast_set dev v f d (WF_top d hw) (hl f rfl) hg.1 hst
  | f :: g :: r, _, hnd, hl, fl, d, hw, hg, hst => by
    have hndf : isDescentF f = false := hnd f (by simp)
    have hndr : NoDescent (g :: r) := fun g' hg' => hnd g' (List.mem_cons_of_mem _ hg')
    have hlr : ∀ f', (g :: r).getLast? = some f' → endable f' = true := by
      intro f' hf'; exact hl f' (by rw [getLast?_cons_cons]; exact hf')
    have hrec : ∀ l c, child? l d = some c → ([l], c) ∈ selG σ f d →
        (setF false dev false (.val v) (g :: r) false c).st = .go →
        (setF false dev false (.val v) (g :: r) false c).d = setSpecG σ (g :: r) v c :=
      fun l c hc hsel h => setF_eq dev v (g :: r) (by simp) hndr hlr false c (WF_child l d c hw hc) (hg.2 ([l], c) hsel) h
    cases f with
    | descent => simp [isDescentF] at hndf
    | child k =>
      cases d with
      | obj kvs =>
        rw [setF_child_eq] at hst ⊢
        cases hlk : lookup k kvs with
        | some c =>
          simp only [hlk] at hst ⊢
          have hc : child? (.key k) (.obj kvs) = some c := hlk
          refine setF_follow dev v (.child k) g r (.obj kvs) c (.key k) hw hnd hg.1 (by simp [ownCreates, hlk]) hc ?_
            (hrec (.key k) c hc ?_) hst
          · intro l' c' hc'
            rw [← (stepsOK_child (σ := σ) k (.obj kvs)).mem l' c' hc']
            simp
          · rw [← (stepsOK_child (σ := σ) k (.obj kvs)).mem (.key k) c hc]; simp
        | none =>
          simp only [hlk, setCreate, List.head?_cons] at hst ⊢
          rw [setSpec_create v k (g :: r) kvs hlk]
          cases g with
          | child k' =>
            simp only at hst ⊢
            rw [chain_obj dev v r k' false hst, kvInsert_absent k _ kvs hlk]
          | nth i =>
            simp only at hst ⊢
            by_cases hi : i < 0
            · simp [hi] at hst
            · simp only [hi, if_false] at hst ⊢
              rw [chain_arr dev v i r false (by omega) hst, kvInsert_absent k _ kvs hlk]
          | wild => simp at hst
          | descent => simp at hst
          | union ms => simp at hst
          | slice s e t => simp at hst
          | filter p => simp at hst
      | arr xs =>
        have : setF false dev false (.val v) (.child k :: g :: r) fl (.arr xs) = ⟨.arr xs, .go⟩ := rfl
        rw [this, setSpec_nosel_cons v (.child k) (g :: r) (.arr xs) (by simp [ownCreates]) (by simp [selG, sel, selMember])]
      | _ =>
        rw [setSpec_nosel_cons v (.child k) (g :: r) _ (ownCreates_scalar v _ _ _ rfl) (sel_scalar (σ := σ) _ _ rfl rfl)]
        rfl
    | nth i =>
      cases d with
      | arr xs =>
        rw [setF_nth_eq] at hst ⊢
        cases ha : absIdx xs.length i with
        | none => simp [ha] at hst
        | some j =>
          simp only [ha] at hst ⊢
          cases hx : xs[j]? with
          | none => simp [hx] at hst
          | some c =>
            simp only [hx] at hst ⊢
            have hc : child? (.idx j) (.arr xs) = some c := hx
            refine setF_follow dev v (.nth i) g r (.arr xs) c (.idx j) hw hnd hg.1 (by simp [ownCreates]) hc ?_
              (hrec (.idx j) c hc ?_) hst
            · intro l' c' hc'
              rw [← (stepsOK_nth (σ := σ) i (.arr xs)).mem l' c' hc']
              simp [memberLoc, ha]
            · rw [← (stepsOK_nth (σ := σ) i (.arr xs)).mem (.idx j) c hc]; simp [memberLoc, ha]
      | obj kvs =>
        have : setF false dev false (.val v) (.nth i :: g :: r) fl (.obj kvs) = ⟨.obj kvs, .go⟩ := rfl
        rw [this, setSpec_nosel_cons v (.nth i) (g :: r) (.obj kvs) (by simp [ownCreates]) (by simp [selG, sel, selMember])]
      | _ =>
        rw [setSpec_nosel_cons v (.nth i) (g :: r) _ (ownCreates_scalar v _ _ _ rfl) (sel_scalar (σ := σ) _ _ rfl rfl)]
        rfl
    | wild =>
      have hok := setSteps_ok (σ := σ) dev .wild d (WF_top d hw) hg.1 (fun _ h => by cases h) (fun _ h => by cases h)
      simp only [setF, List.isEmpty_cons, Bool.false_eq_true, if_false] at hst ⊢
      exact setF_visit dev v .wild g r d hw hnd hg.1 (ownCreates_inner_nil v _ g r d (fun _ h => by cases h)) hok hrec hst
    | union ms =>
      have hok := setSteps_ok (σ := σ) dev (.union ms) d (WF_top d hw) hg.1 (fun _ h => by cases h) (fun _ h => by cases h)
      simp only [setF, List.isEmpty_cons, Bool.false_eq_true, if_false, Bool.false_and] at hst ⊢
      exact setF_visit dev v (.union ms) g r d hw hnd hg.1 (ownCreates_inner_nil v _ g r d (fun _ h => by cases h)) hok hrec hst
    | slice s e t =>
      have hok := setSteps_ok (σ := σ) dev (.slice s e t) d (WF_top d hw) hg.1 (fun _ h => by cases h) (fun _ h => by cases h)
      simp only [setF, List.isEmpty_cons, Bool.false_eq_true, if_false] at hst ⊢
      exact setF_visit dev v (.slice s e t) g r d hw hnd hg.1 (ownCreates_inner_nil v _ g r d (fun _ h => by cases h)) hok hrec hst
    | filter p =>
      have hok := setSteps_ok (σ := σ) dev (.filter p) d (WF_top d hw) hg.1 (fun _ h => by cases h) (fun _ h => by cases h)
      simp only [setF, List.isEmpty_cons, Bool.false_eq_true, if_false] at hst ⊢
      exact setF_visit dev v (.filter p) g r d hw hnd hg.1 (ownCreates_inner_nil v _ g r d (fun _ h => by cases h)) hok hrec hst

/-- Set on simple data, a path without descent: if no error is reported, the data afterwards is what the
specification says — the new value at every selected location, the members created along name/index chains,
everything else as it was -/
theorem setM_eq (dev : Dev) (v : JV) (x : List Frag) (d d' : JV) (hnd : NoDescent x) (hw : WF d) (hg : GoodPathS σ dev x d)
    (h : setM false dev false (.val v) x d = .ok d') : d' = setSpecG σ x v d := by
  simp only [setM] at h
  by_cases hr : setRefuses x.getLast? = true
  · simp [hr] at h
  · simp only [hr, Bool.false_eq_true, if_false] at h
    have hx : x ≠ [] := by
      intro e; subst e; simp [setRefuses] at hr
    have hl : ∀ f, x.getLast? = some f → endable f = true := by
      intro f hf
      rw [hf] at hr
      cases f <;> simp_all [setRefuses, endable]
    cases hv : setF false dev false (.val v) x false d with
    | mk dd ss =>
      have hst : (setF false dev false (.val v) x false d).st = ss := by rw [hv]
      have hdd : (setF false dev false (.val v) x false d).d = dd := by rw [hv]
      rw [hv] at h
      cases ss with
      | go =>
        have := setF_eq dev v x hx hnd hl false d hw hg hst
        simp only [R.out] at h
        injection h with h
        rw [← h, ← hdd, this]
      | stop => exact absurd hst (setF_nostop false dev (.val v) x false d)
      | err e => simp [R.out] at h
      | fault => simp [R.out] at h
      | stale => simp [R.out] at h

end OjgVerif.JPMut
