import OjgVerif.JPMut.Spec
/-! # Models of the path mutators of `jp/` (set.go, modify.go, remove.go and the `remove`/`removeOne`
methods of the fragments)

`Expr.set` (Set, SetOne, Del, DelOne and the Must forms) and `Expr.modify` (Modify, ModifyOne; Remove and
RemoveOne = `modify` of the path without its last fragment, with that fragment's `remove`/`removeOne`
as modifier) are stack machines: a depth-first traversal in which every fragment kind has a *last
fragment* branch (it writes) and an *inner* branch (it pushes what the rest of the path is applied to).
The models below are that traversal as structural recursion over the fragment list: the inner branch
lists the location steps of the members it pushes **in the order they are popped** (`setSteps`,
`modSteps`: Go pushes back to front in set.go, front to back in modify.go) and `visitD` applies the
rest of the path to each of them in turn — the member is read again when its turn comes and written
back afterwards, which on trees without shared substructure is what the in-place edits through the
pushed references do. A status (`St`) is threaded through: `stop` (a One form made its change),
`err` (an error is returned; the edits made before it stay), `fault` (a run-time panic that nothing
recovers: `Expr.set` has no `recover`).

Everything a change of the code can plausibly touch is kept: which members a fragment visits in last
and in inner position, the bounds arithmetic of the three slice readings (`setIdx`, `modIdx`,
`inStep`), truncated division, the creation of missing maps and slices, what is an error and what is
silently skipped, the order in which the One forms meet their first hit (sorted keys in `removeOne`),
the wrapping of the root in `modify`.

Data: `[]any`/`map[string]any` (`gen = false`) or `gen.Array`/`gen.Object` (`gen = true`); the two are
handled by the same branches except where the flag `gen` is consulted. Go map iteration order is the
order of the member list of a `JV.obj` (every theorem quantifies over it; the harness tries the orders).
Keyed/Indexed collections and reflected types are not modelled.

Deviations of the code from property C13 are carried explicitly, one flag each (`Dev`): `Dev.before` is the
code as it was when the family was built (every deviation on), `Dev.current` the code as it is now — the
eight repaired deviations off (/repo 18e5d18 076ef8c a7f7cdd 0eb0265 f263838 99212c8 52aa03a), the pinned
inclusive reading of slices still on; `delOneAbsent`, found later, repaired by 42fe1d2 —, `Dev.fixed` has every
deviation off. (One more deviation lived outside `Dev`, in the driver's reading of the path: `$` inside a final filter
of Modify/Remove, `currentT` below, repaired by 569235d.) -/
namespace OjgVerif.JPMut
open OjgVerif OjgVerif.JPath

/-- which deviations the model reproduces (true = present) -/
structure Dev where
  /-- set.go, modify.go, slice.go `remove`/`removeOne`: a slice end is read as INCLUSIVE and an absent
  end is -1 (the last element); Get reads it as exclusive. Pinned by the suite (remove_test.go
  `[1:3:2]`, set_test.go `[:-1:2].a`). Off: the indexes are those of the specification. -/
  sliceInclusive : Bool
  /-- slice.go `inStep`: a negative step is aligned from the END of the range (`(i-end) % -step`), so
  `[4:1:-2]` removes 1 and 3 where Modify visits 4 and 2 -/
  removeStepEnd : Bool
  /-- set.go, inner slice branch: `end = start + (end-start)/step*step` without testing that the range
  is non-empty: when the quotient truncates to 0 the element `start` is visited -/
  setEmptySlice : Bool
  /-- set.go, modify.go, Descent: the containers an inner fragment pushes share one fragment-index
  marker; expanding the first of them sets `descentFlag` on it for good, the following siblings get the
  rest of the path applied to themselves only, nothing below them is visited -/
  descentSiblings : Bool
  /-- union.go `remove`/`removeOne`: `hasN(int64(i))` compares the position with the members as
  written, a member counted from the end never matches -/
  removeUnionNeg : Bool
  /-- set.go, Union on a `gen.Array`: the write (last position) and the push (inner position) are outside
  the bounds test: an index that is out of range panics (last) or pushes whatever the variable `v`
  still holds (inner; reported as `unmodelled`) -/
  genUnionOOB : Bool
  /-- modify.go on gen data: `nv.(gen.Node)` panics when the modifier returns nil (null) -/
  genModifyNil : Bool
  /-- modify.go, Filter in last position on a map (reflect branch): `SetMapIndex(k, reflect.ValueOf(nil))`
  deletes the member instead of storing null -/
  filterMapNil : Bool
  /-- modify.go: the wrapped root is pushed with `stackAddValue`, which drops non-containers, so the
  path `$` never reaches a root that is not a container: the modifier is not called -/
  rootScalar : Bool
  /-- set.go, Child and Union (a name) in last position: `delete(tv, key); if one { return nil }` — DelOne returns after
  the first object it reaches whether or not that object has the member, so it can delete nothing although a later
  object has it (`DelOne $[*].a` on `[{"b":3},{"a":1}]`). Off: DelOne goes on until it has deleted a member. -/
  delOneAbsent : Bool
  deriving DecidableEq, Repr

/-- the code before the C13 repairs: every deviation present -/
def Dev.before : Dev := ⟨true, true, true, true, true, true, true, true, true, true⟩
/-- the code as it is: the pinned inclusive reading of slices (known finding C13-slice-inclusive) is left.
`OjgVerif.C13.current_is_source` ties every other flag to the patched source lines. -/
def Dev.current : Dev := ⟨true, false, false, false, false, false, false, false, false, false⟩
/-- the driver-level deviation `t` (filterRootLast) of the code as it is: Modify read a filter in last position, Remove one
in the last two positions, with the ELEMENT as `$` (`Script.Match`). It lives in the reading of the path (Driver.lean
`parsePathT`), not in `Dev`: a `Frag.filter` carries a predicate on the element, which document `$` names is fixed
when the path is read. Off since 569235d (`OjgVerif.C13.currentT_is_source`). -/
def currentT : Bool := false
def Dev.fixed : Dev := ⟨false, false, false, false, false, false, false, false, false, false⟩

/-- error classes (the texts of set.go / modify.go / remove.go) -/
inductive E where
  | endsWith      -- "can not set/delete with an expression ending with a …" (also the empty path: Root)
  | canNotFollow  -- "can not follow a %T at …"
  | outOfBounds   -- "can not follow out of bounds array index at …"
  | noLength      -- "can not deduce the length of the array to add at …"
  | noElement     -- "can not deduce what element to add at …"
  | lastDescent   -- "can not modify with an expression where the last fragment is a Descent"
  | notRemovable  -- "can not remove with an expression where the last fragment is a …"
  | notNode       -- recovered panic of `nv.(gen.Node)`
  deriving DecidableEq, Repr

/-- status of a traversal -/
inductive St where
  | go
  | stop
  | err (e : E)
  | fault
  | stale
  deriving DecidableEq, Repr

structure R where
  d : JV
  st : St

/-- result of an entry point: the data afterwards (for Modify/Remove: the returned value) -/
inductive Out where
  | ok (d : JV)
  | err (e : E) (d : JV)
  | fault (d : JV)
  | unmodelled

def R.out (r : R) : Out :=
  match r.st with
  | .go => .ok r.d
  | .stop => .ok r.d
  | .err e => .err e r.d
  | .fault => .fault r.d
  | .stale => .unmodelled

/-! ## shared pieces -/

def kvErase (k : Bytes) : List (Bytes × JV) → List (Bytes × JV)
  | [] => []
  | m :: r => if m.1 = k then kvErase k r else m :: kvErase k r

/-- write an existing member back -/
def putChild : Loc → JV → JV → JV
  | .idx i, c, .arr xs => .arr (xs.set i c)
  | .key k, c, .obj kvs => .obj (kvInsert k c kvs)
  | _, _, d => d

def eraseChild : Loc → JV → JV
  | .key k, .obj kvs => .obj (kvErase k kvs)
  | _, d => d

def insertKey (k : Bytes) : List Bytes → List Bytes
  | [] => [k]
  | a :: r => if bytesLt k a then k :: a :: r else a :: insertKey k r

/-- `sort.Strings(keys)` -/
def sortedKeys : List (Bytes × JV) → List Bytes
  | [] => []
  | m :: r => insertKey m.1 (sortedKeys r)

def idxLocs (n : Nat) : List Loc := (List.range n).map Loc.idx
def keyLocs (kvs : List (Bytes × JV)) : List Loc := kvs.map fun m => Loc.key m.1

/-- the location step a union member stands for in this value -/
def memberLoc (d : JV) : Member → Option Loc
  | .key k => some (.key k)
  | .idx i =>
    match d with
    | .arr xs => (absIdx xs.length i).map Loc.idx
    | _ => none

/-- the steps of the members of a union in listed order (a member listed twice is visited twice) -/
def unionLocs (ms : List Member) (d : JV) : List Loc := ms.filterMap (memberLoc d)

/-- the members whose value passes the filter, in member order (arrays) / in the given key order -/
def filterLocs (p : JV → Bool) (d : JV) (ls : List Loc) : List Loc :=
  ls.filter fun l =>
    match child? l d with
    | some c => p c
    | none => false

/-- apply the rest of the path (`k`) to the members at `steps`, in that order. `cont`: only containers
are handed on (they are the only values the Go code pushes). `k` takes the state of the shared descent
marker: once a container has been handed on and `sib` (the descentSiblings deviation) is on, the
marker is flagged for the following ones. -/
def visitD (cont sib : Bool) (k : Bool → JV → R) : Bool → List Loc → JV → R
  | _, [], d => ⟨d, .go⟩
  | fl, l :: ls, d =>
    match child? l d with
    | none => visitD cont sib k fl ls d
    | some c =>
      if cont && !isContainer c then visitD cont sib k fl ls d
      else
        let r := k (fl && sib) c
        match r.st with
        | .go => visitD cont sib k (fl || isContainer c) ls (putChild l r.d d)
        | s => ⟨putChild l r.d d, s⟩

structure RL where
  xs : List JV
  st : St

structure RO where
  kvs : List (Bytes × JV)
  st : St

mutual
  /-- Descent, first pass: every container member (each with a marker of its own) first, then the rest
  of the path on the node itself -/
  def descGo (k : JV → R) : JV → R
    | .arr xs =>
      let r := descArr k xs
      match r.st with
      | .go => k (.arr r.xs)
      | s => ⟨.arr r.xs, s⟩
    | .obj kvs =>
      let r := descObj k kvs
      match r.st with
      | .go => k (.obj r.kvs)
      | s => ⟨.obj r.kvs, s⟩
    | .null => ⟨.null, .go⟩
    | .bool b => ⟨.bool b, .go⟩
    | .int i => ⟨.int i, .go⟩
    | .flt t => ⟨.flt t, .go⟩
    | .big t => ⟨.big t, .go⟩
    | .num t => ⟨.num t, .go⟩
    | .str s => ⟨.str s, .go⟩
  def descArr (k : JV → R) : List JV → RL
    | [] => ⟨[], .go⟩
    | x :: r =>
      let rx := descGo k x
      match rx.st with
      | .go =>
        let rr := descArr k r
        ⟨rx.d :: rr.xs, rr.st⟩
      | s => ⟨rx.d :: r, s⟩
  def descObj (k : JV → R) : List (Bytes × JV) → RO
    | [] => ⟨[], .go⟩
    | m :: r =>
      let rx := descGo k m.2
      match rx.st with
      | .go =>
        let rr := descObj k r
        ⟨(m.1, rx.d) :: rr.kvs, rr.st⟩
      | s => ⟨(m.1, rx.d) :: r, s⟩
end

/-! ## slices as set.go, modify.go and slice.go read them -/

structure Bnd where
  start : Int
  stop : Int
  step : Int

/-- bounds after the defaults (end -1, step 1), the from-the-end conversion and the clamp of the end;
`none`: nothing is selected (`start < 0 || end < 0 || len <= start || step == 0`) -/
def incBounds (n : Nat) (s e t : Option Int) : Option Bnd :=
  let step := t.getD 1
  let s0 := s.getD 0
  let e0 := e.getD (-1)
  let start := if s0 < 0 then s0 + n else s0
  let e1 := if e0 < 0 then e0 + n else e0
  let e2 := if (n : Int) ≤ e1 then (n : Int) - 1 else e1
  if start < 0 ∨ e2 < 0 ∨ (n : Int) ≤ start ∨ step = 0 then none else some ⟨start, e2, step⟩

/-- `start, start+step, …` up to and including `stop`, in the direction of the step -/
def incRange (n : Nat) (b : Bnd) : List Nat :=
  if 0 < b.step then ((progression n b.start b.step).takeWhile fun i => i ≤ b.stop).map Int.toNat
  else ((progression n b.start b.step).takeWhile fun i => b.stop ≤ i).map Int.toNat

/-- the INCLUSIVE reading of a slice, as modify.go's loops walk it (`for i := start; i <= end; i += step` /
`for i := start; end <= i; i += step` over the normalised bounds): end inclusive, absent end = the last element, a
start that is still negative after the from-the-end conversion selects nothing -/
def inclIdx (n : Nat) (s e t : Option Int) : List Nat :=
  match incBounds n s e t with
  | none => []
  | some b => incRange n b

/-- modify.go (inner and last) -/
def modIdx (dev : Dev) (n : Nat) (s e t : Option Int) : List Nat :=
  if dev.sliceInclusive then inclIdx n s e t else sliceIdx n s e t

/-- set.go (inner only): `end = start + (end-start)/step*step` (truncated division), then from that end
back to the start; listed in the order the elements are popped (start first) -/
def setIdx (dev : Dev) (n : Nat) (s e t : Option Int) : List Nat :=
  if dev.sliceInclusive then
    match incBounds n s e t with
    | none => []
    | some b =>
      if dev.setEmptySlice then incRange n ⟨b.start, b.start + (b.stop - b.start).tdiv b.step * b.step, b.step⟩
      else incRange n b
  else sliceIdx n s e t

/-- slice.go `inStep` after the normalisation of `Slice.remove` -/
def inStep (dev : Dev) (b : Bnd) (i : Nat) : Bool :=
  if 0 < b.step then decide (b.start ≤ (i : Int) ∧ (i : Int) ≤ b.stop ∧ ((i : Int) - b.start) % b.step = 0)
  else if dev.removeStepEnd then decide (b.stop ≤ (i : Int) ∧ (i : Int) ≤ b.start ∧ ((i : Int) - b.stop) % (-b.step) = 0)
  else decide (b.stop ≤ (i : Int) ∧ (i : Int) ≤ b.start ∧ (b.start - (i : Int)) % (-b.step) = 0)

/-- the positions `Slice.remove` drops -/
def remSel (dev : Dev) (n : Nat) (s e t : Option Int) (i : Nat) : Bool :=
  if dev.sliceInclusive then
    match incBounds n s e t with
    | none => false
    | some b => inStep dev b i
  else (sliceIdx n s e t).contains i

/-! ## Expr.set -/

/-- what set writes: a value, or the delete flag -/
inductive SetArg where
  | val (v : JV)
  | del

/-- what ends up in an array element -/
def SetArg.elem : SetArg → JV
  | .val v => v
  | .del => .null

def SetArg.isDel : SetArg → Bool
  | .val _ => false
  | .del => true

def stopIf (one : Bool) : St := if one then .stop else .go

/-- `delete(tv, key)` / `tv[key] = value` -/
def writeKey (a : SetArg) (k : Bytes) (kvs : List (Bytes × JV)) : List (Bytes × JV) :=
  match a with
  | .val v => kvInsert k v kvs
  | .del => kvErase k kvs

/-- a One form stops after writing (deleting) the name `k` in this object — for DelOne, with the deviation off, only if the
member was there -/
def oneKey (dev : Dev) (one : Bool) (a : SetArg) (k : Bytes) (kvs : List (Bytes × JV)) : Bool :=
  one && !(a.isDel && !dev.delOneAbsent && (lookup k kvs).isNone)

/-- Union in last position: the members in listed order -/
def setLastUnion (gen : Bool) (dev : Dev) (one : Bool) (a : SetArg) : List Member → JV → R
  | [], d => ⟨d, .go⟩
  | m :: ms, d =>
    match m, d with
    | .key k, .obj kvs =>
      if oneKey dev one a k kvs then ⟨.obj (writeKey a k kvs), .stop⟩ else setLastUnion gen dev one a ms (.obj (writeKey a k kvs))
    | .idx i, .arr xs =>
      match absIdx xs.length i with
      | some j => if one then ⟨.arr (xs.set j a.elem), .stop⟩ else setLastUnion gen dev one a ms (.arr (xs.set j a.elem))
      | none => if gen && dev.genUnionOOB then ⟨d, .fault⟩ else setLastUnion gen dev one a ms d
    | _, _ => setLastUnion gen dev one a ms d

/-- the last fragment writes -/
def setLast (gen : Bool) (dev : Dev) (one : Bool) (a : SetArg) (f : Frag) (d : JV) : R :=
  match f with
  | .child k =>
    match d with
    | .obj kvs => ⟨.obj (writeKey a k kvs), stopIf (oneKey dev one a k kvs)⟩
    | _ => ⟨d, .go⟩
  | .nth i =>
    match d with
    | .arr xs =>
      match absIdx xs.length i with
      | some j => ⟨.arr (xs.set j a.elem), stopIf one⟩
      | none => ⟨d, .err .outOfBounds⟩
    | _ => ⟨d, .go⟩
  | .wild =>
    match d with
    | .obj kvs =>
      if one then
        match kvs with
        | [] => ⟨d, .go⟩
        | m :: r => ⟨.obj (if a.isDel then r else (m.1, a.elem) :: r), .stop⟩
      else ⟨.obj (if a.isDel then [] else kvs.map fun m => (m.1, a.elem)), .go⟩
    | .arr xs =>
      if one then
        match xs with
        | [] => ⟨d, .go⟩
        | _ :: r => ⟨.arr (a.elem :: r), .stop⟩
      else ⟨.arr (xs.map fun _ => a.elem), .go⟩
    | _ => ⟨d, .go⟩
  | .union ms => setLastUnion gen dev one a ms d
  | _ => ⟨d, .go⟩

/-- the members an inner Wildcard, Union, Slice or Filter hands on, in the order they are popped -/
def setSteps (dev : Dev) (f : Frag) (d : JV) : List Loc :=
  match f with
  | .wild =>
    match d with
    | .arr xs => idxLocs xs.length
    | .obj kvs => keyLocs kvs
    | _ => []
  | .union ms => (unionLocs ms d).reverse
  | .slice s e t =>
    match d with
    | .arr xs => (setIdx dev xs.length s e t).map Loc.idx
    | _ => []
  | .filter p =>
    match d with
    | .arr xs => filterLocs p d (idxLocs xs.length)
    | .obj kvs => filterLocs p d (keyLocs kvs)
    | _ => []
  | _ => []

/-- a filter pushes every match, the other fragments push containers only -/
def contOnly : Frag → Bool
  | .filter _ => false
  | _ => true

/-- some index member of the union is out of range in this array -/
def unionOOB (ms : List Member) (d : JV) : Bool :=
  match d with
  | .arr xs => ms.any fun m =>
    match m with
    | .idx i => (absIdx xs.length i).isNone
    | .key _ => false
  | _ => false

/-- follow one existing member in an inner position (Child, Nth): a non-container is an error -/
def setFollow (l : Loc) (c : JV) (k : Bool → JV → R) (d : JV) : R :=
  if isContainer c then
    let r := k false c
    ⟨putChild l r.d d, r.st⟩
  else ⟨d, .err .canNotFollow⟩

/-- Child in an inner position finds no member: add what the next fragment asks for -/
def setCreate (a : SetArg) (key : Bytes) (rest : List Frag) (k : Bool → JV → R) (kvs : List (Bytes × JV)) : R :=
  match a with
  | .del => ⟨.obj kvs, .go⟩
  | .val _ =>
    match rest.head? with
    | some (.child _) =>
      let r := k false (.obj [])
      ⟨.obj (kvInsert key r.d kvs), r.st⟩
    | some (.nth i) =>
      if i < 0 then ⟨.obj kvs, .err .noLength⟩
      else
        let r := k false (.arr (List.replicate (i.toNat + 1) .null))
        ⟨.obj (kvInsert key r.d kvs), r.st⟩
    | _ => ⟨.obj kvs, .err .noElement⟩

/-- `Expr.set` from fragment `x` on; the flag is the state of the descent marker above the value -/
def setF (gen : Bool) (dev : Dev) (one : Bool) (a : SetArg) : List Frag → Bool → JV → R
  | [], _, d => ⟨d, .go⟩
  | f :: rest, fl, d =>
    match f with
    | .descent =>
      if rest.isEmpty then ⟨d, .go⟩
      else if fl then setF gen dev one a rest false d
      else descGo (setF gen dev one a rest false) d
    | .child key =>
      if rest.isEmpty then setLast gen dev one a f d
      else
        match d with
        | .obj kvs =>
          match lookup key kvs with
          | some c => setFollow (.key key) c (setF gen dev one a rest) d
          | none => setCreate a key rest (setF gen dev one a rest) kvs
        | _ => ⟨d, .go⟩
    | .nth i =>
      if rest.isEmpty then setLast gen dev one a f d
      else
        match d with
        | .arr xs =>
          match absIdx xs.length i with
          | some j =>
            match xs[j]? with
            | some c => setFollow (.idx j) c (setF gen dev one a rest) d
            | none => ⟨d, .err .outOfBounds⟩
          | none => ⟨d, .err .outOfBounds⟩
        | _ => ⟨d, .go⟩
    | .union ms =>
      if rest.isEmpty then setLast gen dev one a f d
      else if gen && dev.genUnionOOB && unionOOB ms d then ⟨d, .stale⟩
      else visitD true dev.descentSiblings (setF gen dev one a rest) false (setSteps dev f d) d
    | _ =>
      if rest.isEmpty then setLast gen dev one a f d
      else visitD (contOnly f) dev.descentSiblings (setF gen dev one a rest) false (setSteps dev f d) d

/-- the fragment kinds `set` refuses in last position (Root — the empty path here —, Descent, Slice, Filter) -/
def setRefuses : Option Frag → Bool
  | none => true
  | some .descent => true
  | some (.slice _ _ _) => true
  | some (.filter _) => true
  | _ => false

/-- Set / SetOne / Del / DelOne (and the Must forms, whose panic carries the error) -/
def setM (gen : Bool) (dev : Dev) (one : Bool) (a : SetArg) (x : List Frag) (d : JV) : Out :=
  if setRefuses x.getLast? then .err .endsWith d
  else (setF gen dev one a x false d).out

/-! ## Expr.modify -/

/-- outcome of the modifier on one element -/
inductive Ap where
  | same
  | new (v : JV)
  | bad

def isNull : JV → Bool
  | .null => true
  | _ => false

/-- `if nv, changed := modifier(v); changed { … = nv.(gen.Node) }` -/
def ap (gen : Bool) (dev : Dev) (m : Modifier) (c : JV) : Ap :=
  if (m c).2 then
    if gen && dev.genModifyNil && isNull (m c).1 then .bad else .new (m c).1
  else .same

/-- the last fragment: the modifier on the existing members at `steps`, in that order. `nilDel`: storing
null deletes the member (the reflect branch of Filter on a map). -/
def modSeq (gen : Bool) (dev : Dev) (one : Bool) (m : Modifier) (nilDel : Bool) : List Loc → JV → R
  | [], d => ⟨d, .go⟩
  | l :: ls, d =>
    match child? l d with
    | none => modSeq gen dev one m nilDel ls d
    | some c =>
      match ap gen dev m c with
      | .same => modSeq gen dev one m nilDel ls d
      | .bad => ⟨d, .err .notNode⟩
      | .new v =>
        if one then ⟨if nilDel && isNull v then eraseChild l d else putChild l v d, .stop⟩
        else modSeq gen dev one m nilDel ls (if nilDel && isNull v then eraseChild l d else putChild l v d)

/-- the members the last fragment applies the modifier to, in the order of the Go loop -/
def modLastSteps (dev : Dev) (f : Frag) (d : JV) : List Loc :=
  match f with
  | .child k => [.key k]
  | .nth i => (memberLoc d (.idx i)).toList
  | .wild =>
    match d with
    | .arr xs => idxLocs xs.length
    | .obj kvs => keyLocs kvs
    | _ => []
  | .union ms => unionLocs ms d
  | .slice s e t =>
    match d with
    | .arr xs => (modIdx dev xs.length s e t).map Loc.idx
    | _ => []
  | .filter p =>
    match d with
    | .arr xs => filterLocs p d (idxLocs xs.length)
    | .obj kvs => filterLocs p d ((sortedKeys kvs).map Loc.key)
    | _ => []
  | .descent => []

/-- a Filter in last position reaches a map through reflect, where the `gen.Node` assertion is not made -/
def isFilterOnObj (f : Frag) (d : JV) : Bool :=
  match f, d with
  | .filter _, .obj _ => true
  | _, _ => false

def modLast (gen : Bool) (dev : Dev) (one : Bool) (m : Modifier) (f : Frag) (d : JV) : R :=
  if isFilterOnObj f d then modSeq false dev one m dev.filterMapNil (modLastSteps dev f d) d
  else modSeq gen dev one m false (modLastSteps dev f d) d

/-- the members an inner fragment hands on, in the order they are popped (modify.go pushes front to back) -/
def modSteps (dev : Dev) (f : Frag) (d : JV) : List Loc :=
  match f with
  | .child k => [.key k]
  | .nth i => (memberLoc d (.idx i)).toList
  | .wild =>
    match d with
    | .arr xs => (idxLocs xs.length).reverse
    | .obj kvs => (keyLocs kvs).reverse
    | _ => []
  | .union ms => (unionLocs ms d).reverse
  | .slice s e t =>
    match d with
    | .arr xs => ((modIdx dev xs.length s e t).map Loc.idx).reverse
    | _ => []
  | .filter p =>
    match d with
    | .arr xs => filterLocs p d (idxLocs xs.length)
    | .obj kvs => filterLocs p d (keyLocs kvs)
    | _ => []
  | .descent => []

/-- `Expr.modify` from fragment `x` on -/
def modF (gen : Bool) (dev : Dev) (one : Bool) (m : Modifier) : List Frag → Bool → JV → R
  | [], _, d => ⟨d, .go⟩
  | f :: rest, fl, d =>
    match f with
    | .descent =>
      if rest.isEmpty then ⟨d, .go⟩
      else if fl then modF gen dev one m rest false d
      else descGo (modF gen dev one m rest false) d
    | _ =>
      if rest.isEmpty then modLast gen dev one m f d
      else visitD (contOnly f) dev.descentSiblings (modF gen dev one m rest) false (modSteps dev f d) d

def isDescent : Option Frag → Bool
  | some .descent => true
  | _ => false

/-- the value `modify` returns: element 0 of the wrapper -/
def unwrap (d : JV) : JV → JV
  | .arr [r] => r
  | _ => d

/-- `x.modify(data, modifier, one)` behind the `recover` of Modify/ModifyOne/Remove/RemoveOne: the path
runs on `[]any{data}` behind an added `Nth(0)`. The empty path is Go's `$`: the Root branch stores the
modifier's result in the wrapper without the `gen.Node` assertion. -/
def modifyCore (gen : Bool) (dev : Dev) (one : Bool) (m : Modifier) (x : List Frag) (d : JV) : Out :=
  if isDescent x.getLast? then .err .lastDescent d
  else if x.isEmpty && dev.rootScalar && !isContainer d then .ok d
  else
    let r := modF (gen && !x.isEmpty) dev one m (.nth 0 :: x) false (.arr [d])
    match r.st with
    | .err e => .err e (unwrap d r.d)
    | .fault => .fault d
    | .stale => .unmodelled
    | _ => .ok (unwrap d r.d)

/-- Modify / ModifyOne -/
def modifyM (gen : Bool) (dev : Dev) (one : Bool) (m : Modifier) (x : List Frag) (d : JV) : Out :=
  modifyCore gen dev one m x d

/-! ## the `remove` / `removeOne` methods of the fragments -/

/-- drop the elements whose position satisfies `p` (positions count from `i`) -/
def dropIdx (p : Nat → Bool) : Nat → List JV → List JV
  | _, [] => []
  | i, x :: r => if p i then dropIdx p (i + 1) r else x :: dropIdx p (i + 1) r

/-- drop the first element whose position satisfies `p` -/
def dropFirstIdx (p : Nat → Bool) : Nat → List JV → List JV
  | _, [] => []
  | i, x :: r => if p i then r else x :: dropFirstIdx p (i + 1) r

/-- drop the last element whose position satisfies `p` (the reverse walk of `Slice.removeOne`) -/
def dropLastIdx (p : Nat → Bool) (xs : List JV) : List JV :=
  match ((List.range xs.length).reverse.find? p) with
  | some j => xs.eraseIdx j
  | none => xs

def anyIdx (p : Nat → Bool) (n : Nat) : Bool := (List.range n).any p

/-- `Union.hasN` as `remove` uses it -/
def hasN (dev : Dev) (n : Nat) (ms : List Member) (i : Nat) : Bool :=
  ms.any fun m =>
    match m with
    | .idx j => if dev.removeUnionNeg then decide (j = (i : Int)) else decide (absIdx n j = some i)
    | .key _ => false

def hasKey (ms : List Member) (k : Bytes) : Bool :=
  ms.any fun m =>
    match m with
    | .key k' => decide (k' = k)
    | .idx _ => false

/-- child.go `Child.remove` -/
def remChild (k : Bytes) : Modifier := fun c =>
  match c with
  | .obj kvs => if (lookup k kvs).isSome then (.obj (kvErase k kvs), true) else (c, false)
  | _ => (c, false)

/-- nth.go `Nth.remove` -/
def remNth (i : Int) : Modifier := fun c =>
  match c with
  | .arr xs =>
    match absIdx xs.length i with
    | some j => (.arr (xs.eraseIdx j), true)
    | none => (c, false)
  | _ => (c, false)

/-- wildcard.go `Wildcard.remove` -/
def remWild : Modifier := fun c =>
  match c with
  | .arr xs => if xs.isEmpty then (c, false) else (.arr [], true)
  | .obj kvs => if kvs.isEmpty then (c, false) else (.obj [], true)
  | _ => (c, false)

/-- union.go `Union.remove` -/
def remUnion (dev : Dev) (ms : List Member) : Modifier := fun c =>
  match c with
  | .arr xs =>
    if anyIdx (hasN dev xs.length ms) xs.length then (.arr (dropIdx (hasN dev xs.length ms) 0 xs), true) else (c, false)
  | .obj kvs =>
    if kvs.any fun m => hasKey ms m.1 then (.obj (kvs.filter fun m => !hasKey ms m.1), true) else (c, false)
  | _ => (c, false)

/-- slice.go `Slice.remove` -/
def remSlice (dev : Dev) (s e t : Option Int) : Modifier := fun c =>
  match c with
  | .arr xs =>
    if anyIdx (remSel dev xs.length s e t) xs.length then (.arr (dropIdx (remSel dev xs.length s e t) 0 xs), true)
    else (c, false)
  | _ => (c, false)

/-- filter.go `Filter.remove` -/
def remFilter (p : JV → Bool) : Modifier := fun c =>
  match c with
  | .arr xs => if xs.any p then (.arr (xs.filter fun v => !p v), true) else (c, false)
  | .obj kvs => if kvs.any fun m => p m.2 then (.obj (kvs.filter fun m => !p m.2), true) else (c, false)
  | _ => (c, false)

/-- `remove` (every match) of a fragment; `none`: the fragment has no such method -/
def removeAllOf (dev : Dev) (f : Frag) : Option Modifier :=
  match f with
  | .child k => some (remChild k)
  | .nth i => some (remNth i)
  | .wild => some remWild
  | .union ms => some (remUnion dev ms)
  | .slice s e t => some (remSlice dev s e t)
  | .filter p => some (remFilter p)
  | .descent => none

/-- the first key in sorted order that satisfies `q` -/
def firstKey (q : Bytes → Bool) (kvs : List (Bytes × JV)) : Option Bytes := (sortedKeys kvs).find? q

def lookupD (k : Bytes) (kvs : List (Bytes × JV)) : JV := (lookup k kvs).getD .null

/-- the slice steps backwards -/
def negStep (t : Option Int) : Bool := decide (t.getD 1 < 0)

/-- wildcard.go `Wildcard.removeOne` -/
def remWildOne : Modifier := fun c =>
  match c with
  | .arr xs =>
    match xs with
    | [] => (c, false)
    | _ :: r => (.arr r, true)
  | .obj kvs =>
    match firstKey (fun _ => true) kvs with
    | some k => (.obj (kvErase k kvs), true)
    | none => (c, false)
  | _ => (c, false)

/-- union.go `Union.removeOne` -/
def remUnionOne (dev : Dev) (ms : List Member) : Modifier := fun c =>
  match c with
  | .arr xs =>
    if anyIdx (hasN dev xs.length ms) xs.length then (.arr (dropFirstIdx (hasN dev xs.length ms) 0 xs), true) else (c, false)
  | .obj kvs =>
    match firstKey (hasKey ms) kvs with
    | some k => (.obj (kvErase k kvs), true)
    | none => (c, false)
  | _ => (c, false)

/-- slice.go `Slice.removeOne` -/
def remSliceOne (dev : Dev) (s e t : Option Int) : Modifier := fun c =>
  match c with
  | .arr xs =>
    if anyIdx (remSel dev xs.length s e t) xs.length then
      (.arr (if negStep t then dropLastIdx (remSel dev xs.length s e t) xs
             else dropFirstIdx (remSel dev xs.length s e t) 0 xs), true)
    else (c, false)
  | _ => (c, false)

/-- filter.go `Filter.removeOne` -/
def remFilterOne (p : JV → Bool) : Modifier := fun c =>
  match c with
  | .arr xs => if xs.any p then (.arr (dropFirstIdx (fun i => p (xs.getD i .null)) 0 xs), true) else (c, false)
  | .obj kvs =>
    match firstKey (fun k => p (lookupD k kvs)) kvs with
    | some k => (.obj (kvErase k kvs), true)
    | none => (c, false)
  | _ => (c, false)

/-- `removeOne` of a fragment where it has one, else its `remove` -/
def removeOneOf (dev : Dev) (f : Frag) : Option Modifier :=
  match f with
  | .wild => some remWildOne
  | .union ms => some (remUnionOne dev ms)
  | .slice s e t => some (remSliceOne dev s e t)
  | .filter p => some (remFilterOne p)
  | _ => removeAllOf dev f

/-- Remove / RemoveOne: `modify` of the path without its last fragment with that fragment's remover -/
def removeM (gen : Bool) (dev : Dev) (one : Bool) (x : List Frag) (d : JV) : Out :=
  match x.getLast? with
  | none => .err .notRemovable d
  | some f =>
    match (if one then removeOneOf dev f else removeAllOf dev f) with
    | none => .err .notRemovable d
    | some m => modifyCore gen dev one m x.dropLast d

/-- the model of the entry point a mutation names -/
def runModel (gen : Bool) (dev : Dev) (one : Bool) (x : List Frag) (d : JV) : Op → Out
  | .set v => setM gen dev one (.val v) x d
  | .del => setM gen dev one .del x d
  | .mod m => modifyM gen dev one m x d
  | .rem => removeM gen dev one x d

end OjgVerif.JPMut
