import OjgVerif.JPMut.LemmasModify
/-! # Remove removes exactly the selected members (paths without a descent)

Remove is `modify` of the path without its last fragment, with that fragment's `remove` as modifier.
* `remOf_*`: the `remove` method of every fragment kind removes from a container exactly the members
  the fragment selects in it (`remAll` of the selected one-step locations);
* `upd_rem`: editing the parents with that remover is `remAll` at the locations of the whole path;
* `removeM_eq`: the returned tree is `remAll (locsG σ x d) d` — selected members gone, the survivors of an
  array in their order (so every later sibling moves up by exactly the number removed before it,
  `remArr_shift`). -/
namespace OjgVerif.JPMut
open OjgVerif OjgVerif.JPath

variable {σ : SliceFn} [NodupSlice σ]

/-! ## `remAll` -/

mutual
  theorem remAll_nil : ∀ (d : JV), remAll [] d = d
    | .arr xs => by simp [remAll, remArr_nil xs 0]
    | .obj kvs => by simp [remAll, remObj_nil kvs]
    | .null => rfl
    | .bool _ => rfl
    | .int _ => rfl
    | .flt _ => rfl
    | .big _ => rfl
    | .num _ => rfl
    | .str _ => rfl
  theorem remArr_nil : ∀ (xs : List JV) (i : Nat), remArr [] i xs = xs
    | [], _ => rfl
    | x :: r, i => by simp [remArr, strip_nil, remAll_nil x, remArr_nil r (i + 1)]
  theorem remObj_nil : ∀ (kvs : List (Bytes × JV)), remObj [] kvs = kvs
    | [] => rfl
    | kv :: r => by simp [remObj, strip_nil, remAll_nil kv.2, remObj_nil r]
end

mutual
  theorem remAll_congr : ∀ (d : JV) (T T' : List Path), SameSet T T' → remAll T d = remAll T' d
    | .arr xs, T, T', h => by simp [remAll, remArr_congr xs T T' h 0]
    | .obj kvs, T, T', h => by simp [remAll, remObj_congr kvs T T' h]
    | .null, _, _, _ => rfl
    | .bool _, _, _, _ => rfl
    | .int _, _, _, _ => rfl
    | .flt _, _, _, _ => rfl
    | .big _, _, _, _ => rfl
    | .num _, _, _, _ => rfl
    | .str _, _, _, _ => rfl
  theorem remArr_congr : ∀ (xs : List JV) (T T' : List Path), SameSet T T' → ∀ i, remArr T i xs = remArr T' i xs
    | [], _, _, _, _ => rfl
    | x :: r, T, T', h, i => by
      simp only [remArr]
      rw [h.contains_eq [Loc.idx i], remAll_congr x _ _ (h.strip_same (.idx i)), remArr_congr r T T' h (i + 1)]
  theorem remObj_congr : ∀ (kvs : List (Bytes × JV)) (T T' : List Path), SameSet T T' → remObj T kvs = remObj T' kvs
    | [], _, _, _ => rfl
    | kv :: r, T, T', h => by
      simp only [remObj]
      rw [h.contains_eq [Loc.key kv.1], remAll_congr kv.2 _ _ (h.strip_same (.key kv.1)), remObj_congr r T T' h]
end

theorem contains_iff (T : List Path) (p : Path) : T.contains p = true ↔ p ∈ T := by
  simp

/-- no one-step location in the set: nothing is removed at this level -/
theorem remArr_inner (T : List Path) (h : ∀ l, [l] ∉ T) : ∀ (xs : List JV) (i : Nat),
    remArr T i xs = mapArr (fun l c => remAll (strip l T) c) i xs
  | [], _ => rfl
  | x :: r, i => by
    have : T.contains [Loc.idx i] = false := by
      cases hc : T.contains [Loc.idx i] with
      | false => rfl
      | true => exact absurd ((contains_iff T _).1 hc) (h _)
    simp only [remArr, mapArr, this, Bool.false_eq_true, if_false, remArr_inner T h r (i + 1)]

theorem remObj_inner (T : List Path) (h : ∀ l, [l] ∉ T) : ∀ (kvs : List (Bytes × JV)),
    remObj T kvs = kvs.map fun kv => (kv.1, remAll (strip (.key kv.1) T) kv.2)
  | [] => rfl
  | kv :: r => by
    have : T.contains [Loc.key kv.1] = false := by
      cases hc : T.contains [Loc.key kv.1] with
      | false => rfl
      | true => exact absurd ((contains_iff T _).1 hc) (h _)
    simp only [remObj, this, Bool.false_eq_true, if_false, remObj_inner T h r, List.map_cons]

theorem remAll_inner (T : List Path) (h : ∀ l, [l] ∉ T) (d : JV) :
    remAll T d = mapKids (fun l c => remAll (strip l T) c) d := by
  cases d <;> simp [remAll, mapKids, remArr_inner T h, remObj_inner T h]

/-- only one-step locations in the set: the members named are dropped, the others stay as they are -/
theorem strip_singletons (T : List Path) (hs : ∀ p ∈ T, ∃ l, p = [l]) (l : Loc) (hl : [l] ∉ T) : strip l T = [] := by
  cases h : strip l T with
  | nil => rfl
  | cons q r =>
    have hq : q ∈ strip l T := by rw [h]; simp
    have hq' := (mem_strip l T q).1 hq
    obtain ⟨l', e⟩ := hs _ hq'
    injection e with e1 e2
    subst e2
    exact absurd hq' hl

theorem remArr_last (T : List Path) (hs : ∀ p ∈ T, ∃ l, p = [l]) : ∀ (xs : List JV) (i : Nat),
    remArr T i xs = dropIdx (fun j => T.contains [Loc.idx j]) i xs
  | [], _ => rfl
  | x :: r, i => by
    simp only [remArr, dropIdx]
    by_cases hc : T.contains [Loc.idx i] = true
    · simp only [hc, if_true, remArr_last T hs r (i + 1)]
    · have hn : [Loc.idx i] ∉ T := fun h => hc ((contains_iff T _).2 h)
      simp only [hc, Bool.false_eq_true, if_false, strip_singletons T hs _ hn, remAll_nil, remArr_last T hs r (i + 1)]

theorem remObj_last (T : List Path) (hs : ∀ p ∈ T, ∃ l, p = [l]) : ∀ (kvs : List (Bytes × JV)),
    remObj T kvs = kvs.filter fun kv => !T.contains [Loc.key kv.1]
  | [] => rfl
  | kv :: r => by
    simp only [remObj]
    by_cases hc : T.contains [Loc.key kv.1] = true
    · simp only [hc, if_true, remObj_last T hs r]
      rw [List.filter_cons_of_neg (by simpa using (contains_iff T _).1 hc)]
    · have hn : [Loc.key kv.1] ∉ T := fun h => hc ((contains_iff T _).2 h)
      simp only [hc, Bool.false_eq_true, if_false, strip_singletons T hs _ hn, remAll_nil, remObj_last T hs r]
      rw [List.filter_cons_of_pos (by simpa using hc)]

/-! ## the removers of the fragments -/

/-- what the specification removes from a container for the last fragment `f` -/
def remOf (σ : SliceFn) (f : Frag) (c : JV) : JV := remAll ((selG σ f c).map (·.1)) c

theorem selLocs_singletons (f : Frag) (c : JV) (hs : Shape σ f c) : ∀ p ∈ (selG σ f c).map (·.1), ∃ l, p = [l] := by
  intro p hp
  obtain ⟨m, hm, rfl⟩ := List.mem_map.1 hp
  obtain ⟨l, hl, _⟩ := hs m hm
  exact ⟨l, hl⟩

theorem mem_selLocs (f : Frag) (c : JV) (hs : Shape σ f c) (l : Loc) (v : JV) (hv : child? l c = some v) :
    [l] ∈ (selG σ f c).map (·.1) ↔ ([l], v) ∈ selG σ f c := by
  constructor
  · intro h
    obtain ⟨m, hm, e⟩ := List.mem_map.1 h
    obtain ⟨l', hl', hc'⟩ := hs m hm
    rw [hl'] at e
    injection e with e1 _
    subst e1
    rw [hv] at hc'
    injection hc' with hc'
    have : m = ([l'], v) := by cases m; simp_all
    rw [← this]; exact hm
  · intro h
    exact List.mem_map.2 ⟨([l], v), h, rfl⟩

theorem remOf_arr (f : Frag) (xs : List JV) (hs : Shape σ f (.arr xs)) :
    remOf σ f (.arr xs) = .arr (dropIdx (fun j => ((selG σ f (.arr xs)).map (·.1)).contains [Loc.idx j]) 0 xs) := by
  simp only [remOf, remAll, remArr_last _ (selLocs_singletons (σ := σ) f _ hs)]

theorem remOf_obj (f : Frag) (kvs : List (Bytes × JV)) (hs : Shape σ f (.obj kvs)) :
    remOf σ f (.obj kvs) = .obj (kvs.filter fun kv => !((selG σ f (.obj kvs)).map (·.1)).contains [Loc.key kv.1]) := by
  simp only [remOf, remAll, remObj_last _ (selLocs_singletons (σ := σ) f _ hs)]

theorem remOf_scalar (f : Frag) (c : JV) (hf : isDescentF f = false) (hc : isContainer c = false) : remOf σ f c = c := by
  simp [remOf, sel_scalar (σ := σ) f c hf hc, remAll_nil]

theorem dropIdx_congr (p q : Nat → Bool) : ∀ (xs : List JV) (o : Nat),
    (∀ j, j < xs.length → p (o + j) = q (o + j)) → dropIdx p o xs = dropIdx q o xs
  | [], _, _ => rfl
  | x :: r, o, h => by
    have h0 := h 0 (by simp)
    simp only [Nat.add_zero] at h0
    simp only [dropIdx, h0]
    rw [dropIdx_congr p q r (o + 1)]
    intro j hj
    have := h (j + 1) (by simpa using hj)
    have e : o + 1 + j = o + (j + 1) := by omega
    rw [e]; exact this

theorem dropIdx_none (p : Nat → Bool) : ∀ (xs : List JV) (o : Nat), (∀ j, j < xs.length → p (o + j) = false) → dropIdx p o xs = xs
  | [], _, _ => rfl
  | x :: r, o, h => by
    have h0 := h 0 (by simp)
    simp only [Nat.add_zero] at h0
    simp only [dropIdx, h0, Bool.false_eq_true, if_false]
    rw [dropIdx_none p r (o + 1)]
    intro j hj
    have := h (j + 1) (by simpa using hj)
    have e : o + 1 + j = o + (j + 1) := by omega
    rw [e]; exact this

theorem anyIdx_false (p : Nat → Bool) (n : Nat) (h : anyIdx p n = false) : ∀ j, j < n → p j = false := by
  intro j hj
  simp only [anyIdx, List.any_eq_false, List.mem_range] at h
  simpa using h j hj

/-- the general form: a remover that drops the positions `p` of an array, where `p` holds exactly at the
selected positions -/
theorem remOf_arr_of (f : Frag) (xs : List JV) (hs : Shape σ f (.arr xs)) (p : Nat → Bool)
    (hp : ∀ j v, xs[j]? = some v → (p j = true ↔ ([Loc.idx j], v) ∈ selG σ f (.arr xs))) :
    JV.arr (dropIdx p 0 xs) = remOf σ f (.arr xs) := by
  rw [remOf_arr f xs hs]
  congr 1
  apply dropIdx_congr
  intro j hj
  simp only [Nat.zero_add]
  obtain ⟨v, hv⟩ : ∃ v, xs[j]? = some v := ⟨xs[j], by simp [hj]⟩
  have h1 := hp j v hv
  have h2 := mem_selLocs (σ := σ) f (.arr xs) hs (.idx j) v hv
  cases hpj : p j <;> cases hcj : ((selG σ f (.arr xs)).map (·.1)).contains [Loc.idx j] <;> simp_all

theorem remOf_obj_of (f : Frag) (kvs : List (Bytes × JV)) (hn : (keysOf kvs).Nodup) (hs : Shape σ f (.obj kvs)) (p : Bytes × JV → Bool)
    (hp : ∀ kv ∈ kvs, (p kv = true ↔ ([Loc.key kv.1], kv.2) ∈ selG σ f (.obj kvs))) :
    JV.obj (kvs.filter fun kv => !p kv) = remOf σ f (.obj kvs) := by
  rw [remOf_obj f kvs hs]
  congr 1
  apply List.filter_congr
  intro kv hkv
  have h1 := hp kv hkv
  have h2 := mem_selLocs (σ := σ) f (.obj kvs) hs (.key kv.1) kv.2 (lookup_of_mem_nodup kvs hn kv hkv)
  cases hpj : p kv <;> cases hcj : ((selG σ f (.obj kvs)).map (·.1)).contains [Loc.key kv.1] <;> simp_all

theorem kvErase_eq_filter (k : Bytes) : ∀ (kvs : List (Bytes × JV)), kvErase k kvs = kvs.filter fun kv => !decide (kv.1 = k)
  | [] => rfl
  | m :: r => by
    simp only [kvErase, List.filter]
    by_cases h : m.1 = k
    · simp [h, kvErase_eq_filter k r]
    · simp [h, kvErase_eq_filter k r]

theorem eraseIdx_eq_dropIdx : ∀ (xs : List JV) (j o : Nat), xs.eraseIdx j = dropIdx (fun i => decide (i = o + j)) o xs
  | [], _, _ => rfl
  | x :: r, 0, o => by
    simp only [List.eraseIdx_cons_zero, dropIdx, Nat.add_zero, decide_true, if_true]
    rw [dropIdx_none]
    intro i _
    simp; omega
  | x :: r, j + 1, o => by
    simp only [List.eraseIdx_cons_succ, dropIdx]
    have : decide (o = o + (j + 1)) = false := by simp
    simp only [this, Bool.false_eq_true, if_false]
    congr 1
    have := eraseIdx_eq_dropIdx r j (o + 1)
    have e : o + 1 + j = o + (j + 1) := by omega
    rw [e] at this
    exact this

/-- what makes the `remove` method of the last fragment remove what the specification selects in `c` -/
def RemGood (σ : SliceFn) (dev : Dev) (f : Frag) (c : JV) : Prop :=
  match f with
  | .union ms => dev.removeUnionNeg = false ∨ ∀ i, Member.idx i ∈ ms → 0 ≤ i
  | .slice s e t => ∀ xs, c = .arr xs → ∀ i, i < xs.length → remSel dev xs.length s e t i = (σ xs.length s e t).contains i
  | .descent => False
  | _ => True

theorem Shape_of (f : Frag) (c : JV) (hf : isDescentF f = false) (hw : TopNodup c) : Shape σ f c := by
  cases f with
  | child k => exact (stepsOK_child (σ := σ) k c).shape
  | nth i => exact (stepsOK_nth (σ := σ) i c).shape
  | wild => exact (stepsOK_wild (σ := σ) c hw).shape
  | union ms =>
    intro m hm
    simp only [selG, sel, List.mem_flatMap] at hm
    obtain ⟨mb, _, h⟩ := hm
    exact selMember_shape c mb m h
  | slice s e t => exact (stepsOK_slice (σ := σ) s e t c (σ · s e t) (fun _ _ => rfl) (fun _ _ => NodupSlice.nodup _ s e t)).shape
  | filter p =>
    intro m hm
    simp only [selG, sel, List.mem_filter] at hm
    exact (stepsOK_wild (σ := σ) c hw).shape m (by simpa [selG, sel] using hm.1)
  | descent => simp [isDescentF] at hf

theorem eff_pair (c c' : JV) (b : Bool) (h : b = false → c' = c) : Modifier.eff (fun _ => (c', b)) c = c' := by
  cases b <;> simp_all [Modifier.eff]

theorem remOf_nosel (f : Frag) (c : JV) (h : selG σ f c = []) : remOf σ f c = c := by
  simp [remOf, h, remAll_nil]

theorem union_mem (ms : List Member) (d : JV) (l : Loc) (c : JV) (hc : child? l d = some c) :
    l ∈ unionLocs ms d ↔ ([l], c) ∈ selG σ (.union ms) d := by
  simp only [selG, sel, unionLocs, List.mem_filterMap, List.mem_flatMap]
  constructor
  · rintro ⟨mb, hmb, h⟩; exact ⟨mb, hmb, (selMember_mem d mb l c hc).2 h⟩
  · rintro ⟨mb, hmb, h⟩; exact ⟨mb, hmb, (selMember_mem d mb l c hc).1 h⟩

theorem kvErase_absent (k : Bytes) : ∀ (kvs : List (Bytes × JV)), lookup k kvs = none → kvErase k kvs = kvs
  | [], _ => rfl
  | m :: r, h => by
    simp only [lookup] at h
    by_cases e : m.1 = k
    · simp [e] at h
    · simp only [e, if_false] at h
      simp [kvErase, e, kvErase_absent k r h]

theorem dropIdx_all (p : Nat → Bool) : ∀ (xs : List JV) (o : Nat), (∀ j, j < xs.length → p (o + j) = true) → dropIdx p o xs = []
  | [], _, _ => rfl
  | x :: r, o, h => by
    have h0 := h 0 (by simp)
    simp only [Nat.add_zero] at h0
    simp only [dropIdx, h0, if_true]
    apply dropIdx_all p r (o + 1)
    intro j hj
    have := h (j + 1) (by simpa using hj)
    have e : o + 1 + j = o + (j + 1) := by omega
    rw [e]; exact this

theorem filter_eq_dropIdx (p : JV → Bool) (q : Nat → Bool) : ∀ (xs : List JV) (o : Nat),
    (∀ j v, xs[j]? = some v → q (o + j) = p v) → xs.filter (fun v => !p v) = dropIdx q o xs
  | [], _, _ => rfl
  | x :: r, o, h => by
    have h0 := h 0 x (by simp)
    simp only [Nat.add_zero] at h0
    have ih := filter_eq_dropIdx p q r (o + 1) (by
      intro j v hv
      have := h (j + 1) v (by simpa using hv)
      have e : o + 1 + j = o + (j + 1) := by omega
      rw [e]; exact this)
    simp only [dropIdx, h0]
    cases hp : p x with
    | true => simp [List.filter, hp, ih]
    | false => simp [List.filter, hp, ih]

theorem absIdx_nonneg (n : Nat) (i : Int) (j : Nat) (h0 : 0 ≤ i) (hj : j < n) : absIdx n i = some j ↔ i = (j : Int) := by
  have hneg : ¬ i < 0 := by omega
  simp only [absIdx, hneg, if_false]
  by_cases hh : 0 ≤ i ∧ i < (n : Int)
  · simp only [hh, and_self, if_true, Option.some.injEq]
    omega
  · simp only [hh, if_false]
    constructor
    · intro h; cases h
    · intro h; omega

theorem eff_ite (b : Bool) (c c' : JV) (h : b = false → c' = c) :
    (if (if b = true then (c', true) else (c, false)).2 = true then (if b = true then (c', true) else (c, false)).1 else c) = c' := by
  cases b <;> simp_all

/-- the `remove` method of every fragment kind removes from a container exactly the members it selects -/
theorem removeAllOf_eff (dev : Dev) (f : Frag) (m : Modifier) (hm : removeAllOf dev f = some m) (c : JV)
    (hw : TopNodup c) (hg : RemGood σ dev f c) : m.eff c = remOf σ f c := by
  cases f with
  | descent => cases hg
  | child k =>
    simp only [removeAllOf, Option.some.injEq] at hm
    subst hm
    cases c with
    | obj kvs =>
      have hs := Shape_of (σ := σ) (.child k) (.obj kvs) rfl hw
      have e : Modifier.eff (remChild k) (.obj kvs) = .obj (kvErase k kvs) := by
        simp only [Modifier.eff, remChild]
        apply eff_ite
        intro hb
        cases hl : lookup k kvs with
        | none => rw [kvErase_absent k kvs hl]
        | some v => simp [hl] at hb
      rw [e, kvErase_eq_filter]
      apply remOf_obj_of (.child k) kvs hw hs (fun kv => decide (kv.1 = k))
      intro kv hkv
      have hlk := lookup_of_mem_nodup kvs hw kv hkv
      rw [← (stepsOK_child (σ := σ) k (.obj kvs)).mem (.key kv.1) kv.2 hlk]
      simp [eq_comm]
    | arr xs =>
      have : (remChild k).eff (.arr xs) = .arr xs := by simp [Modifier.eff, remChild]
      rw [this]; exact (remOf_nosel _ _ (by simp [selG, sel, selMember])).symm
    | _ => exact (remOf_scalar _ _ rfl rfl).symm
  | nth i =>
    simp only [removeAllOf, Option.some.injEq] at hm
    subst hm
    cases c with
    | arr xs =>
      have hs := Shape_of (σ := σ) (.nth i) (.arr xs) rfl hw
      cases ha : absIdx xs.length i with
      | none =>
        have : Modifier.eff (remNth i) (.arr xs) = .arr xs := by simp [Modifier.eff, remNth, ha]
        rw [this]
        exact (remOf_nosel _ _ (by simp [selG, sel, selMember, ha])).symm
      | some j =>
        have : Modifier.eff (remNth i) (.arr xs) = .arr (xs.eraseIdx j) := by simp [Modifier.eff, remNth, ha]
        rw [this, eraseIdx_eq_dropIdx xs j 0]
        apply remOf_arr_of (.nth i) xs hs
        intro j' v hv
        rw [← (stepsOK_nth (σ := σ) i (.arr xs)).mem (.idx j') v hv]
        simp [memberLoc, ha, eq_comm]
    | obj kvs =>
      have : (remNth i).eff (.obj kvs) = .obj kvs := by simp [Modifier.eff, remNth]
      rw [this]; exact (remOf_nosel _ _ (by simp [selG, sel, selMember])).symm
    | _ => exact (remOf_scalar _ _ rfl rfl).symm
  | wild =>
    simp only [removeAllOf, Option.some.injEq] at hm
    subst hm
    cases c with
    | arr xs =>
      have hs := Shape_of (σ := σ) .wild (.arr xs) rfl hw
      have e : Modifier.eff remWild (.arr xs) = .arr [] := by
        cases xs <;> simp [Modifier.eff, remWild]
      rw [e, ← dropIdx_all (fun _ => true) xs 0 (fun _ _ => rfl)]
      apply remOf_arr_of .wild xs hs
      intro j v hv
      rw [← (stepsOK_wild (σ := σ) (.arr xs) hw).mem (.idx j) v hv]
      simp only [mem_idxLocs, true_iff]
      exact ⟨j, (List.getElem?_eq_some_iff.1 hv).1, rfl⟩
    | obj kvs =>
      have hs := Shape_of (σ := σ) .wild (.obj kvs) rfl hw
      have e : Modifier.eff remWild (.obj kvs) = .obj (kvs.filter fun kv => !(fun _ => true) kv) := by
        cases kvs <;> simp [Modifier.eff, remWild]
      rw [e]
      apply remOf_obj_of .wild kvs hw hs
      intro kv hkv
      have hlk := lookup_of_mem_nodup kvs hw kv hkv
      rw [← (stepsOK_wild (σ := σ) (.obj kvs) hw).mem (.key kv.1) kv.2 hlk]
      simp only [mem_keyLocs, true_iff]
      exact ⟨kv.1, List.mem_map_of_mem (f := (·.1)) hkv, rfl⟩
    | _ => exact (remOf_scalar _ _ rfl rfl).symm
  | union ms =>
    simp only [removeAllOf, Option.some.injEq] at hm
    subst hm
    cases c with
    | arr xs =>
      have hs := Shape_of (σ := σ) (.union ms) (.arr xs) rfl hw
      have e : Modifier.eff (remUnion dev ms) (.arr xs) = .arr (dropIdx (hasN dev xs.length ms) 0 xs) := by
        simp only [Modifier.eff, remUnion]
        apply eff_ite
        intro ha
        rw [dropIdx_none]
        intro j hj
        simpa using anyIdx_false _ _ ha j hj
      rw [e]
      apply remOf_arr_of (.union ms) xs hs
      intro j v hv
      have hjn := (List.getElem?_eq_some_iff.1 hv).1
      rw [← union_mem (σ := σ) ms (.arr xs) (.idx j) v hv]
      simp only [hasN, List.any_eq_true, unionLocs, List.mem_filterMap]
      constructor
      · rintro ⟨mb, hmb, h⟩
        refine ⟨mb, hmb, ?_⟩
        cases mb with
        | key k => simp at h
        | idx i' =>
          simp only [memberLoc]
          by_cases hf : dev.removeUnionNeg = true
          · simp only [hf, if_true, decide_eq_true_eq] at h
            rcases hg with hg | hg
            · rw [hg] at hf; cases hf
            · have := (absIdx_nonneg xs.length i' j (hg i' hmb) hjn).2 h
              simp [this]
          · simp only [hf, Bool.false_eq_true, if_false, decide_eq_true_eq] at h
            simp [h]
      · rintro ⟨mb, hmb, h⟩
        refine ⟨mb, hmb, ?_⟩
        cases mb with
        | key k => simp [memberLoc] at h
        | idx i' =>
          simp only [memberLoc] at h
          cases ha : absIdx xs.length i' with
          | none => simp [ha] at h
          | some j' =>
            simp only [ha, Option.map_some, Option.some.injEq, Loc.idx.injEq] at h
            subst h
            by_cases hf : dev.removeUnionNeg = true
            · simp only [hf, if_true, decide_eq_true_eq]
              rcases hg with hg | hg
              · rw [hg] at hf; cases hf
              · exact (absIdx_nonneg xs.length i' j' (hg i' hmb) hjn).1 ha
            · simp only [hf, Bool.false_eq_true, if_false, decide_eq_true_eq]
              exact ha
    | obj kvs =>
      have hs := Shape_of (σ := σ) (.union ms) (.obj kvs) rfl hw
      have e : Modifier.eff (remUnion dev ms) (.obj kvs) = .obj (kvs.filter fun kv => !(fun kv => hasKey ms kv.1) kv) := by
        simp only [Modifier.eff, remUnion]
        apply eff_ite
        intro ha
        congr 1
        rw [List.filter_eq_self]
        intro kv hkv
        simp only [List.any_eq_false] at ha
        simpa using ha kv hkv
      rw [e]
      apply remOf_obj_of (.union ms) kvs hw hs
      intro kv hkv
      have hlk := lookup_of_mem_nodup kvs hw kv hkv
      rw [← union_mem (σ := σ) ms (.obj kvs) (.key kv.1) kv.2 hlk]
      simp only [hasKey, List.any_eq_true, unionLocs, List.mem_filterMap]
      constructor
      · rintro ⟨mb, hmb, h⟩
        refine ⟨mb, hmb, ?_⟩
        cases mb with
        | key k => simp only [decide_eq_true_eq] at h; simp [memberLoc, h]
        | idx i' => simp at h
      · rintro ⟨mb, hmb, h⟩
        refine ⟨mb, hmb, ?_⟩
        cases mb with
        | key k => simp only [memberLoc, Option.some.injEq, Loc.key.injEq] at h; simp [h]
        | idx i' => simp [memberLoc] at h
    | _ => exact (remOf_scalar _ _ rfl rfl).symm
  | slice s e t =>
    simp only [removeAllOf, Option.some.injEq] at hm
    subst hm
    cases c with
    | arr xs =>
      have hs := Shape_of (σ := σ) (.slice s e t) (.arr xs) rfl hw
      have e' : Modifier.eff (remSlice dev s e t) (.arr xs) = .arr (dropIdx (remSel dev xs.length s e t) 0 xs) := by
        simp only [Modifier.eff, remSlice]
        apply eff_ite
        intro ha
        rw [dropIdx_none]
        intro j hj
        simpa using anyIdx_false _ _ ha j hj
      rw [e']
      apply remOf_arr_of (.slice s e t) xs hs
      intro j v hv
      have hjn := (List.getElem?_eq_some_iff.1 hv).1
      have hok := stepsOK_slice (σ := σ) s e t (.arr xs) (σ · s e t) (fun _ _ => rfl) (fun _ _ => NodupSlice.nodup _ s e t)
      rw [← hok.mem (.idx j) v hv, hg xs rfl j hjn]
      simp
    | obj kvs =>
      have : (remSlice dev s e t).eff (.obj kvs) = .obj kvs := by simp [Modifier.eff, remSlice]
      rw [this]; exact (remOf_nosel _ _ (by simp [selG, sel])).symm
    | _ => exact (remOf_scalar _ _ rfl rfl).symm
  | filter p =>
    simp only [removeAllOf, Option.some.injEq] at hm
    subst hm
    cases c with
    | arr xs =>
      have hs := Shape_of (σ := σ) (.filter p) (.arr xs) rfl hw
      have e' : Modifier.eff (remFilter p) (.arr xs) = .arr (xs.filter fun v => !p v) := by
        simp only [Modifier.eff, remFilter]
        apply eff_ite
        intro ha
        congr 1
        rw [List.filter_eq_self]
        intro v hv
        simp only [List.any_eq_false] at ha
        simpa using ha v hv
      rw [e', filter_eq_dropIdx p (fun j => p (xs.getD j .null)) xs 0 (by
        intro j v hv
        simp [List.getD, hv])]
      apply remOf_arr_of (.filter p) xs hs
      intro j v hv
      have hok := stepsOK_filter (σ := σ) p (.arr xs) hw _ (stepsOK_wild (σ := σ) (.arr xs) hw)
      rw [← hok.mem (.idx j) v hv, mem_filterLocs p (.arr xs) _ (.idx j) v hv]
      simp only [List.getD, hv, Option.getD_some, mem_idxLocs]
      constructor
      · intro h; exact ⟨⟨j, (List.getElem?_eq_some_iff.1 hv).1, rfl⟩, h⟩
      · intro h; exact h.2
    | obj kvs =>
      have hs := Shape_of (σ := σ) (.filter p) (.obj kvs) rfl hw
      have e' : Modifier.eff (remFilter p) (.obj kvs) = .obj (kvs.filter fun kv => !(fun kv => p kv.2) kv) := by
        simp only [Modifier.eff, remFilter]
        apply eff_ite
        intro ha
        congr 1
        rw [List.filter_eq_self]
        intro kv hkv
        simp only [List.any_eq_false] at ha
        simpa using ha kv hkv
      rw [e']
      apply remOf_obj_of (.filter p) kvs hw hs
      intro kv hkv
      have hlk := lookup_of_mem_nodup kvs hw kv hkv
      have hok := stepsOK_filter (σ := σ) p (.obj kvs) hw _ (stepsOK_wild (σ := σ) (.obj kvs) hw)
      rw [← hok.mem (.key kv.1) kv.2 hlk, mem_filterLocs p (.obj kvs) _ (.key kv.1) kv.2 hlk]
      simp only [mem_keyLocs]
      constructor
      · intro h; exact ⟨⟨kv.1, List.mem_map_of_mem (f := (·.1)) hkv, rfl⟩, h⟩
      · intro h; exact h.2
    | _ => exact (remOf_scalar _ _ rfl rfl).symm

/-! ## Remove = `remAll` at the selected locations -/

theorem locs_single (f : Frag) (d : JV) : SameSet (locsG σ [f] d) ((selG σ f d).map (·.1)) := by
  intro p
  rw [mem_locs_cons]
  simp only [locs_nil, List.mem_singleton, List.mem_map]
  constructor
  · rintro ⟨m, hm, q, rfl, rfl⟩; exact ⟨m, hm, by simp⟩
  · rintro ⟨m, hm, rfl⟩; exact ⟨m, hm, [], rfl, by simp⟩

theorem locs_no_nil : ∀ (x : List Frag), x ≠ [] → NoDescent x → ∀ (c : JV), TopNodup c → [] ∉ locsG σ x c
  | [], h, _, _, _ => absurd rfl h
  | g :: r, _, hnd, c, hw => by
    intro h
    have := hasNil_locs_cons (σ := σ) g r c (Shape_of (σ := σ) g c (hnd g (by simp)) hw)
    rw [(hasNil_iff _).2 h] at this
    cases this

/-- the remover of the last fragment is good on every value the path before it selects -/
def RemPath (σ : SliceFn) (dev : Dev) (f : Frag) : List Frag → JV → Prop
  | [], d => RemGood σ dev f d
  | h :: r, d => ∀ m ∈ selG σ h d, RemPath σ dev f r m.2

theorem upd_rem (dev : Dev) (f : Frag) (m : Modifier) (hm : removeAllOf dev f = some m) (hf : isDescentF f = false) :
    ∀ (sx : List Frag), NoDescent sx → ∀ (d : JV), WF d → RemPath σ dev f sx d →
      updAll m.eff (locsG σ sx d) d = remAll (locsG σ (sx ++ [f]) d) d
  | [], _, d, hw, hr => by
    rw [locs_nil, updAll_here, removeAllOf_eff dev f m hm d (WF_top d hw) hr]
    simp only [List.nil_append, remOf]
    exact (remAll_congr d _ _ (locs_single (σ := σ) f d)).symm
  | h :: r, hnd, d, hw, hr => by
    have hh : isDescentF h = false := hnd h (by simp)
    have hs := Shape_of (σ := σ) h d hh (WF_top d hw)
    have hndr : NoDescent r := fun g hg => hnd g (List.mem_cons_of_mem _ hg)
    rw [updAll_eq, hasNil_locs_cons (σ := σ) h r d hs]
    simp only [Bool.false_eq_true, if_false, List.cons_append]
    have hno : ∀ l, [l] ∉ locsG σ (h :: (r ++ [f])) d := by
      intro l hl
      obtain ⟨m', hm', q, hq, e⟩ := (mem_locs_cons (σ := σ) h (r ++ [f]) d [l]).1 hl
      obtain ⟨l', hl', hc'⟩ := hs m' hm'
      rw [hl'] at e
      simp only [List.singleton_append, List.cons.injEq] at e
      obtain ⟨_, rfl⟩ := e
      have hndrf : NoDescent (r ++ [f]) := by
        intro g hg
        rcases List.mem_append.1 hg with hg | hg
        · exact hndr g hg
        · simp only [List.mem_singleton] at hg; rw [hg]; exact hf
      exact locs_no_nil (σ := σ) (r ++ [f]) (by simp) hndrf m'.2 (WF_top _ (WF_child l' d m'.2 hw hc')) hq
    rw [remAll_inner _ hno d]
    apply mapKids_congr d (WF_top d hw)
    intro l c hc
    by_cases hsel : ([l], c) ∈ selG σ h d
    · rw [updAll_congr m.eff c _ _ (strip_locs_sel (σ := σ) h r d hs l c hc hsel),
        remAll_congr c _ _ (strip_locs_sel (σ := σ) h (r ++ [f]) d hs l c hc hsel)]
      exact upd_rem dev f m hm hf r hndr c (WF_child l d c hw hc) (hr ([l], c) hsel)
    · rw [updAll_congr m.eff c _ _ (strip_locs_not (σ := σ) h r d hs l c hc hsel), updAll_nil,
        remAll_congr c _ _ (strip_locs_not (σ := σ) h (r ++ [f]) d hs l c hc hsel), remAll_nil]

/-- Remove on simple data, a path without descent: the returned tree is the input with exactly the
selected members removed -/
theorem removeM_eq (dev : Dev) (sx : List Frag) (f : Frag) (d : JV) (hnd : NoDescent (sx ++ [f])) (hw : WF d)
    (hg : GoodPath σ dev sx d) (hr : RemPath σ dev f sx d) :
    removeM false dev false (sx ++ [f]) d = .ok (remAll (locsG σ (sx ++ [f]) d) d) := by
  have hf : isDescentF f = false := hnd f (by simp)
  have hndx : NoDescent sx := fun g hg => hnd g (List.mem_append_left _ hg)
  obtain ⟨m, hm⟩ : ∃ m, removeAllOf dev f = some m := by
    cases f <;> simp_all [removeAllOf, isDescentF]
  simp only [removeM, List.getLast?_append, List.getLast?_singleton, Option.some_or, hm, Bool.false_eq_true, if_false,
    List.dropLast_concat]
  by_cases hroot : sx = [] ∧ dev.rootScalar = true ∧ isContainer d = false
  · obtain ⟨rfl, h2, h3⟩ := hroot
    have : isDescent ([] : List Frag).getLast? = false := rfl
    simp only [modifyCore, this, Bool.false_eq_true, if_false, List.isEmpty_nil, h2, h3, Bool.not_false, Bool.and_self, if_true,
      List.nil_append]
    congr 1
    have : locsG σ [f] d = [] := locs_scalar (σ := σ) f [] d hf h3
    rw [this, remAll_nil]
  · have := modifyM_eq dev m sx d hndx hw hg hroot
    simp only [modifyM] at this
    rw [this, upd_rem dev f m hm hf sx hndx d hw hr]

end OjgVerif.JPMut
