import OjgVerif.JPMut.LemmasDescentOne
import OjgVerif.JPMut.LemmasDescentRem
/-! # SetOne / DelOne through ONE recursive descent

As for ModifyOne: a One form has edited nothing before its single write, so the descent work-list (members' subtrees first,
then the node) stops at the first place where the rest of the path writes, deletes or creates, and the result is the
all-matches edit at that ONE selected location — or ONE created member. -/
set_option linter.unusedSimpArgs false
set_option linter.unusedSectionVars false
set_option linter.unusedVariables false

namespace OjgVerif.JPMut
open OjgVerif OjgVerif.JPath

variable {σ : SliceFn} [NodupSlice σ]

mutual
  /-- the rest of the path is good for `set` (`GoodPathS`) on every node of the value -/
  def GoodDS (σ : SliceFn) (dev : Dev) (rest : List Frag) : JV → Prop
    | .arr xs => GoodPathS σ dev rest (.arr xs) ∧ GoodDSL σ dev rest xs
    | .obj kvs => GoodPathS σ dev rest (.obj kvs) ∧ GoodDSK σ dev rest kvs
    | .null => True
    | .bool _ => True
    | .int _ => True
    | .flt _ => True
    | .big _ => True
    | .num _ => True
    | .str _ => True
  def GoodDSL (σ : SliceFn) (dev : Dev) (rest : List Frag) : List JV → Prop
    | [] => True
    | x :: r => GoodDS σ dev rest x ∧ GoodDSL σ dev rest r
  def GoodDSK (σ : SliceFn) (dev : Dev) (rest : List Frag) : List (Bytes × JV) → Prop
    | [] => True
    | m :: r => GoodDS σ dev rest m.2 ∧ GoodDSK σ dev rest r
end

/-- what Set creates below a descent followed by `rest` -/
abbrev createsD (σ : SliceFn) (v : JV) (rest : List Frag) (d : JV) : List (Path × JV) := createsG σ v (.descent :: rest) d

theorem ownCreates_descent (v : JV) (rest : List Frag) (d : JV) : ownCreates v .descent rest d = [] := by
  cases d <;> rfl

theorem mem_createsD (v : JV) (rest : List Frag) (d : JV) (c : Path × JV) :
    c ∈ createsD σ v rest d ↔ ∃ mm ∈ desc d, ∃ c' ∈ createsG σ v rest mm.2, c = (mm.1 ++ c'.1, c'.2) := by
  simp only [createsD, creates_cons, ownCreates_descent, List.nil_append, List.mem_flatMap, List.mem_map, preC]
  constructor
  · rintro ⟨mm, hm, c', hc', rfl⟩; exact ⟨mm, hm, c', hc', rfl⟩
  · rintro ⟨mm, hm, c', hc', rfl⟩; exact ⟨mm, hm, c', hc', rfl⟩

/-- the invariant of a One form of `set` for arbitrary location / creation lists -/
def SetOneAt (a : SetArg) (T : List Path) (C : JV → List (Path × JV)) (d : JV) (r : R) : Prop :=
  (r.st = .go → r.d = d ∧ T = [] ∧ ∀ v, a = .val v → C v = []) ∧
  (r.st = .stop → (∃ p ∈ T, r.d = singleA a p d) ∨ (∃ v c, a = .val v ∧ c ∈ C v ∧ r.d = insAll [c] d))

theorem setOneAt_of_setOne (a : SetArg) (x : List Frag) (d : JV) (r : R) (h : SetOne σ a x d r) :
    SetOneAt a (locsG σ x d) (fun v => createsG σ v x d) d r := h

/-- nothing selected, nothing to create below the value -/
def Barren (σ : SliceFn) (a : SetArg) (rest : List Frag) (x : JV) : Prop :=
  locsD σ rest x = [] ∧ ∀ v, a = .val v → createsD σ v rest x = []

theorem setAt_node_go (a : SetArg) (rest : List Frag) (d : JV) (hn : TopNodup d) (r : R)
    (hkids : ∀ l c, child? l d = some c → Barren σ a rest c)
    (hr : SetOneAt a (locsG σ rest d) (fun v => createsG σ v rest d) d r) :
    SetOneAt a (locsD σ rest d) (fun v => createsD σ v rest d) d r := by
  refine ⟨fun hst => ?_, fun hst => ?_⟩
  · obtain ⟨h1, h2, h3⟩ := hr.1 hst
    refine ⟨h1, ?_, ?_⟩
    · apply List.eq_nil_iff_forall_not_mem.2
      intro p hp
      rcases locsD_cases rest d hn p hp with h | ⟨l, c0, q, hc, hq, _⟩
      · rw [h2] at h; cases h
      · rw [(hkids l c0 hc).1] at hq; cases hq
    · intro v hv
      apply List.eq_nil_iff_forall_not_mem.2
      intro c hc
      obtain ⟨mm, hm, c', hc', rfl⟩ := (mem_createsD v rest d c).1 hc
      rcases (mem_desc d hn mm).1 hm with rfl | ⟨l, c0, hc0, m', hm', rfl⟩
      · have h3' : createsG σ v rest d = [] := h3 v hv
        simp only at hc'
        rw [h3'] at hc'; cases hc'
      · have : (m'.1 ++ c'.1, c'.2) ∈ createsD σ v rest c0 := (mem_createsD v rest c0 _).2 ⟨m', hm', c', hc', rfl⟩
        have hk' : createsD σ v rest c0 = [] := (hkids l c0 hc0).2 v hv
        rw [hk'] at this
        cases this
  · rcases hr.2 hst with ⟨p, hp, hd⟩ | ⟨v, c, rfl, hc, hd⟩
    · exact Or.inl ⟨p, mem_locsD_self rest d p hp, hd⟩
    · refine Or.inr ⟨v, c, rfl, (mem_createsD v rest d c).2 ⟨([], d), ?_, c, hc, by simp⟩, hd⟩
      cases d <;> simp [desc]

theorem setAt_node_stop (a : SetArg) (rest : List Frag) (hne : rest ≠ []) (hnd : NoDescent rest) (d c : JV) (l : Loc) (hw : WF d)
    (hc : child? l d = some c) (rc : R)
    (hrc : SetOneAt a (locsD σ rest c) (fun v => createsD σ v rest c) c rc) (hst : rc.st = .stop) :
    SetOneAt a (locsD σ rest d) (fun v => createsD σ v rest d) d ⟨putChild l rc.d d, .stop⟩ := by
  have hwc := WF_child l d c hw hc
  have hn := WF_top d hw
  have hn1 : 1 ≤ rest.length := by cases rest with | nil => exact absurd rfl hne | cons g r => simp
  refine ⟨(fun h => by cases h), fun _ => ?_⟩
  rcases hrc.2 hst with ⟨p, hp, hd⟩ | ⟨v, c', rfl, hc', hd⟩
  · have hpne : p ≠ [] := by
      intro e
      have := locsD_len (σ := σ) rest hnd c hwc p hp
      rw [e] at this
      simp only [List.length_nil] at this; omega
    refine Or.inl ⟨l :: p, mem_locsD_child rest d c l hn hc p hp, ?_⟩
    simp only
    rw [hd, singleA_cons a l p hpne d c hn hc]
  · obtain ⟨mm, hm, c'', hc'', rfl⟩ := (mem_createsD v rest c c').1 hc'
    have hne2 : c''.1 ≠ [] := creates_ne_nil (σ := σ) v rest hnd mm.2 (WF_desc c hwc mm hm) c'' hc''
    have hpne : mm.1 ++ c''.1 ≠ [] := by
      intro e
      exact hne2 (List.append_eq_nil_iff.1 e).2
    refine Or.inr ⟨v, (l :: (mm.1 ++ c''.1), c''.2), rfl, ?_, ?_⟩
    · exact (mem_createsD v rest d _).2 ⟨pfx l mm, (mem_desc d hn _).2 (Or.inr ⟨l, c, hc, mm, hm, rfl⟩), c'', hc'', rfl⟩
    · simp only
      rw [hd]
      exact (insAll_single_cons l (mm.1 ++ c''.1) c''.2 hpne d c hn hc).symm

theorem setAt_scalar (a : SetArg) (rest : List Frag) (hne : rest ≠ []) (hnd : NoDescent rest) (d : JV) (hd : isContainer d = false) :
    SetOneAt a (locsD σ rest d) (fun v => createsD σ v rest d) d ⟨d, .go⟩ := by
  obtain ⟨g, r, hr⟩ : ∃ g r, rest = g :: r := by cases rest with | nil => exact absurd rfl hne | cons g r => exact ⟨g, r, rfl⟩
  have hg : isDescentF g = false := hnd g (by rw [hr]; simp)
  refine ⟨fun _ => ⟨rfl, locsD_scalar (σ := σ) rest g r hr hg d hd, ?_⟩, fun h => by cases h⟩
  intro v _
  apply List.eq_nil_iff_forall_not_mem.2
  intro c hc
  obtain ⟨mm, hm, c', hc', _⟩ := (mem_createsD v rest d c).1 hc
  have : mm = ([], d) := by cases d <;> simp_all [desc, isContainer]
  rw [this, hr, creates_scalar v g r d hg hd] at hc'
  cases hc'

mutual
  /-- the descent work-list in a One form of `set` -/
  theorem descGo_setOne (dev : Dev) (hda : dev.delOneAbsent = false) (a : SetArg) (rest : List Frag) (hne : rest ≠ [])
      (hnd : NoDescent rest) (hl : ∀ f, rest.getLast? = some f → endable f = true) : ∀ (d : JV), WF d → GoodDS σ dev rest d →
      SetOneAt a (locsD σ rest d) (fun v => createsD σ v rest d) d (descGo (setF false dev true a rest false) d)
    | .arr xs, hw, hg => by
      simp only [GoodDS] at hg
      have hL := descArr_setOne dev hda a rest hne hnd hl xs (by simpa [WF] using hw) hg.2
      simp only [descGo]
      cases hst : (descArr (setF false dev true a rest false) xs).st with
      | go =>
        obtain ⟨h1, h2⟩ := hL.1 hst
        rw [h1]
        simp only
        apply setAt_node_go a rest (.arr xs) trivial
        · intro l c hc
          obtain ⟨j, _, hj⟩ := child?_arr_inv l xs c hc
          exact h2 c (List.mem_of_getElem? hj)
        · exact setOneAt_of_setOne a rest _ _ (setF_one (σ := σ) dev hda a rest hne hnd hl false (.arr xs) hw hg.1)
      | stop =>
        obtain ⟨i, x, rc, hx, hrc, hrs, hd⟩ := hL.2 hst
        rw [hd]
        simp only
        exact setAt_node_stop a rest hne hnd (.arr xs) x (.idx i) hw hx rc hrc hrs
      | err e => exact ⟨(fun h => by cases h), fun h => by cases h⟩
      | fault => exact ⟨(fun h => by cases h), fun h => by cases h⟩
      | stale => exact ⟨(fun h => by cases h), fun h => by cases h⟩
    | .obj kvs, hw, hg => by
      simp only [GoodDS] at hg
      have hw' := hw
      simp only [WF] at hw'
      have hL := descObj_setOne dev hda a rest hne hnd hl kvs hw'.2 hg.2
      simp only [descGo]
      cases hst : (descObj (setF false dev true a rest false) kvs).st with
      | go =>
        obtain ⟨h1, h2⟩ := hL.1 hst
        rw [h1]
        simp only
        apply setAt_node_go a rest (.obj kvs) hw'.1
        · intro l c hc
          obtain ⟨k, _, hk⟩ := child?_obj_inv l kvs c hc
          exact h2 (k, c) (lookup_mem kvs k c hk)
        · exact setOneAt_of_setOne a rest _ _ (setF_one (σ := σ) dev hda a rest hne hnd hl false (.obj kvs) hw hg.1)
      | stop =>
        obtain ⟨pre, suf, kv, rc, hsplit, hrc, hrs, hd⟩ := hL.2 hst
        rw [hd]
        simp only
        have hmem : kv ∈ kvs := by rw [hsplit]; simp
        have hc : child? (.key kv.1) (.obj kvs) = some kv.2 := lookup_of_mem_nodup kvs hw'.1 kv hmem
        have hnot : kv.1 ∉ keysOf pre := by
          have hn := hw'.1
          rw [hsplit] at hn
          simp only [keysOf, List.map_append, List.map_cons] at hn
          have := (List.nodup_append.1 hn).2.2
          intro hin
          exact this kv.1 hin kv.1 (by simp) rfl
        have := setAt_node_stop a rest hne hnd (.obj kvs) kv.2 (.key kv.1) hw hc rc hrc hrs
        have e : putChild (.key kv.1) rc.d (.obj kvs) = .obj (pre ++ (kv.1, rc.d) :: suf) := by
          simp only [putChild]
          rw [hsplit]
          have : kv = (kv.1, kv.2) := rfl
          rw [this, kvInsert_split kv.1 rc.d kv.2 pre suf hnot]
        rw [e] at this
        exact this
      | err e => exact ⟨(fun h => by cases h), fun h => by cases h⟩
      | fault => exact ⟨(fun h => by cases h), fun h => by cases h⟩
      | stale => exact ⟨(fun h => by cases h), fun h => by cases h⟩
    | .null, _, _ => setAt_scalar a rest hne hnd _ rfl
    | .bool _, _, _ => setAt_scalar a rest hne hnd _ rfl
    | .int _, _, _ => setAt_scalar a rest hne hnd _ rfl
    | .flt _, _, _ => setAt_scalar a rest hne hnd _ rfl
    | .big _, _, _ => setAt_scalar a rest hne hnd _ rfl
    | .num _, _, _ => setAt_scalar a rest hne hnd _ rfl
    | .str _, _, _ => setAt_scalar a rest hne hnd _ rfl
  theorem descArr_setOne (dev : Dev) (hda : dev.delOneAbsent = false) (a : SetArg) (rest : List Frag) (hne : rest ≠ [])
      (hnd : NoDescent rest) (hl : ∀ f, rest.getLast? = some f → endable f = true) : ∀ (xs : List JV), WFL xs → GoodDSL σ dev rest xs →
      ((descArr (setF false dev true a rest false) xs).st = .go →
        (descArr (setF false dev true a rest false) xs).xs = xs ∧ ∀ x ∈ xs, Barren σ a rest x) ∧
      ((descArr (setF false dev true a rest false) xs).st = .stop →
        ∃ i x rc, xs[i]? = some x ∧ SetOneAt a (locsD σ rest x) (fun v => createsD σ v rest x) x rc ∧ rc.st = .stop ∧
          (descArr (setF false dev true a rest false) xs).xs = xs.set i rc.d)
    | [], _, _ => ⟨fun _ => ⟨rfl, fun _ h => nomatch h⟩, fun h => nomatch h⟩
    | x :: r, hw, hg => by
      simp only [WFL] at hw
      simp only [GoodDSL] at hg
      have hx := descGo_setOne dev hda a rest hne hnd hl x hw.1 hg.1
      have hr := descArr_setOne dev hda a rest hne hnd hl r hw.2 hg.2
      simp only [descArr]
      cases hst : (descGo (setF false dev true a rest false) x).st with
      | go =>
        obtain ⟨h1, h2, h3⟩ := hx.1 hst
        simp only
        rw [h1]
        refine ⟨fun h => ?_, fun h => ?_⟩
        · obtain ⟨h4, h5⟩ := hr.1 h
          refine ⟨by rw [h4], ?_⟩
          intro y hy
          rcases List.mem_cons.1 hy with e | hy'
          · rw [e]; exact ⟨h2, h3⟩
          · exact h5 y hy'
        · obtain ⟨i, y, rc, hy, hrc, hrs, hd⟩ := hr.2 h
          exact ⟨i + 1, y, rc, by simpa using hy, hrc, hrs, by rw [hd]; rfl⟩
      | stop => exact ⟨(fun h => by cases h), fun _ => ⟨0, x, _, rfl, hx, hst, rfl⟩⟩
      | err e => exact ⟨(fun h => by cases h), fun h => by cases h⟩
      | fault => exact ⟨(fun h => by cases h), fun h => by cases h⟩
      | stale => exact ⟨(fun h => by cases h), fun h => by cases h⟩
  theorem descObj_setOne (dev : Dev) (hda : dev.delOneAbsent = false) (a : SetArg) (rest : List Frag) (hne : rest ≠ [])
      (hnd : NoDescent rest) (hl : ∀ f, rest.getLast? = some f → endable f = true) : ∀ (kvs : List (Bytes × JV)), WFK kvs →
      GoodDSK σ dev rest kvs →
      ((descObj (setF false dev true a rest false) kvs).st = .go →
        (descObj (setF false dev true a rest false) kvs).kvs = kvs ∧ ∀ kv ∈ kvs, Barren σ a rest kv.2) ∧
      ((descObj (setF false dev true a rest false) kvs).st = .stop →
        ∃ pre suf kv rc, kvs = pre ++ kv :: suf ∧ SetOneAt a (locsD σ rest kv.2) (fun v => createsD σ v rest kv.2) kv.2 rc ∧
          rc.st = .stop ∧ (descObj (setF false dev true a rest false) kvs).kvs = pre ++ (kv.1, rc.d) :: suf)
    | [], _, _ => ⟨fun _ => ⟨rfl, fun _ h => nomatch h⟩, fun h => nomatch h⟩
    | kv :: r, hw, hg => by
      simp only [WFK] at hw
      simp only [GoodDSK] at hg
      have hx := descGo_setOne dev hda a rest hne hnd hl kv.2 hw.1 hg.1
      have hr := descObj_setOne dev hda a rest hne hnd hl r hw.2 hg.2
      simp only [descObj]
      cases hst : (descGo (setF false dev true a rest false) kv.2).st with
      | go =>
        obtain ⟨h1, h2, h3⟩ := hx.1 hst
        simp only
        rw [h1]
        refine ⟨fun h => ?_, fun h => ?_⟩
        · obtain ⟨h4, h5⟩ := hr.1 h
          refine ⟨by rw [h4], ?_⟩
          intro y hy
          rcases List.mem_cons.1 hy with e | hy'
          · rw [e]; exact ⟨h2, h3⟩
          · exact h5 y hy'
        · obtain ⟨pre, suf, y, rc, hsplit, hrc, hrs, hd⟩ := hr.2 h
          exact ⟨kv :: pre, suf, y, rc, by rw [hsplit]; rfl, hrc, hrs, by rw [hd]; rfl⟩
      | stop => exact ⟨(fun h => by cases h), fun _ => ⟨[], r, kv, _, rfl, hx, hst, rfl⟩⟩
      | err e => exact ⟨(fun h => by cases h), fun h => by cases h⟩
      | fault => exact ⟨(fun h => by cases h), fun h => by cases h⟩
      | stale => exact ⟨(fun h => by cases h), fun h => by cases h⟩
end

/-! ## the path before the descent -/

theorem createsD_scalar (v : JV) (rest : List Frag) (hne : rest ≠ []) (hnd : NoDescent rest) (d : JV) (hd : isContainer d = false) :
    createsD σ v rest d = [] :=
  ((setAt_scalar (σ := σ) (.val v) rest hne hnd d hd).1 rfl).2.2 v rfl

theorem createsD_ne (v : JV) (rest : List Frag) (hnd : NoDescent rest) (c : JV) (hw : WF c) (c' : Path × JV)
    (hc' : c' ∈ createsD σ v rest c) : c'.1 ≠ [] := by
  obtain ⟨mm, hm, c'', hc'', rfl⟩ := (mem_createsD v rest c c').1 hc'
  have := creates_ne_nil (σ := σ) v rest hnd mm.2 (WF_desc c hw mm hm) c'' hc''
  intro e
  exact this (List.append_eq_nil_iff.1 e).2

theorem tailOK_desc (rest : List Frag) (hne : rest ≠ []) (hnd : NoDescent rest) : ∀ (pre : List Frag), NoDescent pre →
    TailOK σ (pre ++ .descent :: rest)
  | [], _ =>
    ⟨fun c hw p hp e => locs_tail_no_nil (σ := σ) rest hne hnd [] (fun _ h => by cases h) c hw (e ▸ hp),
     fun v c hw c' hc' => createsD_ne v rest hnd c hw c' hc',
     fun c hc => locs_tail_scalar (σ := σ) rest hne hnd [] (fun _ h => by cases h) c hc,
     fun v c hc => createsD_scalar v rest hne hnd c hc⟩
  | g :: p, hp =>
    ⟨fun c hw q hq e => locs_tail_no_nil (σ := σ) rest hne hnd (g :: p) hp c hw (e ▸ hq),
     fun v c hw c' hc' => by
       rw [List.cons_append, creates_cons] at hc'
       rcases List.mem_append.1 hc' with h | h
       · obtain ⟨k, hk⟩ := ownCreates_shape v g _ c c' h
         rw [hk]; simp
       · obtain ⟨mm, hm, h2⟩ := List.mem_flatMap.1 h
         obtain ⟨c0, _, rfl⟩ := List.mem_map.1 h2
         obtain ⟨l, hl, _⟩ := Shape_of (σ := σ) g c (hp g (by simp)) (WF_top c hw) mm hm
         simp [preC, hl],
     fun c hc => locs_tail_scalar (σ := σ) rest hne hnd (g :: p) hp c hc,
     fun v c hc => creates_scalar v g _ c (hp g (by simp)) hc⟩

/-- the fragments before the descent are good for `set`, the rest on every node the descent reaches -/
def GoodPreS (σ : SliceFn) (dev : Dev) (rest : List Frag) : List Frag → JV → Prop
  | [], d => GoodDS σ dev rest d
  | f :: pre, d => GoodAtS σ dev f d ∧ ∀ m ∈ selG σ f d, GoodPreS σ dev rest pre m.2

theorem setF_pre_setOne (dev : Dev) (hsib : dev.descentSiblings = false) (hda : dev.delOneAbsent = false) (a : SetArg)
    (rest : List Frag) (hne : rest ≠ []) (hnd : NoDescent rest) (hl : ∀ f, rest.getLast? = some f → endable f = true) :
    ∀ (pre : List Frag), NoDescent pre → ∀ (fl : Bool) (d : JV), WF d → GoodPreS σ dev rest pre d → (pre = [] → fl = false) →
    SetOne σ a (pre ++ .descent :: rest) d (setF false dev true a (pre ++ .descent :: rest) fl d)
  | [], _, fl, d, hw, hg, hfl => by
    have hre : rest.isEmpty = false := by cases rest with | nil => exact absurd rfl hne | cons g r => rfl
    simp only [List.nil_append, setF, hre, hfl rfl, Bool.false_eq_true, if_false]
    exact descGo_setOne (σ := σ) dev hda a rest hne hnd hl d hw hg
  | f :: pre, hp, fl, d, hw, hg, _ => by
    have hndf : isDescentF f = false := hp f (by simp)
    have hpp : NoDescent pre := fun g hg' => hp g (List.mem_cons_of_mem _ hg')
    obtain ⟨g, r, hgr⟩ : ∃ g r, pre ++ .descent :: rest = g :: r := by
      cases pre with
      | nil => exact ⟨_, _, rfl⟩
      | cons g' r' => exact ⟨g', r' ++ .descent :: rest, rfl⟩
    have ht : TailOK σ (g :: r) := by rw [← hgr]; exact tailOK_desc (σ := σ) rest hne hnd pre hpp
    have ih : ∀ l c, child? l d = some c → ([l], c) ∈ selG σ f d →
        SetOne σ a (g :: r) c (setF false dev true a (g :: r) false c) := by
      intro l c hc hs
      have := setF_pre_setOne dev hsib hda a rest hne hnd hl pre hpp false c (WF_child l d c hw hc) (hg.2 ([l], c) hs) (fun _ => rfl)
      rw [hgr] at this
      exact this
    have hkgo : ∀ fl' c, (setF false dev true a (g :: r) fl' c).st = .go → (setF false dev true a (g :: r) fl' c).d = c :=
      fun fl' c h => (setF_inv false dev a (g :: r) fl' c).1 h
    have hk' : ∀ (fl' : Bool) c, ((fun (_ : Bool) => setF false dev true a (g :: r) false) fl' c).st = .go →
        ((fun (_ : Bool) => setF false dev true a (g :: r) false) fl' c).d = c := fun _ c h => hkgo false c h
    have ih' : ∀ l c, child? l d = some c → ([l], c) ∈ selG σ f d → ∀ (fl' : Bool),
        SetOne σ a (g :: r) c ((fun (_ : Bool) => setF false dev true a (g :: r) false) fl' c) := fun l c hc hs _ => ih l c hc hs
    rw [List.cons_append, hgr]
    cases f with
    | descent => simp [isDescentF] at hndf
    | child k =>
      cases d with
      | obj kvs =>
        rw [setF_child_eq]
        cases hlk : lookup k kvs with
        | some c =>
          simp only
          have hc : child? (.key k) (.obj kvs) = some c := hlk
          have hs : ([Loc.key k], c) ∈ selG σ (.child k) (.obj kvs) := by simp [selG, sel, selMember, hlk]
          refine setFollow_one a (.child k) g r _ c (.key k) _ hw ht hc hs ?_ ?_ (fun _ => ih _ c hc hs) (hkgo false c)
          · intro m hm; simpa [selG, sel, selMember, hlk] using hm
          · intro v _; simp [ownCreates, hlk]
        | none => simp only; exact setCreate_one dev a k g r kvs hlk
      | arr xs =>
        have : setF false dev true a (.child k :: g :: r) fl (.arr xs) = ⟨.arr xs, .go⟩ := rfl
        rw [this]
        exact setOne_go_of a _ g r _ (fun v _ => by simp [ownCreates]) (fun m hm => by simp [selG, sel, selMember] at hm)
      | null => exact setOne_go_of a _ g r _ (fun v _ => by simp [ownCreates]) (fun m hm => by simp [selG, sel, selMember] at hm)
      | bool _ => exact setOne_go_of a _ g r _ (fun v _ => by simp [ownCreates]) (fun m hm => by simp [selG, sel, selMember] at hm)
      | int _ => exact setOne_go_of a _ g r _ (fun v _ => by simp [ownCreates]) (fun m hm => by simp [selG, sel, selMember] at hm)
      | flt _ => exact setOne_go_of a _ g r _ (fun v _ => by simp [ownCreates]) (fun m hm => by simp [selG, sel, selMember] at hm)
      | big _ => exact setOne_go_of a _ g r _ (fun v _ => by simp [ownCreates]) (fun m hm => by simp [selG, sel, selMember] at hm)
      | num _ => exact setOne_go_of a _ g r _ (fun v _ => by simp [ownCreates]) (fun m hm => by simp [selG, sel, selMember] at hm)
      | str _ => exact setOne_go_of a _ g r _ (fun v _ => by simp [ownCreates]) (fun m hm => by simp [selG, sel, selMember] at hm)
    | nth i =>
      cases d with
      | arr xs =>
        rw [setF_nth_eq]
        cases ha : absIdx xs.length i with
        | none => exact setOne_err _ _ _ _ _
        | some j =>
          simp only
          cases hx : xs[j]? with
          | none => exact setOne_err _ _ _ _ _
          | some c =>
            simp only
            have hc : child? (.idx j) (.arr xs) = some c := hx
            have hs : ([Loc.idx j], c) ∈ selG σ (.nth i) (.arr xs) := by simp [selG, sel, selMember, ha, hx]
            refine setFollow_one a (.nth i) g r _ c (.idx j) _ hw ht hc hs ?_ ?_ (fun _ => ih _ c hc hs) (hkgo false c)
            · intro m hm; simpa [selG, sel, selMember, ha, hx] using hm
            · intro v _; simp [ownCreates]
      | obj kvs =>
        have : setF false dev true a (.nth i :: g :: r) fl (.obj kvs) = ⟨.obj kvs, .go⟩ := rfl
        rw [this]
        exact setOne_go_of a _ g r _ (fun v _ => by simp [ownCreates]) (fun m hm => by simp [selG, sel, selMember] at hm)
      | null => exact setOne_go_of a _ g r _ (fun v _ => by simp [ownCreates]) (fun m hm => by simp [selG, sel, selMember] at hm)
      | bool _ => exact setOne_go_of a _ g r _ (fun v _ => by simp [ownCreates]) (fun m hm => by simp [selG, sel, selMember] at hm)
      | int _ => exact setOne_go_of a _ g r _ (fun v _ => by simp [ownCreates]) (fun m hm => by simp [selG, sel, selMember] at hm)
      | flt _ => exact setOne_go_of a _ g r _ (fun v _ => by simp [ownCreates]) (fun m hm => by simp [selG, sel, selMember] at hm)
      | big _ => exact setOne_go_of a _ g r _ (fun v _ => by simp [ownCreates]) (fun m hm => by simp [selG, sel, selMember] at hm)
      | num _ => exact setOne_go_of a _ g r _ (fun v _ => by simp [ownCreates]) (fun m hm => by simp [selG, sel, selMember] at hm)
      | str _ => exact setOne_go_of a _ g r _ (fun v _ => by simp [ownCreates]) (fun m hm => by simp [selG, sel, selMember] at hm)
    | wild =>
      have hok := setSteps_ok (σ := σ) dev .wild d (WF_top d hw) hg.1 (fun _ h => by cases h) (fun _ h => by cases h)
      have e1 : setF false dev true a (.wild :: g :: r) fl d =
          visitD (contOnly .wild) false (fun (_ : Bool) => setF false dev true a (g :: r) false) false (setSteps dev .wild d) d := by
        simp only [setF, List.isEmpty_cons, Bool.false_eq_true, if_false]
        rw [hsib, visitD_nosib]
        rfl
      rw [e1]
      exact setVisit_one dev a _ false .wild g r d hw ht (fun _ h => by cases h) hok (fun _ => setF false dev true a (g :: r) false) hk' ih'
    | union ms =>
      have hok := setSteps_ok (σ := σ) dev (.union ms) d (WF_top d hw) hg.1 (fun _ h => by cases h) (fun _ h => by cases h)
      have e1 : setF false dev true a (.union ms :: g :: r) fl d =
          visitD (contOnly (.union ms)) false (fun (_ : Bool) => setF false dev true a (g :: r) false) false (setSteps dev (.union ms) d) d := by
        simp only [setF, List.isEmpty_cons, Bool.false_eq_true, if_false, Bool.false_and]
        rw [hsib, visitD_nosib]
        rfl
      rw [e1]
      exact setVisit_one dev a _ false (.union ms) g r d hw ht (fun _ h => by cases h) hok (fun _ => setF false dev true a (g :: r) false) hk' ih'
    | slice s e t =>
      have hok := setSteps_ok (σ := σ) dev (.slice s e t) d (WF_top d hw) hg.1 (fun _ h => by cases h) (fun _ h => by cases h)
      have e1 : setF false dev true a (.slice s e t :: g :: r) fl d =
          visitD (contOnly (.slice s e t)) false (fun (_ : Bool) => setF false dev true a (g :: r) false) false (setSteps dev (.slice s e t) d) d := by
        simp only [setF, List.isEmpty_cons, Bool.false_eq_true, if_false]
        rw [hsib, visitD_nosib]
        rfl
      rw [e1]
      exact setVisit_one dev a _ false (.slice s e t) g r d hw ht (fun _ h => by cases h) hok (fun _ => setF false dev true a (g :: r) false) hk' ih'
    | filter p =>
      have hok := setSteps_ok (σ := σ) dev (.filter p) d (WF_top d hw) hg.1 (fun _ h => by cases h) (fun _ h => by cases h)
      have e1 : setF false dev true a (.filter p :: g :: r) fl d =
          visitD (contOnly (.filter p)) false (fun (_ : Bool) => setF false dev true a (g :: r) false) false (setSteps dev (.filter p) d) d := by
        simp only [setF, List.isEmpty_cons, Bool.false_eq_true, if_false]
        rw [hsib, visitD_nosib]
        rfl
      rw [e1]
      exact setVisit_one dev a _ false (.filter p) g r d hw ht (fun _ h => by cases h) hok (fun _ => setF false dev true a (g :: r) false) hk' ih'

/-- SETONE / DELONE THROUGH ONE DESCENT (simple data, `delOneAbsent` and `descentSiblings` off; `rest` non-empty without a further
descent): when no error is reported the data is the input with the value written (the member deleted, the element null) at
ONE location the path selects (`JPath.eval` with its descent clause), or with ONE member created, or the input itself — that
only when nothing is selected and nothing is to be created -/
theorem setOne_descent (dev : Dev) (hsib : dev.descentSiblings = false) (hda : dev.delOneAbsent = false) (a : SetArg)
    (pre rest : List Frag) (hp : NoDescent pre) (hne : rest ≠ []) (hnd : NoDescent rest) (d d' : JV) (hw : WF d)
    (hg : GoodPreS σ dev rest pre d) (h : setM false dev true a (pre ++ .descent :: rest) d = .ok d') :
    OneOKG σ (pre ++ .descent :: rest) d d' a.op := by
  have hlast : (pre ++ .descent :: rest).getLast? = rest.getLast? := by
    rw [List.getLast?_append]
    cases rest with
    | nil => exact absurd rfl hne
    | cons g r =>
      simp only [List.getLast?_cons_cons]
      cases h' : (g :: r).getLast? with
      | none => simp at h'
      | some z => rfl
  simp only [setM] at h
  by_cases hr : setRefuses (pre ++ .descent :: rest).getLast? = true
  · rw [if_pos hr] at h; cases h
  · rw [if_neg hr] at h
    have hl : ∀ f, rest.getLast? = some f → endable f = true := by
      intro f hf
      rw [hlast, hf] at hr
      cases f <;> simp_all [setRefuses, endable]
    have hone := setF_pre_setOne (σ := σ) dev hsib hda a rest hne hnd hl pre hp false d hw hg (fun _ => rfl)
    cases hv : setF false dev true a (pre ++ .descent :: rest) false d with
    | mk dd ss =>
      rw [hv] at h hone
      cases ss with
      | go =>
        simp only [R.out] at h
        injection h with h
        subst h
        obtain ⟨h1, h2, h3⟩ := hone.1 rfl
        simp only at h1
        refine Or.inl ⟨h2, ?_, h1⟩
        cases a with
        | val v => exact h3 v rfl
        | del => trivial
      | stop =>
        simp only [R.out] at h
        injection h with h
        subst h
        rcases hone.2 rfl with ⟨p, hp', hd⟩ | ⟨v, c, rfl, hc, hd⟩
        · exact Or.inr (Or.inl ⟨p, hp', by rw [← singleA_eq]; exact hd⟩)
        · exact Or.inr (Or.inr ⟨c, hc, hd⟩)
      | err e => simp [R.out] at h
      | fault => simp [R.out] at h
      | stale => simp [R.out] at h

end OjgVerif.JPMut
