import OjgVerif.Props.C10Indent
import OjgVerif.Sen.WriterSort
/-! # C10 with `Sort`: the writer sorts the members first (`sort.Strings`), the theorems apply to the sorted tree

`sortVal_adm`: sorting the members (at every level) keeps a tree in the class `admVal`; hence
`C10_sorted_partial`: for every option combination with `Sort`, `sen.Parser.Parse` of what `sen.String` writes for a map
given in ANY member order is `nvVal o (sortVal v)` — the members of `v` (same names, same values: `sortVal` only
reorders), in ascending order. The run gives the model the members in DESCENDING order and compares the bytes with
the Go writer under `Sort: true`. -/
set_option linter.unusedSimpArgs false
set_option linter.unusedVariables false
namespace OjgVerif.Sen
open OjgVerif

theorem adm_insertKV (o : WOpts) (k : Bytes) (v : JV) (h : omitted o v = true ∨ (¬ C10.leadingSign k o.html ∧ admVal o v)) :
    ∀ l : List (Bytes × JV), admMembers o l → admMembers o (insertKV (k, v) l) := by
  intro l
  induction l with
  | nil => intro _; exact ⟨h, trivial⟩
  | cons p t ih =>
    obtain ⟨k', v'⟩ := p
    intro hl
    obtain ⟨h1, h2⟩ : (omitted o v' = true ∨ (¬ C10.leadingSign k' o.html ∧ admVal o v')) ∧ admMembers o t := hl
    simp only [insertKV]
    split
    · exact ⟨h, h1, h2⟩
    · exact ⟨h1, ih h2⟩

theorem omitted_sortVal (o : WOpts) (v : JV) : omitted o (sortVal v) = omitted o v := by
  cases v with
  | arr xs => cases xs <;> simp [sortVal, sortElems, omitted]
  | obj kvs =>
    cases kvs with
    | nil => simp [sortVal, sortMembers, omitted]
    | cons p r =>
      obtain ⟨k, x⟩ := p
      have : ∀ l, insertKV (k, sortVal x) l ≠ [] := by intro l; cases l <;> simp [insertKV]; split <;> simp
      cases hs : insertKV (k, sortVal x) (sortMembers r) with
      | nil => exact absurd hs (this _)
      | cons _ _ => simp [sortVal, sortMembers, omitted, hs]
  | null => rfl
  | bool b => rfl
  | int i => rfl
  | flt t => rfl
  | big t => rfl
  | num t => rfl
  | str s => rfl

/-- sorting keeps the tree in the class -/
theorem sortVal_adm_all (o : WOpts) : ∀ n : Nat,
    (∀ v, jsz v ≤ n → admVal o v → admVal o (sortVal v)) ∧
    (∀ xs, jszE xs ≤ n → admElems o xs → admElems o (sortElems xs)) ∧
    (∀ kvs, jszM kvs ≤ n → admMembers o kvs → admMembers o (sortMembers kvs)) := by
  intro n
  induction n with
  | zero =>
    refine ⟨fun v hv => ?_, fun xs hx h => ?_, fun kvs hk h => ?_⟩
    · have := jsz_pos v; omega
    · cases xs with
      | nil => exact h
      | cons x r => simp [jszE] at hx
    · cases kvs with
      | nil => exact h
      | cons kv r => obtain ⟨k, v⟩ := kv; simp [jszM] at hk
  | succ n ih =>
    obtain ⟨ihV, ihE, ihM⟩ := ih
    refine ⟨fun v hv hadm => ?_, fun xs hx hadm => ?_, fun kvs hk hadm => ?_⟩
    · cases v with
      | arr xs => exact ihE xs (by simp [jsz] at hv; omega) hadm
      | obj kvs => exact ihM kvs (by simp [jsz] at hv; omega) hadm
      | null => exact hadm
      | bool b => exact hadm
      | str s => exact hadm
      | int i => exact hadm
      | flt t => exact hadm
      | big t => exact hadm
      | num t => exact hadm
    · cases xs with
      | nil => exact hadm
      | cons x r =>
        obtain ⟨hx1, hx2⟩ : admVal o x ∧ admElems o r := hadm
        have hsz : 1 + jsz x + jszE r ≤ n + 1 := hx
        exact ⟨ihV x (by omega) hx1, ihE r (by omega) hx2⟩
    · cases kvs with
      | nil => exact hadm
      | cons kv r =>
        obtain ⟨k, v⟩ := kv
        obtain ⟨hk1, hk2⟩ : (omitted o v = true ∨ (¬ C10.leadingSign k o.html ∧ admVal o v)) ∧ admMembers o r := hadm
        have hsz : 1 + jsz v + jszM r ≤ n + 1 := hk
        show admMembers o (insertKV (k, sortVal v) (sortMembers r))
        apply adm_insertKV o k (sortVal v) _ _ (ihM r (by omega) hk2)
        rcases hk1 with h | ⟨h1, h2⟩
        · exact Or.inl (by rw [omitted_sortVal]; exact h)
        · exact Or.inr ⟨h1, ihV v (by omega) h2⟩

theorem sortVal_adm (o : WOpts) (v : JV) (h : admVal o v) : admVal o (sortVal v) :=
  (sortVal_adm_all o (jsz v)).1 v (Nat.le_refl _) h

/-- **C10 with `Sort`**: whatever order the members are given in, the text written with `Sort` parses back to the tree
with the members in ascending order of their names (`sortVal` only reorders) -/
theorem C10_sorted_partial (o : WOpts) (io : IOpts) (v : JV) (hc : (∃ xs, v = .arr xs) ∨ (∃ kvs, v = .obj kvs))
    (hadm : admVal o v) : C10.parsesTo (senWriteSorted o io v) (nvVal o (sortVal v)) := by
  apply C10_layout_partial o io (sortVal v) _ (sortVal_adm o v hadm)
  rcases hc with ⟨xs, rfl⟩ | ⟨kvs, rfl⟩
  · exact Or.inl ⟨sortElems xs, by simp [sortVal]⟩
  · exact Or.inr ⟨sortMembers kvs, by simp [sortVal]⟩

/-- … and when the sorted tree is plain (valid UTF-8, different names, nothing passed over), to the sorted tree itself -/
theorem C10_sorted_valid (o : WOpts) (io : IOpts) (v : JV) (hc : (∃ xs, v = .arr xs) ∨ (∃ kvs, v = .obj kvs))
    (hadm : admVal o v) (hplain : plainVal o (sortVal v)) : C10.parsesTo (senWriteSorted o io v) (sortVal v) := by
  have h := C10_sorted_partial o io v hc hadm
  rwa [nvVal_plain o (sortVal v) hplain] at h

/-- `{zz:1 b:{d:2 c:3} a:[{y:1 x:2}]}` is written as `{a:[{x:2 y:1}] b:{c:3 d:2} zz:1}` -/
example : senWriteSorted {} {} (.obj [([122, 122], .int 1), ([98], .obj [([100], .int 2), ([99], .int 3)]),
      ([97], .arr [.obj [([121], .int 1), ([120], .int 2)]])]) =
    "{a:[{x:2 y:1}] b:{c:3 d:2} zz:1}".toUTF8.toList := by decide +kernel

end OjgVerif.Sen
