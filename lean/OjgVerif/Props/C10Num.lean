import OjgVerif.Props.C10Int
import OjgVerif.Json.NumValueScan
/-! # C10 — number literals: floats (`strconv.AppendFloat(…, 'g', -1, 64)`) and what `sen.Parser` reads from them

The SEN writer writes a float as the text `strconv` produces (format `'g'`, shortest): an optional `-`, an integer
part without leading zero, an optional fraction, an optional exponent `e±dd`. That text is an INPUT of the writer
model (`JV.flt t`). This file proves what `sen.Parser` reads from ANY literal `Json.render p` of the grammar
`-`? int (`.` digits+)? ([eE] [+-]? digits+)? (`Json.Parts`, `p.WF`, no leading zero: `Json.Lead` — the RFC 8259
number grammar, a superset of what `'g'` writes), in any context:

* `num_run`: from value mode the byte machine passes the literal and stands in a number mode (`digit`, `zero`,
  `frac`, `exp`) with the accumulator `Json.acc p` — EXACTLY the accumulator operations of `gen/number.go`
  (`AddDigit` over the integer digits, `AddFrac` over the fraction digits, `AddExp` over the exponent digits, `.`,
  `e` and the sign passed through) that the JSON machine performs on the same literal (`Json.numScan_render`).
  No bound on the number of fraction or exponent digits (the switch of the accumulator to its text form is part of
  `Json.acc`); the one restriction is the integer part: `natOf p.ip < 9223372036854775800`, because from there
  on the integer fast loop of `sen.Parser` goes over to text one digit earlier than `AddDigit`
  (known finding C03sen-int19).
* Therefore the number that comes back is `Json.numConv (render p)` (`numDoc`, `numDoc_eq_numConv`) — what
  `oj.Parse` returns for the same literal — and the numeric clause proved for C02 carries over (`numDoc_value`):
  an `int64` equal to the literal, or a float64 / `json.Number` given by a decimal text that denotes the same number
  as the literal under the repo-independent reader `Json.decVal` (sign, ALL digits as one integer, power of ten).
  The final conversion of that text to a float64 is the trusted `strconv.ParseFloat`, and that `ParseFloat` maps
  the shortest text `AppendFloat` wrote back to the same float64 is the trusted round trip of the standard library.

`NaN`, `+Inf`, `-Inf` (what `AppendFloat` writes for the non-finite values; the property is about finite floats)
are not literals of the grammar.

Integers at and beyond the limit of the integer fast loop (`nvInt`): `edge_run_pos`, `edge_run_neg` (the 17 int64
values from ±9223372036854775800 on), `edge_run_posN` (every non-negative integer from 9223372036854775800 up to the
uint64 range: a `json.Number` with the same digits; `fmtNat_snoc`, `step_fastBig`). -/
set_option linter.unusedSimpArgs false
set_option linter.unusedVariables false
set_option linter.unusedSectionVars false
namespace OjgVerif.Sen
open OjgVerif
open OjgVerif.Json (Num BigLimit isDigitB dval natOf fmtNat fmtNatAux Parts ExpPart render sgnTxt fracTxt expTxt Dig Lead acc accInt
  accFrac accExp accSign passThru signStep)

/-! ## single steps of the number modes (sen.Parser, default configuration, reference tables) -/

def NumMode (m : Mode) : Prop := m = .digit ∨ m = .zero ∨ m = .frac ∨ m = .exp

/-- the number-internal transitions of `sen.Parser` on the accumulator alone (all but the digits of the integer
loop, whose fast path is `step_numDigit`) -/
def numStepS (m : Mode) (n : Num) (b : UInt8) : Option (Mode × Num) :=
  match expected m b with
  | .numZero => some (.zero, n)
  | .negDigit => some (.digit, n.addDigit b)
  | .numDot => if 0 < n.big.length then none else some (.frac, n)
  | .numFrac => some (.frac, n.addFrac b)
  | .fracE => some (.expSign, passThru n b)
  | .expSign => some (.expZero, signStep n b)
  | .expDigit => some (.exp, n.addExp b)
  | _ => none

/-- a number-internal step changes only mode and accumulator -/
theorem step_numS (st : St) (f : Fast) (b : UInt8) (l : Bool) (m' : Mode) (n' : Num) (hmt : st.mode ≠ .token)
    (hf : f.nlSkipping = false) (h : numStepS st.mode st.num b = some (m', n')) :
    step refTables {} st f b l = .ok ({ st with mode := m', num := n' }, fS f, false) := by
  unfold numStepS at h
  have hact0 : refTables.act st.mode b = expected st.mode b := rfl
  have hfin : ∀ m : Mode, refTables.fin m = expectedFin m := fun _ => rfl
  unfold step
  simp only [hf, hmt, Bool.false_and, Bool.false_eq_true, ↓reduceIte, decide_false, Bool.and_false]
  unfold stepCore stepAct stepActP
  simp only [Bool.false_eq_true, ↓reduceIte, hact0]
  cases hact : expected st.mode b <;> simp only [hact] at h ⊢ <;> try cases h
  all_goals first
    | (simp [deliver, hfin, expectedFin, nextFast, fS]; done)
    | (split at h <;> cases h; rename_i hb; simp [deliver, hfin, expectedFin, nextFast, fS, hb]; done)
    | (simp [deliver, hfin, expectedFin, nextFast, fS, passThru, signStep]; done)

/-! ## runs -/

theorem digit_classes (d : UInt8) (h : isDigitB d) : expected .frac d = .numFrac ∧ expected .exp d = .expDigit ∧
    expected .expZero d = .expDigit ∧ expected .expSign d = .expDigit := by
  have := forall_byte (fun b => !(48 ≤ b && b ≤ 57) || (expected .frac b == .numFrac && expected .exp b == .expDigit &&
    expected .expZero b == .expDigit && expected .expSign b == .expDigit)) (by decide +kernel) d
  have h1 : (48 : UInt8) ≤ d := by rw [UInt8.le_iff_toNat_le]; exact h.1
  have h2 : d ≤ (57 : UInt8) := by rw [UInt8.le_iff_toNat_le]; exact h.2
  simpa [h1, h2, and_assoc] using this

/-- a run of digits under an accumulator operation whose mode is stable -/
theorem fold_run (m : Mode) (hmt : m ≠ .token) (op : Num → UInt8 → Num)
    (hstep : ∀ n d, isDigitB d → numStepS m n d = some (m, op n d)) (ds : Bytes) :
    ∀ (st : St) (n : Num) (f : Fast) (p : Pos) (rest : Bytes), (∀ d ∈ ds, isDigitB d) → f.nlSkipping = false →
    ∃ f' p', runBytes refTables {} { st with mode := m, num := n } f p (ds ++ rest) =
      runBytes refTables {} { st with mode := m, num := ds.foldl op n } f' p' rest ∧ f'.nlSkipping = false := by
  induction ds with
  | nil => intro st n f p rest _ hf; exact ⟨f, p, rfl, hf⟩
  | cons d r ih =>
    intro st n f p rest hds hf
    have hd := hds d List.mem_cons_self
    have hs : ∀ l, step refTables {} { st with mode := m, num := n } f d l =
        .ok ({ st with mode := m, num := op n d }, fS f, false) :=
      fun l => step_numS { st with mode := m, num := n } f d l m (op n d) hmt hf (hstep n d hd)
    obtain ⟨f', p', h, hf'⟩ := ih st (op n d) (fS f) (p.next false) rest (fun x hx => hds x (List.mem_cons_of_mem _ hx)) rfl
    refine ⟨f', p', ?_, hf'⟩
    rw [List.cons_append, runBytes_cons_ok {} hs, List.foldl_cons]
    exact h

/-- the digits of the integer loop below the limit: the fast path does what `AddDigit` does, and the loop stays in
the state (fast or not) it is in -/
theorem digits_run_acc (ds : Bytes) : ∀ (st : St) (f : Fast) (p : Pos) (rest : Bytes) (neg : Bool) (v : Nat),
    st.mode = .digit → f.nlSkipping = false → (∀ d ∈ ds, isDigitB d) → NumOK st.num neg v →
    ds.foldl (fun a b => a * 10 + dval b) v < 9223372036854775800 →
    ∃ f' p', runBytes refTables {} st f p (ds ++ rest) =
        runBytes refTables {} { st with num := ds.foldl Num.addDigit st.num } f' p' rest ∧
      f'.nlSkipping = false ∧ NumOK (ds.foldl Num.addDigit st.num) neg (ds.foldl (fun a b => a * 10 + dval b) v) ∧
      f'.inFast = f.inFast ∧ f'.tokFast = f.tokFast := by
  induction ds with
  | nil => intro st f p rest neg v hm hf _ hn _; exact ⟨f, p, rfl, hf, hn, rfl, rfl⟩
  | cons d r ih =>
    intro st f p rest neg v hm hf hds hn hv
    have hd := hds d List.mem_cons_self
    simp only [List.foldl_cons] at hv ⊢
    have hge := foldl_ge r (v * 10 + dval d)
    have hvs : v < 922337203685477580 := by omega
    obtain ⟨hok, hadd, _⟩ := NumOK_digit st.num neg v d hn hvs hd
    have hstep' := fun l => step_numDigitF st f d l neg v hm hf hd hn hvs
    have hok' : NumOK ({ st with num := st.num.addDigit d } : St).num neg (v * 10 + dval d) := by
      show NumOK (st.num.addDigit d) neg _
      rw [hadd]; exact hok
    obtain ⟨f', p', hrun, hf', hn', hi', ht'⟩ := ih { st with num := st.num.addDigit d }
      { inFast := f.inFast, tokFast := f.tokFast, nlSkipping := false } (p.next false) rest neg (v * 10 + dval d) hm rfl
      (fun x hx => hds x (List.mem_cons_of_mem _ hx)) hok' hv
    refine ⟨f', p', ?_, hf', hn', hi', ht'⟩
    rw [List.cons_append, runBytes_cons_ok {} hstep']
    exact hrun

theorem natOf_cons_foldl' (d : UInt8) (ds : Bytes) :
    ds.foldl (fun a b => a * 10 + dval b) (dval d) = natOf (d :: ds) := by
  simp [natOf]

theorem isDigit19_isDigit' (d : UInt8) (h : Json.Spec.isDigit19 d = true) : Json.Spec.isDigit d = true := by
  have := forall_byte (fun b => !(Json.Spec.isDigit19 b) || Json.Spec.isDigit b) (by decide +kernel) d
  simpa [h] using this

/-- **the sign and the integer part**: the accumulator is `accInt` -/
theorem ip_run (neg : Bool) (ip : Bytes) (hip : Dig ip) (hl : Lead ip) (hb : natOf ip < 9223372036854775800)
    (st : St) (f : Fast) (p : Pos) (rest : Bytes) (hm : st.mode = .value) (hf : f.nlSkipping = false) :
    ∃ m f' p', runBytes refTables {} st f p (sgnTxt neg ++ (ip ++ rest)) =
        runBytes refTables {} { st with mode := m, num := accInt neg ip } f' p' rest ∧
      (m = .digit ∨ m = .zero) ∧ f'.nlSkipping = false ∧ NumOK (accInt neg ip) neg (natOf ip) := by
  have hz : ∀ s : Bool, ({ neg := s } : Num).addDigit 48 = { neg := s } := fun s => by cases s <;> rfl
  cases neg with
  | false =>
    simp only [sgnTxt, Bool.false_eq_true, ↓reduceIte, List.nil_append]
    rcases hl with rfl | ⟨d, ds, rfl, hd⟩
    · refine ⟨.zero, fS f, p.next false, ?_, Or.inr rfl, rfl, ?_⟩
      · rw [List.cons_append, List.nil_append, runBytes_cons_ok {} (fun l => step_val0 st f l hm hf)]
        simp only [accInt, List.foldl_cons, List.foldl_nil, hz false]
        rfl
      · simp only [accInt, List.foldl_cons, List.foldl_nil, hz false]
        exact ⟨rfl, rfl, rfl, rfl, rfl⟩
    · have hd' := isDigit19_isDigit' d hd
      obtain ⟨hdd, _⟩ := d19_digit d hd
      have hdsB : ∀ x ∈ ds, isDigitB x := fun x hx => Json.isDigitB_of_isDigit x (hip x (List.mem_cons_of_mem _ hx))
      let s1 : St := { st with mode := .digit, num := { st.num.reset with i := (d - 48).toUInt64 } }
      have e1 : ∀ l, step refTables {} st f d l =
          .ok (s1, { inFast := true, tokFast := f.tokFast, nlSkipping := false }, false) :=
        fun l => step_valDigit st f d l hm hf hd
      have hok1 : NumOK s1.num false (dval d) := ⟨rfl, Json.digit_toUInt64 d hdd, rfl, rfl, rfl⟩
      obtain ⟨f', p', hrun, hf', hn', _, _⟩ := digits_run_acc ds s1 { inFast := true, tokFast := f.tokFast, nlSkipping := false }
        (p.next false) rest false (dval d) rfl rfl hdsB hok1 (by rw [natOf_cons_foldl']; exact hb)
      have hacc : accInt false (d :: ds) = ds.foldl Num.addDigit s1.num := by
        simp only [accInt, List.foldl_cons, Json.addDigit_fresh false d hd']
        rfl
      refine ⟨.digit, f', p', ?_, Or.inl rfl, hf', ?_⟩
      · rw [List.cons_append, runBytes_cons_ok {} e1, hrun, hacc]
      · rw [hacc, ← natOf_cons_foldl']; exact hn'
  | true =>
    simp only [sgnTxt, ↓reduceIte, List.cons_append, List.nil_append]
    let s1 : St := { st with mode := .neg, num := { st.num.reset with neg := true } }
    have e1 : ∀ l, step refTables {} st f 45 l = .ok (s1, fS f, false) := fun l => step_valNeg st f l hm hf
    rw [runBytes_cons_ok {} e1]
    rcases hl with rfl | ⟨d, ds, rfl, hd⟩
    · refine ⟨.zero, fS (fS f), (p.next false).next false, ?_, Or.inr rfl, rfl, ?_⟩
      · rw [List.cons_append, List.nil_append, runBytes_cons_ok {} (fun l => step_numS s1 (fS f) 48 l .zero s1.num (by simp [s1]) rfl
          (by simp [numStepS, show expected .neg 48 = .numZero from rfl, s1]))]
        simp only [accInt, List.foldl_cons, List.foldl_nil, hz true]
        rfl
      · simp only [accInt, List.foldl_cons, List.foldl_nil, hz true]
        exact ⟨rfl, rfl, rfl, rfl, rfl⟩
    · obtain ⟨hdd, _⟩ := d19_digit d hd
      have hdsB : ∀ x ∈ ds, isDigitB x := fun x hx => Json.isDigitB_of_isDigit x (hip x (List.mem_cons_of_mem _ hx))
      let s2 : St := { s1 with num := s1.num.addDigit d, mode := .digit }
      have e2 : ∀ l, step refTables {} s1 (fS f) d l = .ok (s2, fS (fS f), false) :=
        fun l => step_negDigit s1 (fS f) d l rfl rfl hd
      have hok1 : NumOK s1.num true 0 := ⟨rfl, rfl, rfl, rfl, rfl⟩
      obtain ⟨hok2, hadd, _⟩ := NumOK_digit s1.num true 0 d hok1 (by omega) hdd
      have hok2' : NumOK s2.num true (dval d) := by
        show NumOK (s1.num.addDigit d) true (dval d)
        rw [hadd]; simpa using hok2
      obtain ⟨f', p', hrun, hf', hn', _, _⟩ := digits_run_acc ds s2 (fS (fS f)) ((p.next false).next false) rest true (dval d) rfl rfl
        hdsB hok2' (by rw [natOf_cons_foldl']; exact hb)
      have hacc : accInt true (d :: ds) = ds.foldl Num.addDigit s2.num := by
        simp only [accInt, List.foldl_cons]
        rfl
      refine ⟨.digit, f', p', ?_, Or.inl rfl, hf', ?_⟩
      · rw [List.cons_append, runBytes_cons_ok {} e2, hrun, hacc]
      · rw [hacc, ← natOf_cons_foldl']; exact hn'

/-- the fraction part -/
theorem frac_run (fo : Option Bytes) (hwf : ∀ fs, fo = some fs → Dig fs ∧ fs ≠ []) (st : St) (m : Mode)
    (hm : m = .digit ∨ m = .zero) (n : Num) (hb : n.big = []) (f : Fast) (p : Pos) (rest : Bytes) (hf : f.nlSkipping = false) :
    ∃ m' f' p', runBytes refTables {} { st with mode := m, num := n } f p (fracTxt fo ++ rest) =
        runBytes refTables {} { st with mode := m', num := accFrac n fo } f' p' rest ∧
      (m' = .digit ∨ m' = .zero ∨ m' = .frac) ∧ f'.nlSkipping = false := by
  cases fo with
  | none =>
    refine ⟨m, f, p, rfl, ?_, hf⟩
    rcases hm with h | h
    · exact Or.inl h
    · exact Or.inr (Or.inl h)
  | some fs =>
    obtain ⟨hfs, _⟩ := hwf fs rfl
    have hfsB : ∀ d ∈ fs, isDigitB d := Json.isDigitB_of_dig hfs
    have hpt : passThru n 46 = n := by unfold passThru; simp [hb]
    have hdot : numStepS m n 46 = some (.frac, n) := by
      rcases hm with rfl | rfl
      · simp [numStepS, show expected .digit 46 = .numDot from rfl, hb]
      · simp [numStepS, show expected .zero 46 = .numDot from rfl, hb]
    have hmt : m ≠ .token := by rcases hm with rfl | rfl <;> decide
    have hs : ∀ l, step refTables {} { st with mode := m, num := n } f 46 l =
        .ok ({ st with mode := .frac, num := n }, fS f, false) :=
      fun l => step_numS { st with mode := m, num := n } f 46 l .frac n hmt hf hdot
    obtain ⟨f', p', hrun, hf'⟩ := fold_run .frac (by decide) Num.addFrac
      (fun n d hd => by simp [numStepS, (digit_classes d hd).1]) fs st n (fS f) (p.next false) rest hfsB rfl
    refine ⟨.frac, f', p', ?_, Or.inr (Or.inr rfl), hf'⟩
    simp only [fracTxt, accFrac, hpt, List.cons_append]
    rw [runBytes_cons_ok {} hs]
    exact hrun

/-- the exponent part -/
theorem exp_run (eo : Option ExpPart) (hwe : ∀ x, eo = some x → x.WF) (st : St) (m : Mode)
    (hm : m = .digit ∨ m = .zero ∨ m = .frac) (n : Num) (f : Fast) (p : Pos) (rest : Bytes) (hf : f.nlSkipping = false) :
    ∃ m' f' p', runBytes refTables {} { st with mode := m, num := n } f p (expTxt eo ++ rest) =
        runBytes refTables {} { st with mode := m', num := accExp n eo } f' p' rest ∧
      NumMode m' ∧ f'.nlSkipping = false := by
  cases eo with
  | none =>
    refine ⟨m, f, p, rfl, ?_, hf⟩
    rcases hm with h | h | h
    · exact Or.inl h
    · exact Or.inr (Or.inl h)
    · exact Or.inr (Or.inr (Or.inl h))
  | some x =>
    obtain ⟨e, sg, es⟩ := x
    obtain ⟨he, hsg, hes, hne⟩ := hwe _ rfl
    simp only at he hsg hes hne
    have hesB : ∀ d ∈ es, isDigitB d := Json.isDigitB_of_dig hes
    have hmt : m ≠ .token := by rcases hm with rfl | rfl | rfl <;> decide
    -- `e` / `E`
    have hE : numStepS m n e = some (.expSign, passThru n e) := by
      rcases hm with rfl | rfl | rfl <;> rcases he with rfl | rfl <;>
        simp [numStepS, show expected .digit 101 = .fracE from rfl, show expected .digit 69 = .fracE from rfl,
          show expected .zero 101 = .fracE from rfl, show expected .zero 69 = .fracE from rfl,
          show expected .frac 101 = .fracE from rfl, show expected .frac 69 = .fracE from rfl]
    have hs1 : ∀ l, step refTables {} { st with mode := m, num := n } f e l =
        .ok ({ st with mode := .expSign, num := passThru n e }, fS f, false) :=
      fun l => step_numS { st with mode := m, num := n } f e l .expSign _ hmt hf hE
    -- the sign
    have hsign : ∃ m2 f2 p2, runBytes refTables {} { st with mode := .expSign, num := passThru n e } (fS f) (p.next false)
          (sg ++ (es ++ rest)) =
        runBytes refTables {} { st with mode := m2, num := accSign (passThru n e) sg } f2 p2 (es ++ rest) ∧
        (m2 = .expSign ∨ m2 = .expZero) ∧ f2.nlSkipping = false := by
      rcases hsg with rfl | rfl | rfl
      · exact ⟨.expSign, fS f, p.next false, rfl, Or.inl rfl, rfl⟩
      · refine ⟨.expZero, fS (fS f), (p.next false).next false, ?_, Or.inr rfl, rfl⟩
        have h2 : ∀ l, step refTables {} { st with mode := .expSign, num := passThru n e } (fS f) 43 l =
            .ok ({ st with mode := .expZero, num := signStep (passThru n e) 43 }, fS (fS f), false) :=
          fun l => step_numS { st with mode := .expSign, num := passThru n e } (fS f) 43 l .expZero _ (fun h => Mode.noConfusion h) rfl
            (by simp [numStepS, show expected .expSign 43 = .expSign from rfl])
        show runBytes refTables {} _ _ _ (43 :: (es ++ rest)) = _
        rw [runBytes_cons_ok {} h2]
        rfl
      · refine ⟨.expZero, fS (fS f), (p.next false).next false, ?_, Or.inr rfl, rfl⟩
        have h2 : ∀ l, step refTables {} { st with mode := .expSign, num := passThru n e } (fS f) 45 l =
            .ok ({ st with mode := .expZero, num := signStep (passThru n e) 45 }, fS (fS f), false) :=
          fun l => step_numS { st with mode := .expSign, num := passThru n e } (fS f) 45 l .expZero _ (fun h => Mode.noConfusion h) rfl
            (by simp [numStepS, show expected .expSign 45 = .expSign from rfl])
        show runBytes refTables {} _ _ _ (45 :: (es ++ rest)) = _
        rw [runBytes_cons_ok {} h2]
        rfl
    obtain ⟨m2, f2, p2, hrun2, hm2, hf2⟩ := hsign
    -- the digits
    cases es with
    | nil => exact absurd rfl hne
    | cons d ds =>
      have hd := hesB d List.mem_cons_self
      obtain ⟨_, c2, c3, c4⟩ := digit_classes d hd
      have hD : numStepS m2 (accSign (passThru n e) sg) d = some (.exp, (accSign (passThru n e) sg).addExp d) := by
        rcases hm2 with rfl | rfl
        · simp [numStepS, c4]
        · simp [numStepS, c3]
      have hmt2 : m2 ≠ .token := by rcases hm2 with rfl | rfl <;> decide
      have hs3 : ∀ l, step refTables {} { st with mode := m2, num := accSign (passThru n e) sg } f2 d l =
          .ok ({ st with mode := .exp, num := (accSign (passThru n e) sg).addExp d }, fS f2, false) :=
        fun l => step_numS { st with mode := m2, num := accSign (passThru n e) sg } f2 d l .exp _ hmt2 hf2 hD
      obtain ⟨f', p', hrun, hf'⟩ := fold_run .exp (by decide) Num.addExp
        (fun n d hd => by simp [numStepS, (digit_classes d hd).2.1]) ds st ((accSign (passThru n e) sg).addExp d) (fS f2)
        (p2.next false) rest (fun x hx => hesB x (List.mem_cons_of_mem _ hx)) rfl
      refine ⟨.exp, f', p', ?_, Or.inr (Or.inr (Or.inr rfl)), hf'⟩
      simp only [expTxt, accExp, List.cons_append, List.append_assoc, List.foldl_cons] at hrun2 ⊢
      rw [runBytes_cons_ok {} hs1, hrun2, runBytes_cons_ok {} hs3]
      exact hrun

/-- **`sen.Parser` over a number literal performs `Json.acc`** — the accumulator operations of `gen/number.go`
the JSON machine performs on the same literal (`Json.numScan_render`) — in any context, whatever follows -/
theorem num_run (q : Parts) (hw : q.WF) (hl : Lead q.ip) (hb : natOf q.ip < 9223372036854775800)
    (st : St) (f : Fast) (p : Pos) (rest : Bytes) (hm : st.mode = .value) (hf : f.nlSkipping = false) :
    ∃ m f' p', runBytes refTables {} st f p (render q ++ rest) =
        runBytes refTables {} { st with mode := m, num := acc q } f' p' rest ∧ NumMode m ∧ f'.nlSkipping = false := by
  obtain ⟨s, ip, fo, eo⟩ := q
  obtain ⟨hip, _, hwf, hwe⟩ := hw
  simp only at hip hwf hwe hl hb
  obtain ⟨m1, f1, p1, hrun1, hm1, hf1, hbig1⟩ := ip_run s ip hip hl hb st f p (fracTxt fo ++ (expTxt eo ++ rest)) hm hf
  obtain ⟨m2, f2, p2, hrun2, hm2, hf2⟩ := frac_run fo hwf st m1 hm1 (accInt s ip) hbig1.1 f1 p1 (expTxt eo ++ rest) hf1
  obtain ⟨m3, f3, p3, hrun3, hm3, hf3⟩ := exp_run eo hwe st m2 hm2 (accFrac (accInt s ip) fo) f2 p2 rest hf2
  refine ⟨m3, f3, p3, ?_, hm3, hf3⟩
  simp only [render, acc, List.append_assoc]
  rw [hrun1, hrun2, hrun3]

/-! ## what comes back -/

/-- the number `sen.Parser` delivers for the literal: `gen.Number.AsNum` of the accumulator -/
def numDoc (q : Parts) : JV := (acc q).asNum.toJV

/-- it is what the JSON machine (`oj.Parse`) delivers for the same literal -/
theorem numDoc_eq_numConv (q : Parts) (hw : q.WF) (hl : Lead q.ip) : numDoc q = Json.numConv (render q) := by
  unfold numDoc Json.numConv
  rw [Json.numScan_render q hw hl]

/-- **numbers keep their value**: the literal denotes `m · 10^e` under the repo-independent reader `Json.decVal`;
an `int64` result is `m` (and `e = 0`), the text of a float64 (handed to `strconv.ParseFloat`) or `json.Number`
result denotes the same mantissa and the same power of ten -/
theorem numDoc_exact (q : Parts) (hw : q.WF) :
    ∃ m e, Json.decVal (render q) = some (m, e) ∧
      match numDoc q with
      | .int v => v = m ∧ e = 0 ∧ -9223372036854775807 ≤ v ∧ v ≤ 9223372036854775807
      | .flt t => Json.decVal t = some (m, e)
      | .big t => Json.decVal t = some (m, e)
      | _ => False := by
  refine ⟨(Json.pval q).1, (Json.pval q).2, Json.decVal_render q hw, ?_⟩
  have ht := Json.tracks_asNum (acc q) q (Json.tracks_acc q hw) hw
  unfold numDoc
  cases hres : (acc q).asNum with
  | int v =>
    rw [hres] at ht
    simp only [Json.NumRes.toJV]
    exact ⟨by rw [ht.1], by rw [ht.1], ht.2.1, ht.2.2⟩
  | flt t => rw [hres] at ht; exact ht
  | big t => rw [hres] at ht; exact ht

/-- the literals of the theorem: RFC 8259 number grammar (a superset of what `strconv` writes with format `'g'`),
integer part below the limit of the integer fast loop -/
def NumAdm (t : Bytes) : Prop :=
  ∃ q : Parts, q.WF ∧ Lead q.ip ∧ natOf q.ip < 9223372036854775800 ∧ t = render q

/-- every complete literal `Spec.pNumber` reads whose integer part is below the limit is such a literal
(this is the test the correspondence run applies to every float text the Go writer produced) -/
theorem numAdm_of_pNumber (t : Bytes) (h : Json.Spec.pNumber t = some (t, []))
    (hb : ∀ q : Parts, t = render q → natOf q.ip < 9223372036854775800) : NumAdm t := by
  obtain ⟨q, hw, hl, he⟩ := Json.pNumber_parts t t [] h
  exact ⟨q, hw, hl, hb q he, he⟩

/-- executable form of `WF`, `Lead` and the limit (for the examples) -/
def numAdmB (q : Parts) : Bool :=
  q.ip.all Json.Spec.isDigit && !q.ip.isEmpty &&
  (match q.fo with | none => true | some fs => fs.all Json.Spec.isDigit && !fs.isEmpty) &&
  (match q.eo with
   | none => true
   | some x => (x.e == 101 || x.e == 69) && (x.sg == [] || x.sg == [43] || x.sg == [45]) && x.es.all Json.Spec.isDigit && !x.es.isEmpty) &&
  (q.ip == [48] || (match q.ip with | d :: _ => Json.Spec.isDigit19 d | [] => false)) &&
  decide (natOf q.ip < 9223372036854775800)

theorem numAdm_of_check (q : Parts) (h : numAdmB q = true) : NumAdm (render q) := by
  obtain ⟨s, ip, fo, eo⟩ := q
  simp only [numAdmB, Bool.and_eq_true, decide_eq_true_eq, Bool.not_eq_true', List.all_eq_true, Bool.or_eq_true,
    beq_iff_eq] at h
  obtain ⟨⟨⟨⟨⟨h1, h2⟩, h3⟩, h4⟩, h5⟩, h6⟩ := h
  refine ⟨⟨s, ip, fo, eo⟩, ⟨h1, ?_, ?_, ?_⟩, ?_, h6, rfl⟩
  · intro e; simp only at e; subst e; simp at h2
  · intro fs hfs
    simp only at hfs; subst hfs
    simp only [Bool.and_eq_true, List.all_eq_true, Bool.not_eq_true'] at h3
    exact ⟨h3.1, fun e => by subst e; simp at h3⟩
  · intro x hx
    simp only at hx; subst hx
    simp only [Bool.and_eq_true, List.all_eq_true, Bool.not_eq_true', Bool.or_eq_true, beq_iff_eq] at h4
    obtain ⟨⟨⟨ha, hb⟩, hc⟩, hd⟩ := h4
    refine ⟨ha, ?_, hc, fun e => by rw [e] at hd; simp at hd⟩
    rcases hb with (hb | hb) | hb
    · exact Or.inl hb
    · exact Or.inr (Or.inl hb)
    · exact Or.inr (Or.inr hb)
  · rcases h5 with h5 | h5
    · exact Or.inl h5
    · cases ip with
      | nil => simp at h5
      | cons d ds => exact Or.inr ⟨d, ds, rfl, h5⟩

theorem numAdm_text (t : Bytes) (q : Parts) (h : numAdmB q = true) (ht : render q = t) : NumAdm t :=
  ht ▸ numAdm_of_check q h

/-- shapes `'g'` produces: `1.5`, `-0`, `1e+06`, `1.2345678901234567e-05`, `0.00012345678901234567` (20 fraction
digits: the accumulator goes over to its text form, the result is a `json.Number` with the same digits) -/
example : NumAdm "1.5".toUTF8.toList ∧ NumAdm "-0".toUTF8.toList ∧ NumAdm "1e+06".toUTF8.toList ∧
    NumAdm "1.2345678901234567e-05".toUTF8.toList ∧ NumAdm "0.00012345678901234567".toUTF8.toList :=
  ⟨numAdm_text _ ⟨false, [49], some [53], none⟩ (by decide +kernel) (by decide +kernel),
   numAdm_text _ ⟨true, [48], none, none⟩ (by decide +kernel) (by decide +kernel),
   numAdm_text _ ⟨false, [49], none, some ⟨101, [43], [48, 54]⟩⟩ (by decide +kernel) (by decide +kernel),
   numAdm_text _ ⟨false, [49], some "2345678901234567".toUTF8.toList, some ⟨101, [45], [48, 53]⟩⟩ (by decide +kernel) (by decide +kernel),
   numAdm_text _ ⟨false, [48], some "00012345678901234567".toUTF8.toList, none⟩ (by decide +kernel) (by decide +kernel)⟩

def isFltT (v : JV) (t : String) : Bool := match v with | .flt x => x == t.toUTF8.toList | _ => false
def isBigT (v : JV) (t : String) : Bool := match v with | .big x => x == t.toUTF8.toList | _ => false
def isIntV (v : JV) (i : Int) : Bool := match v with | .int x => x == i | _ => false

/-- what comes back for them: the float of the same text (exponent without `+` and leading zeros), an `int64` for a
literal without fraction and exponent, a `json.Number` when there are more than 18 fraction digits -/
example : isFltT (Json.numConv "1.5".toUTF8.toList) "1.5" ∧ isIntV (Json.numConv "-0".toUTF8.toList) 0 ∧
    isFltT (Json.numConv "1e+06".toUTF8.toList) "1e6" ∧ isIntV (Json.numConv "100000".toUTF8.toList) 100000 ∧
    isFltT (Json.numConv "1.2345678901234567e-05".toUTF8.toList) "1.2345678901234567e-5" ∧
    isBigT (Json.numConv "0.00012345678901234567".toUTF8.toList) "0.00012345678901234567" := by decide +kernel

/-! ## the integers at the int64 limit -/

/-- what comes back for an integer: the int64 itself below the limit of the integer fast loop; from
9223372036854775800 on (the fast loop goes over to text one digit early: known finding C03sen-int19) and for
-9223372036854775808 a `json.Number` with the same digits -/
def nvInt (i : Int) : JV :=
  if -9223372036854775808 < i ∧ i < 9223372036854775800 then .int i else .big (fmtInt i)

/-- `922337203685477580` = `math.MaxInt64 / 10`: the first 18 digits of every integer at the limit -/
def P18 : Bytes := [57, 50, 50, 51, 51, 55, 50, 48, 51, 54, 56, 53, 52, 55, 55, 53, 56, 48]

theorem fmtNat_edge : ∀ k : Fin 9, fmtNat (9223372036854775800 + k.val) = P18 ++ [UInt8.ofNat (48 + k.val)] := by
  decide +kernel

/-- `FillBig` of an accumulator that holds 922337203685477580 -/
theorem fillBig_edge (n : Num) (neg : Bool) (h : NumOK n neg 922337203685477580) :
    n.fillBig = { n with big := (if neg then [45] else []) ++ P18 } := by
  obtain ⟨h1, h2, h3, h4, h5⟩ := h
  have hd : ¬ ((1 : UInt64) < n.div) := by rw [h3]; decide
  have he : ¬ ((0 : UInt64) < n.exp) := by rw [h4]; decide
  unfold Num.fillBig
  simp only [h1, h2, h5, hd, he, ↓reduceIte, List.nil_append]
  have : fmtNat 922337203685477580 = P18 := by decide +kernel
  rw [this]

/-- the digit after 922337203685477580 inside the integer fast loop: the number goes over to text -/
theorem step_fastEdge (st : St) (f : Fast) (d : UInt8) (l : Bool) (hm : st.mode = .digit) (hf : f.nlSkipping = false)
    (hfast : f.inFast = true) (hd : isDigitB d) (hn : NumOK st.num false 922337203685477580) :
    ∃ s', (∀ l, step refTables {} st f d l = .ok (s', { inFast := false, tokFast := f.tokFast, nlSkipping := false }, false)) ∧
      s'.mode = .digit ∧ s'.num = { st.num with big := P18 ++ [d] } ∧ s'.starts = st.starts ∧ s'.stack = st.stack ∧
      s'.docs = st.docs ∧ s'.plus = st.plus := by
  have hact := digit_numDigit d hd
  have hle : BigLimit ≤ st.num.i := by
    rw [UInt64.le_iff_toNat_le, hn.2.1]; decide
  have hfb := fillBig_edge st.num false hn
  have hadd : st.num.fillBig.addDigit d = { st.num with big := P18 ++ [d] } := by
    rw [hfb]
    simp [Num.addDigit, P18]
  let ft : List Char := if st.num.i.toNat * 10 + (d - 48).toNat ≤ 9223372036854775807 then (st.addFeat 'i').feat else st.feat
  let s' : St := { st with num := st.num.fillBig.addDigit d, feat := ft }
  refine ⟨s', ?_, hm, hadd, rfl, rfl, rfl, rfl⟩
  intro l
  simp [step, stepCore, stepAct, stepActP, nextFast, deliver, refTables, expectedFin, hm, hf, hact, hle, hfast, s', ft]

/-- a digit outside the fast loop is `AddDigit` -/
theorem step_slowDigit (st : St) (f : Fast) (d : UInt8) (l : Bool) (hm : st.mode = .digit) (hf : f.nlSkipping = false)
    (hfast : f.inFast = false) (hd : isDigitB d) :
    step refTables {} st f d l = .ok ({ st with num := st.num.addDigit d },
      { inFast := false, tokFast := f.tokFast, nlSkipping := false }, false) := by
  have hact := digit_numDigit d hd
  simp [step, stepCore, stepAct, stepActP, nextFast, deliver, refTables, expectedFin, hm, hf, hact, hfast]

def T17 : Bytes := [50, 50, 51, 51, 55, 50, 48, 51, 54, 56, 53, 52, 55, 55, 53, 56, 48]

theorem P18_eq : P18 = 57 :: T17 := rfl
theorem T17_digits : ∀ d ∈ T17, isDigitB d :=
  Json.isDigitB_of_dig (show ∀ d ∈ T17, Json.Spec.isDigit d = true by decide)
theorem T17_val : T17.foldl (fun a b => a * 10 + dval b) (dval 57) = 922337203685477580 := by decide +kernel

theorem edge_text (m : Nat) (hm : 9223372036854775800 ≤ m ∧ m ≤ 9223372036854775808) :
    ∃ k : Nat, k ≤ 8 ∧ m = 9223372036854775800 + k ∧ fmtNat m = P18 ++ [UInt8.ofNat (48 + k)] := by
  refine ⟨m - 9223372036854775800, by omega, by omega, ?_⟩
  have h := fmtNat_edge ⟨m - 9223372036854775800, by omega⟩
  have e : 9223372036854775800 + (m - 9223372036854775800) = m := by omega
  simp only [e] at h
  exact h

theorem edge_digit (k : Nat) (hk : k ≤ 8) : isDigitB (UInt8.ofNat (48 + k)) := by
  have : ∀ j : Fin 9, isDigitB (UInt8.ofNat (48 + j.val)) := by unfold isDigitB; decide
  exact this ⟨k, by omega⟩

local macro "edge_int" : tactic =>
  `(tactic| (
    simp only [Num.addDigit, List.length_nil, Nat.lt_irrefl, ↓reduceIte,
      show ((922337203685477580 : UInt64) ≤ BigLimit) = True by decide]
    first
      | (rw [if_neg (by decide)]
         simp only [Num.asNum, List.length_nil, Nat.lt_irrefl, ↓reduceIte, Bool.and_self, Json.NumRes.toJV]
         rfl)
      | (rw [if_pos (by decide)]
         simp only [Num.asNum, Num.fillBig]
         rfl)))

/-- `AsNum` after the last digit of a negative integer at the limit: an int64 down to -9223372036854775807, the text
for -9223372036854775808 (`AddDigit` goes over to text when the value no longer fits) -/
theorem asNum_edge_neg (fr : UInt64) (ne : Bool) (k : Nat) (hk : k ≤ 8) :
    (({ i := 922337203685477580, frac := fr, div := 1, exp := 0, neg := true, negExp := ne, big := [] } : Num).addDigit
      (UInt8.ofNat (48 + k))).asNum.toJV = nvInt (-(9223372036854775800 + (k : Int))) := by
  match k, hk with
  | 0, _ => edge_int
  | 1, _ => edge_int
  | 2, _ => edge_int
  | 3, _ => edge_int
  | 4, _ => edge_int
  | 5, _ => edge_int
  | 6, _ => edge_int
  | 7, _ => edge_int
  | 8, _ => edge_int
  | n + 9, h => omega

theorem num_of_NumOK (n : Num) (neg : Bool) (h : NumOK n neg 922337203685477580) :
    n = { i := 922337203685477580, frac := n.frac, div := 1, exp := 0, neg := neg, negExp := n.negExp, big := [] } := by
  obtain ⟨h1, h2, h3, h4, h5⟩ := h
  have hi : n.i = 922337203685477580 := by
    apply UInt64.toNat_inj.mp
    rw [h2]; rfl
  cases n
  simp_all

/-- what `edge_run` says about the state after the digits -/
def EdgeEnd (st st' : St) (f' : Fast) (i : Int) : Prop :=
  st'.mode = .digit ∧ st'.num.asNum.toJV = nvInt i ∧ st'.starts = st.starts ∧ st'.stack = st.stack ∧ st'.docs = st.docs ∧
  st'.plus = st.plus ∧ f'.nlSkipping = false

/-- **the integers at the int64 limit**, positive: 9223372036854775800 … 9223372036854775807 come back as a
`json.Number` with the same digits (the integer fast loop goes over to text when `BigLimit <= I`) -/
theorem edge_run_pos (k : Nat) (hk : k ≤ 8) (st : St) (f : Fast) (p : Pos) (rest : Bytes) (hm : st.mode = .value)
    (hf : f.nlSkipping = false) :
    ∃ st' f' p', runBytes refTables {} st f p ((P18 ++ [UInt8.ofNat (48 + k)]) ++ rest) = runBytes refTables {} st' f' p' rest ∧
      st'.mode = .digit ∧ st'.num.asNum.toJV = .big (P18 ++ [UInt8.ofNat (48 + k)]) ∧ st'.starts = st.starts ∧
      st'.stack = st.stack ∧ st'.docs = st.docs ∧ st'.plus = st.plus ∧ f'.nlSkipping = false := by
  have hdk := edge_digit k hk
  let s1 : St := { st with mode := .digit, num := { st.num.reset with i := ((57 : UInt8) - 48).toUInt64 } }
  have e1 : ∀ l, step refTables {} st f 57 l =
      .ok (s1, { inFast := true, tokFast := f.tokFast, nlSkipping := false }, false) :=
    fun l => step_valDigit st f 57 l hm hf (by decide)
  have hok1 : NumOK s1.num false (dval 57) := ⟨rfl, Json.digit_toUInt64 57 (by unfold isDigitB; decide), rfl, rfl, rfl⟩
  obtain ⟨f2, p2, hrun2, hf2, hn2, hi2, _⟩ := digits_run_acc T17 s1 { inFast := true, tokFast := f.tokFast, nlSkipping := false }
    (p.next false) (UInt8.ofNat (48 + k) :: rest) false (dval 57) rfl rfl T17_digits hok1 (by rw [T17_val]; decide)
  rw [T17_val] at hn2
  obtain ⟨n2, hn2def⟩ : ∃ n2, n2 = T17.foldl Num.addDigit s1.num := ⟨_, rfl⟩
  rw [← hn2def] at hrun2 hn2
  obtain ⟨s3, hstep3, m3, n3, a3, b3, c3, d3⟩ := step_fastEdge ({ s1 with num := n2 } : St) f2
    (UInt8.ofNat (48 + k)) true rfl hf2 (by rw [hi2]) hdk hn2
  refine ⟨s3, { inFast := false, tokFast := f2.tokFast, nlSkipping := false }, p2.next false, ?_, m3, ?_, a3, b3, c3, d3, rfl⟩
  · rw [P18_eq]
    simp only [List.cons_append, List.append_assoc, List.nil_append, List.singleton_append]
    rw [runBytes_cons_ok {} e1, hrun2]
    exact runBytes_cons_ok {} hstep3
  · rw [n3]
    simp [Num.asNum, P18, Json.NumRes.toJV]

/-- negative: -9223372036854775800 … -9223372036854775807 come back as int64 (the fast loop is only entered from a
first digit without sign), -9223372036854775808 as a `json.Number` -/
theorem edge_run_neg (k : Nat) (hk : k ≤ 8) (st : St) (f : Fast) (p : Pos) (rest : Bytes) (hm : st.mode = .value)
    (hf : f.nlSkipping = false) :
    ∃ st' f' p', runBytes refTables {} st f p ((45 :: (P18 ++ [UInt8.ofNat (48 + k)])) ++ rest) = runBytes refTables {} st' f' p' rest ∧
      st'.mode = .digit ∧ st'.num.asNum.toJV = nvInt (-(9223372036854775800 + (k : Int))) ∧ st'.starts = st.starts ∧
      st'.stack = st.stack ∧ st'.docs = st.docs ∧ st'.plus = st.plus ∧ f'.nlSkipping = false := by
  have hdk := edge_digit k hk
  let s1 : St := { st with mode := .neg, num := { st.num.reset with neg := true } }
  have e1 : ∀ l, step refTables {} st f 45 l = .ok (s1, fS f, false) := fun l => step_valNeg st f l hm hf
  let s2 : St := { s1 with num := s1.num.addDigit 57, mode := .digit }
  have e2 : ∀ l, step refTables {} s1 (fS f) 57 l = .ok (s2, fS (fS f), false) :=
    fun l => step_negDigit s1 (fS f) 57 l rfl rfl (by decide)
  have hok1 : NumOK s1.num true 0 := ⟨rfl, rfl, rfl, rfl, rfl⟩
  obtain ⟨hok2, hadd, _⟩ := NumOK_digit s1.num true 0 57 hok1 (by omega) (by unfold isDigitB; decide)
  have hok2' : NumOK s2.num true (dval 57) := by
    show NumOK (s1.num.addDigit 57) true (dval 57)
    rw [hadd]; simpa using hok2
  obtain ⟨f3, p3, hrun3, hf3, hn3, hi3, _⟩ := digits_run_acc T17 s2 (fS (fS f)) ((p.next false).next false)
    (UInt8.ofNat (48 + k) :: rest) true (dval 57) rfl rfl T17_digits hok2' (by rw [T17_val]; decide)
  rw [T17_val] at hn3
  obtain ⟨n3, hn3def⟩ : ∃ n3, n3 = T17.foldl Num.addDigit s2.num := ⟨_, rfl⟩
  rw [← hn3def] at hrun3 hn3
  let s3 : St := { s2 with num := n3 }
  have e4 : ∀ l, step refTables {} s3 f3 (UInt8.ofNat (48 + k)) l =
      .ok ({ s3 with num := s3.num.addDigit (UInt8.ofNat (48 + k)) }, { inFast := false, tokFast := f3.tokFast, nlSkipping := false }, false) :=
    fun l => step_slowDigit s3 f3 _ l rfl hf3 (by rw [hi3]; rfl) hdk
  refine ⟨{ s3 with num := s3.num.addDigit (UInt8.ofNat (48 + k)) }, { inFast := false, tokFast := f3.tokFast, nlSkipping := false },
    p3.next false, ?_, rfl, ?_, rfl, rfl, rfl, rfl, rfl⟩
  · rw [P18_eq]
    simp only [List.cons_append, List.append_assoc, List.nil_append, List.singleton_append]
    rw [runBytes_cons_ok {} e1, runBytes_cons_ok {} e2, hrun3]
    exact runBytes_cons_ok {} e4
  · show (s3.num.addDigit (UInt8.ofNat (48 + k))).asNum.toJV = _
    rw [num_of_NumOK s3.num true hn3]
    exact asNum_edge_neg _ _ k hk

/-! ## non-negative integers of any size up to the uint64 range -/

/-- the fuel of `fmtNatAux` does not matter once it exceeds the number -/
theorem fmtNatAux_fuel : ∀ (f1 f2 n : Nat) (acc : Bytes), n < f1 → n < f2 → fmtNatAux f1 n acc = fmtNatAux f2 n acc := by
  intro f1
  induction f1 with
  | zero => intro f2 n acc h; omega
  | succ k ih =>
    intro f2 n acc h1 h2
    obtain ⟨m, rfl⟩ : ∃ m, f2 = m + 1 := ⟨f2 - 1, by omega⟩
    unfold fmtNatAux
    by_cases hn : n < 10
    · simp [hn]
    · simp only [hn, ↓reduceIte]
      exact ih m (n / 10) _ (by omega) (by omega)

theorem fmtNatAux_acc : ∀ (f n : Nat) (acc : Bytes), n < f → fmtNatAux f n acc = fmtNatAux f n [] ++ acc := by
  intro f
  induction f with
  | zero => intro n acc h; omega
  | succ k ih =>
    intro n acc h
    unfold fmtNatAux
    by_cases hn : n < 10
    · simp [hn]
    · simp only [hn, ↓reduceIte]
      rw [ih (n / 10) (UInt8.ofNat (48 + n % 10) :: acc) (by omega), ih (n / 10) [UInt8.ofNat (48 + n % 10)] (by omega)]
      simp [List.append_assoc]

/-- `strconv.FormatUint`: the last digit is `n % 10`, what stands before it is `n / 10` -/
theorem fmtNat_snoc (n : Nat) (h : 10 ≤ n) : fmtNat n = fmtNat (n / 10) ++ [UInt8.ofNat (48 + n % 10)] := by
  have hn : ¬ n < 10 := by omega
  show fmtNatAux (n + 1) n [] = fmtNatAux (n / 10 + 1) (n / 10) [] ++ _
  rw [show fmtNatAux (n + 1) n [] = fmtNatAux n (n / 10) [UInt8.ofNat (48 + n % 10)] by
    conv => lhs; unfold fmtNatAux
    simp [hn]]
  rw [fmtNatAux_acc n (n / 10) _ (by omega), fmtNatAux_fuel n (n / 10 + 1) (n / 10) [] (by omega) (by omega)]

/-- `FillBig` of a non-negative integer held exactly -/
theorem fillBig_pos (n : Num) (v : Nat) (h : NumOK n false v) : n.fillBig = { n with big := fmtNat v } := by
  obtain ⟨h1, h2, h3, h4, h5⟩ := h
  have hd : ¬ ((1 : UInt64) < n.div) := by rw [h3]; decide
  have he : ¬ ((0 : UInt64) < n.exp) := by rw [h4]; decide
  unfold Num.fillBig
  simp only [h1, h2, h5, hd, he, ↓reduceIte, List.nil_append, Bool.false_eq_true]

/-- a digit inside the integer fast loop once `BigLimit <= I`: the number goes over to text -/
theorem step_fastBig (st : St) (f : Fast) (d : UInt8) (hm : st.mode = .digit) (hf : f.nlSkipping = false)
    (hfast : f.inFast = true) (hd : isDigitB d) (v : Nat) (hn : NumOK st.num false v) (hv : 922337203685477580 ≤ v) :
    ∃ s', (∀ l, step refTables {} st f d l = .ok (s', { inFast := false, tokFast := f.tokFast, nlSkipping := false }, false)) ∧
      s'.mode = .digit ∧ s'.num = { st.num with big := fmtNat v ++ [d] } ∧ s'.starts = st.starts ∧ s'.stack = st.stack ∧
      s'.docs = st.docs ∧ s'.plus = st.plus := by
  have hact := digit_numDigit d hd
  have hle : BigLimit ≤ st.num.i := by
    rw [UInt64.le_iff_toNat_le, hn.2.1]
    have : BigLimit.toNat = 922337203685477580 := rfl
    omega
  have hfb := fillBig_pos st.num v hn
  have hne : 0 < (fmtNat v).length := by
    cases h : fmtNat v with
    | nil => exact absurd h (Json.fmtNat_ne_nil v)
    | cons _ _ => simp
  have hadd : st.num.fillBig.addDigit d = { st.num with big := fmtNat v ++ [d] } := by
    rw [hfb]
    simp [Num.addDigit, hne]
  let ft : List Char := if st.num.i.toNat * 10 + (d - 48).toNat ≤ 9223372036854775807 then (st.addFeat 'i').feat else st.feat
  let s' : St := { st with num := st.num.fillBig.addDigit d, feat := ft }
  refine ⟨s', ?_, hm, hadd, rfl, rfl, rfl, rfl⟩
  intro l
  simp [step, stepCore, stepAct, stepActP, nextFast, deliver, refTables, expectedFin, hm, hf, hact, hle, hfast, s', ft]

/-- **non-negative integers from the limit of the fast loop up to (beyond) the uint64 range** come back as a
`json.Number` with the same digits -/
theorem edge_run_posN (n : Nat) (hn : 9223372036854775800 ≤ n ∧ n < 92233720368547758000) (st : St) (f : Fast) (p : Pos)
    (rest : Bytes) (hm : st.mode = .value) (hf : f.nlSkipping = false) :
    ∃ st' f' p', runBytes refTables {} st f p (fmtNat n ++ rest) = runBytes refTables {} st' f' p' rest ∧
      st'.mode = .digit ∧ st'.num.asNum.toJV = .big (fmtNat n) ∧ st'.starts = st.starts ∧
      st'.stack = st.stack ∧ st'.docs = st.docs ∧ st'.plus = st.plus ∧ f'.nlSkipping = false := by
  have hsn := fmtNat_snoc n (by omega)
  have hq : 0 < n / 10 := by omega
  obtain ⟨d0, ds, he, hds, _, h19⟩ := Writer.fmtNat_shape (n / 10)
  rw [fmtNat_eq] at he
  have hd19 := h19 hq
  have hnat : natOf (d0 :: ds) = n / 10 := by rw [← he]; exact Json.natOf_fmtNat _
  obtain ⟨hdd, _⟩ := d19_digit d0 hd19
  have hdsB : ∀ x ∈ ds, isDigitB x := by
    intro x hx
    simp only [List.all_eq_true] at hds
    exact Json.isDigitB_of_isDigit x (hds x hx)
  have hc : isDigitB (UInt8.ofNat (48 + n % 10)) := by
    have := Writer.digit_toNat (n % 10) (by omega)
    unfold isDigitB; omega
  let s1 : St := { st with mode := .digit, num := { st.num.reset with i := (d0 - 48).toUInt64 } }
  have e1 : ∀ l, step refTables {} st f d0 l =
      .ok (s1, { inFast := true, tokFast := f.tokFast, nlSkipping := false }, false) :=
    fun l => step_valDigit st f d0 l hm hf hd19
  have hok1 : NumOK s1.num false (dval d0) := ⟨rfl, Json.digit_toUInt64 d0 hdd, rfl, rfl, rfl⟩
  obtain ⟨f2, p2, hrun2, hf2, hn2, hi2, _⟩ := digits_run_acc ds s1 { inFast := true, tokFast := f.tokFast, nlSkipping := false }
    (p.next false) (UInt8.ofNat (48 + n % 10) :: rest) false (dval d0) rfl rfl hdsB hok1
    (by rw [natOf_cons_foldl', hnat]; omega)
  rw [natOf_cons_foldl', hnat] at hn2
  obtain ⟨n2, hn2def⟩ : ∃ n2, n2 = ds.foldl Num.addDigit s1.num := ⟨_, rfl⟩
  rw [← hn2def] at hrun2 hn2
  obtain ⟨s3, hstep3, m3, n3, a3, b3, c3, d3⟩ := step_fastBig ({ s1 with num := n2 } : St) f2
    (UInt8.ofNat (48 + n % 10)) rfl hf2 (by rw [hi2]) hc (n / 10) hn2 (by omega)
  refine ⟨s3, { inFast := false, tokFast := f2.tokFast, nlSkipping := false }, p2.next false, ?_, m3, ?_, a3, b3, c3, d3, rfl⟩
  · rw [hsn, he]
    simp only [List.cons_append, List.append_assoc, List.nil_append, List.singleton_append]
    rw [runBytes_cons_ok {} e1, hrun2]
    exact runBytes_cons_ok {} hstep3
  · rw [n3, hsn]
    have hne : 0 < (fmtNat (n / 10) ++ [UInt8.ofNat (48 + n % 10)]).length := by simp
    simp [Num.asNum, hne, Json.NumRes.toJV]

end OjgVerif.Sen
