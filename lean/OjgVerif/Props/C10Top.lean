import OjgVerif.Props.C10Indent
/-! # C10 — a scalar as the whole document (the end-of-input path of `sen.Parser.Parse`)

`C10_tree_partial` / `C10_indent_partial` are about arrays and objects: there the closing bracket completes the
last value. A scalar as the whole document ends with the input: `null`, `true`, `false`, a bare string and a number
are still PENDING when `parseBuffer` returns, and `Parse` completes them from the end marker of the mode table
(`finish`: `mode[256]` is `t` for a token, `n` for a number); a quoted string is delivered by its closing quote.

`C10_top_partial`: for every scalar of the class `admVal` — `null`, booleans, integers below the limit, floats
(`NumAdm`), strings that are not a reserved word and are not written bare with a leading sign — under every writer
option, `sen.Parser.Parse(sen.String(v))` is the one document `nvVal o v`, EXCLUDING exactly known finding
C10-top-level-ef by the predicate `topLevelEF`: a string written bare whose first byte is 0xEF and that is at
least four bytes long (the `[]byte` entry point takes 0xEF as the start of a byte order mark: `Json.bomRule`).
`C10_top_full_false`: without the exclusion the statement is false on this tree (witness `"ﬁle"`, evaluated
by the kernel over the regenerated tables). -/
set_option linter.unusedSimpArgs false
set_option linter.unusedVariables false
set_option linter.unusedSectionVars false
namespace OjgVerif.Sen
open OjgVerif
open OjgVerif.Writer (sanitize)
open OjgVerif.Json (Num isDigitB dval natOf fmtNat Parts render Dig Lead acc)

/-- known finding C10-top-level-ef as a predicate on the string: written bare, first byte 0xEF, four bytes or more -/
def topLevelEF (s : Bytes) (html : Bool) : Prop :=
  senQuoted s html = false ∧ s.head? = some 0xEF ∧ 4 ≤ s.length

/-! ## the entry point -/

theorem bomRule_keep_head (doc : Bytes) (b : UInt8) (r : Bytes) (h : doc = b :: r) (hb : b ≠ 0xEF) :
    Json.bomRule doc = .keep := by
  subst h
  unfold Json.bomRule
  split
  · rename_i heq; simp only [List.cons.injEq] at heq; exact absurd heq.1 hb
  · rfl

theorem bomRule_keep_short (doc : Bytes) (h : doc.length < 4) : Json.bomRule doc = .keep := by
  unfold Json.bomRule
  split
  · rename_i b1 b2 r
    cases r with
    | nil => rfl
    | cons x y => simp at h; omega
  · rfl

/-- a document the machine passes byte by byte and that `Parse` completes at the end of the input -/
theorem parsesTo_of_fin (doc : Bytes) (v : JV) (hbom : Json.bomRule doc = .keep)
    (h : ∃ st f p out, runBytes refTables {} {} {} {} doc = .ok (st, f, p) ∧ finish refTables {} st p = .ok out ∧
      out.docs = [v]) : C10.parsesTo doc v := by
  obtain ⟨st, f, p, out, hr, ho, hd⟩ := h
  refine ⟨out, ?_, hd⟩
  rw [run_eq_ref senTables_ok]
  have hentry : (St.entry ({} : Cfg) ({} : St)) = {} := rfl
  have hr' : runBytes refTables {} {} {} { ({} : Pos) with off := 0 } doc = .ok (st, f, p) := hr
  rw [run, call_ref]
  simp [callWith, hbom, hentry, runChunks, hr', ho]

/-- the end of the input while a bare token is pending at the top -/
theorem finish_token (st : St) (p : Pos) (hm : st.mode = .token) (hs : st.starts = []) (hk : st.stack = [])
    (hd : st.docs = []) : ∃ out, finish refTables {} st p = .ok out ∧ out.docs = [tokenValue st.tmp.reverse] := by
  simp [finish, hm, hs, hk, hd, refTables, expectedFin, St.addTokenP, Item.toJV]

/-- the end of the input while a number is pending at the top -/
theorem finish_num (st : St) (p : Pos) (hm : NumMode st.mode) (hs : st.starts = []) (hk : st.stack = [])
    (hd : st.docs = []) : ∃ out, finish refTables {} st p = .ok out ∧ out.docs = [st.num.asNum.toJV] := by
  rcases hm with hm | hm | hm | hm <;>
    simp [finish, hm, hs, hk, hd, refTables, expectedFin, St.addIgnore, St.add, Item.toJV]

/-- the closing quote of a string that is the whole document: the string is delivered -/
theorem quoteEnd_top (st : St) (f : Fast) (l : Bool) (hm : st.mode = .string) (hq : st.quoteDelim = 34)
    (hs : st.starts = []) (hk : st.stack = []) (hp : st.plus = false) (hf : f.nlSkipping = false) :
    step refTables {} st f 34 l =
      .ok ({ st with mode := .space, stack := [], docs := .str st.tmp.reverse :: st.docs }, fS f, false) := by
  rw [step_quoteEnd {} rfl rfl st f l hm hq hf]
  simp [St.addStringP, deliver, deliverP, hs, hk, hp, refTables, expectedFin, Item.toJV]

/-! ## the scalars -/

/-- `null`, `true`, `false` -/
theorem top_word (b : UInt8) (t : Bytes) (hb : expected .value b = .tokenStart) (ht : expected .token b = .tokenOk)
    (hs : expected .space b ≠ .skipChar) (hr : ∀ x ∈ t, expected .token x = .tokenOk) (hne : b ≠ 0xEF) :
    C10.parsesTo (b :: t) (tokenValue (b :: t)) := by
  apply parsesTo_of_fin _ _ (bomRule_keep_head _ b t rfl hne)
  let s0 : St := { tmp := [b], mode := .token }
  let f0 : Fast := { inFast := false, tokFast := true, nlSkipping := false }
  obtain ⟨p', h⟩ := token_run {} rfl t s0 f0 (({} : Pos).next false) [] rfl rfl rfl hr
  rw [List.append_nil] at h
  obtain ⟨out, ho, hd⟩ := finish_token ({ s0 with tmp := t.reverse ++ s0.tmp } : St) p' rfl rfl rfl rfl
  refine ⟨({ s0 with tmp := t.reverse ++ s0.tmp } : St), f0, p', out, ?_, ho, ?_⟩
  · rw [runBytes_cons_ok {} (fun l => step_tokenStart {} rfl {} {} b l rfl hb ht hs)]
    show runBytes refTables {} s0 f0 (({} : Pos).next false) t = _
    rw [h]
    rfl
  · rw [hd]; simp [s0]

/-- a string, bare or quoted -/
theorem top_str (s : Bytes) (html : Bool) (h1 : ¬ C10.reservedWord s) (h2 : ¬ C10.leadingSign s html)
    (h3 : ¬ topLevelEF s html) : C10.parsesTo (senString s html) (.str (sanitize s)) := by
  by_cases hq : s = [] ∨ senQuoted s html = true
  · -- quoted: the closing quote delivers the document
    rw [C10.quoted_form s html hq]
    apply C10.parsesTo_of_run _ _ 34 _ rfl (by decide)
    obtain ⟨ri, rn, p', h⟩ := C10.quoted_run s html {} {} {} [34] rfl
    rw [h]
    rw [runBytes_cons_ok {} (fun l => quoteEnd_top _ _ l rfl rfl rfl rfl rfl rfl)]
    refine ⟨_, _, _, rfl, rfl, rfl, ?_⟩
    simp
  · -- bare: the token is pending at the end of the input
    have hne : s ≠ [] := fun h => hq (Or.inl h)
    have hqf : senQuoted s html = false := by
      cases h : senQuoted s html with
      | false => rfl
      | true => exact absurd (Or.inr h) hq
    obtain ⟨hss, hsan, _, b, t, hbt, _⟩ := C10.bare_facts s html hne hqf
    have hbom : Json.bomRule (senString s html) = .keep := by
      rw [hss]
      by_cases hef : b = 0xEF
      · apply bomRule_keep_short
        have : ¬ 4 ≤ s.length := fun h4 => h3 ⟨hqf, by rw [hbt, hef]; rfl, h4⟩
        omega
      · exact bomRule_keep_head s b t hbt hef
    apply parsesTo_of_fin _ _ hbom
    obtain ⟨p', h⟩ := C10.bare_run s html {} {} {} [] rfl hne hqf h2
    rw [List.append_nil] at h
    obtain ⟨out, ho, hd⟩ := finish_token { ({} : St) with mode := .token, tmp := s.reverse } p' rfl rfl rfl rfl
    refine ⟨_, _, p', out, h, ho, ?_⟩
    rw [hd]
    simp only [List.reverse_reverse]
    rw [C10.tokenValue_str s h1, hsan]

/-- a number literal (a float text) -/
theorem top_num (t : Bytes) (hadm : NumAdm t) : C10.parsesTo t (Json.numConv t) := by
  obtain ⟨q, hw, hl, hb, rfl⟩ := hadm
  have hhead : ∃ b r, render q = b :: r ∧ b ≠ 0xEF := by
    obtain ⟨s, ip, fo, eo⟩ := q
    simp only at hl
    cases s with
    | true => exact ⟨45, ip ++ (Json.fracTxt fo ++ Json.expTxt eo), by simp [render, Json.sgnTxt], by decide⟩
    | false =>
      rcases hl with rfl | ⟨d, ds, rfl, hd⟩
      · exact ⟨48, Json.fracTxt fo ++ Json.expTxt eo, by simp [render, Json.sgnTxt], by decide⟩
      · refine ⟨d, ds ++ (Json.fracTxt fo ++ Json.expTxt eo), by simp [render, Json.sgnTxt], ?_⟩
        intro e; subst e; revert hd; decide
  obtain ⟨b, r, hbr, hne⟩ := hhead
  apply parsesTo_of_fin _ _ (bomRule_keep_head _ b r hbr hne)
  obtain ⟨m, f', p', hrun, hm', _⟩ := num_run q hw hl hb {} {} {} [] rfl rfl
  rw [List.append_nil] at hrun
  obtain ⟨out, ho, hd⟩ := finish_num { ({} : St) with mode := m, num := acc q } p' hm' rfl rfl rfl
  refine ⟨_, _, p', out, hrun, ho, ?_⟩
  rw [hd, ← numDoc_eq_numConv q hw hl]
  rfl

/-- an integer below the limit -/
theorem top_int (i : Int) (hi : -9223372036854775800 < i ∧ i < 9223372036854775800) :
    C10.parsesTo (fmtInt i) (.int i) := by
  obtain ⟨d, ds, he, hds, h0, h19⟩ := Writer.fmtNat_shape i.natAbs
  rw [fmtNat_eq] at he
  have hnat : natOf (d :: ds) = i.natAbs := by rw [← he]; exact Json.natOf_fmtNat _
  have hbound : natOf (d :: ds) < 9223372036854775800 := by rw [hnat]; omega
  have hd0 : Json.Spec.isDigit d = true := by
    by_cases hz : i.natAbs = 0
    · rw [(h0 hz).1]; decide
    · exact isDigit19_isDigit' d (h19 (by omega))
  have hdig : Dig (d :: ds) := by
    intro x hx
    rcases List.mem_cons.mp hx with rfl | hx
    · exact hd0
    · simp only [List.all_eq_true] at hds; exact hds x hx
  have hlead : Lead (d :: ds) := by
    by_cases hz : i.natAbs = 0
    · obtain ⟨rfl, rfl⟩ := h0 hz; exact Or.inl rfl
    · exact Or.inr ⟨d, ds, rfl, h19 (by omega)⟩
  have hne : d ≠ 0xEF := by intro e; subst e; revert hd0; decide
  have htext : fmtInt i = Json.sgnTxt (decide (i < 0)) ++ ((d :: ds) ++ []) := by
    by_cases hneg : i < 0 <;> simp [fmtInt, hneg, he, Json.sgnTxt]
  have hhead : ∃ b r, fmtInt i = b :: r ∧ b ≠ 0xEF := by
    by_cases hneg : i < 0
    · exact ⟨45, d :: ds, by simp [fmtInt, hneg, he], by decide⟩
    · exact ⟨d, ds, by simp [fmtInt, hneg, he], hne⟩
  obtain ⟨b, r, hbr, hbne⟩ := hhead
  apply parsesTo_of_fin _ _ (bomRule_keep_head _ b r hbr hbne)
  obtain ⟨m, f', p', hrun, hm', _, hok⟩ := ip_run (decide (i < 0)) (d :: ds) hdig hlead hbound {} {} {} [] rfl rfl
  have hmode : NumMode m := by
    rcases hm' with h | h
    · exact Or.inl h
    · exact Or.inr (Or.inl h)
  obtain ⟨out, ho, hd⟩ := finish_num { ({} : St) with mode := m, num := Json.accInt (decide (i < 0)) (d :: ds) } p' hmode rfl rfl rfl
  refine ⟨_, _, p', out, by rw [htext]; exact hrun, ho, ?_⟩
  rw [hd]
  show [(Json.accInt (decide (i < 0)) (d :: ds)).asNum.toJV] = _
  rw [NumOK_asNum _ _ _ hok hbound, hnat]
  congr 2
  by_cases hneg : i < 0 <;> simp [hneg] <;> omega

/-- every int64 as the whole document: `nvInt` (at the limit a `json.Number` with the same digits) -/
theorem top_int_all (i : Int) (hi : -9223372036854775808 ≤ i ∧ i ≤ 18446744073709551615) :
    C10.parsesTo (fmtInt i) (nvInt i) := by
  by_cases hmid : -9223372036854775800 < i ∧ i < 9223372036854775800
  · have e : nvInt i = .int i := by
      unfold nvInt; rw [if_pos ⟨by omega, hmid.2⟩]
    rw [e]
    exact top_int i hmid
  · have hfin : ∀ (st' : St) (f' : Fast) (p' : Pos) (x : JV) (doc : Bytes), runBytes refTables {} {} {} {} doc = .ok (st', f', p') →
        st'.mode = .digit → st'.num.asNum.toJV = x → st'.starts = [] → st'.stack = [] → st'.docs = [] →
        ∃ st f p out, runBytes refTables {} {} {} {} doc = .ok (st, f, p) ∧ finish refTables {} st p = .ok out ∧ out.docs = [x] := by
      intro st' f' p' x doc hrun m3 n3 a3 b3 c3
      obtain ⟨out, ho, hd⟩ := finish_num st' p' (Or.inl m3) a3 b3 c3
      exact ⟨st', f', p', out, hrun, ho, by rw [hd, n3]⟩
    by_cases hpos : 0 ≤ i
    · have htxt : fmtInt i = fmtNat i.natAbs := by
        have : ¬ i < 0 := by omega
        simp [fmtInt, this]
      have e : nvInt i = .big (fmtNat i.natAbs) := by
        unfold nvInt; rw [if_neg (by omega), htxt]
      rw [e, htxt]
      obtain ⟨d0, ds, he, _, _, h19⟩ := Writer.fmtNat_shape i.natAbs
      rw [fmtNat_eq] at he
      have hne : d0 ≠ 0xEF := by
        intro e0; subst e0
        have := h19 (by omega)
        revert this; decide
      apply parsesTo_of_fin _ _ (bomRule_keep_head _ d0 ds he hne)
      obtain ⟨st', f', p', hrun, m3, n3, a3, b3, c3, d3, e3⟩ := edge_run_posN i.natAbs (by omega) {} {} {} [] rfl rfl
      rw [List.append_nil] at hrun
      exact hfin st' f' p' _ _ hrun m3 n3 a3 b3 c3
    · obtain ⟨k, hk, hk1, hk2⟩ := edge_text i.natAbs (by omega)
      have hneg : i < 0 := by omega
      have htxt : fmtInt i = 45 :: (P18 ++ [UInt8.ofNat (48 + k)]) := by
        simp [fmtInt, hneg, hk2]
      have hi' : i = -(9223372036854775800 + (k : Int)) := by omega
      rw [htxt, hi']
      apply parsesTo_of_fin _ _ (bomRule_keep_head _ 45 _ rfl (by decide))
      obtain ⟨st', f', p', hrun, m3, n3, a3, b3, c3, d3, e3⟩ := edge_run_neg k hk {} {} {} [] rfl rfl
      rw [List.append_nil] at hrun
      exact hfin st' f' p' _ _ hrun m3 n3 a3 b3 c3

/-! ## the theorem -/

/-- **C10, a scalar as the whole document**: every scalar of the class `admVal`, every writer option, excluding
exactly known finding C10-top-level-ef (`topLevelEF`) -/
theorem C10_top_partial (o : WOpts) (io : IOpts) (v : JV) (hs : needSep v = true) (hadm : admVal o v)
    (hef : ∀ s, v = .str s → ¬ topLevelEF s o.html) : C10.parsesTo (senWrite o io v) (nvVal o v) := by
  have e : senWrite o io v = tightVal o v := by
    unfold senWrite
    split
    · exact indentVal_scalar o io 0 v hs
    · rfl
  rw [e]
  cases v with
  | arr xs => simp [needSep] at hs
  | obj kvs => simp [needSep] at hs
  | null =>
    exact top_word 110 [117, 108, 108] (by decide +kernel) (by decide +kernel) (by decide +kernel) (by decide +kernel)
      (by decide)
  | bool b =>
    cases b with
    | true =>
      exact top_word 116 [114, 117, 101] (by decide +kernel) (by decide +kernel) (by decide +kernel) (by decide +kernel)
        (by decide)
    | false =>
      exact top_word 102 [97, 108, 115, 101] (by decide +kernel) (by decide +kernel) (by decide +kernel)
        (by decide +kernel) (by decide)
  | str s =>
    obtain ⟨h1, h2⟩ : ¬ C10.reservedWord s ∧ ¬ C10.leadingSign s o.html := hadm
    exact top_str s o.html h1 h2 (hef s rfl)
  | int i => exact top_int_all i hadm
  | flt t => exact top_num t hadm
  | big t => exact absurd hadm (by simp [admVal])
  | num t => exact absurd hadm (by simp [admVal])

/-- and for plain scalars (valid UTF-8 strings, floats whose text is canonical) the document is the scalar itself -/
theorem C10_top_valid (o : WOpts) (io : IOpts) (v : JV) (hs : needSep v = true) (hadm : admVal o v)
    (hef : ∀ s, v = .str s → ¬ topLevelEF s o.html) (hplain : plainVal o v) : C10.parsesTo (senWrite o io v) v := by
  have h := C10_top_partial o io v hs hadm hef
  rwa [nvVal_plain o v hplain] at h

/-- non-vacuity: `1.5`, `-17`, `"a b"`, `abc`, and a bare three byte string that begins with 0xEF (U+FB01) -/
example : C10.parsesTo (senWrite {} {} (.int (-17))) (nvVal {} (.int (-17))) :=
  C10_top_partial {} {} _ rfl (by simp only [admVal]; decide) (fun s h => by cases h)
example : C10.parsesTo (senWrite {} { indent := 2 } (.str [0xEF, 0xAC, 0x81])) (.str (sanitize [0xEF, 0xAC, 0x81])) :=
  C10_top_partial {} _ _ rfl
    (by simp only [admVal, C10.reservedWord, C10.leadingSign]; decide +kernel)
    (fun s h => by cases h; intro h; exact absurd h.2.2 (by decide))

/-- the statement without the exclusion -/
def C10_top_full : Prop :=
  ∀ (o : WOpts) (io : IOpts) (v : JV), needSep v = true → admVal o v → C10.parsesTo (senWrite o io v) (nvVal o v)

/-- **it is false on this tree** (known finding C10-top-level-ef): `"ﬁle"` is written bare, and
`sen.Parser.Parse` answers `expected BOM` -/
theorem C10_top_full_false : ¬ C10_top_full := by
  intro h
  have hadm : admVal {} (.str [0xEF, 0xAC, 0x81, 108, 101]) := by
    simp only [admVal, C10.reservedWord, C10.leadingSign]; decide +kernel
  obtain ⟨out, ho, _⟩ := h {} {} (.str [0xEF, 0xAC, 0x81, 108, 101]) rfl hadm
  have hc : C10.checkDocs (run senTables {} [senWrite {} {} (.str [0xEF, 0xAC, 0x81, 108, 101])]) (fun _ => true) = false := by
    decide +kernel
  rw [ho] at hc
  cases hc

end OjgVerif.Sen
