import OjgVerif.Sen.Lemmas
import OjgVerif.Props.C03
import OjgVerif.Gen.SenFacts
import OjgVerif.Sen.LemmasCur
/-! # C03 (SEN clause) — sen.Parse, sen.ParseReader and sen.Tokenize, however the input is chunked
(model level)

`call T cfg prev chunks` is the model of one entry-point call (parser or tokenizer profile) whose reader
delivers `chunks`.

* `sen_is_reference`: the machine over the regenerated `sen/maps.go` is the machine over the readable
  reference tables (every cell: `Sen.senTables_ok`).
* `bom_bounds_in_source`: the length tests of the BOM handling (`cnt < 4` of the loop that tops the first
  read up, `3 < len(buf)` of the BOM tests, both front-ends, `[]byte` and reader entry points) are
  REGENERATED from the source and the model's BOM rule (`topUpN`, `bomRuleReaderN`, `bomRuleN`) is
  instantiated with them; `TablesOK` requires 4 and 3.
* `chunks_irrelevant` (`_sen` over the regenerated tables and bounds): for the REPAIRED machine — the three fast-path deviations `fastInt`, `tokSlow`,
  `nlSkip` switched off — the outcome of a reader entry point (documents / callbacks, error kind and
  line, the BOM top-up rule included) depends only on the concatenation of the chunks. The error COLUMN
  is excluded: sen.ParseReader does not rebase the newline offset between read buffers (the sen suite
  pins it), which the model follows.
* `chunks_irrelevant_current` (`_sen`): **the partial form for the REAL configuration** (both pinned fast paths
  on — no Go entry point is `Repaired`): chunk independence for every input and chunking whose run and whose
  one-piece run take no pinned fast-path deviation (`Sen.deviates`, a decidable predicate: no digit read by
  the integer fast loop while the accumulator equals BigLimit, no bare token that began in an earlier read
  buffer ended by a byte other than space, tab, CR, LF); `Sen.call_eq_repaired`: such a call IS the call of
  the repaired machine.
* `chunks_irrelevant_full_false_token`, `_int19`: with `tokSlow` or `fastInt` on (the code as it is) the
  statement is false; the witnesses are in corpus/C03sen.txt and are replayed against the Go code on
  every run (known findings C03sen-token-end-chunk, C03sen-int19);
* `chunk_dependence_newline_before` / `_current`: the third deviation, `nlSkip`, was repaired by 7b94de8
  (the flag is off in the code as it is);
* `missing_value_before` / `_current` (546d576), `tokenizer_quote_before` / `_current`,
  `tokenizer_ccomment_before` / `_current`, `tokenizer_comment_onlyone_before` / `_current` (f233b47): the
  witnesses of the repaired front-end differences, on the old model (flags `missingValue`, `tkOld`) and on
  the model of the code as it is;
* `repairs_in_source`: regenerated facts of sen/parser.go and sen/tokenizer.go that pin those repairs
  (no `spaceMap[…]` in the scan loops, the "expected a value" error in both `closeObject` cases, the
  tokenizer's `strQuote` case reads `quoteDelim`, its `commentEnd` and C-comment cases `continue`) —
  undoing one of the commits breaks this theorem (and the correspondence run). -/
namespace OjgVerif.C03sen
open OjgVerif OjgVerif.Sen
open OjgVerif.Json (topUp topUpAux bomRuleReader BomRes)

/-- the machine over the regenerated tables is the reference machine, for both front-ends, every
configuration, prior instance state and chunking -/
theorem sen_is_reference (cfg : Cfg) (prev : St) (chunks : List Bytes) :
    call senTables cfg prev chunks = call refTables cfg prev chunks :=
  call_eq_ref senTables_ok cfg prev chunks

/-- the three fast-path deviations are switched off -/
structure Repaired (cfg : Cfg) : Prop where
  fastInt : cfg.fastInt = false
  tokSlow : cfg.tokSlow = false
  nlSkip : cfg.nlSkip = false

variable (T : Tables) (cfg : Cfg)

/-! ## the fast-path record stays at rest -/

theorem nextFast_rest (h : Repaired cfg) (a : Act) (i : UInt64) : nextFast cfg a i {} = {} := by
  cases a <;> simp [nextFast, h.fastInt, h.tokSlow, h.nlSkip]

theorem stepCore_rest (h : Repaired cfg) {s s' : St} {f' : Fast} {b : UInt8} {nl : Bool}
    (hs : stepCore T cfg s {} b = .ok (s', f', nl)) : f' = {} := by
  unfold stepCore at hs
  split at hs
  · cases hs
  · split at hs
    · simp only [Except.ok.injEq, Prod.mk.injEq] at hs
      rw [← hs.2.1]; exact nextFast_rest cfg h _ _
    · split at hs
      · cases hs
      · simp only [Except.ok.injEq, Prod.mk.injEq] at hs
        rw [← hs.2.1]; exact nextFast_rest cfg h _ _

theorem tokenEndFast_rest (h : Repaired cfg) {s s' : St} {f' : Fast} {b : UInt8} {nl : Bool}
    (hs : tokenEndFast T cfg s {} b = .ok (s', f', nl)) : f' = {} := by
  unfold tokenEndFast at hs
  split at hs
  · simp only [Except.ok.injEq, Prod.mk.injEq] at hs
    rw [← hs.2.1]
  · simp only at hs
    split at hs
    · cases hs
    · split at hs
      · cases hs
      · exact stepCore_rest T cfg h hs

theorem step_rest (h : Repaired cfg) {s s' : St} {f' : Fast} {b : UInt8} {l nl : Bool}
    (hs : step T cfg s {} b l = .ok (s', f', nl)) : f' = {} := by
  unfold step at hs
  split at hs
  · rename_i hc; simp at hc
  · split at hs
    · exact tokenEndFast_rest T cfg h hs
    · exact stepCore_rest T cfg h hs

/-- at rest the step does not look at "last byte of the buffer" -/
theorem step_last (s : St) (b : UInt8) (l l' : Bool) : step T cfg s {} b l = step T cfg s {} b l' := by
  unfold step
  simp

/-! ## outcomes without the error column -/

def noCol (e : Err) : Err := { e with col := 0 }

/-- a buffer run without the column of an error and without `off`/`noff` -/
def resB : Except Err (St × Fast × Pos) → Except Err (St × Fast × Nat)
  | .error e => .error (noCol e)
  | .ok (s, f, p) => .ok (s, f, p.line)

def resC : Except Err (St × Pos) → Except Err (St × Nat)
  | .error e => .error (noCol e)
  | .ok (s, p) => .ok (s, p.line)

/-- an entry-point outcome without the column of an error -/
def eraseCol : Except Err Out → Except Err Out
  | .error e => .error (noCol e)
  | .ok o => .ok o

theorem runBytes_line (s : St) (f : Fast) (p p' : Pos) (hp : p.line = p'.line) (bs : Bytes) :
    resB (runBytes T cfg s f p bs) = resB (runBytes T cfg s f p' bs) := by
  induction bs generalizing s f p p' with
  | nil => simp [runBytes, resB, hp]
  | cons b r ih =>
    simp only [runBytes]
    split
    · simp [resB, noCol, Pos.err, hp]
    · apply ih
      unfold Pos.next
      split <;> simp [hp]

theorem runBytes_append (h : Repaired cfg) (s : St) (p : Pos) (a b : Bytes) :
    runBytes T cfg s {} p (a ++ b) =
      match runBytes T cfg s {} p a with
      | .error e => .error e
      | .ok (s', f', p') => runBytes T cfg s' f' p' b := by
  induction a generalizing s p with
  | nil => rfl
  | cons x r ih =>
    simp only [List.cons_append, runBytes]
    rw [step_last T cfg s x (r ++ b).isEmpty r.isEmpty]
    cases hst : step T cfg s {} x r.isEmpty with
    | error k => rfl
    | ok res =>
      obtain ⟨s1, f1, nl⟩ := res
      have hf : f1 = {} := step_rest T cfg h hst
      subst hf
      exact ih _ _

theorem runBytes_rest (h : Repaired cfg) (bs : Bytes) (s : St) (p : Pos) {s' : St} {f' : Fast} {p' : Pos}
    (hs : runBytes T cfg s {} p bs = .ok (s', f', p')) : f' = {} := by
  induction bs generalizing s p with
  | nil => simp only [runBytes, Except.ok.injEq, Prod.mk.injEq] at hs; exact hs.2.1.symm
  | cons b r ih =>
    simp only [runBytes] at hs
    split at hs
    · cases hs
    · rename_i s1 f1 nl hst
      have hf : f1 = {} := step_rest T cfg h hst
      subst hf
      exact ih _ _ hs

/-- reading buffer after buffer is reading the concatenation (up to `off`/`noff`) -/
theorem runChunks_eq_flatten (h : Repaired cfg) (cs : List Bytes) (s : St) (p : Pos) :
    resC (runChunks T cfg s p cs) =
      (match resB (runBytes T cfg s {} p cs.flatten) with
        | .error e => .error e
        | .ok (s', _, l) => .ok (s', l)) := by
  induction cs generalizing s p with
  | nil => simp [runChunks, runBytes, resB, resC]
  | cons c rest ih =>
    simp only [runChunks, List.flatten_cons, runBytes_append T cfg h]
    have hl := runBytes_line T cfg s {} { p with off := 0 } p rfl c
    cases h1 : runBytes T cfg s {} { p with off := 0 } c with
    | error e =>
      rw [h1] at hl
      cases h2 : runBytes T cfg s {} p c with
      | error e' =>
        rw [h2] at hl
        simp only [resB, Except.error.injEq] at hl
        simp [resC, resB, hl]
      | ok r => rw [h2] at hl; obtain ⟨_, _, _⟩ := r; simp [resB] at hl
    | ok r =>
      obtain ⟨s1, f1, p1⟩ := r
      rw [h1] at hl
      cases h2 : runBytes T cfg s {} p c with
      | error e' => rw [h2] at hl; simp [resB] at hl
      | ok r2 =>
        obtain ⟨s2, f2, p2⟩ := r2
        rw [h2] at hl
        simp only [resB, Except.ok.injEq, Prod.mk.injEq] at hl
        obtain ⟨rfl, rfl, hline⟩ := hl
        have hf : f1 = {} := runBytes_rest T cfg h c s _ h1
        subst hf
        simp only
        rw [ih s1 p1]
        rw [runBytes_line T cfg s1 {} p1 p2 hline]

theorem finish_line (s : St) (p p' : Pos) (hp : p.line = p'.line) :
    eraseCol (finish T cfg s p) = eraseCol (finish T cfg s p') := by
  unfold finish
  split
  · simp [eraseCol, noCol, Pos.err, hp]
  · split
    · simp [eraseCol, noCol, Pos.err, hp]
    · split
      · split
        · simp [eraseCol, noCol, Pos.err, hp]
        · rfl
      · split
        · simp [eraseCol, noCol, Pos.err, hp]
        · split
          · simp [eraseCol, noCol, Pos.err, hp]
          · rfl
    · split
      · rfl
      · split
        · simp [eraseCol, noCol, Pos.err, hp]
        · split
          · simp [eraseCol, noCol, Pos.err, hp]
          · rfl
    · rfl

/-- tail of an entry-point call once the BOM decision is made -/
def afterBom (T : Tables) (cfg : Cfg) (s : St) (cs : List Bytes) : Except Err Out :=
  match runChunks T cfg s {} cs with
  | .error e => .error e
  | .ok (s', p) => finish T cfg s' p

theorem afterBom_eq (h : Repaired cfg) (s : St) (cs : List Bytes) :
    eraseCol (afterBom T cfg s cs) = eraseCol (afterBom T cfg s [cs.flatten]) := by
  have key : ∀ cs : List Bytes, eraseCol (afterBom T cfg s cs) =
      (match resB (runBytes T cfg s {} {} cs.flatten) with
        | .error e => .error e
        | .ok (s', _, l) => eraseCol (finish T cfg s' { line := l })) := by
    intro cs
    have hc := runChunks_eq_flatten T cfg h cs s {}
    unfold afterBom
    cases h1 : runChunks T cfg s {} cs with
    | error e =>
      rw [h1] at hc
      cases h2 : resB (runBytes T cfg s {} {} cs.flatten) with
      | error e' => rw [h2] at hc; simp only [resC, Except.error.injEq] at hc; simp [eraseCol, hc]
      | ok r => rw [h2] at hc; obtain ⟨_, _, _⟩ := r; simp [resC] at hc
    | ok r =>
      obtain ⟨s1, p1⟩ := r
      rw [h1] at hc
      cases h2 : resB (runBytes T cfg s {} {} cs.flatten) with
      | error e' => rw [h2] at hc; simp [resC] at hc
      | ok r2 =>
        obtain ⟨s2, f2, l2⟩ := r2
        rw [h2] at hc
        simp only [resC, Except.ok.injEq, Prod.mk.injEq] at hc
        obtain ⟨rfl, rfl⟩ := hc
        exact finish_line T cfg s1 p1 _ rfl
  rw [key cs, key [cs.flatten]]
  simp

/-- **Chunk independence of the repaired machine** (reader entry points of sen.Parser and
sen.Tokenizer): documents / callbacks, error kind and line depend only on the bytes delivered, not on
how the reader splits them — 1-byte reads, splits inside tokens, strings, numbers and comments, a BOM
spread over several reads. -/
theorem chunks_irrelevant (h : Repaired cfg) (hr : cfg.reader = true) (hbom : T.bom cfg = {}) (prev : St)
    (chunks : List Bytes) :
    eraseCol (call T cfg prev chunks) = eraseCol (call T cfg prev [chunks.flatten]) := by
  have hrun : ∀ cs, call T cfg prev cs =
      match topUp (cs.filter (!·.isEmpty)) with
      | [] => finish T cfg (prev.entry cfg) {}
      | c :: rest =>
        match bomRuleReader c with
        | .bad => .error { line := 1, col := 3, kind := .bom }
        | .strip r => afterBom T cfg (prev.entry cfg) (r :: rest)
        | .keep => afterBom T cfg (prev.entry cfg) (c :: rest) := by
    intro cs
    unfold call callWith afterBom
    rw [hbom, topUpN_four, bomRuleReaderN_three]
    simp only [hr, ↓reduceIte]
    cases topUp (cs.filter (!·.isEmpty)) with
    | nil => rfl
    | cons c rest =>
      simp only
      cases bomRuleReader c <;> rfl
  rw [hrun, hrun]
  cases hf : chunks.filter (!·.isEmpty) with
  | nil =>
    have : chunks.flatten = [] := by rw [← C03.flatten_filter_nonempty, hf]; rfl
    simp [this, topUp]
  | cons c0 cs0 =>
    have hc0 : c0 ≠ [] := C03.filter_nonempty_mem chunks c0 (by rw [hf]; exact List.mem_cons_self)
    have hfl : chunks.flatten = c0 ++ cs0.flatten := by rw [← C03.flatten_filter_nonempty, hf]; rfl
    obtain ⟨c, rest, htop, hcne, hprop⟩ := C03.topUpAux_head c0 hc0 cs0
    have hjoin : c ++ rest.flatten = chunks.flatten := by
      have := C03.topUpAux_flatten c0 cs0
      rw [htop] at this
      simpa [hfl] using this
    have hne : chunks.flatten ≠ [] := by rw [← hjoin]; simp [hcne]
    have hsingle : [chunks.flatten].filter (!·.isEmpty) = [chunks.flatten] := by
      cases hx : chunks.flatten with
      | nil => exact absurd hx hne
      | cons _ _ => rfl
    simp only [hsingle, topUp, topUpAux, htop]
    rcases hprop with hrest | hprop
    · subst hrest
      simp only [List.flatten_nil, List.append_nil] at hjoin
      rw [hjoin]
    · have hb := C03.bomRuleReader_append c rest.flatten hcne hprop
      rw [hjoin] at hb
      rw [← hb]
      cases hbr : bomRuleReader c with
      | bad => rfl
      | keep =>
        simp only
        rw [afterBom_eq T cfg h _ (c :: rest), afterBom_eq T cfg h _ [chunks.flatten]]
        simp [hjoin]
      | strip r =>
        simp only
        rw [afterBom_eq T cfg h _ (r :: rest), afterBom_eq T cfg h _ [r ++ rest.flatten]]
        simp

/-- **the length tests of the BOM handling in sen/parser.go and sen/tokenizer.go are the reference ones**:
the loop "a BOM has to be seen whole" of `ParseReader` / `Load` runs while `cnt < 4`, the BOM tests are
`3 < len(buf)` (REGENERATED by tools/extract/sen.go; the model's BOM rule is instantiated with them) -/
theorem bom_bounds_in_source : senTables.bomP = {} ∧ senTables.bomT = {} :=
  ⟨senTables_ok.bomP, senTables_ok.bomT⟩

theorem senTables_bom (cfg : Cfg) : senTables.bom cfg = {} := by
  unfold Tables.bom
  rw [bom_bounds_in_source.1, bom_bounds_in_source.2]
  split <;> rfl

/-- chunk independence of the repaired machine over the regenerated tables and BOM length tests -/
theorem chunks_irrelevant_sen (cfg : Cfg) (h : Repaired cfg) (hr : cfg.reader = true) (prev : St) (chunks : List Bytes) :
    eraseCol (call senTables cfg prev chunks) = eraseCol (call senTables cfg prev [chunks.flatten]) :=
  chunks_irrelevant senTables cfg h hr (senTables_bom cfg) prev chunks

/-- with a read loop that stops at three bytes (`cnt < 3`, the detection still `3 < len(buf)`) a BOM that
arrives as a first buffer of exactly three bytes is not recognised: the statement needs the bounds -/
example : (match call { refTables with bomP := { readerLoop := 3 } } { reader := true } {} [[0xEF, 0xBB, 0xBF], [49]] with
      | .ok o => o.docs.map JV.render | .error _ => ["error"]) ≠
    (match call { refTables with bomP := { readerLoop := 3 } } { reader := true } {} [[0xEF, 0xBB, 0xBF, 49]] with
      | .ok o => o.docs.map JV.render | .error _ => ["error"]) := by decide +kernel

/-- non-vacuity: the repaired configuration of sen.ParseReader -/
example : Repaired { reader := true, fastInt := false, tokSlow := false } := ⟨rfl, rfl, rfl⟩

/-! ## The full statement is false for the code as it is -/

def accepts (r : Except Err Out) : Bool :=
  match r with
  | .ok _ => true
  | .error _ => false

/-- chunk independence (of acceptance alone) for EVERY configuration, the pinned fast paths included -/
def chunks_irrelevant_full : Prop :=
  ∀ (cfg : Cfg) (chunks : List Bytes), cfg.reader = true →
    accepts (run refTables cfg chunks) = accepts (run refTables cfg [chunks.flatten])

/-- `{a,:1}`: an error in one piece, `{a:1}` when the reader splits after `{a` (tokSlow) -/
theorem chunks_irrelevant_full_false_token : ¬ chunks_irrelevant_full := by
  intro h
  have := h { reader := true } [[123, 97], [44, 58, 49, 125]] rfl
  revert this
  decide +kernel

/-- BEFORE 7b94de8 (`nlSkip` on): `{a\n,:1}` was accepted in one piece and an error when the reader split
after the newline (was known finding C03sen-newline-skip-chunk; the skip loop now tests the table of the
current mode, i.e. `nlSkip` is off in the code as it is, and `chunks_irrelevant` needs it off) -/
theorem chunk_dependence_newline_before :
    accepts (run refTables { reader := true, nlSkip := true } [[123, 97, 10], [44, 58, 49, 125]]) ≠
    accepts (run refTables { reader := true, nlSkip := true } [[123, 97, 10, 44, 58, 49, 125]]) := by
  decide +kernel

/-- the code as it is: the same input gives the same outcome (an error) however it is split -/
theorem chunk_dependence_newline_current :
    accepts (run refTables { reader := true } [[123, 97, 10], [44, 58, 49, 125]]) =
    accepts (run refTables { reader := true } [[123, 97, 10, 44, 58, 49, 125]]) := by
  decide +kernel

/-! ## repaired front-end differences: the old witnesses, before and now -/

/-- BEFORE 546d576 `{a:}` was accepted by both front-ends (finding C03sen-missing-value) -/
theorem missing_value_before :
    accepts (run refTables { missingValue := true } [[123, 97, 58, 125]]) = true ∧
    accepts (run refTables { tokenizer := true, missingValue := true } [[123, 97, 58, 125]]) = true := by
  decide +kernel

/-- now it is "expected a value" for both -/
theorem missing_value_current :
    (match run refTables {} [[123, 97, 58, 125]] with | .error e => e.kind == .expectedValue | .ok _ => false) = true ∧
    (match run refTables { tokenizer := true } [[123, 97, 58, 125]] with
      | .error e => e.kind == .expectedValue | .ok _ => false) = true := by
  decide +kernel

/-- BEFORE f233b47 `['a"b']` was a broken stream for the tokenizer (finding C03sen-tokenizer-quote) -/
theorem tokenizer_quote_before :
    accepts (run refTables { tokenizer := true, tkOld := true } [[91, 39, 97, 34, 98, 39, 93]]) = false := by
  decide +kernel

/-- now the tokenizer reports the one string the parser builds -/
theorem tokenizer_quote_current :
    (match run refTables { tokenizer := true } [[91, 39, 97, 34, 98, 39, 93]] with
      | .ok o => (match o.evs with
        | [.arrStart, .val v, .arrEnd] => v.render == (JV.str [97, 34, 98]).render | _ => false)
      | .error _ => false) = true ∧
    (match run refTables {} [[91, 39, 97, 34, 98, 39, 93]] with
      | .ok o => o.docs.map JV.render == [(JV.arr [.str [97, 34, 98]]).render] | .error _ => false) = true := by
  decide +kernel

/-- BEFORE f233b47 `/* c */ 1` was an error for the tokenizer (finding C03sen-tokenizer-ccomment) -/
theorem tokenizer_ccomment_before :
    accepts (run refTables { tokenizer := true, tkOld := true } [[47, 42, 32, 99, 32, 42, 47, 32, 49]]) = false := by
  decide +kernel

theorem tokenizer_ccomment_current :
    (match run refTables { tokenizer := true } [[47, 42, 32, 99, 32, 42, 47, 32, 49]] with
      | .ok o => (match o.evs with | [.val v] => v.render == (JV.int 1).render | _ => false)
      | .error _ => false) = true := by
  decide +kernel

/-- BEFORE f233b47 `//c\n1` with OnlyOne was an error for the tokenizer (finding
C03sen-tokenizer-comment-onlyone) -/
theorem tokenizer_comment_onlyone_before :
    accepts (run refTables { tokenizer := true, onlyOne := true, tkOld := true } [[47, 47, 99, 10, 49]]) = false := by
  decide +kernel

theorem tokenizer_comment_onlyone_current :
    (match run refTables { tokenizer := true, onlyOne := true } [[47, 47, 99, 10, 49]] with
      | .ok o => (match o.evs with | [.val v] => v.render == (JV.int 1).render | _ => false)
      | .error _ => false) = true := by
  decide +kernel

/-- the regenerated source facts that pin 7b94de8, 546d576 and f233b47 -/
theorem repairs_in_source :
    Gen.SenFacts.parserSpaceMapIndexed = 0 ∧ Gen.SenFacts.tokenizerSpaceMapIndexed = 0 ∧
    Gen.SenFacts.parserCloseObjectMsgs.contains "expected a value" = true ∧
    Gen.SenFacts.tokenizerCloseObjectMsgs.contains "expected a value" = true ∧
    Gen.SenFacts.tokenizerStrQuoteFields.contains "quoteDelim" = true ∧
    (["commentEnd", "cskipChar", "cskipNewline"].all fun c => Gen.SenFacts.tokenizerContinueCases.contains c) = true := by
  decide +kernel

/-- `[9223372036854775800.E2]`: the integer fast loop goes over to text, after which `.E` is an
"invalid number"; read digit by digit it is a float (fastInt) -/
theorem chunks_irrelevant_full_false_int19 : ¬ chunks_irrelevant_full := by
  intro h
  have := h { reader := true }
    [[91, 57], [50, 50, 51, 51, 55, 50, 48, 51, 54, 56, 53, 52, 55, 55, 53, 56, 48, 48, 46, 69, 50, 93]] rfl
  revert this
  decide +kernel

/-! ## the real configuration -/

/-- the code as it is: the newline skip is repaired (7b94de8); the integer fast loop and the token-end fast
path are whatever they are -/
def Current (cfg : Cfg) : Prop := cfg.nlSkip = false

/-- **C03 (SEN clause), partial form for the REAL configuration** (sen.ParseReader, sen.Tokenizer.Load as they
are, the two pinned fast paths on): the outcome of a reader entry point — documents or callbacks, error kind
and line — depends only on the bytes delivered, not on how the reader splits them, for every input and
chunking whose run and whose one-piece run take no pinned fast-path deviation (`Sen.deviates`: no digit read
by the integer fast loop while the accumulator equals BigLimit — the 19th digit of an integer that begins
922337203685477580 —, no bare token that began in an earlier read buffer ended by a byte other than space, tab,
CR, LF) -/
theorem chunks_irrelevant_current (cfg : Cfg) (hcur : Current cfg) (hr : cfg.reader = true) (prev : St)
    (chunks : List Bytes) (h1 : deviates cfg prev chunks = false) (h2 : deviates cfg prev [chunks.flatten] = false) :
    eraseCol (call refTables cfg prev chunks) = eraseCol (call refTables cfg prev [chunks.flatten]) := by
  rw [call_eq_repaired cfg hcur prev chunks h1, call_eq_repaired cfg hcur prev _ h2]
  exact chunks_irrelevant refTables cfg.rep ⟨rfl, rfl, hcur⟩ hr (by unfold Tables.bom refTables; split <;> rfl) prev chunks

/-- the same over the regenerated `sen/maps.go` and BOM length tests -/
theorem chunks_irrelevant_current_sen (cfg : Cfg) (hcur : Current cfg) (hr : cfg.reader = true) (prev : St)
    (chunks : List Bytes) (h1 : deviates cfg prev chunks = false) (h2 : deviates cfg prev [chunks.flatten] = false) :
    eraseCol (call senTables cfg prev chunks) = eraseCol (call senTables cfg prev [chunks.flatten]) := by
  rw [sen_is_reference, sen_is_reference]
  exact chunks_irrelevant_current cfg hcur hr prev chunks h1 h2

/-- non-vacuity: `{"a":[1 true x]}` read in two pieces (the split falls inside the token `true`, which is
ended by a space) takes no deviation; the witnesses of the two known findings do -/
example : deviates { reader := true } {} [[123, 34, 97, 34, 58, 91, 49, 32, 116, 114], [117, 101, 32, 120, 93, 125]] = false := by
  decide +kernel
example : deviates { reader := true } {} [[123, 97], [44, 58, 49, 125]] = true := by decide +kernel
example : deviates { reader := true } {}
    [[91, 57, 50, 50, 51, 51, 55, 50, 48, 51, 54, 56, 53, 52, 55, 55, 53, 56, 48, 48, 46, 69, 50, 93]] = true := by
  decide +kernel


end OjgVerif.C03sen
