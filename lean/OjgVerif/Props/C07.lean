import OjgVerif.Reuse.Lemmas
import OjgVerif.Props.C01
import OjgVerif.Gen.ReuseFacts
import OjgVerif.Reuse.MapPool
import OjgVerif.Gen.MapPool
/-! # C07 — reused and pooled parsers and writers behave like fresh ones (model level)

Parsers (oj.Parser, gen.Parser, oj.Tokenizer, oj.Validator — the strict-JSON machine of
`Json/Machine.lean`):

* `noninterference`: started from ANY state `s` — whatever a previous call, finished, failed or
  aborted half way, left in the instance — with exactly the fields in `fs` reset, the machine gives
  the outcome of a fresh instance (`Json.run`), provided `fs` covers `liveAtEntry`. Every other
  field (`nextMode ri rn num tmp`, the fast-loop flag) is written before it is read.
* `entries_cover` (kernel-evaluated over the regenerated `Gen.ReuseFacts`): at every call site of
  `parseBuffer`/`tokenizeBuffer`/`validateBuffer` in every entry point, all Go fields that hold a
  live model field, and all fields that carry an argument of the call, have been assigned. Deleting
  a reset line from the Go source shrinks the generated list and breaks this proof.
* `entries_values`: and what they are assigned is what `entryReset` assumes (`mode = valueMap`,
  `line = 1`, `noff = -1`, zero-length reslices, `result = nil`), read from the right-hand sides.
* `C07_parsers`: the two together, per generated entry point and call site.
* `reset_needed_*`: none of the six live fields can be dropped from the list (witness each).

Writers: see the second half. A sync.Pool hands out some instance that earlier calls have used or a
new one: "any state" covers both, so pooling adds nothing to the statement (ownership is C08). -/
namespace OjgVerif.C07
open OjgVerif OjgVerif.Json OjgVerif.Reuse

/-- the fields that are read before they are written, counted from the entry of a call -/
def liveAtEntry : List Field := [.mode, .starts, .stack, .docs, .line, .noff]

def covers (fs : List Field) : Bool := liveAtEntry.all fs.contains

theorem entryReset_fresh (fs : List Field) : entryReset fs {} = {} := by
  unfold entryReset
  simp only [ite_self]

theorem entry_sim (fs : List Field) (h : covers fs = true) (s : St) :
    Sim (enter (entryReset fs s)) ({} : St) := by
  simp only [covers, liveAtEntry, List.all_cons, List.all_nil, Bool.and_true, Bool.and_eq_true] at h
  obtain ⟨h1, h2, h3, h4, h5, h6⟩ := h
  unfold enter entryReset
  simp only [h1, h2, h3, h4, h5, h6, if_true]
  refine ⟨⟨rfl, rfl, rfl, rfl, rfl, rfl, rfl, ?_, ?_, ?_, ?_⟩, ?_⟩ <;> intro h <;> cases h

/-- `finish` reads the `comma` end marker only with an open container -/
theorem finish_eq_ref' {T : Tables} (hT : TablesOK T) (s : St) (hc : s.mode = .comma → s.starts ≠ []) :
    finish T s = finish refTables s := by
  unfold finish
  by_cases hm : s.mode = .comma
  · have := hc hm
    have he : s.starts.isEmpty = false := by
      cases hs : s.starts with
      | nil => exact absurd hs this
      | cons _ _ => rfl
    simp [he]
  · rw [hT.fin _ hm]; rfl

/-- the tail shared by the branches of `runFrom`/`run` -/
theorem tail_eq {T : Tables} (hT : TablesOK T) (cfg : Cfg) (cs : List Bytes) {s : St} (h : Sim s ({} : St)) :
    (match runChunks T cfg s cs with
      | .error e => (.error e : Except Err (List JV))
      | .ok s' => finish T s') =
    (match runChunks T cfg {} cs with
      | .error e => (.error e : Except Err (List JV))
      | .ok s' => finish T s') := by
  rw [runChunks_eq_ref hT, runChunks_eq_ref hT]
  have hs := runChunks_sim cfg cs h
  cases h1 : runChunks refTables cfg s cs with
  | error e1 =>
    cases h2 : runChunks refTables cfg {} cs with
    | error e2 => rw [h1, h2] at hs; simp only [StepSim] at hs; rw [hs]
    | ok t1 => rw [h1, h2] at hs; exact hs.elim
  | ok s1 =>
    cases h2 : runChunks refTables cfg {} cs with
    | error e2 => rw [h1, h2] at hs; exact hs.elim
    | ok t1 =>
      rw [h1, h2] at hs
      simp only [StepSim] at hs
      have hctl := runChunks_ctl cfg cs {} t1 CtlInv.init h2
      simp only
      rw [finish_eq_ref hT t1 hctl, ← finish_sim hs]
      apply finish_eq_ref' hT
      intro hm
      rw [hs.starts]
      exact hctl.comma (hs.mode ▸ hm)

/-- **Non-interference.** Whatever state `s` earlier calls left in the instance, resetting a list of
fields that covers `liveAtEntry` makes the call behave as on a fresh instance: same documents, same
values, same error position and kind, for every configuration and every chunking. -/
theorem noninterference {T : Tables} (hT : TablesOK T) (cfg : Cfg) (fs : List Field)
    (hfs : covers fs = true) (s : St) (chunks : List Bytes) :
    runFrom T cfg (entryReset fs s) chunks = run T cfg chunks := by
  have hsim := entry_sim fs hfs s
  unfold runFrom run
  simp only
  generalize (if cfg.reader = true then topUp (List.filter (fun x => !List.isEmpty x) chunks) else chunks) = cs
  cases cs with
  | nil =>
    -- no input at all
    simp only
    rw [finish_eq_ref' hT _ (by intro h; rw [hsim.mode] at h; cases h),
      finish_eq_ref hT _ CtlInv.init]
    exact finish_sim hsim
  | cons c rest =>
    simp only
    cases (if cfg.reader = true then bomRuleReader c else bomRule c) with
    | bad => rfl
    | strip r => exact tail_eq hT cfg _ hsim
    | keep => exact tail_eq hT cfg _ hsim

example : covers [.mode, .starts, .stack, .docs, .tmp, .line, .noff] = true := by decide
example : covers [.mode, .starts, .stack, .docs, .tmp, .noff] = false := by decide

/-! ## The generated reset lists cover what is live -/

open OjgVerif.Gen.ReuseFacts in
/-- the entry points of the machines modelled by `Json/Machine.lean` -/
def parserEntries : List Entry :=
  entries.filter fun e => ["oj.Parser", "gen.Parser", "oj.Tokenizer", "oj.Validator"].contains e.recv

/-- Go fields read before they are written, from the entry of a call: those that hold a live model
field and those that carry an argument of the call -/
def readBeforeWrite (recv : String) : List String :=
  liveAtEntry.flatMap (implementedBy recv) ++ argFields recv

open OjgVerif.Gen.ReuseFacts in
/-- every entry point we claim is there (so that the statements below are not vacuous) -/
theorem entries_present :
    ["oj.Parser.Parse", "oj.Parser.ParseReader", "oj.Parser.Unmarshal", "oj.Validator.Validate",
     "oj.Validator.ValidateReader", "oj.Tokenizer.Parse", "oj.Tokenizer.Load", "gen.Parser.Parse",
     "gen.Parser.ParseReader"].all (parserEntries.map (·.name)).contains = true := by decide

open OjgVerif.Gen.ReuseFacts in
/-- at every call site of the buffer function: `readBeforeWrite ⊆ resets` (configuration fields are
disjoint from it), hence the model fields reset there cover `liveAtEntry` -/
theorem entries_cover :
    parserEntries.all (fun e => e.sites.all fun st =>
      (readBeforeWrite e.recv).all st.assigned.contains &&
      covers (resetFields e.recv st.assigned)) = true := by decide

open OjgVerif.Gen.ReuseFacts in
/-- the fields read before written and the configuration fields do not overlap, and every field of
the Go structs is accounted for by the classification in `Reuse/Model.lean` (a new field has to be
classified before this checks again) -/
theorem fields_classified :
    (structFields.all fun p => p.2.all (knownFields p.1).contains) &&
    (parserEntries.all fun e => (readBeforeWrite e.recv).all fun f => !(configFields e.recv).contains f) = true := by
  decide

/-- the values assigned to Go field `g` before this site -/
def valuesOf (st : Gen.ReuseFacts.Site) (g : String) : List String :=
  (st.values.filter fun p => p.1 == g).map (·.2)

/-- the values agree with `entryReset`: a field that only the reset assigns (`mode line noff stack
starts tmp result`) is assigned nothing but the value `entryReset` gives it; a field that the
arguments of the call may overwrite (`cb resultChan`) is first set to that value; the token
handler is the call's argument itself -/
def valuesOK (recv : String) (st : Gen.ReuseFacts.Site) : Bool :=
  liveAtEntry.all fun f =>
    match resetToken f with
    | none => true
    | some tok =>
      (implementedBy recv f).all fun g =>
        if g = "handler" then valuesOf st g == ["ident:handler"]
        else if (argFields recv).contains g then (valuesOf st g).contains tok
        else valuesOf st g == [tok]

open OjgVerif.Gen.ReuseFacts in
/-- **the resets assign what `entryReset` assumes** (kernel-evaluated over the regenerated right-hand
sides): `p.line = 0` instead of `1`, `p.mode = afterMap`, `p.noff = 0`, a reslice that is not
`[:0]` … break this proof, not only the run -/
theorem entries_values :
    parserEntries.all (fun e => e.sites.all fun st => valuesOK e.recv st) = true := by decide

def tablesOf (recv : String) : Tables := if recv = "gen.Parser" then genTables else ojTables

theorem tablesOf_ok (recv : String) : TablesOK (tablesOf recv) := by
  unfold tablesOf; split
  · exact C01.genTables_ok
  · exact C01.ojTables_ok

open OjgVerif.Gen.ReuseFacts in
/-- **C07 for the parsers, validator and tokenizer**: at every generated call site of the buffer
function in every entry point, the call started from an arbitrary instance state gives the outcome
of a fresh instance. -/
theorem C07_parsers (e : Entry) (he : e ∈ parserEntries) (st : Site) (hst : st ∈ e.sites)
    (cfg : Cfg) (s : St) (chunks : List Bytes) :
    runFrom (tablesOf e.recv) cfg (entryReset (resetFields e.recv st.assigned) s) chunks =
      run (tablesOf e.recv) cfg chunks := by
  have h := entries_cover
  simp only [List.all_eq_true, Bool.and_eq_true] at h
  exact noninterference (tablesOf_ok e.recv) cfg _ (h e he st hst).2 s chunks

/-! ## Each of the six resets is needed

Leave one live field as the previous call left it and some call gives another outcome. The
witnesses (state left behind, input of the next call) are concrete and evaluated by the kernel. -/

def allBut (f : Field) : List Field := Field.all.filter (· != f)

def differs (f : Field) (s : St) (input : Bytes) : Bool :=
  observe (runFrom refTables {} (entryReset (allBut f) s) [input]) != observe (run refTables {} [input])

/-- left inside a string by an aborted call: the next call reads `1` as string content -/
theorem reset_needed_mode : differs .mode { mode := .string } [49] = true := by decide
/-- an array left open -/
theorem reset_needed_starts : differs .starts { starts := [true] } [49] = true := by decide
/-- a key left on the value stack -/
theorem reset_needed_stack : differs .stack { stack := [.key [97], .val .null] } [49] = true := by decide
/-- a document of the previous call (`result`, or the previous call's callback / channel) -/
theorem reset_needed_docs : differs .docs { docs := [.null] } [49] = true := by decide
theorem reset_needed_line : differs .line { line := 7 } [120] = true := by decide
theorem reset_needed_noff : differs .noff { nl := 5 } [120] = true := by decide

/-- and the fields that are NOT reset may hold anything (instance of `noninterference`) -/
example (cfg : Cfg) (chunks : List Bytes) :
    runFrom ojTables cfg (entryReset [.mode, .starts, .stack, .docs, .line, .noff]
      { nextMode := .digit, ri := 3, rn := 77, tmp := [1, 2], num := { i := 5, neg := true, big := [49] }, inFast := true })
      chunks = run ojTables cfg chunks :=
  noninterference C01.ojTables_ok cfg _ (by decide) _ chunks

/-! ## Writers

What follows is weak by design and should be read that way: `wcall_indep` holds essentially by the
TYPE of `Enc` (the encoder is given nothing but options, `strict`, `findex`, the installed append
functions and the data, so it cannot depend on anything else); the content is in the generated facts
(`writer_entries_reset`: the four fields are assigned before every encoder call) and in the harness.
The `strict` / pretty / struct-cache statements further down are one-Boolean models closed by `rfl`
or `decide` plus a fact over the source text: REGRESSION TRIPWIRES over the patched lines (they fail
if a fix is reverted), not proofs about the encoders.

`wcall` is `MustJSON`/`MustWrite` (oj) resp. `MustSEN`/`MustWrite` (sen) with the encoder as an
arbitrary function of what it can read. With `w`, `buf`, `findex` and the append functions reset
(generated), a call's output is a function of the options, the `strict` flag and the data alone. -/

theorem wcall_indep {D : Type} (enc : Enc D) (sink : Option Nat) (s1 s2 : WSt) (d : D)
    (ho : s1.opts = s2.opts) (hs : s1.strict = s2.strict) :
    (wcall enc ⟨true, true, true, true⟩ sink s1 d).2 = (wcall enc ⟨true, true, true, true⟩ sink s2 d).2 := by
  rcases s1 with ⟨o1, b1, k1, f1, st1, sel1⟩
  rcases s2 with ⟨o2, b2, k2, f2, st2, sel2⟩
  simp only at ho hs
  subst ho hs
  cases hc : o1.color <;> simp [wcall, hc]

/-- each of the four resets matters: a writer that keeps the field can be told from a fresh one -/
theorem wcall_buf_needed :
    (wcall (D := Unit) (fun _ _ _ _ _ => [1]) ⟨true, false, true, true⟩ none { buf := [9] } ()).2.1 ≠
    (wcall (D := Unit) (fun _ _ _ _ _ => [1]) ⟨true, false, true, true⟩ none {} ()).2.1 := by decide
theorem wcall_sink_needed :
    (wcall (D := Unit) (fun _ _ _ _ _ => [1]) ⟨false, true, true, true⟩ none { sink := some 3 } ()).2.2 ≠
    (wcall (D := Unit) (fun _ _ _ _ _ => [1]) ⟨false, true, true, true⟩ none {} ()).2.2 := by decide
theorem wcall_findex_needed :
    (wcall (D := Unit) (fun _ _ fi _ _ => [UInt8.ofNat fi]) ⟨true, true, false, true⟩ none { findex := 8 } ()).2.1 ≠
    (wcall (D := Unit) (fun _ _ fi _ _ => [UInt8.ofNat fi]) ⟨true, true, false, true⟩ none {} ()).2.1 := by decide
theorem wcall_sel_needed :
    (wcall (D := Unit) (fun _ _ _ sel _ => if sel = .indent then [1] else [0]) ⟨true, true, true, false⟩ none { sel := .indent } ()).2.1 ≠
    (wcall (D := Unit) (fun _ _ _ sel _ => if sel = .indent then [1] else [0]) ⟨true, true, true, false⟩ none {} ()).2.1 := by decide

open OjgVerif.Gen.ReuseFacts in
def writerEntries : List Entry :=
  entries.filter fun e => ["oj.Writer", "sen.Writer"].contains e.recv

/-- what the generated sites say: `w`, `buf`, `findex` assigned before every encoder call, the four
append functions before every call of the plain (non-colour) encoder -/
def wresetsOf (e : Gen.ReuseFacts.Entry) : WResets where
  sink := e.sites.all fun st => st.assigned.contains "w"
  buf := e.sites.all fun st => st.assigned.contains "buf"
  findex := e.sites.all fun st => st.assigned.contains "findex"
  sel := e.sites.all fun st => st.callee = "colorJSON" || st.callee = "colorSEN" ||
    ["appendArray", "appendObject", "appendDefault", "appendString"].all st.assigned.contains

theorem writer_entries_present :
    ["oj.Writer.JSON", "oj.Writer.MustJSON", "oj.Writer.Write", "oj.Writer.MustWrite",
     "sen.Writer.SEN", "sen.Writer.MustSEN", "sen.Writer.Write", "sen.Writer.MustWrite"].all
      (writerEntries.map (·.name)).contains = true := by decide

theorem writer_entries_reset : writerEntries.all (fun e => wresetsOf e == ⟨true, true, true, true⟩) = true := by
  decide

/-- **C07 for oj.Writer / sen.Writer calls**: with the generated resets, what a call returns and
where it writes depend on the writer's options, its `strict` flag and the data only. -/
theorem C07_writers {D : Type} (e : Gen.ReuseFacts.Entry) (he : e ∈ writerEntries) (enc : Enc D)
    (sink : Option Nat) (s1 s2 : WSt) (d : D) (ho : s1.opts = s2.opts) (hs : s1.strict = s2.strict) :
    (wcall enc (wresetsOf e) sink s1 d).2 = (wcall enc (wresetsOf e) sink s2 d).2 := by
  have h := writer_entries_reset
  simp only [List.all_eq_true, beq_iff_eq] at h
  rw [h e he]
  exact wcall_indep enc sink s1 s2 d ho hs

/-! ### `strict` and `oj.Marshal(data, wr)`

`strict` is no option: the caller cannot set it, `JSON`/`Write` never assign it, `oj.Marshal` on a
caller's Writer sets it. Whether it is put back afterwards is read from the source (it is, since
9e87089). -/

/-- the source restores `strict` in `Marshal`: some assignment there has a right-hand side other than `true` -/
def strictRestored : Bool :=
  Gen.ReuseFacts.strictAssigns.any fun p => p.1 = "Marshal" && p.2 != "true"

/-- a `JSON` call after `oj.Marshal(_, wr)` on the same Writer returns what it returns on a Writer
that has not been through `Marshal` -/
def MarshalLeavesWriterAlone (restores : Bool) : Prop :=
  ∀ (D : Type) (enc : Enc D) (s : WSt) (d d' : D),
    (wcall enc ⟨true, true, true, true⟩ none (marshalOn enc ⟨true, true, true, true⟩ restores s d).1 d').2 =
    (wcall enc ⟨true, true, true, true⟩ none s d').2

theorem marshal_restoring : MarshalLeavesWriterAlone true := by
  intro D enc s d d'
  apply wcall_indep
  · unfold marshalOn wcall
    simp only [if_true]
    cases s.opts.color <;> rfl
  · unfold marshalOn
    simp only [if_true]

/-- without the restore the full statement is false: the witness is the encoder's treatment of a
nil `[]any` (`null` when strict, `[]` otherwise; oj/writer.go, `case []any`) -/
theorem marshal_not_restoring : ¬ MarshalLeavesWriterAlone false := by
  intro h
  have := h Unit (fun _ strict _ _ _ => if strict then [110, 117, 108, 108] else [91, 93]) {} () ()
  revert this
  decide

/-- the source as it is (fix 9e87089) puts the caller's `strict` back; the fact is re-evaluated over
the regenerated `strictAssigns` on every run: on the source before the fix (the only assignment is
`wr.strict = true`) this proof fails -/
theorem strict_restored : strictRestored = true := by decide

/-- **`oj.Marshal(data, wr)` leaves the caller's Writer as it found it** (repaired code) -/
theorem C07_marshal_strict : MarshalLeavesWriterAlone strictRestored :=
  strict_restored ▸ marshal_restoring

/-- the code before 9e87089 (known finding C07-marshal-strict, now fixed): false, same witness -/
theorem C07_marshal_strict_before : ¬ MarshalLeavesWriterAlone false := marshal_not_restoring

/-! ### pretty.Writer: `Encode`/`Marshal` after `Write` -/

/-- `Encode` and `Marshal` clear `w` before encoding (generated) -/
def prettyClearsSink : Bool :=
  (Gen.ReuseFacts.entries.filter fun e => e.name = "pretty.Writer.Encode" || e.name = "pretty.Writer.Marshal").all
    fun e => e.sites.all fun st => st.assigned.contains "w"

theorem pretty_entries_present :
    (Gen.ReuseFacts.entries.filter fun e => e.name = "pretty.Writer.Encode" || e.name = "pretty.Writer.Marshal").length = 2 := by
  decide

/-- `Encode` on a used pretty.Writer returns what it returns on a fresh one -/
def PrettyEncodeLikeFresh (clears : Bool) : Prop :=
  ∀ (s : PSt) (text : Bytes), (pEncode clears text s).2 = (pEncode clears text {}).2

theorem pretty_clearing : PrettyEncodeLikeFresh true := by
  intro s text; rfl

/-- without it: after `Write(w, _)` the next `Encode` hands its bytes to `w` and returns nothing -/
theorem pretty_not_clearing : ¬ PrettyEncodeLikeFresh false := by
  intro h
  have := h (pWrite 1 [49] {}).1 [50]
  revert this
  decide

/-- the source as it is (fix f01b3fb): `w` is assigned before `build`/`fill` at every site of
`Encode` and `Marshal`; fails on the source before the fix -/
theorem pretty_clears_sink : prettyClearsSink = true := by decide

/-- **`Encode`/`Marshal` on a used pretty.Writer answer like a fresh one** (repaired code) -/
theorem C07_pretty_sink : PrettyEncodeLikeFresh prettyClearsSink :=
  pretty_clears_sink ▸ pretty_clearing

/-- the code before f01b3fb (known finding C07-pretty-sink, now fixed) -/
theorem C07_pretty_sink_before : ¬ PrettyEncodeLikeFresh false := pretty_not_clearing

/-! ### The struct-info cache: the plan used for a nested struct field

Independent of earlier calls iff `getTypeStruct` selects the map by the `omitEmpty` flag — which
it does since 8169704. -/

theorem Cache.lookup_wf_plain {c : Cache} (h : c.wf) (t : Nat) (p : Bool)
    (hl : Cache.lookup c.plain t = some p) : p = false := by
  unfold Cache.lookup at hl
  cases hf : c.plain.find? (·.1 = t) with
  | none => rw [hf] at hl; cases hl
  | some e =>
    rw [hf] at hl
    simp only [Option.map_some, Option.some.injEq] at hl
    rw [← hl]
    exact h.1 e (List.mem_of_find?_eq_some hf)

theorem Cache.lookup_wf_empty {c : Cache} (h : c.wf) (t : Nat) (p : Bool)
    (hl : Cache.lookup c.empty t = some p) : p = true := by
  unfold Cache.lookup at hl
  cases hf : c.empty.find? (·.1 = t) with
  | none => rw [hf] at hl; cases hl
  | some e =>
    rw [hf] at hl
    simp only [Option.map_some, Option.some.injEq] at hl
    rw [← hl]
    exact h.2 e (List.mem_of_find?_eq_some hf)

/-- selecting by flag: the plan is the one for the flag of THIS call, whatever is cached -/
theorem typeStruct_by_flag (c : Cache) (h : c.wf) (t : Nat) (om : Bool) :
    (getTypeStruct true c t om).1 = om := by
  unfold getTypeStruct
  cases om
  · simp only [Bool.and_false, Bool.false_eq_true, if_false]
    split
    · rename_i p hp; exact Cache.lookup_wf_plain h t p hp
    · rfl
  · simp only [Bool.and_self, if_true]
    split
    · rename_i p hp; exact Cache.lookup_wf_empty h t p hp
    · rfl

/-- looking in `structMap` only: two well-formed caches (type 7 written before without the flag, or
not) give different plans for the same call -/
theorem typeStruct_plain_only :
    ∃ c1 c2 : Cache, c1.wf ∧ c2.wf ∧ (getTypeStruct false c1 7 true).1 ≠ (getTypeStruct false c2 7 true).1 :=
  ⟨{}, (getSinfo {} 7 false).2, by unfold Cache.wf; decide, by unfold Cache.wf; decide, by decide⟩

/-- `getTypeStruct` of oj and sen consults `structEmptyMap` (generated) -/
def cacheSelectsByFlag : Bool :=
  (Gen.ReuseFacts.caches.filter fun c => c.pkg = "oj" || c.pkg = "sen").all fun c => c.typeStructEmpty == "yes"

def NestedPlanIndependent (sel : Bool) : Prop :=
  ∀ c1 c2 : Cache, c1.wf → c2.wf → ∀ t om, (getTypeStruct sel c1 t om).1 = (getTypeStruct sel c2 t om).1

/-- the source as it is (fix 8169704): `getTypeStruct` of oj and of sen mentions `structEmptyMap`
(generated `typeStructEmpty = "yes"`); on the source before the fix the fact is `"no"` and this
proof fails -/
theorem cache_selects_by_flag : cacheSelectsByFlag = true := by decide

/-- **The plan used for a nested struct field does not depend on what earlier calls cached**
(repaired code): with goroutines, it does not depend on who was first either — the part of C08's
"what it returns when run alone" that the caches touch. -/
theorem C07_struct_cache : NestedPlanIndependent cacheSelectsByFlag := by
  rw [cache_selects_by_flag]
  intro c1 c2 h1 h2 t om
  rw [typeStruct_by_flag c1 h1, typeStruct_by_flag c2 h2]

/-- the code before 8169704 (known finding C07-struct-cache-omitempty, now fixed): looking in
`structMap` only, the plan depends on the cache -/
theorem C07_struct_cache_before : ¬ NestedPlanIndependent false := by
  intro hn
  obtain ⟨c1, c2, h1, h2, hne⟩ := typeStruct_plain_only
  exact hne (hn c1 c2 h1 h2 7 true)

/-! ## The `Reuse` map pool of oj.Parser / gen.Parser / sen.Parser (`p.maps`, `p.mi`)

Model and unbounded proofs: `Reuse/MapPool.lean` (maps as identities, a heap for their contents, the
pool, the index; documents and calls of any length from any state any history has left). Here: the
fact over the regenerated source shape (`Gen/MapPool.lean`, tools/extract/reuse_mappool.go) that the
code is the model's `openObj` and not the mutant `openObjBad`, and the property-level statements
over the step function THE SOURCE SELECTS (`poolStep mapPoolAsModelled`): when `p.mi++` is moved
into the `else` branch (seeded change C18-m8) the generated `miIncDirect` becomes `false`,
`mappool_index_unconditional` fails, and with it every theorem below. -/

section MapPoolSection
open OjgVerif.Reuse.MapPool

/-- the shape `Reuse/MapPool.lean` assumes, for each of the three parsers: in `parseBuffer`'s
`switch p.mode[b]` the `case openObject:` clause has one `if p.Reuse {` whose body holds `p.mi++` as
a DIRECT statement (the only write of `p.mi` in the clause); the inner `if p.mi < len(p.maps)` takes
`p.maps[p.mi]` and clears it and writes neither index nor pool; its else makes a map and appends it;
without Reuse a map is made; the writes of `p.mi` in `parseBuffer` are that `p.mi++` and `p.mi = 0`
in the document-delivered block; `Parse` and `ParseReader` set `p.mi = 0` unconditionally; and the
pool is otherwise only ever replaced by an empty one -/
def mapPoolAsModelled : Bool :=
  Gen.MapPool.pools.map (·.file) == ["oj/parser.go", "gen/parser.go", "sen/parser.go"] &&
  Gen.MapPool.pools.all fun p =>
    p.found && p.reuseIf && p.miIncDirect && p.miWritesInClause == 1 &&
    p.innerCond == "p.mi < len(p.maps)" && p.thenTakes && p.thenClears && !p.thenWritesIndexOrPool &&
    p.elseMakes && p.elseAppends && p.offMakes &&
    p.miWrites == [("openObject", "p.mi++"), ("doc-end", "p.mi = 0")] &&
    p.fileWrites.contains ("Parse", "p.mi = 0", "direct") &&
    p.fileWrites.contains ("ParseReader", "p.mi = 0", "direct") &&
    (p.fileWrites.filter fun w => w.1 == "parseBuffer").map (·.2.1)
      == ["p.maps = append(p.maps, m)", "p.mi++", "p.mi = 0"] &&
    (p.fileWrites.filter fun w => w.1 != "parseBuffer").all fun w =>
      w.2.1 == "p.mi = 0" || w.2.1 == "p.maps = make([]map[string]any, 0, 16)" ||
      w.2.1 == "p.maps = make([]Object, 0, 16)"

/-- the source as it is. With `p.mi++` inside the `else` branch `miIncDirect` is `false` and this
proof fails. -/
theorem mappool_index_unconditional : mapPoolAsModelled = true := by decide

/-- the `case openObject:` step the source selects: the model's, or the mutant's -/
def poolStep {α : Type} (unconditional : Bool) (reuse : Bool) : α → St α → Nat × St α :=
  if unconditional then openObj reuse else openObjBad reuse

/-- **Within every document of a call each object gets its own map** — Reuse on or off, documents
and calls of any length, from any state earlier calls have left -/
theorem C07_mappool_distinct {α : Type} (reuse : Bool) (docs : List (List α)) (s : St α) (w : WF s) :
    ∀ r ∈ (runCallW (poolStep mapPoolAsModelled reuse) docs s).1, r.ids.Nodup := by
  rw [mappool_index_unconditional]
  exact call_distinct reuse docs s w

/-- **A call on a used parser (Reuse on or off) delivers the values a new parser delivers**: each
document's objects hold exactly that document's contents when it is delivered -/
theorem C07_mappool_values_fresh {α : Type} (reuse : Bool) (docs : List (List α)) (s : St α) (w : WF s) :
    values (runCallW (poolStep mapPoolAsModelled reuse) docs s).1 = docs.map (List.map some) ∧
    values (runCallW (poolStep mapPoolAsModelled reuse) docs s).1
      = values (runCallW (poolStep mapPoolAsModelled reuse) docs (St.init : St α)).1 := by
  rw [mappool_index_unconditional]
  exact ⟨call_values reuse docs s w, reuse_values_eq_fresh reuse docs s w⟩

/-- **Read after the call has returned**, the maps a call with Reuse handed out hold the same on a
used parser as on a new one (later documents of the same call overwrite earlier ones in both alike),
and the last document — what `Parse` returns — is intact -/
theorem C07_mappool_values_after_fresh {α : Type} (docs : List (List α)) (s : St α) (w : WF s) :
    valuesAfter (runCallW (poolStep mapPoolAsModelled true) docs s).1
        (runCallW (poolStep mapPoolAsModelled true) docs s).2
      = valuesAfter (runCallW (poolStep mapPoolAsModelled true) docs (St.init : St α)).1
        (runCallW (poolStep mapPoolAsModelled true) docs (St.init : St α)).2 ∧
    ∀ ds d, docs = ds ++ [d] →
      (valuesAfter (runCallW (poolStep mapPoolAsModelled true) docs s).1
        (runCallW (poolStep mapPoolAsModelled true) docs s).2).getLast? = some (d.map some) := by
  rw [mappool_index_unconditional]
  refine ⟨reuse_values_after_eq_fresh docs s w, ?_⟩
  intro ds d h
  subst h
  exact last_doc_after ds d s w

/-- **Earlier results are overwritten only with Reuse, and then exactly the pooled maps below the
object count of one of the call's documents** (the documented price of Reuse); every other map —
and, with Reuse off, every map that existed before the call — keeps its content; an overwritten map
holds the content of one of this call's objects -/
theorem C07_mappool_clobber_only_with_reuse {α : Type} (reuse : Bool) (docs : List (List α)) (s : St α)
    (w : WF s) (x : Nat) (hx : x < s.fresh) :
    (x ∈ touched (runCallW (poolStep mapPoolAsModelled reuse) docs s).1
      ↔ reuse = true ∧ ∃ d ∈ docs, x ∈ s.pool.take d.length) ∧
    (x ∉ touched (runCallW (poolStep mapPoolAsModelled reuse) docs s).1 →
      (runCallW (poolStep mapPoolAsModelled reuse) docs s).2.heap x = s.heap x) ∧
    (x ∈ touched (runCallW (poolStep mapPoolAsModelled reuse) docs s).1 →
      ∃ d ∈ docs, ∃ a ∈ d, (runCallW (poolStep mapPoolAsModelled reuse) docs s).2.heap x = some a) ∧
    (reuse = false → (runCallW (poolStep mapPoolAsModelled reuse) docs s).2.heap x = s.heap x) := by
  rw [mappool_index_unconditional]
  refine ⟨earlier_results_clobbered_iff_reuse reuse docs s w x hx, untouched_kept reuse docs s x,
    clobbered_content reuse docs s x, ?_⟩
  intro hr
  subst hr
  exact reuse_off_untouched docs s w x hx

/-- hypotheses satisfiable: the state one earlier call with three objects leaves, an earlier map in
the pool below 2 -/
example : WF used ∧ (1 : Nat) < used.fresh ∧ 1 ∈ used.pool.take ([20, 21] : List Nat).length :=
  ⟨WF_runCall true _ WF_init, by decide, by decide⟩

/-- the documented clobbering, concretely (witness): map 1, returned by a first call holding 11,
holds 21 after a second call with Reuse and two objects, and still 11 if the second call has Reuse
off -/
theorem C07_mappool_clobber_witness :
    1 ∈ touched (runCall true [[10, 11, 12]] (St.init : St Nat)).1 ∧ used.heap 1 = some 11 ∧
    (runCallW (poolStep mapPoolAsModelled true) [[20, 21]] used).2.heap 1 = some 21 ∧
    (runCallW (poolStep mapPoolAsModelled false) [[20, 21]] used).2.heap 1 = some 11 := by
  rw [mappool_index_unconditional]
  exact clobber_witness

/-- the states every history reaches are well-formed (so the theorems above apply after any
sequence of complete or aborted calls) -/
theorem C07_mappool_history_wf {α : Type} (h : List (Op α)) :
    WF (h.foldl (fun s o => runOp o s) (St.init : St α)) := WF_history h

/-- **The unconditional `p.mi++` is needed** (the seeded change C18-m8 in the model): with the index
advanced only when the pool grows, on any parser whose pool holds a map both objects of a two-object
document are the same map, and the first object shows the second one's members -/
theorem C07_mappool_index_needed {α : Type} (s : St α) (hm : s.mi = 0) (hp : 0 < s.pool.length) (a b : α) :
    ¬ (runDocW (poolStep false true) [a, b] s).1.ids.Nodup ∧
    (runDocW (poolStep false true) [a, b] s).1.val = [some b, some b] :=
  ⟨bad_not_nodup s hm hp a b, bad_value s hm hp a b⟩

example : used.mi = 0 ∧ 0 < used.pool.length := by decide

end MapPoolSection

end OjgVerif.C07
