import OjgVerif.Props.C02Tree
import OjgVerif.Json.RefinePair
/-! # C02 — the string clause against the RFC reading, with its exact exclusion

`C02.oj_structure` states the returned tree over the machine's own string reader (`pCharsM`). Here
the same tree is tied to the SPECIFICATION's reader (`Spec.pChars`, RFC 8259 §7 with surrogate
pairs combined): for every text in which no string holds a high-surrogate escape directly followed
by a low-surrogate escape — precisely: every text the pair-refusing grammar `parseTextX` accepts —
the specification denotes a tree `v` and the front-end returns exactly `v` with each number literal
converted. The texts left out are those of known finding C02-surrogate and nothing else
(`pair_is_refused`: the refusing grammar differs from the specification only by that refusal). -/
namespace OjgVerif.C02
open OjgVerif OjgVerif.Json

theorem oj_tree_rfc (bs : Bytes) (v : JV) (h : parseTextX (Spec.stripBOM bs) = .one v) :
    Spec.parseDoc bs = .one v ∧
    toOpt (run ojTables cfg1 [bs]) = some [JV.mapNum numConv v] := by
  obtain ⟨h1, h2⟩ := pairfree_tree _ v h
  refine ⟨h1, ?_⟩
  rw [oj_structure, h2]; rfl

theorem gen_tree_rfc (bs : Bytes) (v : JV) (h : parseTextX (Spec.stripBOM bs) = .one v) :
    Spec.parseDoc bs = .one v ∧
    toOpt (run genTables cfg1 [bs]) = some [JV.mapNum numConv v] := by
  obtain ⟨h1, h2⟩ := pairfree_tree _ v h
  refine ⟨h1, ?_⟩
  rw [gen_structure, h2]; rfl

/-- non-vacuity: `["é\n", "\uD83D", "\uDE00\uD83D", {"A":"\\"}]` — escapes, a lone high
surrogate, a low followed by a high (not a pair) — is accepted by the refusing grammar -/
example : ∃ v, parseTextX [91, 34,92,117,48,48,101,57,92,110,34, 44, 34,92,117,68,56,51,68,34, 44,
    34,92,117,68,69,48,48,92,117,68,56,51,68,34, 44, 123,34,92,117,48,48,52,49,34,58,34,92,92,34,125, 93] = .one v :=
  ⟨_, rfl⟩

/-- the one kind of string the refusing grammar refuses beyond the specification: `"😀"`
is a JSON text (one string, U+1F600) and is refused -/
theorem pair_is_refused :
    parseTextX [34,92,117,68,56,51,68,92,117,68,69,48,48,34] = .bad ∧
    Spec.parseText [34,92,117,68,56,51,68,92,117,68,69,48,48,34] = .one (.str [0xF0, 0x9F, 0x98, 0x80]) := by
  constructor <;> rfl

end OjgVerif.C02
