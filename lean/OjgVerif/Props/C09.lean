import OjgVerif.Json.Lemmas
import OjgVerif.Props.C01
import OjgVerif.Props.C03
/-! # C09 — parse errors point at the first offending byte (model level, against the reference automaton)

The reference automaton `refTables` plays the role of the viability specification here: it stops at
the first byte for which it has no transition (see DESIGN.md, C09: the refinement
"RA stops ⇔ no completion exists" is not yet proved and is stated as such in the evidence).
What is proved, for every table set that passes `TablesOK` (the regenerated oj and gen tables do):
the reported line and column are exactly those of the byte the automaton stops at — line = 1 + number
of '\n' before it, column = offset − offset of the last '\n' (1-based) — or of the position just past
the last byte when the input is only incomplete; the same for both table sets and for every chunking. -/
namespace OjgVerif.C09
open OjgVerif OjgVerif.Json

/-- line and column (1-based; lines end at '\n'; columns count bytes) of the byte that follows `pre` -/
def lineColOf (pre : Bytes) : Nat × Int :=
  ((track (1, 0, -1) pre).1, ((track (1, 0, -1) pre).2.1 : Int) - (track (1, 0, -1) pre).2.2)

/-- `track` really counts: the line is one more than the number of newlines, the offset is the length -/
theorem track_line_pos (t : Nat × Nat × Int) (bs : Bytes) :
    (track t bs).1 = t.1 + bs.count 10 ∧ (track t bs).2.1 = t.2.1 + bs.length := by
  induction bs generalizing t with
  | nil => simp [track]
  | cons b r ih =>
    obtain ⟨l, p, n⟩ := t
    simp only [track]
    split
    · rename_i hb
      have := ih (l + 1, p + 1, (p : Int))
      subst hb
      simp only [List.count_cons_self, List.length_cons] at this ⊢
      omega
    · rename_i hb
      have := ih (l, p + 1, n)
      have hc : List.count 10 (b :: r) = List.count 10 r := by
        rw [List.count_cons_of_ne]; exact hb
      simp only [hc, List.length_cons] at this ⊢
      omega

example : lineColOf [91, 10, 32, 32] = (2, 3) := by decide

variable {T : Tables} (hT : TablesOK T) (cfg : Cfg)
include hT

/-- a rejected input: the machine accepted every byte before `b`, fails on `b`, and reports the line
and column of `b` -/
theorem error_position (bs : Bytes) (e : Err) (h : runBytes T cfg {} bs = .error e) :
    ∃ pre b post, bs = pre ++ b :: post ∧ (∃ s1, runBytes T cfg {} pre = .ok s1 ∧ step T cfg s1 b = .error e) ∧
      (e.line, e.col) = lineColOf pre := by
  rw [runBytes_eq_ref hT] at h
  obtain ⟨pre, b, post, s1, hbs, hrun, hstep, hl, hc⟩ := runBytes_err_at cfg bs {} e h
  refine ⟨pre, b, post, hbs, ⟨s1, ?_, ?_⟩, ?_⟩
  · rw [runBytes_eq_ref hT]; exact hrun
  · rw [step_eq_ref hT]; exact hstep
  · simp only [lineColOf, Prod.mk.injEq]
    exact ⟨hl, hc⟩

/-- an input that is only incomplete: the error carries the position just past the last byte -/
theorem incomplete_position (bs : Bytes) (s : St) (e : Err) (h : runBytes T cfg {} bs = .ok s)
    (hf : finish T s = .error e) : (e.line, e.col) = lineColOf bs := by
  rw [runBytes_eq_ref hT] at h
  have hat := runBytes_ok_at cfg bs {} s h
  have : e.isAt s := by
    unfold finish at hf
    split at hf
    · cases hf; exact ⟨rfl, rfl⟩
    · split at hf
      · split at hf
        · rename_i e' h1; cases hf; exact (St.add_at _ _).2 _ h1
        · cases hf
      · cases hf
  simp only [St.at, Prod.mk.injEq] at hat
  simp only [lineColOf, Prod.mk.injEq]
  have h0 : (({} : St).line, ({} : St).pos, ({} : St).nl) = ((1 : Nat), (0 : Nat), (-1 : Int)) := rfl
  rw [h0] at hat
  refine ⟨?_, ?_⟩
  · rw [this.1]; exact congrArg (·.1) hat
  · rw [this.2]
    have h1 := congrArg (·.2.1) hat
    have h2 := congrArg (·.2.2) hat
    simp only at h1 h2
    rw [h1, h2]

omit hT in
/-- both packages report the same error (line, column and kind) on every input and chunking -/
theorem same_for_oj_and_gen (cfg : Cfg) (chunks : List Bytes) :
    run ojTables cfg chunks = run genTables cfg chunks := C01.oj_eq_gen cfg chunks

omit hT in
/-- the error, like every other outcome, does not depend on the chunking of a streamed input
(front-ends without the parsers' integer fast loop; see C03 for the parsers) -/
theorem same_for_every_chunking (T : Tables) (cfg : Cfg) (h : cfg.fastInt = false) (hr : cfg.reader = true)
    (chunks : List Bytes) : run T cfg chunks = run T cfg [chunks.flatten] :=
  C03.chunks_irrelevant T cfg h hr chunks

end OjgVerif.C09
