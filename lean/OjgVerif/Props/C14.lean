import OjgVerif.JPText.PrecPairsA
import OjgVerif.JPText.PrecPairsB
import OjgVerif.JPText.PrecTriplesA
import OjgVerif.JPText.PrecTriplesB
import OjgVerif.JPText.PrecTriplesC
import OjgVerif.JPText.LemmasExpr
import OjgVerif.JPText.PrecFilterExpr
import OjgVerif.JPText.LemmasPrec
import OjgVerif.JPText.LemmasEqn
import OjgVerif.JPText.LemmasScript
import OjgVerif.JPText.LemmasLeafy
import OjgVerif.JPText.LemmasFilterExpr
import OjgVerif.JPText.LemmasBracket
import OjgVerif.JPText.LemmasBracketGen
import OjgVerif.JPText.PrecNested2B
/-! # C14 — JSONPath and script text forms round-trip

Model: `JPText/Print.lean` (the printers), `JPText/Parse.lean` (jp/parse.go), over the regenerated
`Gen.Jp.tokenMap/jMap/eqMap/hex/maxEnd` and `Gen.JpOps` (the operator table of jp/script.go).
Statement of the property on the model: `JPText/Spec.lean` (`roundTrips*`, the normal form, `Dev`).

The pinned tree violated C14 in thirteen ways; eleven are repaired in /repo (commits e6c1ad4 d27ad83
9a26786 cd355fe 32b7b46 fe63c88 c107b3b bc70af1 4af356a b3b14ce) and the model follows them. Two
classes of constructible objects have no text form in the grammar and no repair (`Dev.noTextForm`,
`Dev.regexText`): the property at full strength is still false (`C14_full_false`), what is proved
excludes exactly those.

Round 3: general theorems by induction over trees of any size — `prec_correct_general`, `eqn_roundtrip_partial`,
`script_roundtrip_partial`, `eqn_roundtrip_spec`, `expr_filter_roundtrip_partial`, `C14_shallow_holds` (C14 for all
deviation-free objects whose filters are nested one level), the `Bracket` flag fragment (`bracket_flags_general`,
`bracket_box_exact`; two more known findings), and the parenthesisation/precedence rules tied to the source
(`JPText/GenTie.lean`). The finite boxes of rounds 1–2 are kept. -/
namespace OjgVerif.C14
open OjgVerif OjgVerif.JPText

/-! ## the operator table the proofs were made for -/

/-- names, codes, precedence numbers and arities of jp/script.go, as regenerated -/
theorem ops_pinned :
    Gen.JpOps.all.map (fun p => (p.1, p.2.name, p.2.code, p.2.prec, p.2.cnt)) =
      [("eq", [61, 61], 61, 3, 2), ("neq", [33, 61], 110, 3, 2), ("lt", [60], 60, 3, 2), ("gt", [62], 62, 3, 2),
       ("lte", [60, 61], 108, 3, 2), ("gte", [62, 61], 103, 3, 2), ("or", [124, 124], 124, 4, 2),
       ("and", [38, 38], 38, 4, 2), ("not", [33], 33, 0, 1), ("add", [43], 43, 2, 2), ("sub", [45], 45, 2, 2),
       ("mult", [42], 42, 1, 2), ("divide", [47], 47, 1, 2), ("get", [103, 101, 116], 71, 0, 1),
       ("in", [105, 110], 105, 3, 2), ("empty", [101, 109, 112, 116, 121], 101, 3, 2), ("rx", [126, 61], 126, 3, 2),
       ("rxa", [61, 126], 126, 3, 2), ("has", [104, 97, 115], 104, 3, 2),
       ("exists", [101, 120, 105, 115, 116, 115], 120, 3, 2), ("length", [108, 101, 110, 103, 116, 104], 76, 0, 1),
       ("count", [99, 111, 117, 110, 116], 67, 0, 1), ("match", [109, 97, 116, 99, 104], 77, 0, 2),
       ("search", [115, 101, 97, 114, 99, 104], 83, 0, 2), ("group", [40], 40, 0, 1)] := by
  decide

/-- every name the parser can look up maps to the operator that prints that name, except the alias
`=~`, which maps to `~=` -/
theorem opMap_names :
    (Gen.JpOps.opMap.all fun kv => kv.1 == kv.2.name || (kv.1 == [61, 126] && kv.2 == Gen.JpOps.op_rx)) = true := by
  decide

/-! ## the property at full strength, and its refutation on the pinned tree -/

/-- C14 on the model: every constructible expression round-trips in both text forms, every
constructible equation in its three text forms -/
def C14_full : Prop :=
  (∀ (br : Bool) (x : Expr), Frag.okL x = true → roundTripsExpr br x = true) ∧
  (∀ e : Eqn, e.ok = true → roundTripsEqn e = true ∧ roundTripsScript e = true ∧ roundTripsFilter e = true)

/-- `2 * (3 + 4)` built with `Multiply(ConstInt(2), Add(ConstInt(3), ConstInt(4)))` -/
def witnessTimesPlus : Eqn :=
  .bin Gen.JpOps.op_mult (.val (.int 2)) (.bin Gen.JpOps.op_add (.val (.int 3)) (.val (.int 4)))

/-- `2 - (3 - 4)` -/
def witnessMinusMinus : Eqn :=
  .bin Gen.JpOps.op_sub (.val (.int 2)) (.bin Gen.JpOps.op_sub (.val (.int 3)) (.val (.int 4)))

/-- `Equation.String` writes `(2 * (3 + 4))`. Before e6c1ad4 it wrote `(2 * 3 + 4)`, which was the
witness of `C14_full_false` (finding C14-equation-parens, fixed). -/
theorem witness_equation_text :
    eqnString witnessTimesPlus = some [40, 50, 32, 42, 32, 40, 51, 32, 43, 32, 52, 41, 41] ∧
      roundTripsEqn witnessTimesPlus = true := by
  decide +kernel

/-- `Script.String` writes `(2 - (3 - 4))`. Before d27ad83 it wrote `(2 - 3 - 4)`, read back as
`(2 - 3) - 4` (finding C14-equal-prec, fixed). -/
theorem witness_script_text :
    scriptPrint witnessMinusMinus.script = [40, 50, 32, 45, 32, 40, 51, 32, 45, 32, 52, 41, 41] ∧
      roundTripsScript witnessMinusMinus = true := by
  decide +kernel

/-- `R().Descent().Nth(1)` is written `$..[1]` and read back. Before bc70af1 it was written `$.[1]` and
rejected (finding C14-descent, fixed). -/
theorem descent_bracket_accepted :
    exprPrint false [.root, .descent, .nth 1] = [36, 46, 46, 91, 49, 93] ∧
      roundTripsExpr false [.root, .descent, .nth 1] = true ∧ roundTripsExpr true [.root, .descent, .nth 1] = true := by
  decide +kernel

/-- the property at full strength is still false: `R().Root()` is constructible, prints `$$`, and that
is read as `$` (known finding C14-no-text-form: the grammar has no text for a Root after the first
fragment) -/
theorem C14_full_false : ¬ C14_full := by
  intro h
  have h1 := h.1 false [.root, .root] (by decide)
  have h2 : roundTripsExpr false [.root, .root] = false := by decide +kernel
  rw [h2] at h1
  cases h1

/-! ## keys, union members and string constants: the quoted form round-trips for ALL byte strings -/

/-- For every byte string `s` — valid UTF-8 or not, since c107b3b — and whatever text follows:
`AppendString(s, '\'')` starts with the quote, and `readStr`, having consumed it, returns `s` and exactly
the text that follows. Reads `Gen.Jp.jMap` and `Gen.Jp.hex` (256 cells checked by kernel evaluation inside
the proof). Before c107b3b an undecodable byte came back as U+FFFD (finding C14-utf8, fixed). -/
theorem quoted_roundtrip (s rest : Bytes) :
    ∃ t, appendString s 39 ++ rest = 39 :: t ∧ readStr 39 t = some (s, rest) :=
  readStr_appendString s rest

/-- `"\xff"` is written `'\xff'` -/
example : appendString [0xFF] 39 = [39, 92, 120, 102, 102, 39] := by decide +kernel

/-! ## indexes: decimal text round-trips for every int64 -/

/-- `readInt` (Go wrap-around arithmetic) reads `strconv.FormatInt(i, 10)` back as `i`, for every
int64 `i` and every non-digit follower `c`, which it consumes and returns -/
theorem int_roundtrip (i : Int) (hi : inInt64 i = true) (c : UInt8) (rest : Bytes) (hc : isDigit c = false) :
    ∃ d ds, fmtInt i = d :: ds ∧ (d = 45 ∨ isDigit d = true) ∧ readInt d (ds ++ c :: rest) = some (i, c, rest) :=
  readInt_fmtInt i hi c rest hc

/-- `Nth.Append` is `FormatInt` between brackets, for every index; before 4af356a `Nth(MinInt64)` printed
`[-'..--).0-*(+,))+(0(]` (finding C14-nth-minint, fixed) -/
theorem nth_text (i : Int) : nthPrint i = 91 :: (fmtInt i ++ [93]) := nthPrint_eq i

/-! ## expressions without filter fragments: C14 in both text forms -/

/-- **C14, expressions.** For every constructible expression `x` (`Frag.okL`) that has no filter fragment
and for which `Spec.lean` names no deviation (`devsExpr br x = []`: no Root/At after the first position,
no union of fewer than two members — the objects without a text form), in BOTH text forms: the printed text
is accepted, the re-parsed expression prints identically, and it equals `x` up to the normal form
(evaluates identically). Root, At, children with ANY key bytes (dot or quoted form chosen by the
regenerated `tokenMap`), every int64 index, wildcards, descents anywhere (`..` / `[..]`), unions with any
member bytes, slices of every shape. -/
theorem expr_roundtrip_partial (br : Bool) (x : Expr) (hok : Frag.okL x = true) (hnf : noFilter x = true)
    (hdev : devsExpr br x = []) :
    ∃ y, parseExpr (exprPrint br x) = some y ∧ exprPrint br y = exprPrint br x ∧ sameExpr y x = true := by
  have hc := cleanExpr_of_spec br x hok hnf hdev
  refine ⟨imgL br x, parseExpr_print br x hc, exprPrint_imgL br x hc, ?_⟩
  simp [sameExpr, imgL_normL]

theorem expr_roundtrip_bool (br : Bool) (x : Expr) (hok : Frag.okL x = true) (hnf : noFilter x = true)
    (hdev : devsExpr br x = []) : roundTripsExpr br x = true :=
  roundTripsExpr_clean br x (cleanExpr_of_spec br x hok hnf hdev)

/-- the hypotheses hold for `$.a['b c']['\xff'][3]..[-9223372036854775808]..*[1:5:2]['it\'s',-1]..` -/
example : Frag.okL [.root, .child [97], .child [98, 32, 99], .child [0xFF], .nth 3, .descent, .nth minInt, .descent,
      .wild false, .slice [1, 5, 2], .union [.key [105, 116, 39, 115], .idx (-1)], .descent] = true ∧
    noFilter [.root, .child [97], .child [98, 32, 99], .child [0xFF], .nth 3, .descent, .nth minInt, .descent,
      .wild false, .slice [1, 5, 2], .union [.key [105, 116, 39, 115], .idx (-1)], .descent] = true ∧
    devsExpr true [.root, .child [97], .child [98, 32, 99], .child [0xFF], .nth 3, .descent, .nth minInt, .descent,
      .wild false, .slice [1, 5, 2], .union [.key [105, 116, 39, 115], .idx (-1)], .descent] = [] := by decide +kernel

/-! ## evaluation order: every pair and triple of operators, every nesting shape

For every equation tree with one or two operator nodes over `Not` and all 19 binary constructors
(`Eq … Regex`, `Match`, `Search`), and every tree with three operator nodes over `Not` and one binary
constructor per precedence level (plus `-` and `match`), each of `Equation.String`, `Script.String`,
`Filter.String` is read back to the same template and printed identically — with NO exception (before
e6c1ad4, d27ad83, 9a26786, cd355fe: exactly when no deviation was named). Kernel evaluation of the printer
and parser models over the regenerated operator table and byte tables. -/

def allThree (e : Eqn) : Bool := roundTripsEqn e && roundTripsScript e && roundTripsFilter e

theorem devsExact_allThree (e : Eqn) (h : devsExact e = true) (hE : devsEqn e = []) (hS : devsScript e = [])
    (hF : devsFilter e = []) : allThree e = true := by
  simp only [devsExact, hE, hS, hF, List.isEmpty_nil, Bool.and_eq_true, beq_iff_eq] at h
  simp [allThree, ← h.1.1, ← h.1.2, ← h.2]

theorem prec_pairs_exact :
    ((pairsATrees ++ pairsBTrees).all fun s => devsExact s.eqn) = true := by
  rw [List.all_append, pairsA_exact, pairsB_exact]; rfl

theorem prec_triples_exact :
    ((triplesATrees ++ triplesBTrees ++ triplesCTrees).all fun s => devsExact s.eqn) = true := by
  rw [List.all_append, List.all_append, triplesA_exact, triplesB_exact, triplesC_exact]; rfl

/-- **all three text forms of every small tree round-trip** (unconditionally: the trees' deviation lists are
empty, checked with them) -/
theorem prec_small_all :
    ((pairsATrees ++ pairsBTrees ++ (triplesATrees ++ triplesBTrees ++ triplesCTrees)).all fun s =>
      allThree s.eqn) = true := by
  simp only [allThree]
  rw [List.all_append, List.all_append, List.all_append, List.all_append, pairsA_all, pairsB_all, triplesA_all,
    triplesB_all, triplesC_all]; rfl

/-- expressions that CARRY a filter: `$.list[?(e)].x` for every equation tree `e` with one or two operator
nodes over `Not` and all 19 binary constructors, leaves alternating between a path `@.a` and an integer:
`String()` and `BracketString()` are read back (nested `readExpr` inside `readEq` inside `readExpr`) to the same
expression and printed identically -/
theorem filter_expr_pairs_all :
    (filterExprTrees.all fun s => roundTripsExpr false s.filterExpr && roundTripsExpr true s.filterExpr) = true :=
  filterExpr_all

/-! ## evaluation order, trees of ANY size: the precedence-correction pass undoes the reader's flattening -/

/-- **`precedentCorrect`, all trees.** `readEq` reads `a0 o1 a1 o2 a2 …` into one right-nested chain
whatever the operators are (`chainify`: that flattening, at every depth — inside parentheses, `!`, call
arguments). For EVERY properly parenthesised tree `g` of any size and any operators (`Eqn.pd`: each infix
node binds at least as loosely as its left operand and strictly more loosely than its right operand, a
parenthesis being a `group` node; calls and `!` have precedence number 0 as in the regenerated table),
`precedentCorrect`, run with the fuel the entry points use, returns exactly `g`: the grouping the
printers' parentheses express is the grouping the parser reconstructs. By induction (rotation lemma,
chain lemma, uniqueness of the properly parenthesised tree of a token sequence); no enumeration. -/
theorem prec_correct_general (g : Eqn) (hp : g.pd = true) :
    precCorrect (precFuel (chainify g)) (chainify g) = some g :=
  precCorrect_chainify g hp

/-- `(1 + 2 * 3 - (4 - 5)) && !(6 || 7)` is properly parenthesised; its flattening is one chain -/
example : Eqn.pd (.bin Gen.JpOps.op_and
      (.bin Gen.JpOps.op_sub
        (.bin Gen.JpOps.op_add (.val (.int 1)) (.bin Gen.JpOps.op_mult (.val (.int 2)) (.val (.int 3))))
        (.un Gen.JpOps.op_group (.bin Gen.JpOps.op_sub (.val (.int 4)) (.val (.int 5)))))
      (.un Gen.JpOps.op_not (.un Gen.JpOps.op_group (.bin Gen.JpOps.op_or (.val (.int 6)) (.val (.int 7)))))) = true := by
  decide

/-! ## equations of ANY size: all three text forms are read back -/

/-- **C14, `Equation.String`, all sizes.** For EVERY equation `e` built from `Not`, the 19 binary
constructors (`Eq … Regex`, `Match`, `Search`) and `Get`/`Length`/`Count` of a filter-free path that starts
with Root or At (any children, indexes, wildcards, descents, unions, slices), any nesting, any size, over
int64, boolean, null, Nothing, string (any bytes), finite float constants, regex constants whose source
`AppendString` leaves alone, and flat list constants (`Eqn.okC`): `Equation.String` succeeds,
`MustParseEquation` accepts the text and returns `(Eqn.leafy e).paren` — `e` in the reader's form (`Get(p)` is
the bare path, `2` is `2.0`, slices padded) with a `group` node exactly where the printer wrote a parenthesis,
the outermost excepted —, which prints identically and has the same script template up to `group` operators
and the normal form of the constants (evaluates identically). Proved by induction through `readEq`
(`readEq_text`), `precedentCorrect` (`prec_correct_general`) and `reduceGroups`; no enumeration, no exception
in this class.

`…_partial`: excluded (covered by the finite boxes above and the correspondence run only) are equations
whose paths contain FILTER fragments (nested filters), nested list constants, and the objects with a named
deviation (NaN/±Inf, regex sources that `AppendString` rewrites, paths not starting with Root/At, …); the full
statement is the second half of `C14_full`. -/
theorem eqn_roundtrip_partial (e : Eqn) (h : e.okC = true) :
    ∃ s, eqnString e = some s ∧ parseEquation s = some e.leafy.paren ∧ eqnString e.leafy.paren = some s ∧
      sameTemplate e.leafy.paren.build e.build = true := by
  have hs := okS_leafy e h
  obtain ⟨s, h1, h2⟩ := parseEquation_print e.leafy hs
  refine ⟨s, ?_, h2, by rw [← h1]; exact print_paren_self e.leafy hs true, ?_⟩
  · rw [← h1]; exact (print_leafy e h true).symm
  · have := sameTemplate_of_normL (normL_build_paren e.leafy hs)
    rw [(build_leafy e h).1, sameTemplate_imgI] at this
    exact this

theorem eqn_roundtrip_bool (e : Eqn) (h : e.okC = true) : roundTripsEqn e = true := roundTripsEqn_okC e h

/-- **C14, `Script.String` and `Filter.String`, all sizes.** For every equation `e` of the same class:
`e.Script().String()` is accepted by `NewScript` and `e.Filter().String()` by `NewFilter`; the template read
prints identically and equals the original template up to `group` operators and the normal form of the
constants. (What is read is the template of `Eqn.parenS`: a `group` operator exactly where `Script.Append` wrote
a parenthesis — as `Equation.Append` does, plus around an infix argument of `match`/`search`; LemmasScript.) By
induction through the stack machine of `Script.Append` (`run_build`), `readEq`, `precedentCorrect`,
`reduceGroups`. -/
theorem script_roundtrip_partial (e : Eqn) (h : e.okC = true) :
    (∃ t, parseScript (scriptPrint e.script) = some t ∧ scriptPrint t = scriptPrint e.script ∧
      sameTemplate t e.script = true) ∧
    (∃ t, parseFilter (filterPrint e.build) = some t ∧ filterPrint t = filterPrint e.build ∧
      sameTemplate t e.build = true) := by
  have h1 := roundTripsScript_okC e h
  have h2 := roundTripsFilter_okC e h
  unfold roundTripsScript at h1
  unfold roundTripsFilter at h2
  constructor
  · cases hp : parseScript (scriptPrint e.script) with
    | none => simp [hp] at h1
    | some t => simp only [hp, Bool.and_eq_true, beq_iff_eq] at h1; exact ⟨t, rfl, h1.1, h1.2⟩
  · cases hp : parseFilter (filterPrint e.build) with
    | none => simp [hp] at h2
    | some t => simp only [hp, Bool.and_eq_true, beq_iff_eq] at h2; exact ⟨t, rfl, h2.1, h2.2⟩

/-- **C14 for equations, in the words of Spec.lean.** Every constructible equation (`Eqn.ok`) for which
Spec.lean names no deviation (`devsEqn e = []`) and which is SHALLOW (no filter fragment inside a path operand,
no list constant inside a list constant) round-trips in all three text forms — whatever its size. This is the
second half of `C14_full` with exactly two restrictions: the named deviations (known findings) and shallowness
(the part that is still covered by the correspondence run only). -/
theorem eqn_roundtrip_spec (e : Eqn) (hok : e.ok = true) (hdev : devsEqn e = []) (hsh : e.shallow = true) :
    roundTripsEqn e = true ∧ roundTripsScript e = true ∧ roundTripsFilter e = true :=
  have h := okC_of_spec e hok hdev hsh
  ⟨roundTripsEqn_okC e h, roundTripsScript_okC e h, roundTripsFilter_okC e h⟩

/-- the hypotheses hold for `(@.a[1:] - 2.5) * 3 == count($..b) || 'x' in ['x', 1, null]` -/
example : Eqn.ok (.bin Gen.JpOps.op_or
      (.bin Gen.JpOps.op_eq
        (.bin Gen.JpOps.op_mult (.bin Gen.JpOps.op_sub (.un Gen.JpOps.op_get (.val (.expr [.at, .child [97], .slice [1]]))) (.val (.flt [50, 46, 53]))) (.val (.int 3)))
        (.un Gen.JpOps.op_count (.val (.expr [.root, .descent, .child [98]]))))
      (.bin Gen.JpOps.op_in (.val (.str [120])) (.val (.list [.str [120], .int 1, .null])))) = true ∧
    devsEqn (.bin Gen.JpOps.op_or
      (.bin Gen.JpOps.op_eq
        (.bin Gen.JpOps.op_mult (.bin Gen.JpOps.op_sub (.un Gen.JpOps.op_get (.val (.expr [.at, .child [97], .slice [1]]))) (.val (.flt [50, 46, 53]))) (.val (.int 3)))
        (.un Gen.JpOps.op_count (.val (.expr [.root, .descent, .child [98]]))))
      (.bin Gen.JpOps.op_in (.val (.str [120])) (.val (.list [.str [120], .int 1, .null])))) = [] ∧
    Eqn.shallow (.bin Gen.JpOps.op_or
      (.bin Gen.JpOps.op_eq
        (.bin Gen.JpOps.op_mult (.bin Gen.JpOps.op_sub (.un Gen.JpOps.op_get (.val (.expr [.at, .child [97], .slice [1]]))) (.val (.flt [50, 46, 53]))) (.val (.int 3)))
        (.un Gen.JpOps.op_count (.val (.expr [.root, .descent, .child [98]]))))
      (.bin Gen.JpOps.op_in (.val (.str [120])) (.val (.list [.str [120], .int 1, .null])))) = true := by
  decide +kernel

/-- **all three text forms of every equation of the class round-trip** (the general counterpart of
`prec_small_all`) -/
theorem eqn_all_three (e : Eqn) (h : e.okC = true) : allThree e = true := by
  simp [allThree, roundTripsEqn_okC e h, roundTripsScript_okC e h, roundTripsFilter_okC e h]

theorem okL_of_cleanTail : ∀ r : List Frag, cleanTail r = true → Frag.okL r = true := by
  intro r
  induction r with
  | nil => intro _; rfl
  | cons f r ih =>
    intro h
    simp only [cleanTail, Bool.and_eq_true] at h
    have : f.ok = true := by
      cases f <;> simp_all [Frag.clean, Frag.ok]
      rename_i ms
      intro m hm
      have := h.1.2 m hm
      cases m <;> simp_all [UMem.goodB, UMem.ok]
    simp [Frag.okL, this, ih h.2]

/-- the class is inside the constructible equations -/
theorem okC_ok : ∀ e : Eqn, e.okC = true → e.ok = true := by
  intro e
  induction e with
  | val v =>
    intro h
    cases v with
    | list vs =>
      simp only [Eqn.okC, Val.okC] at h
      have : Val.okL vs = true := by
        induction vs with
        | nil => rfl
        | cons v r ih =>
          simp only [List.all_cons, Bool.and_eq_true] at h
          have hv := h.1
          cases v <;> simp_all [Val.scalarC, Val.okL, Val.ok]
      simp [Eqn.ok, Val.ok, this]
    | expr x => simp [Eqn.okC, Val.okC] at h
    | flt t => simp_all [Eqn.okC, Val.okC, Val.scalarC, Eqn.ok, Val.ok]
    | _ => simp_all [Eqn.okC, Val.okC, Val.scalarC, Eqn.ok, Val.ok]
  | un o l ih =>
    intro h
    rcases okC_un_cases h with ⟨ho, hl⟩ | ⟨ho, x, hx, hc⟩
    · simp [Eqn.ok, ho, ih hl]
    · subst hx
      have hx : Frag.okL x = true := by
        cases x with
        | nil => simp [cleanPath] at hc
        | cons f r =>
          simp only [cleanPath, Bool.and_eq_true] at hc
          have : f.ok = true := by cases f <;> simp_all [Frag.isRootAt, Frag.ok]
          simp [Frag.okL, this, okL_of_cleanTail r hc.2]
      rcases ho with ho | ho | ho <;> subst ho <;> simp [Eqn.ok, hx] <;> decide
  | bin o l r ihl ihr =>
    intro h
    simp only [Eqn.okC, Bool.and_eq_true] at h
    simp only [Eqn.ok, h.1, ihl h.2.1, ihr h.2.2, Bool.and_self]

/-- the hypothesis holds for
`!(1 - (2.5 - 'a\xff')) && match(@.a[1:], true || length($..b) > 3) ~= /x.y/ || @.c in [1,'z',null]` -/
example : Eqn.okC (.bin Gen.JpOps.op_or (.bin Gen.JpOps.op_and
    (.un Gen.JpOps.op_not (.bin Gen.JpOps.op_sub (.val (.int 1)) (.bin Gen.JpOps.op_sub (.val (.flt [50, 46, 53])) (.val (.str [97, 0xFF])))))
    (.bin Gen.JpOps.op_rx (.bin Gen.JpOps.op_match (.un Gen.JpOps.op_get (.val (.expr [.at, .child [97], .slice [1]])))
        (.bin Gen.JpOps.op_or (.val (.bool true))
          (.bin Gen.JpOps.op_gt (.un Gen.JpOps.op_length (.val (.expr [.root, .descent, .child [98]]))) (.val (.int 3)))))
      (.val (.regex [120, 46, 121]))))
    (.bin Gen.JpOps.op_in (.un Gen.JpOps.op_get (.val (.expr [.at, .child [99]])))
      (.val (.list [.int 1, .str [122], .null])))) = true := by decide +kernel

/-! ## expressions that carry filters, any size -/

/-- **C14, expressions with filter fragments.** For EVERY expression `x` whose fragments (after an optional
leading Root/At) are clean fragments (children with any key, indexes, wildcards, descents, unions, slices — as
in `expr_roundtrip_partial`) or FILTER fragments `Filter(e)` with `e` any equation of the class of
`eqn_roundtrip_partial` (`Eqn.okC`: any size, all operators, all constant kinds, path operands filter-free), in
BOTH text forms: the printed text is accepted, the re-parsed expression prints identically and equals `x` up to
the normal form (wildcard flag, slice padding, `group` operators, float text). Nested `readExpr` inside `readEq`
inside `readExpr`, by induction (`readExprLoop_gen`, `readFilter_text`); the general counterpart of
`filter_expr_pairs_all`.

`…_partial`: excluded are filters whose equations have path operands that carry filters THEMSELVES (filters
nested two or more levels deep — correspondence run only), and the named deviations. -/
theorem expr_filter_roundtrip_partial (br : Bool) (x : Expr) (h : ExprOKF x) :
    ∃ y, parseExpr (exprPrint br x) = some y ∧ exprPrint br y = exprPrint br x ∧ sameExpr y x = true :=
  parseExpr_filter br x h

/-- `$.list[?(@.a > 1 && !(@.b in [1,2]))].x[?(length(@..c) == 2.5)]` satisfies the hypothesis -/
example : ExprOKF [.root, .child [108, 105, 115, 116],
    .filter (Eqn.bin Gen.JpOps.op_and
      (.bin Gen.JpOps.op_gt (.un Gen.JpOps.op_get (.val (.expr [.at, .child [97]]))) (.val (.int 1)))
      (.un Gen.JpOps.op_not (.bin Gen.JpOps.op_in (.un Gen.JpOps.op_get (.val (.expr [.at, .child [98]])))
        (.val (.list [.int 1, .int 2]))))).build,
    .child [120],
    .filter (Eqn.bin Gen.JpOps.op_eq (.un Gen.JpOps.op_length (.val (.expr [.at, .descent, .child [99]])))
      (.val (.flt [50, 46, 53]))).build] := by
  refine ⟨Or.inl rfl, ?_⟩
  intro g hg
  simp only [List.mem_cons, List.not_mem_nil, or_false] at hg
  rcases hg with hg | hg | hg | hg
  · subst hg; exact Or.inl rfl
  · subst hg; exact Or.inr ⟨_, by decide +kernel, rfl⟩
  · subst hg; exact Or.inl rfl
  · subst hg; exact Or.inr ⟨_, by decide +kernel, rfl⟩

/-! ## C14 restricted to shallow objects: proved -/

/-- `C14_full` with exactly two restrictions: no deviation named by Spec.lean (`devsExpr`/`devsEqn` empty: the
known findings), and SHALLOW: the equation of every filter fragment is constructible, deviation-free and has
no filter inside a path operand and no list inside a list (filters nested one level). -/
def C14_shallow : Prop :=
  (∀ (br : Bool) (x : Expr), Frag.okL x = true → devsExpr br x = [] →
    (∀ t, Frag.filter t ∈ x → ∃ e : Eqn, e.ok = true ∧ devsEqn e = [] ∧ e.shallow = true ∧ t = e.build) →
    roundTripsExpr br x = true) ∧
  (∀ e : Eqn, e.ok = true → devsEqn e = [] → e.shallow = true →
    roundTripsEqn e = true ∧ roundTripsScript e = true ∧ roundTripsFilter e = true)

/-- **C14 holds for all shallow objects of any size** (while `C14_full_false`: at full strength it is false
because of the named deviations). Filter-free expressions are the case where the third hypothesis is vacuous. -/
theorem C14_shallow_holds : C14_shallow :=
  ⟨fun br x hok hdev hf => roundTripsExpr_filter_spec br x hok hdev hf,
   fun e hok hdev hsh => eqn_roundtrip_spec e hok hdev hsh⟩

/-- filters nested TWO levels are outside the general theorems (they are covered by the correspondence run); a
witness that the model round-trips one: `$.a[?(@.b[?(@.c == 1 || !(@.e < 2.5))].d > 2)]`, both text forms
(kernel evaluation) -/
theorem nested_two_levels_witness :
    roundTripsExpr false [.root, .child [97], (Eqn.bin Gen.JpOps.op_gt
        (.un Gen.JpOps.op_get (.val (.expr [.at, .child [98], (Eqn.bin Gen.JpOps.op_or
            (.bin Gen.JpOps.op_eq (.un Gen.JpOps.op_get (.val (.expr [.at, .child [99]]))) (.val (.int 1)))
            (.un Gen.JpOps.op_not (.bin Gen.JpOps.op_lt (.un Gen.JpOps.op_get (.val (.expr [.at, .child [101]])))
              (.val (.flt [50, 46, 53]))))).filter, .child [100]])))
        (.val (.int 2))).filter] = true ∧
    roundTripsExpr true [.root, .child [97], (Eqn.bin Gen.JpOps.op_gt
        (.un Gen.JpOps.op_get (.val (.expr [.at, .child [98], (Eqn.bin Gen.JpOps.op_or
            (.bin Gen.JpOps.op_eq (.un Gen.JpOps.op_get (.val (.expr [.at, .child [99]]))) (.val (.int 1)))
            (.un Gen.JpOps.op_not (.bin Gen.JpOps.op_lt (.un Gen.JpOps.op_get (.val (.expr [.at, .child [101]])))
              (.val (.flt [50, 46, 53]))))).filter, .child [100]])))
        (.val (.int 2))).filter] = true := by
  decide +kernel

/-- … and the box: `$.a[?(@.b[?(@.c o2 1)].d o1 2)]` for EVERY ordered pair (o1, o2) of the 19 binary constructors,
and with `!` around the inner and/or the outer equation for one operator per precedence level: both text forms
round-trip and no deviation is named (kernel evaluation; finite evidence for the level the general theorems do
not reach) -/
theorem nested_two_levels_box :
    ((nested2A ++ nested2B).all fun x => roundTripsExpr false x && roundTripsExpr true x &&
      (devsExpr false x).isEmpty && (devsExpr true x).isEmpty) = true := by
  rw [List.all_append, nested2A_all, nested2B_all]; rfl

/-! ## API-built expressions with the `Bracket` flag fragment (`jp.B()`) -/

/-- `BracketString()` does not see the flags: for EVERY expression with flags anywhere, the text is the
text of the expression without them; so C14 for `BracketString()` holds for every filter-free constructible
expression whatever flags it carries (with `expr_roundtrip_partial`). -/
theorem bracket_string_flags (x : BExpr) (hok : Frag.okL (stripB x) = true) (hnf : noFilter (stripB x) = true)
    (hdev : devsExpr true (stripB x) = []) :
    bexprPrint true x = exprPrint true (stripB x) ∧ roundTripsBExpr true x = true ∧ bracketReprint true x = false :=
  ⟨bexprPrint_true x, by rw [roundTripsBExpr_true]; exact expr_roundtrip_bool true _ hok hnf hdev,
    bracketReprint_true x⟩

/-- `R().B().C("a").D().B().N(3).B()` satisfies the hypotheses -/
example : Frag.okL (stripB [some .root, none, some (.child [97]), some .descent, none, some (.nth 3), none]) = true ∧
    noFilter (stripB [some .root, none, some (.child [97]), some .descent, none, some (.nth 3), none]) = true ∧
    devsExpr true (stripB [some .root, none, some (.child [97]), some .descent, none, some (.nth 3), none]) = [] := by
  decide +kernel

/-- `String()` with flags, the small box: for every sequence of at most four fragments over Root, At, a
token-like child, a quoted child, an index, a wildcard, a descent, a union, a slice and the flag (every
sequence of length ≤ 3; every sequence of length 4 that has a flag — the flag first, in the middle, directly
after a descent, last, repeated) the round trip holds EXACTLY when no deviation is named: `devsExpr` of the
flag-free expression (Root/At not first) and `bracketReprint` (known finding C14-bracket-flag: the flag has no
text, the re-parsed expression prints in dot notation). Kernel evaluation. -/
theorem bracket_box_exact :
    ((boxSeqs 1 ++ boxSeqs 2 ++ boxSeqs 3).all bexact && boxSeqs4.all bexact) = true := by
  rw [bracketBox_exact3, bracketBox_exact4]; rfl

/-- **`String()` with flags, ANY length.** For every filter-free constructible expression without a named
deviation (`Frag.okL`, `noFilter`, `devsExpr … = []` of the flag-free expression) carrying `Bracket` flags at any
positions (before Root, in the middle, directly after a descent, last, repeated), in both text forms: the text is
accepted and read as the flag-free expression (up to the normal form), and it re-prints identically EXACTLY when
`bracketReprint` is false; for `String()` that predicate is structural (`flagMatters`): the round trip fails iff a
token-like child or a descent stands somewhere after a flag (known finding C14-bracket-flag) — wildcards, quoted
children, indexes, unions, slices after a flag are harmless. The general counterpart of `bracket_box_exact`
(mixed-mode fragment loop `readExprLoop_b`, by induction). -/
theorem bracket_flags_general (br : Bool) (x : BExpr) (hok : Frag.okL (stripB x) = true)
    (hnf : noFilter (stripB x) = true) (hdev : devsExpr br (stripB x) = []) :
    parseExpr (bexprPrint br x) = some (imgB br x) ∧ sameExpr (imgB br x) (stripB x) = true ∧
    roundTripsBExpr br x = !bracketReprint br x ∧ bracketReprint false x = flagMatters false x := by
  have hc := cleanExpr_of_spec br (stripB x) hok hnf hdev
  exact ⟨parseExpr_bprint br x hc, sameExpr_imgB br x, roundTripsBExpr_iff br x hc, bracketReprint_false_eq x⟩

/-- the flag has no text form: `R().B().C("a")` prints `$['a']`, which is read as `$.a` and printed so (known
finding C14-bracket-flag); so C14 at full strength over API-built expressions WITH flags is false too -/
theorem bracket_flag_witness :
    bexprPrint false [some .root, none, some (.child [97])] = [36, 91, 39, 97, 39, 93] ∧
    (parseExpr [36, 91, 39, 97, 39, 93]).map (exprPrint false) = some [36, 46, 97] ∧
    roundTripsBExpr false [some .root, none, some (.child [97])] = false ∧
    bracketReprint false [some .root, none, some (.child [97])] = true := by
  decide +kernel

/-- the expression of the seeded change C14-m7, `R().D().B().C("a b")`: `$..['a b']`, read back -/
theorem bracket_after_descent :
    bexprPrint false [some .root, some .descent, none, some (.child [97, 32, 98])] =
      [36, 46, 46, 91, 39, 97, 32, 98, 39, 93] ∧
    roundTripsBExpr false [some .root, some .descent, none, some (.child [97, 32, 98])] = true :=
  descent_flag_text

end OjgVerif.C14
