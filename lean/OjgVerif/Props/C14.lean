import OjgVerif.JPText.PrecPairsA
import OjgVerif.JPText.PrecPairsB
import OjgVerif.JPText.PrecTriplesA
import OjgVerif.JPText.PrecTriplesB
import OjgVerif.JPText.PrecTriplesC
import OjgVerif.JPText.LemmasExpr
import OjgVerif.JPText.PrecFilterExpr
/-! # C14 — JSONPath and script text forms round-trip

Model: `JPText/Print.lean` (the printers), `JPText/Parse.lean` (jp/parse.go), over the regenerated
`Gen.Jp.tokenMap/jMap/eqMap/hex/maxEnd` and `Gen.JpOps` (the operator table of jp/script.go).
Statement of the property on the model: `JPText/Spec.lean` (`roundTrips*`, the normal form, `Dev`).

The pinned tree does NOT have the property (`C14_full_false`); what is proved is the partial form,
which excludes exactly the objects for which `Spec.lean` names a deviation. -/
namespace OjgVerif.C14
open OjgVerif OjgVerif.JPText

/-! ## the operator table the proofs were made for -/

/-- names, codes, precedence numbers and arities of jp/script.go, as regenerated -/
theorem ops_pinned :
    Gen.JpOps.all.map (fun p => (p.1, p.2.name, p.2.code, p.2.prec, p.2.cnt)) =
      [("eq", [61, 61], 61, 3, 2), ("neq", [33, 61], 110, 3, 2), ("lt", [60], 60, 3, 2), ("gt", [62], 62, 3, 2),
       ("lte", [60, 61], 108, 3, 2), ("gte", [62, 61], 103, 3, 2), ("or", [124, 124], 124, 4, 2),
       ("and", [38, 38], 38, 4, 2), ("not", [33], 33, 0, 1), ("add", [43], 43, 2, 2), ("sub", [45], 45, 2, 2),
       ("mult", [42], 42, 1, 2), ("divide", [47], 47, 1, 2), ("get", [103, 101, 116], 71, 0, 1),
       ("in", [105, 110], 105, 3, 2), ("empty", [101, 109, 112, 116, 121], 101, 3, 2), ("rx", [126, 61], 126, 3, 2),
       ("rxa", [61, 126], 126, 3, 2), ("has", [104, 97, 115], 104, 3, 2),
       ("exists", [101, 120, 105, 115, 116, 115], 120, 3, 2), ("length", [108, 101, 110, 103, 116, 104], 76, 0, 1),
       ("count", [99, 111, 117, 110, 116], 67, 0, 1), ("match", [109, 97, 116, 99, 104], 77, 0, 2),
       ("search", [115, 101, 97, 114, 99, 104], 83, 0, 2), ("group", [40], 40, 0, 1)] := by
  decide

/-- every name the parser can look up maps to the operator that prints that name, except the alias
`=~`, which maps to `~=` -/
theorem opMap_names :
    (Gen.JpOps.opMap.all fun kv => kv.1 == kv.2.name || (kv.1 == [61, 126] && kv.2 == Gen.JpOps.op_rx)) = true := by
  decide

/-! ## the property at full strength, and its refutation on the pinned tree -/

/-- C14 on the model: every constructible expression round-trips in both text forms, every
constructible equation in its three text forms -/
def C14_full : Prop :=
  (∀ (br : Bool) (x : Expr), Frag.okL x = true → roundTripsExpr br x = true) ∧
  (∀ e : Eqn, e.ok = true → roundTripsEqn e = true ∧ roundTripsScript e = true ∧ roundTripsFilter e = true)

/-- `2 * (3 + 4)` built with `Multiply(ConstInt(2), Add(ConstInt(3), ConstInt(4)))` -/
def witnessTimesPlus : Eqn :=
  .bin Gen.JpOps.op_mult (.val (.int 2)) (.bin Gen.JpOps.op_add (.val (.int 3)) (.val (.int 4)))

/-- `2 - (3 - 4)` -/
def witnessMinusMinus : Eqn :=
  .bin Gen.JpOps.op_sub (.val (.int 2)) (.bin Gen.JpOps.op_sub (.val (.int 3)) (.val (.int 4)))

/-- `Equation.String` writes `(2 * 3 + 4)` -/
theorem witness_equation_text : eqnString witnessTimesPlus = some [40, 50, 32, 42, 32, 51, 32, 43, 32, 52, 41] := by
  decide +kernel

/-- `Script.String` writes `(2 - 3 - 4)`, which is read as `(2 - 3) - 4` -/
theorem witness_script_text : scriptPrint witnessMinusMinus.script = [40, 50, 32, 45, 32, 51, 32, 45, 32, 52, 41] := by
  decide +kernel

theorem C14_full_false : ¬ C14_full := by
  intro h
  have h1 := (h.2 witnessTimesPlus (by decide +kernel)).1
  have h2 : roundTripsEqn witnessTimesPlus = false := by decide +kernel
  rw [h2] at h1
  cases h1

/-- `$..[1]`: `R().Descent().Nth(1)` is written `$.[1]` and rejected -/
theorem descent_bracket_rejected :
    exprPrint false [.root, .descent, .nth 1] = [36, 46, 91, 49, 93] ∧
      parseExpr (exprPrint false [.root, .descent, .nth 1]) = none := by
  decide +kernel

/-! ## keys and string constants: the quoted form round-trips for ALL byte strings -/

/-- For every byte string `s` and whatever text follows: `AppendString(s, '\'')` starts with the quote,
and `readStr`, having consumed it, returns `sanitize s` (`s` with each byte that is not part of a valid
UTF-8 sequence replaced by U+FFFD, the known finding `C14-utf8`) and exactly the text that follows.
Reads `Gen.Jp.jMap` and `Gen.Jp.hex` (256 cells checked by kernel evaluation inside the proof). -/
theorem quoted_roundtrip (s rest : Bytes) :
    ∃ t, appendString s 39 ++ rest = 39 :: t ∧ readStr 39 t = some (sanitize s.length s, rest) :=
  readStr_appendString s rest

/-- … and it is `s` itself when `s` is valid UTF-8 -/
theorem quoted_roundtrip_valid (s rest : Bytes) (h : utf8Ok s = true) :
    ∃ t, appendString s 39 ++ rest = 39 :: t ∧ readStr 39 t = some (s, rest) :=
  readStr_appendString_valid s rest h

/-- not vacuous, and the excluded class is real: `"\xff"` is written `'\ufffd'` -/
example : utf8Ok [97, 0xC3, 0xA9, 39, 92, 10] = true ∧ utf8Ok [0xFF] = false ∧
    appendString [0xFF] 39 = [39, 92, 117, 102, 102, 102, 100, 39] := by decide +kernel

/-! ## indexes: decimal text round-trips for every int64 -/

/-- `readInt` (Go wrap-around arithmetic) reads `strconv.FormatInt(i, 10)` back as `i`, for every
int64 `i` and every non-digit follower `c`, which it consumes and returns -/
theorem int_roundtrip (i : Int) (hi : inInt64 i = true) (c : UInt8) (rest : Bytes) (hc : isDigit c = false) :
    ∃ d ds, fmtInt i = d :: ds ∧ (d = 45 ∨ isDigit d = true) ∧ readInt d (ds ++ c :: rest) = some (i, c, rest) :=
  readInt_fmtInt i hi c rest hc

/-- `Nth.Append` is `FormatInt` between brackets except at the least integer (`C14-nth-minint`) -/
theorem nth_text (i : Int) (hi : inInt64 i = true) (hm : i ≠ minInt) : nthPrint i = 91 :: (fmtInt i ++ [93]) :=
  nthPrint_eq i hi hm

theorem nth_minint_garbage : nthPrint minInt =
    [91, 45, 39, 46, 46, 45, 45, 41, 46, 48, 45, 42, 40, 43, 44, 41, 41, 43, 40, 48, 40, 93] := by decide +kernel

/-! ## expressions without filter fragments: the partial form of C14, both text forms -/

/-- **C14, expressions, partial.** For every constructible expression `x` (`Frag.okL`) that has no
filter fragment and for which `Spec.lean` names no deviation in the text form `br` (`devsExpr br x = []`:
Root/At only in first position, a Descent only in dot form before a token child, a wildcard or the end,
unions of two or more members without quote/backslash, no `Nth(MinInt64)`, quoted keys valid UTF-8):
the printed text is accepted, the re-parsed expression prints identically, and it equals `x` up to the
normal form (evaluates identically). Root, At, children with ANY key bytes (dot or quoted form chosen by
the regenerated `tokenMap`), indexes, wildcards, descents, unions, slices of every shape. -/
theorem expr_roundtrip_partial (br : Bool) (x : Expr) (hok : Frag.okL x = true) (hnf : noFilter x = true)
    (hdev : devsExpr br x = []) :
    ∃ y, parseExpr (exprPrint br x) = some y ∧ exprPrint br y = exprPrint br x ∧ sameExpr y x = true := by
  have hc := cleanExpr_of_spec br x hok hnf hdev
  refine ⟨imgL br x, parseExpr_print br x hc, exprPrint_imgL br x hc, ?_⟩
  simp [sameExpr, imgL_normL]

theorem expr_roundtrip_bool (br : Bool) (x : Expr) (hok : Frag.okL x = true) (hnf : noFilter x = true)
    (hdev : devsExpr br x = []) : roundTripsExpr br x = true :=
  roundTripsExpr_clean br x (cleanExpr_of_spec br x hok hnf hdev)

/-- the hypotheses hold for `$.a['b c'][3]..*[1:5:2]['x',-1]` (dot form) and `$['a'][*]` (bracket form) -/
example : Frag.okL [.root, .child [97], .child [98, 32, 99], .nth 3, .descent, .wild false, .slice [1, 5, 2],
      .union [.key [120], .idx (-1)]] = true ∧
    noFilter [.root, .child [97], .child [98, 32, 99], .nth 3, .descent, .wild false, .slice [1, 5, 2],
      .union [.key [120], .idx (-1)]] = true ∧
    devsExpr false [.root, .child [97], .child [98, 32, 99], .nth 3, .descent, .wild false, .slice [1, 5, 2],
      .union [.key [120], .idx (-1)]] = [] ∧
    devsExpr true [.root, .child [97], .wild false] = [] := by decide +kernel

/-! ## evaluation order: every pair and triple of operators, every nesting shape

For every equation tree with one or two operator nodes over `Not` and all 19 binary constructors
(`Eq … Regex`, `Match`, `Search`), and every tree with three operator nodes over `Not` and one binary
constructor per precedence level (plus `-` and `match`), each of `Equation.String`, `Script.String`,
`Filter.String` is read back to the same template, and printed identically, EXACTLY when `Spec.lean`
names no deviation for that form (`devsEqn`, `devsScript`, `devsFilter`). Kernel evaluation of the
printer and parser models over the regenerated operator table and byte tables. -/

theorem prec_pairs_exact :
    ((pairsATrees ++ pairsBTrees).all fun s => devsExact s.eqn) = true := by
  rw [List.all_append, pairsA_exact, pairsB_exact]; rfl

theorem prec_triples_exact :
    ((triplesATrees ++ triplesBTrees ++ triplesCTrees).all fun s => devsExact s.eqn) = true := by
  rw [List.all_append, List.all_append, triplesA_exact, triplesB_exact, triplesC_exact]; rfl

/-- expressions that CARRY a filter: `$.list[?(e)].x` for every equation tree `e` with one or two operator
nodes over `Not` and all 19 binary constructors, leaves alternating between a path `@.a` and an integer:
`String()` and `BracketString()` are read back (nested `readExpr` inside `readEq` inside `readExpr`) to the same
expression and printed identically EXACTLY when `devsExpr` names no deviation for that text form -/
theorem filter_expr_pairs_exact : (filterExprTrees.all fun s => devsExactExpr s.filterExpr) = true :=
  filterExpr_exact

/-- the partial form over the small trees: no named deviation ⇒ all three forms round-trip -/
theorem prec_small_partial (s : Shape)
    (hs : s ∈ pairsATrees ++ pairsBTrees ++ (triplesATrees ++ triplesBTrees ++ triplesCTrees))
    (hE : devsEqn s.eqn = []) (hS : devsScript s.eqn = []) (hF : devsFilter s.eqn = []) :
    roundTripsEqn s.eqn = true ∧ roundTripsScript s.eqn = true ∧ roundTripsFilter s.eqn = true := by
  have key : devsExact s.eqn = true := by
    rcases List.mem_append.mp hs with h | h
    · exact List.all_eq_true.mp prec_pairs_exact s h
    · exact List.all_eq_true.mp prec_triples_exact s h
  simp only [devsExact, hE, hS, hF, List.isEmpty_nil, Bool.and_eq_true, beq_iff_eq] at key
  exact ⟨key.1.1.symm, key.1.2.symm, key.2.symm⟩

/-- the hypotheses are not vacuous: `(2 * 3) + 4` has no deviation in any form … -/
example : devsEqn (Shape.bin Gen.JpOps.op_add (.bin Gen.JpOps.op_mult .leaf .leaf) .leaf).eqn = [] ∧
    devsScript (Shape.bin Gen.JpOps.op_add (.bin Gen.JpOps.op_mult .leaf .leaf) .leaf).eqn = [] := by
  decide +kernel

/-- … and the deviations are exactly the advertised ones on the witnesses -/
example : devsEqn witnessTimesPlus = [.equationParens] ∧ devsScript witnessTimesPlus = [] ∧
    devsScript witnessMinusMinus = [.equalPrec] := by
  decide +kernel

end OjgVerif.C14
