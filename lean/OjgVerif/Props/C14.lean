import OjgVerif.JPText.PrecPairsA
import OjgVerif.JPText.PrecPairsB
import OjgVerif.JPText.PrecTriplesA
import OjgVerif.JPText.PrecTriplesB
import OjgVerif.JPText.PrecTriplesC
import OjgVerif.JPText.LemmasExpr
import OjgVerif.JPText.PrecFilterExpr
import OjgVerif.JPText.LemmasPrec
import OjgVerif.JPText.LemmasEqn
/-! # C14 — JSONPath and script text forms round-trip

Model: `JPText/Print.lean` (the printers), `JPText/Parse.lean` (jp/parse.go), over the regenerated
`Gen.Jp.tokenMap/jMap/eqMap/hex/maxEnd` and `Gen.JpOps` (the operator table of jp/script.go).
Statement of the property on the model: `JPText/Spec.lean` (`roundTrips*`, the normal form, `Dev`).

The pinned tree violated C14 in thirteen ways; eleven are repaired in /repo (commits e6c1ad4 d27ad83
9a26786 cd355fe 32b7b46 fe63c88 c107b3b bc70af1 4af356a b3b14ce) and the model follows them. Two
classes of constructible objects have no text form in the grammar and no repair (`Dev.noTextForm`,
`Dev.regexText`): the property at full strength is still false (`C14_full_false`), what is proved
excludes exactly those. -/
namespace OjgVerif.C14
open OjgVerif OjgVerif.JPText

/-! ## the operator table the proofs were made for -/

/-- names, codes, precedence numbers and arities of jp/script.go, as regenerated -/
theorem ops_pinned :
    Gen.JpOps.all.map (fun p => (p.1, p.2.name, p.2.code, p.2.prec, p.2.cnt)) =
      [("eq", [61, 61], 61, 3, 2), ("neq", [33, 61], 110, 3, 2), ("lt", [60], 60, 3, 2), ("gt", [62], 62, 3, 2),
       ("lte", [60, 61], 108, 3, 2), ("gte", [62, 61], 103, 3, 2), ("or", [124, 124], 124, 4, 2),
       ("and", [38, 38], 38, 4, 2), ("not", [33], 33, 0, 1), ("add", [43], 43, 2, 2), ("sub", [45], 45, 2, 2),
       ("mult", [42], 42, 1, 2), ("divide", [47], 47, 1, 2), ("get", [103, 101, 116], 71, 0, 1),
       ("in", [105, 110], 105, 3, 2), ("empty", [101, 109, 112, 116, 121], 101, 3, 2), ("rx", [126, 61], 126, 3, 2),
       ("rxa", [61, 126], 126, 3, 2), ("has", [104, 97, 115], 104, 3, 2),
       ("exists", [101, 120, 105, 115, 116, 115], 120, 3, 2), ("length", [108, 101, 110, 103, 116, 104], 76, 0, 1),
       ("count", [99, 111, 117, 110, 116], 67, 0, 1), ("match", [109, 97, 116, 99, 104], 77, 0, 2),
       ("search", [115, 101, 97, 114, 99, 104], 83, 0, 2), ("group", [40], 40, 0, 1)] := by
  decide

/-- every name the parser can look up maps to the operator that prints that name, except the alias
`=~`, which maps to `~=` -/
theorem opMap_names :
    (Gen.JpOps.opMap.all fun kv => kv.1 == kv.2.name || (kv.1 == [61, 126] && kv.2 == Gen.JpOps.op_rx)) = true := by
  decide

/-! ## the property at full strength, and its refutation on the pinned tree -/

/-- C14 on the model: every constructible expression round-trips in both text forms, every
constructible equation in its three text forms -/
def C14_full : Prop :=
  (∀ (br : Bool) (x : Expr), Frag.okL x = true → roundTripsExpr br x = true) ∧
  (∀ e : Eqn, e.ok = true → roundTripsEqn e = true ∧ roundTripsScript e = true ∧ roundTripsFilter e = true)

/-- `2 * (3 + 4)` built with `Multiply(ConstInt(2), Add(ConstInt(3), ConstInt(4)))` -/
def witnessTimesPlus : Eqn :=
  .bin Gen.JpOps.op_mult (.val (.int 2)) (.bin Gen.JpOps.op_add (.val (.int 3)) (.val (.int 4)))

/-- `2 - (3 - 4)` -/
def witnessMinusMinus : Eqn :=
  .bin Gen.JpOps.op_sub (.val (.int 2)) (.bin Gen.JpOps.op_sub (.val (.int 3)) (.val (.int 4)))

/-- `Equation.String` writes `(2 * (3 + 4))`. Before e6c1ad4 it wrote `(2 * 3 + 4)`, which was the
witness of `C14_full_false` (finding C14-equation-parens, fixed). -/
theorem witness_equation_text :
    eqnString witnessTimesPlus = some [40, 50, 32, 42, 32, 40, 51, 32, 43, 32, 52, 41, 41] ∧
      roundTripsEqn witnessTimesPlus = true := by
  decide +kernel

/-- `Script.String` writes `(2 - (3 - 4))`. Before d27ad83 it wrote `(2 - 3 - 4)`, read back as
`(2 - 3) - 4` (finding C14-equal-prec, fixed). -/
theorem witness_script_text :
    scriptPrint witnessMinusMinus.script = [40, 50, 32, 45, 32, 40, 51, 32, 45, 32, 52, 41, 41] ∧
      roundTripsScript witnessMinusMinus = true := by
  decide +kernel

/-- `R().Descent().Nth(1)` is written `$..[1]` and read back. Before bc70af1 it was written `$.[1]` and
rejected (finding C14-descent, fixed). -/
theorem descent_bracket_accepted :
    exprPrint false [.root, .descent, .nth 1] = [36, 46, 46, 91, 49, 93] ∧
      roundTripsExpr false [.root, .descent, .nth 1] = true ∧ roundTripsExpr true [.root, .descent, .nth 1] = true := by
  decide +kernel

/-- the property at full strength is still false: `R().Root()` is constructible, prints `$$`, and that
is read as `$` (known finding C14-no-text-form: the grammar has no text for a Root after the first
fragment) -/
theorem C14_full_false : ¬ C14_full := by
  intro h
  have h1 := h.1 false [.root, .root] (by decide)
  have h2 : roundTripsExpr false [.root, .root] = false := by decide +kernel
  rw [h2] at h1
  cases h1

/-! ## keys, union members and string constants: the quoted form round-trips for ALL byte strings -/

/-- For every byte string `s` — valid UTF-8 or not, since c107b3b — and whatever text follows:
`AppendString(s, '\'')` starts with the quote, and `readStr`, having consumed it, returns `s` and exactly
the text that follows. Reads `Gen.Jp.jMap` and `Gen.Jp.hex` (256 cells checked by kernel evaluation inside
the proof). Before c107b3b an undecodable byte came back as U+FFFD (finding C14-utf8, fixed). -/
theorem quoted_roundtrip (s rest : Bytes) :
    ∃ t, appendString s 39 ++ rest = 39 :: t ∧ readStr 39 t = some (s, rest) :=
  readStr_appendString s rest

/-- `"\xff"` is written `'\xff'` -/
example : appendString [0xFF] 39 = [39, 92, 120, 102, 102, 39] := by decide +kernel

/-! ## indexes: decimal text round-trips for every int64 -/

/-- `readInt` (Go wrap-around arithmetic) reads `strconv.FormatInt(i, 10)` back as `i`, for every
int64 `i` and every non-digit follower `c`, which it consumes and returns -/
theorem int_roundtrip (i : Int) (hi : inInt64 i = true) (c : UInt8) (rest : Bytes) (hc : isDigit c = false) :
    ∃ d ds, fmtInt i = d :: ds ∧ (d = 45 ∨ isDigit d = true) ∧ readInt d (ds ++ c :: rest) = some (i, c, rest) :=
  readInt_fmtInt i hi c rest hc

/-- `Nth.Append` is `FormatInt` between brackets, for every index; before 4af356a `Nth(MinInt64)` printed
`[-'..--).0-*(+,))+(0(]` (finding C14-nth-minint, fixed) -/
theorem nth_text (i : Int) : nthPrint i = 91 :: (fmtInt i ++ [93]) := nthPrint_eq i

/-! ## expressions without filter fragments: C14 in both text forms -/

/-- **C14, expressions.** For every constructible expression `x` (`Frag.okL`) that has no filter fragment
and for which `Spec.lean` names no deviation (`devsExpr br x = []`: no Root/At after the first position,
no union of fewer than two members — the objects without a text form), in BOTH text forms: the printed text
is accepted, the re-parsed expression prints identically, and it equals `x` up to the normal form
(evaluates identically). Root, At, children with ANY key bytes (dot or quoted form chosen by the
regenerated `tokenMap`), every int64 index, wildcards, descents anywhere (`..` / `[..]`), unions with any
member bytes, slices of every shape. -/
theorem expr_roundtrip_partial (br : Bool) (x : Expr) (hok : Frag.okL x = true) (hnf : noFilter x = true)
    (hdev : devsExpr br x = []) :
    ∃ y, parseExpr (exprPrint br x) = some y ∧ exprPrint br y = exprPrint br x ∧ sameExpr y x = true := by
  have hc := cleanExpr_of_spec br x hok hnf hdev
  refine ⟨imgL br x, parseExpr_print br x hc, exprPrint_imgL br x hc, ?_⟩
  simp [sameExpr, imgL_normL]

theorem expr_roundtrip_bool (br : Bool) (x : Expr) (hok : Frag.okL x = true) (hnf : noFilter x = true)
    (hdev : devsExpr br x = []) : roundTripsExpr br x = true :=
  roundTripsExpr_clean br x (cleanExpr_of_spec br x hok hnf hdev)

/-- the hypotheses hold for `$.a['b c']['\xff'][3]..[-9223372036854775808]..*[1:5:2]['it\'s',-1]..` -/
example : Frag.okL [.root, .child [97], .child [98, 32, 99], .child [0xFF], .nth 3, .descent, .nth minInt, .descent,
      .wild false, .slice [1, 5, 2], .union [.key [105, 116, 39, 115], .idx (-1)], .descent] = true ∧
    noFilter [.root, .child [97], .child [98, 32, 99], .child [0xFF], .nth 3, .descent, .nth minInt, .descent,
      .wild false, .slice [1, 5, 2], .union [.key [105, 116, 39, 115], .idx (-1)], .descent] = true ∧
    devsExpr true [.root, .child [97], .child [98, 32, 99], .child [0xFF], .nth 3, .descent, .nth minInt, .descent,
      .wild false, .slice [1, 5, 2], .union [.key [105, 116, 39, 115], .idx (-1)], .descent] = [] := by decide +kernel

/-! ## evaluation order: every pair and triple of operators, every nesting shape

For every equation tree with one or two operator nodes over `Not` and all 19 binary constructors
(`Eq … Regex`, `Match`, `Search`), and every tree with three operator nodes over `Not` and one binary
constructor per precedence level (plus `-` and `match`), each of `Equation.String`, `Script.String`,
`Filter.String` is read back to the same template and printed identically — with NO exception (before
e6c1ad4, d27ad83, 9a26786, cd355fe: exactly when no deviation was named). Kernel evaluation of the printer
and parser models over the regenerated operator table and byte tables. -/

def allThree (e : Eqn) : Bool := roundTripsEqn e && roundTripsScript e && roundTripsFilter e

theorem devsExact_allThree (e : Eqn) (h : devsExact e = true) (hE : devsEqn e = []) (hS : devsScript e = [])
    (hF : devsFilter e = []) : allThree e = true := by
  simp only [devsExact, hE, hS, hF, List.isEmpty_nil, Bool.and_eq_true, beq_iff_eq] at h
  simp [allThree, ← h.1.1, ← h.1.2, ← h.2]

theorem prec_pairs_exact :
    ((pairsATrees ++ pairsBTrees).all fun s => devsExact s.eqn) = true := by
  rw [List.all_append, pairsA_exact, pairsB_exact]; rfl

theorem prec_triples_exact :
    ((triplesATrees ++ triplesBTrees ++ triplesCTrees).all fun s => devsExact s.eqn) = true := by
  rw [List.all_append, List.all_append, triplesA_exact, triplesB_exact, triplesC_exact]; rfl

/-- **all three text forms of every small tree round-trip** (unconditionally: the trees' deviation lists are
empty, checked with them) -/
theorem prec_small_all :
    ((pairsATrees ++ pairsBTrees ++ (triplesATrees ++ triplesBTrees ++ triplesCTrees)).all fun s =>
      allThree s.eqn) = true := by
  simp only [allThree]
  rw [List.all_append, List.all_append, List.all_append, List.all_append, pairsA_all, pairsB_all, triplesA_all,
    triplesB_all, triplesC_all]; rfl

/-- expressions that CARRY a filter: `$.list[?(e)].x` for every equation tree `e` with one or two operator
nodes over `Not` and all 19 binary constructors, leaves alternating between a path `@.a` and an integer:
`String()` and `BracketString()` are read back (nested `readExpr` inside `readEq` inside `readExpr`) to the same
expression and printed identically -/
theorem filter_expr_pairs_all :
    (filterExprTrees.all fun s => roundTripsExpr false s.filterExpr && roundTripsExpr true s.filterExpr) = true :=
  filterExpr_all

/-! ## evaluation order, trees of ANY size: the precedence-correction pass undoes the reader's flattening -/

/-- **`precedentCorrect`, all trees.** `readEq` reads `a0 o1 a1 o2 a2 …` into one right-nested chain
whatever the operators are (`chainify`: that flattening, at every depth — inside parentheses, `!`, call
arguments). For EVERY properly parenthesised tree `g` of any size and any operators (`Eqn.pd`: each infix
node binds at least as loosely as its left operand and strictly more loosely than its right operand, a
parenthesis being a `group` node; calls and `!` have precedence number 0 as in the regenerated table),
`precedentCorrect`, run with the fuel the entry points use, returns exactly `g`: the grouping the
printers' parentheses express is the grouping the parser reconstructs. By induction (rotation lemma,
chain lemma, uniqueness of the properly parenthesised tree of a token sequence); no enumeration. -/
theorem prec_correct_general (g : Eqn) (hp : g.pd = true) :
    precCorrect (precFuel (chainify g)) (chainify g) = some g :=
  precCorrect_chainify g hp

/-- `(1 + 2 * 3 - (4 - 5)) && !(6 || 7)` is properly parenthesised; its flattening is one chain -/
example : Eqn.pd (.bin Gen.JpOps.op_and
      (.bin Gen.JpOps.op_sub
        (.bin Gen.JpOps.op_add (.val (.int 1)) (.bin Gen.JpOps.op_mult (.val (.int 2)) (.val (.int 3))))
        (.un Gen.JpOps.op_group (.bin Gen.JpOps.op_sub (.val (.int 4)) (.val (.int 5)))))
      (.un Gen.JpOps.op_not (.un Gen.JpOps.op_group (.bin Gen.JpOps.op_or (.val (.int 6)) (.val (.int 7)))))) = true := by
  decide

/-! ## equations of ANY size: `Equation.String` is read back by `MustParseEquation` -/

/-- **C14, `Equation.String`, all sizes.** For EVERY equation `e` built from `Not` and the 19 binary
constructors (`Eq … Regex`, `Match`, `Search`; any nesting, any size) over int64, boolean, null, Nothing
and string constants (any bytes): `Equation.String` succeeds, `MustParseEquation` accepts the text and
returns `Eqn.paren e` — `e` with a `group` node exactly where the printer wrote a parenthesis, the outermost
excepted —, which prints identically and has the same script template up to `group` operators (evaluates
identically). Proved by induction through `readEq`, `precedentCorrect` (`prec_correct_general`) and
`reduceGroups`; no enumeration, no exception in this class.

`…_partial`: excluded (covered by the finite boxes above and the correspondence run only) are equations
with `Get`/`Length`/`Count` nodes (path operands), float, list and regex constants; the full statement is
the second half of `C14_full`. -/
theorem eqn_roundtrip_partial (e : Eqn) (h : e.okS = true) :
    ∃ s, eqnString e = some s ∧ parseEquation s = some e.paren ∧ eqnString e.paren = some s ∧
      sameTemplate e.paren.build e.build = true := by
  obtain ⟨s, h1, h2⟩ := parseEquation_print e h
  exact ⟨s, h1, h2, by rw [← h1]; exact print_paren_self e h true, sameTemplate_of_normL (normL_build_paren e h)⟩

theorem eqn_roundtrip_bool (e : Eqn) (h : e.okS = true) : roundTripsEqn e = true := roundTripsEqn_okS e h

/-- the class is inside the constructible equations -/
theorem okS_ok : ∀ e : Eqn, e.okS = true → e.ok = true := by
  intro e
  induction e with
  | val v => intro h; cases v <;> simp_all [Eqn.okS, Eqn.ok, Val.simple, Val.ok]
  | un o l ih =>
    intro h
    simp only [Eqn.okS, Bool.and_eq_true, beq_iff_eq] at h
    simp [Eqn.ok, h.1, ih h.2]
  | bin o l r ihl ihr =>
    intro h
    simp only [Eqn.okS, Bool.and_eq_true] at h
    simp only [Eqn.ok, h.1, ihl h.2.1, ihr h.2.2, Bool.and_self]

/-- the hypothesis holds for `!(1 - (2 - 'a\xff')) && match(null, true || false) ~= Nothing` -/
example : Eqn.okS (.bin Gen.JpOps.op_and
    (.un Gen.JpOps.op_not (.bin Gen.JpOps.op_sub (.val (.int 1)) (.bin Gen.JpOps.op_sub (.val (.int 2)) (.val (.str [97, 0xFF])))))
    (.bin Gen.JpOps.op_rx (.bin Gen.JpOps.op_match (.val .null) (.bin Gen.JpOps.op_or (.val (.bool true)) (.val (.bool false))))
      (.val .nothing))) = true := by decide

end OjgVerif.C14
