import OjgVerif.JPMut.LemmasFrame
import OjgVerif.JPMut.LemmasOne
import OjgVerif.JPMut.LemmasAll
import OjgVerif.JPMut.LemmasCurrent
import OjgVerif.Gen.JpMutFacts
/-! # C13 — Path mutations touch exactly the selected locations

The statements are about the models of `Expr.set` / `Expr.modify` / the fragments' `remove` methods
(lean/OjgVerif/JPMut/Model.lean, tied to jp/set.go, modify.go, remove.go, slice.go, union.go, … by the
correspondence run of harness/cmd/jpmut) and the specification lean/OjgVerif/JPMut/Spec.lean, whose
selected locations are those of the shared path denotation `JPath.eval` (what Get returns).

* `C13_full dev` — the property at full strength for the model with deviation set `dev`: every mutator, every path,
  all/One, simple and gen data. `C13_full_false` — it is FALSE for the code as it is (`Dev.current`): the mutators read
  a slice end as inclusive (pinned by the suite; `witness_sliceInclusive`), and a location selected twice is worked
  through twice (`witness_repeated`).
* What IS proved about the code as it is, in decreasing order of strength of hypotheses needed — all of it ONLY for
  paths WITHOUT recursive descent, all matches (not the One forms), simple data with unique member names, and ONLY for
  calls that report no error (`… = .ok d'`):
  - `C13_incl` — the full description of the current code, every slice: Set/Del/Modify/Remove leave exactly the tree
    edited at the locations the path selects when slices are read INCLUSIVELY (`expectedG inclIdx`; hit/frame:
    `modify_incl_hit`, `modify_incl_frame`; Modify and Remove cannot report an error: `modify_incl`, `remove_incl`).
    Only hypothesis besides the above: no union lists a member of a visited value twice (`UnionsClean`). Where the
    inclusive and the exclusive reading differ this is not what the property demands but what the code does.
  - `C13_current` — the PROPERTY (exclusive reading, Get's) for the current code on CLEAN paths: `CleanPath` = no repeated
    union member and, on every array a slice meets, both readings select the same indexes. A slice with an explicit end
    inside the array (`[0:2]` on three elements — the ordinary case) is NOT clean; see the checked examples.
  - `C13_partial` (= `set_eq`, `del_eq`, `modify_eq`, `remove_eq` with `set_hit`, `set_frame`, `del_frame`,
    `del_gone_key`, `del_null_idx`, `modify_hit`, `modify_frame`, `remAll_gone_key`, `remArr_shift`, `remArr_length`) —
    the same statement for ANY deviation set `dev` and ANY reading `σ` of slices that selects no index twice, under the
    hypotheses `GoodPath σ dev` / `RemPath σ dev` (the code's slice arithmetic agrees with `σ` on the arrays met, no
    repeated union member, and the flag-guarded cases). `C13_incl` and `C13_current` are its instances.
* `witness_*_before` — one kernel-evaluated witness per REPAIRED deviation (model `Dev.before`), with the verdict of the
  model with that deviation off. `current_is_source` — regression tripwires over the patched lines: nine booleans that
  tools/extract/jpmut.go computes by matching the shape of the patched source lines, `decide`d against `Dev.current`;
  undoing a repair breaks the theorem; it is not a semantic tie (that is the correspondence run).
* `one_set`, `one_modify`, `one_remove` — the One forms, every path (descent and filters included), every deviation set,
  simple and gen data, whatever is reported: AT MOST ONE member of one container is written, added or deleted
  (`OneChange`; for Set/Del with `QAny := True`, i.e. nothing is said about the new content). They do NOT say that this
  member is a SELECTED location holding the new value — that is checked by the oracle of the run only.
* `reported_*` — error-not-fault for every path: with `genUnionOOB` off (so for `Dev.current`: `reported_current`) no
  entry point ends in a run-time fault; Modify/Remove never do.
* `gen_*`, `gen_current` — with `genUnionOOB` / `genModifyNil` off the model on gen data is the model on simple data.
  Near-definitional (the model consults `gen` only in `gen && flag`); the behaviour of the real code on gen data is
  compared with simple data by the run.
-/
namespace OjgVerif.C13
open OjgVerif OjgVerif.JPath OjgVerif.JPMut

/-! ## the property at full strength -/

/-- what the property demands of the outcome of a mutation -/
def Holds (op : Op) (one : Bool) (x : List Frag) (d : JV) : Out → Prop
  | .ok d' => if one then OneOK x d d' op else d' = expected x d op
  | .err _ d' => Frame (frameSet x d op) d d'
  | .fault _ => False
  | .unmodelled => False

/-- C13 for the model with deviation set `dev`, on data whose objects have unique member names -/
def C13_full (dev : Dev) : Prop :=
  ∀ (gen one : Bool) (op : Op) (x : List Frag) (d : JV), WF d → Holds op one x d (runModel gen dev one x d op)

/-! ## refutation witnesses: one per deviation

`witness_sliceInclusive` and `witness_repeated` are about the code as it is. The `witness_*_before` theorems are the
record of the eight repaired defects: they speak about `Dev.before`, the model of the code before /repo 18e5d18
076ef8c a7f7cdd 0eb0265 f263838 99212c8 52aa03a (observed behaviour then, specification, model with the flag off). -/

def ints (l : List Int) : JV := .arr (l.map JV.int)
def kA : Bytes := [97]
def kB : Bytes := [98]
def objA (i : Int) : JV := .obj [(kA, .int i)]
def inc : Modifier := fun v => match v with | .int i => (.int (i + 1), true) | _ => (v, false)

/-- sliceInclusive: `Remove $[1:3]` on `[0,1,2,3,4,5]` removes three elements (pinned: remove_test.go) -/
theorem witness_sliceInclusive :
    removeM false Dev.current false [.slice (some 1) (some 3) none] (ints [0, 1, 2, 3, 4, 5]) = .ok (ints [0, 4, 5]) ∧
    removeSpec [.slice (some 1) (some 3) none] (ints [0, 1, 2, 3, 4, 5]) = ints [0, 3, 4, 5] ∧
    removeM false { Dev.current with sliceInclusive := false } false [.slice (some 1) (some 3) none] (ints [0, 1, 2, 3, 4, 5])
      = .ok (ints [0, 3, 4, 5]) := ⟨by rfl, by rfl, by rfl⟩

/-- removeStepEnd: `Remove $[4:1:-2]` removes 1 and 3 where Get (and Modify) select 4 and 2 -/
theorem witness_removeStepEnd_before :
    removeM false Dev.before false [.slice (some 4) (some 1) (some (-2))] (ints [0, 1, 2, 3, 4, 5]) = .ok (ints [0, 2, 4, 5]) ∧
    removeSpec [.slice (some 4) (some 1) (some (-2))] (ints [0, 1, 2, 3, 4, 5]) = ints [0, 1, 3, 5] ∧
    removeM false { Dev.before with removeStepEnd := false } false [.slice (some 4) (some 1) (some (-2))] (ints [0, 1, 2, 3, 4, 5])
      = .ok (ints [0, 1, 3, 5]) := ⟨by rfl, by rfl, by rfl⟩

/-- setEmptySlice: `Set $[3:1:5].a` visits element 3 although the range is empty -/
theorem witness_setEmptySlice_before :
    setM false Dev.before false (.val (.int 9)) [.slice (some 3) (some 1) (some 5), .child kA] (.arr [objA 0, objA 1, objA 2, objA 3])
      = .ok (.arr [objA 0, objA 1, objA 2, objA 9]) ∧
    setSpec [.slice (some 3) (some 1) (some 5), .child kA] (.int 9) (.arr [objA 0, objA 1, objA 2, objA 3])
      = .arr [objA 0, objA 1, objA 2, objA 3] ∧
    setM false { Dev.before with setEmptySlice := false } false (.val (.int 9)) [.slice (some 3) (some 1) (some 5), .child kA]
      (.arr [objA 0, objA 1, objA 2, objA 3]) = .ok (.arr [objA 0, objA 1, objA 2, objA 3]) := ⟨by rfl, by rfl, by rfl⟩

/-- descentSiblings: `Set $[*]..a` descends into the first element only -/
theorem witness_descentSiblings_before :
    setM false Dev.before false (.val (.int 9)) [.wild, .descent, .child kA] (.arr [.arr [objA 1], .arr [objA 1]])
      = .ok (.arr [.arr [objA 9], .arr [objA 1]]) ∧
    setSpec [.wild, .descent, .child kA] (.int 9) (.arr [.arr [objA 1], .arr [objA 1]]) = .arr [.arr [objA 9], .arr [objA 9]] ∧
    setM false { Dev.before with descentSiblings := false } false (.val (.int 9)) [.wild, .descent, .child kA]
      (.arr [.arr [objA 1], .arr [objA 1]]) = .ok (.arr [.arr [objA 9], .arr [objA 9]]) := ⟨by rfl, by rfl, by rfl⟩

/-- removeUnionNeg: `Remove $['c',-1]` on `[4,null,4,2]` removes nothing -/
theorem witness_removeUnionNeg_before :
    removeM false Dev.before false [.union [.key [99], .idx (-1)]] (.arr [.int 4, .null, .int 4, .int 2])
      = .ok (.arr [.int 4, .null, .int 4, .int 2]) ∧
    removeSpec [.union [.key [99], .idx (-1)]] (.arr [.int 4, .null, .int 4, .int 2]) = .arr [.int 4, .null, .int 4] ∧
    removeM false { Dev.before with removeUnionNeg := false } false [.union [.key [99], .idx (-1)]]
      (.arr [.int 4, .null, .int 4, .int 2]) = .ok (.arr [.int 4, .null, .int 4]) := ⟨by rfl, by rfl, by rfl⟩

/-- genUnionOOB: `Set $[5,6]` on the gen array `[1,2]` panics (index out of range); on simple data nothing happens -/
theorem witness_genUnionOOB_before :
    setM true Dev.before false (.val (.int 9)) [.union [.idx 5, .idx 6]] (ints [1, 2]) = .fault (ints [1, 2]) ∧
    setM false Dev.before false (.val (.int 9)) [.union [.idx 5, .idx 6]] (ints [1, 2]) = .ok (ints [1, 2]) ∧
    setM true { Dev.before with genUnionOOB := false } false (.val (.int 9)) [.union [.idx 5, .idx 6]] (ints [1, 2])
      = .ok (ints [1, 2]) := ⟨by rfl, by rfl, by rfl⟩

/-- genModifyNil: a modifier that returns null is an error on gen data, stores null on simple data -/
theorem witness_genModifyNil_before :
    modifyM true Dev.before false (fun _ => (.null, true)) [.nth 0] (ints [1, 2]) = .err .notNode (ints [1, 2]) ∧
    modifyM false Dev.before false (fun _ => (.null, true)) [.nth 0] (ints [1, 2]) = .ok (.arr [.null, .int 2]) ∧
    modifyM true { Dev.before with genModifyNil := false } false (fun _ => (.null, true)) [.nth 0] (ints [1, 2])
      = .ok (.arr [.null, .int 2]) := ⟨by rfl, by rfl, by rfl⟩

/-- filterMapNil: Modify with a filter in last position on a map deletes the member when the modifier returns null -/
theorem witness_filterMapNil_before :
    modifyM false Dev.before false (fun _ => (.null, true)) [.filter fun v => match v with | .int i => decide (1 < i) | _ => false]
      (.obj [(kA, .int 1), (kB, .int 2)]) = .ok (.obj [(kA, .int 1)]) ∧
    modifySpec [.filter fun v => match v with | .int i => decide (1 < i) | _ => false] (fun _ => (.null, true))
      (.obj [(kA, .int 1), (kB, .int 2)]) = .obj [(kA, .int 1), (kB, .null)] ∧
    modifyM false { Dev.before with filterMapNil := false } false (fun _ => (.null, true))
      [.filter fun v => match v with | .int i => decide (1 < i) | _ => false]
      (.obj [(kA, .int 1), (kB, .int 2)]) = .ok (.obj [(kA, .int 1), (kB, .null)]) := ⟨by rfl, by rfl, by rfl⟩

/-- rootScalar: `Modify $` on the root 5 does not call the modifier -/
theorem witness_rootScalar_before :
    modifyM false Dev.before false inc [] (.int 5) = .ok (.int 5) ∧
    modifySpec [] inc (.int 5) = .int 6 ∧
    modifyM false { Dev.before with rootScalar := false } false inc [] (.int 5) = .ok (.int 6) := ⟨by rfl, by rfl, by rfl⟩

/-- delOneAbsent (the code before 42fe1d2): `DelOne $[*].a` on `[{"b":3},{"a":1}]` returns after the first object, which has
no `a`, and deletes nothing although `$[1].a` is selected; with the flag off (the code as it is) the member goes, as
with RemoveOne -/
theorem witness_delOneAbsent_before :
    setM false Dev.before true .del [.wild, .child kA] (.arr [.obj [(kB, .int 3)], objA 1]) = .ok (.arr [.obj [(kB, .int 3)], objA 1]) ∧
    locs [.wild, .child kA] (.arr [.obj [(kB, .int 3)], objA 1]) = [[.idx 1, .key kA]] ∧
    setM false { Dev.before with delOneAbsent := false } true .del [.wild, .child kA] (.arr [.obj [(kB, .int 3)], objA 1])
      = .ok (.arr [.obj [(kB, .int 3)], .obj []]) ∧
    setM false Dev.current true .del [.wild, .child kA] (.arr [.obj [(kB, .int 3)], objA 1]) = .ok (.arr [.obj [(kB, .int 3)], .obj []]) ∧
    removeM false Dev.current true [.wild, .child kA] (.arr [.obj [(kB, .int 3)], objA 1]) = .ok (.arr [.obj [(kB, .int 3)], .obj []]) :=
  ⟨by rfl, by rfl, by rfl, by rfl, by rfl⟩

/-- a location that is selected twice (a union that lists it twice): the modifier is applied twice. This is
not behind a deviation flag (the traversal works once per occurrence, as Get lists the element twice); it is
the excluded predicate `unionLocs … Nodup` of the theorems below. -/
theorem witness_repeated :
    modifyM false Dev.fixed false inc [.union [.idx 0, .idx 0]] (ints [1, 2]) = .ok (ints [3, 2]) ∧
    modifySpec [.union [.idx 0, .idx 0]] inc (ints [1, 2]) = ints [2, 2] ∧
    locs [.union [.idx 0, .idx 0]] (ints [1, 2]) = [[.idx 0], [.idx 0]] := ⟨by rfl, by rfl, by rfl⟩

/-- the property at full strength is false for the code as it is -/
theorem C13_full_false : ¬ C13_full Dev.current := by
  intro h
  have := h false false .rem [.slice (some 1) (some 3) none] (ints [0, 1, 2, 3, 4, 5]) (by simp [ints, WF, WFL])
  have e : expected [.slice (some 1) (some 3) none] (ints [0, 1, 2, 3, 4, 5]) .rem = ints [0, 3, 4, 5] := witness_sliceInclusive.2.1
  simp only [runModel, witness_sliceInclusive.1, Holds, Bool.false_eq_true, if_false, e] at this
  simp [ints] at this

/-! Everything in the next five sections is stated for an arbitrary reading `σ` of slices (`selG σ`, `locsG σ`,
`setSpecG σ`, …: the path denotation of JPath/Spec.lean with `σ` in the place of `sliceIdx`) that selects no index twice
(`NodupSlice σ`). `σ := sliceIdx` is the property (`locs`, `setSpec`, … are these instances); `σ := inclIdx`, the inclusive
reading the suite pins, gives the full description of the code as it is (`C13_incl` below). -/

variable {σ : SliceFn} [NodupSlice σ]

/-! ## the partial theorems: Modify -/

/-- Modify, all matches, simple data, a path without recursive descent: the returned tree is the input
with the modifier applied at exactly the selected locations (`updAll m.eff (locsG σ x d) d`) — for every
deviation set, outside the predicates excluded by `GoodPath σ` and the `$`-on-a-scalar case -/
theorem modify_eq (dev : Dev) (m : Modifier) (x : List Frag) (d : JV) (hnd : NoDescent x) (hw : WF d)
    (hg : GoodPath σ dev x d) (hroot : ¬ (x = [] ∧ dev.rootScalar = true ∧ isContainer d = false)) :
    modifyM false dev false m x d = .ok (modifySpecG σ x m d) :=
  modifyM_eq dev m x d hnd hw hg hroot

theorem isPrefixOf_same_length : ∀ (p q : Path), p.isPrefixOf q = true → p.length = q.length → p = q
  | [], [], _, _ => rfl
  | [], _ :: _, _, h => by simp at h
  | _ :: _, [], h, _ => by simp [List.isPrefixOf] at h
  | a :: p, b :: q, h, hl => by
    simp only [List.isPrefixOf, Bool.and_eq_true, beq_iff_eq] at h
    rw [h.1, isPrefixOf_same_length p q h.2 (by simpa using hl)]

/-- without descent every selected location is as long as the path -/
theorem locs_length : ∀ (x : List Frag), NoDescent x → ∀ (d : JV), WF d → ∀ p ∈ locsG σ x d, p.length = x.length
  | [], _, d, _, p, hp => by
    simp only [locs_nil, List.mem_singleton] at hp
    rw [hp]; rfl
  | f :: r, hnd, d, hw, p, hp => by
    obtain ⟨m, hm, q, hq, rfl⟩ := (mem_locs_cons (σ := σ) f r d p).1 hp
    obtain ⟨l, hl, hc⟩ := Shape_of (σ := σ) f d (hnd f (by simp)) (WF_top d hw) m hm
    have := locs_length r (fun g hg => hnd g (List.mem_cons_of_mem _ hg)) m.2 (WF_child l d m.2 hw hc) q hq
    simp [hl, this]

theorem alone_of_noDescent (x : List Frag) (hnd : NoDescent x) (d : JV) (hw : WF d) (p : Path) (hp : p ∈ locsG σ x d) :
    Alone (locsG σ x d) p := by
  intro p' hp' hc
  have h1 := locs_length x hnd d hw p hp
  have h2 := locs_length x hnd d hw p' hp'
  rcases hc with hc | hc
  · exact isPrefixOf_same_length p' p hc (by omega)
  · exact (isPrefixOf_same_length p p' hc (by omega)).symm

/-- hit: afterwards every selected location holds the modifier's result on what it held -/
theorem modify_hit (dev : Dev) (m : Modifier) (x : List Frag) (d d' : JV) (hnd : NoDescent x) (hw : WF d)
    (hg : GoodPath σ dev x d) (hroot : ¬ (x = [] ∧ dev.rootScalar = true ∧ isContainer d = false))
    (h : modifyM false dev false m x d = .ok d') : ∀ p ∈ locsG σ x d, valAt p d' = (valAt p d).map m.eff := by
  rw [modify_eq dev m x d hnd hw hg hroot] at h
  injection h with h
  subst h
  intro p hp
  exact updAll_hit m.eff p (locsG σ x d) d hp (alone_of_noDescent x hnd d hw p hp)

/-- frame: every location that is not at, above or below a selected location holds what it held -/
theorem modify_frame (dev : Dev) (m : Modifier) (x : List Frag) (d d' : JV) (hnd : NoDescent x) (hw : WF d)
    (hg : GoodPath σ dev x d) (hroot : ¬ (x = [] ∧ dev.rootScalar = true ∧ isContainer d = false))
    (h : modifyM false dev false m x d = .ok d') : Frame (locsG σ x d) d d' := by
  rw [modify_eq dev m x d hnd hw hg hroot] at h
  injection h with h
  subst h
  intro q hq
  exact updAll_frame m.eff q (locsG σ x d) d hq

/-- a non-trivial instance of the hypotheses: `$[*].a` on `[{"a":1},{"a":2}]`, the code as it is -/
example : NoDescent [.wild, .child kA] ∧ WF (.arr [objA 1, objA 2]) ∧ GoodPath σ Dev.current [.wild, .child kA] (.arr [objA 1, objA 2]) := by
  refine ⟨?_, ?_, ?_⟩
  · intro f hf; simp at hf; rcases hf with rfl | rfl <;> rfl
  · simp [WF, WFL, WFK, objA, keysOf]
  · refine ⟨trivial, ?_⟩
    intro m hm
    exact ⟨trivial, fun _ _ => trivial⟩

/-- and what the theorem then says there -/
example : modifyM false Dev.current false inc [.wild, .child kA] (.arr [objA 1, objA 2]) = .ok (.arr [objA 2, objA 3]) := by rfl

/-- for the code with every deviation repaired no slice is excluded -/
theorem goodAt_slice_fixed (s e t : Option Int) (c : JV) : GoodAt sliceIdx Dev.fixed (.slice s e t) c := by
  intro xs _
  simp [modIdx, Dev.fixed]

/-! ## the partial theorems: Remove -/

/-- Remove, all matches, simple data, a path without recursive descent: the returned tree is the input with
exactly the selected members removed (`remAll (locsG σ x d) d`) -/
theorem remove_eq (dev : Dev) (sx : List Frag) (f : Frag) (d : JV) (hnd : NoDescent (sx ++ [f])) (hw : WF d)
    (hg : GoodPath σ dev sx d) (hr : RemPath σ dev f sx d) :
    removeM false dev false (sx ++ [f]) d = .ok (removeSpecG σ (sx ++ [f]) d) :=
  removeM_eq dev sx f d hnd hw hg hr

theorem lookup_filter_none (k : Bytes) (q : Bytes × JV → Bool) : ∀ (kvs : List (Bytes × JV)),
    (∀ kv ∈ kvs, kv.1 = k → q kv = false) → lookup k (kvs.filter q) = none
  | [], _ => rfl
  | kv :: r, h => by
    simp only [List.filter]
    cases hq : q kv with
    | false => exact lookup_filter_none k q r (fun kv' h' => h kv' (List.mem_cons_of_mem _ h'))
    | true =>
      have hne : kv.1 ≠ k := fun e => by rw [h kv (by simp) e] at hq; cases hq
      simp only [lookup, hne, if_false]
      exact lookup_filter_none k q r (fun kv' h' => h kv' (List.mem_cons_of_mem _ h'))

/-- `remAll` on an object whose selected locations are one step long (the last level of Remove): a selected
member is gone -/
theorem remAll_gone_key (T : List Path) (hs : ∀ p ∈ T, ∃ l, p = [l]) (kvs : List (Bytes × JV)) (k : Bytes)
    (hk : [Loc.key k] ∈ T) : valAt [.key k] (remAll T (.obj kvs)) = none := by
  simp only [remAll, remObj_last T hs, valAt, child?]
  rw [lookup_filter_none]
  intro kv _ e
  simp [e, hk]

/-- the number of removed positions below `j`, counted from position `o` -/
def removedBefore (T : List Path) : Nat → Nat → Nat
  | _, 0 => 0
  | o, j + 1 => (if T.contains [Loc.idx o] then 1 else 0) + removedBefore T (o + 1) j

theorem removedBefore_le (T : List Path) : ∀ (j o : Nat), removedBefore T o j ≤ j
  | 0, _ => Nat.le_refl 0
  | j + 1, o => by
    simp only [removedBefore]
    have := removedBefore_le T j (o + 1)
    split <;> omega

/-- exact shifting: an element that is not removed ends up lower by exactly the number of removed elements
before it, holding what `remAll` makes of it -/
theorem remArr_shift (T : List Path) : ∀ (xs : List JV) (o j : Nat) (x : JV), xs[j]? = some x →
    T.contains [Loc.idx (o + j)] = false →
    (remArr T o xs)[j - removedBefore T o j]? = some (remAll (strip (.idx (o + j)) T) x)
  | [], _, _, _, h, _ => by simp at h
  | y :: r, o, 0, x, h, hn => by
    simp only [List.getElem?_cons_zero, Option.some.injEq] at h
    subst h
    simp only [Nat.add_zero] at hn
    simp only [remArr, hn, Bool.false_eq_true, if_false, removedBefore, Nat.sub_zero, List.getElem?_cons_zero, Nat.add_zero]
  | y :: r, o, j + 1, x, h, hn => by
    simp only [List.getElem?_cons_succ] at h
    have e : o + (j + 1) = o + 1 + j := by omega
    rw [e] at hn ⊢
    have ih := remArr_shift T r (o + 1) j x h hn
    have hle := removedBefore_le T j (o + 1)
    simp only [remArr, removedBefore]
    by_cases hc : T.contains [Loc.idx o] = true
    · simp only [hc, if_true]
      have : j + 1 - (1 + removedBefore T (o + 1) j) = j - removedBefore T (o + 1) j := by omega
      rw [this]; exact ih
    · simp only [hc, Bool.false_eq_true, if_false, Nat.zero_add]
      have : j + 1 - removedBefore T (o + 1) j = (j - removedBefore T (o + 1) j) + 1 := by omega
      rw [this, List.getElem?_cons_succ]; exact ih

/-- an element that is selected is not among the survivors: the result is shorter by the number removed -/
theorem remArr_length (T : List Path) : ∀ (xs : List JV) (o : Nat),
    (remArr T o xs).length = xs.length - removedBefore T o xs.length
  | [], _ => rfl
  | y :: r, o => by
    have ih := remArr_length T r (o + 1)
    have hle := removedBefore_le T r.length (o + 1)
    simp only [remArr, removedBefore, List.length_cons]
    by_cases hc : T.contains [Loc.idx o] = true
    · simp only [hc, if_true]; omega
    · simp only [hc, Bool.false_eq_true, if_false, List.length_cons]; omega

/-- a non-trivial instance of the hypotheses of `remove_eq`, the code as it is: `$[*][0]` on `[[1,2],[3]]` -/
example : NoDescent ([Frag.wild] ++ [.nth 0]) ∧ GoodPath σ Dev.current [.wild] (.arr [ints [1, 2], ints [3]]) ∧
    RemPath σ Dev.current (.nth 0) [.wild] (.arr [ints [1, 2], ints [3]]) := by
  refine ⟨?_, ⟨trivial, fun _ _ => trivial⟩, fun _ _ => trivial⟩
  intro f hf; simp at hf; rcases hf with rfl | rfl <;> rfl

example : removeM false Dev.current false [.wild, .nth 0] (.arr [ints [1, 2], ints [3]]) = .ok (.arr [ints [2], ints []]) := by rfl

/-! ## the partial theorems: Del -/

/-- Del, all matches, simple data, a path without recursive descent: if no error is reported the data afterwards
is the input with the selected object members gone and the selected array elements null (`delAll (locsG σ x d) d`) -/
theorem del_eq (dev : Dev) (x : List Frag) (d d' : JV) (hnd : NoDescent x) (hw : WF d) (hg : GoodPathS σ dev x d)
    (h : setM false dev false .del x d = .ok d') : d' = delSpecG σ x d :=
  delM_eq dev x d d' hnd hw hg h

/-- frame of Del: every location that is not at, above or below a selected location holds what it held -/
theorem del_frame (dev : Dev) (x : List Frag) (d d' : JV) (hnd : NoDescent x) (hw : WF d) (hg : GoodPathS σ dev x d)
    (h : setM false dev false .del x d = .ok d') : Frame (locsG σ x d) d d' := by
  rw [del_eq dev x d d' hnd hw hg h]
  intro q hq
  exact delAll_frame q (locsG σ x d) d hq

/-- a selected object member is gone (one level; deeper levels by `delAll`'s recursion and `del_frame`) -/
theorem del_gone_key (T : List Path) (k : Bytes) (kvs : List (Bytes × JV)) (h : [Loc.key k] ∈ T) :
    child? (.key k) (delAll T (.obj kvs)) = none := delAll_gone_key T k kvs h

/-- a selected array element is null: the array keeps its length -/
theorem del_null_idx (T : List Path) (i : Nat) (xs : List JV) (x : JV) (hx : xs[i]? = some x) (h : [Loc.idx i] ∈ T) :
    child? (.idx i) (delAll T (.arr xs)) = some .null := delAll_null_idx T i xs x hx h

example : setM false Dev.current false .del [.wild, .child kA] (.arr [objA 1, .obj [(kB, .int 2)]]) =
    .ok (.arr [.obj [], .obj [(kB, .int 2)]]) := by rfl

/-! ## the partial theorems: Set -/

/-- Set, all matches, simple data, a path without recursive descent: if no error is reported the data afterwards
is `setSpecG σ x v d`: the new value at every selected location, the members the path names but does not find
created along name/index chains (`createsG σ`), everything else as it was -/
theorem set_eq (dev : Dev) (v : JV) (x : List Frag) (d d' : JV) (hnd : NoDescent x) (hw : WF d) (hg : GoodPathS σ dev x d)
    (h : setM false dev false (.val v) x d = .ok d') : d' = setSpecG σ x v d :=
  setM_eq dev v x d d' hnd hw hg h

/-- hit: afterwards every selected location holds the new value -/
theorem set_hit (dev : Dev) (v : JV) (x : List Frag) (d d' : JV) (hnd : NoDescent x) (hw : WF d) (hg : GoodPathS σ dev x d)
    (h : setM false dev false (.val v) x d = .ok d') : ∀ p ∈ locsG σ x d, valAt p d' = some v := by
  rw [set_eq dev v x d d' hnd hw hg h]
  intro p hp
  exact setSpec_hit v x hnd d hw p hp (alone_of_noDescent x hnd d hw p hp)

/-- frame: every location that exists and is not at, above or below a selected location or a created member holds
what it held -/
theorem set_frame (dev : Dev) (v : JV) (x : List Frag) (d d' : JV) (hnd : NoDescent x) (hw : WF d) (hg : GoodPathS σ dev x d)
    (h : setM false dev false (.val v) x d = .ok d') (q : Path) (c : JV) (hv : valAt q d = some c)
    (h1 : touched (locsG σ x d) q = false) (h2 : touched ((createsG σ v x d).map (·.1)) q = false) : valAt q d' = some c := by
  rw [set_eq dev v x d d' hnd hw hg h]
  exact setSpec_frame v x d c q hv h1 h2

/-- creation along a name/index chain, the code as it is: `Set $.a.b[2]` on `{}` -/
example : setM false Dev.current false (.val (.int 9)) [.child kA, .child kB, .nth 2] (.obj []) =
    .ok (.obj [(kA, .obj [(kB, .arr [.null, .null, .int 9])])]) := by rfl

example : setSpecG σ [.child kA, .child kB, .nth 2] (.int 9) (.obj []) = .obj [(kA, .obj [(kB, .arr [.null, .null, .int 9])])] := by rfl

/-- a non-trivial instance of the hypotheses of `set_eq`/`del_eq`, the code as it is: `$[*].a` on `[{"a":1},{"b":2}]` -/
example : NoDescent [.wild, .child kA] ∧ GoodPathS σ Dev.current [.wild, .child kA] (.arr [objA 1, .obj [(kB, .int 2)]]) := by
  refine ⟨?_, trivial, fun _ _ => ⟨trivial, fun _ _ => trivial⟩⟩
  intro f hf; simp at hf; rcases hf with rfl | rfl <;> rfl

/-! ## the four mutators together -/

/-- the predicates excluded for the mutation `op` on `(x, d)` -/
def Good (σ : SliceFn) (dev : Dev) (x : List Frag) (d : JV) : Op → Prop
  | .set _ => GoodPathS σ dev x d
  | .del => GoodPathS σ dev x d
  | .mod _ => GoodPath σ dev x d ∧ ¬ (x = [] ∧ dev.rootScalar = true ∧ isContainer d = false)
  | .rem => ∃ sx f, x = sx ++ [f] ∧ GoodPath σ dev sx d ∧ RemPath σ dev f sx d

/-- C13 (all matches, simple data, paths without recursive descent) for every deviation set, outside the excluded
predicates: a mutator that reports no error leaves exactly the tree the specification names -/
theorem C13_partial (dev : Dev) (op : Op) (x : List Frag) (d d' : JV) (hnd : NoDescent x) (hw : WF d) (hg : Good σ dev x d op)
    (h : runModel false dev false x d op = .ok d') : d' = expectedG σ x d op := by
  cases op with
  | set v => exact set_eq dev v x d d' hnd hw hg h
  | del => exact del_eq dev x d d' hnd hw hg h
  | mod m =>
    simp only [runModel, modify_eq dev m x d hnd hw hg.1 hg.2] at h
    injection h with h
    exact h.symm
  | rem =>
    obtain ⟨sx, f, rfl, h1, h2⟩ := hg
    simp only [runModel, remove_eq dev sx f d hnd hw h1 h2] at h
    injection h with h
    exact h.symm

/-! ## the code as it is now -/

/-- the nine repaired deviations are off in `Dev.current` exactly because the patched source lines are there: the
facts are regenerated from jp/slice.go, set.go, modify.go, union.go on every run (tools/extract/jpmut.go matches the
shape of the patched lines). These are regression tripwires over the patched lines, not a semantic tie: undoing a
repair flips a fact and breaks this theorem -/
theorem current_is_source :
    Dev.current =
      { sliceInclusive := true
        removeStepEnd := !Gen.JpMut.inStepFromStart
        setEmptySlice := !Gen.JpMut.setEmptySliceGuarded
        descentSiblings := !(Gen.JpMut.setDescentClears && Gen.JpMut.modifyDescentClears)
        removeUnionNeg := !Gen.JpMut.unionRemoveFromEnd
        genUnionOOB := !Gen.JpMut.genUnionGuarded
        genModifyNil := !Gen.JpMut.modifyNodeNullSafe
        filterMapNil := !Gen.JpMut.modifyReflectNullSafe
        rootScalar := !Gen.JpMut.modifyRootPushed
        delOneAbsent := !Gen.JpMut.delOneGuarded } := by decide

/-- the same kind of tripwire for the deviation that lives in the driver's reading of the path (`$` inside a final
filter of Modify/Remove): off because modify.go, filter.go `remove`/`removeOne` and remove.go evaluate against the
document (569235d) -/
theorem currentT_is_source : currentT = !Gen.JpMut.filterRootDocument := by decide

/-! ### what the code as it is does, for EVERY slice: the inclusive reading

The mutators read a slice end as inclusive (pinned by the suite), Get as exclusive. So for the code as it is the
property itself (`σ := sliceIdx`) can only hold where the two readings agree (`C13_current` below, `CleanPath`) — and a
slice with an explicit end inside the array is not such a case. The full statement about the current code is
therefore made with the reading it implements: `C13_incl` — Set, Del, Modify and Remove work on exactly the locations
the path selects when slices are read inclusively (`locsG inclIdx`: `JPath.eval` with `inclIdx` in the place of
`sliceIdx`), for every slice, with no slice-related hypothesis. -/

/-- no union of the path lists a member of a value it is applied to twice (values reached under the inclusive reading) -/
def UnionsClean : List Frag → JV → Prop
  | [], _ => True
  | f :: r, d => (∀ ms, f = .union ms → (unionLocs ms d).Nodup) ∧ ∀ m ∈ selG inclIdx f d, UnionsClean r m.2

theorem unionsClean_good : ∀ (x : List Frag) (d : JV), NoDescent x → UnionsClean x d → GoodPath inclIdx Dev.current x d
  | [], _, _, _ => trivial
  | f :: r, d, hnd, h =>
    ⟨goodAt_incl f d (hnd f (by simp)) h.1,
     fun m hm => unionsClean_good r m.2 (fun g hg => hnd g (List.mem_cons_of_mem _ hg)) (h.2 m hm)⟩

theorem unionsClean_goodS : ∀ (x : List Frag) (d : JV), NoDescent x → UnionsClean x d → GoodPathS inclIdx Dev.current x d
  | [], _, _, _ => trivial
  | f :: r, d, hnd, h =>
    ⟨goodAtS_incl f d (hnd f (by simp)) h.1,
     fun m hm => unionsClean_goodS r m.2 (fun g hg => hnd g (List.mem_cons_of_mem _ hg)) (h.2 m hm)⟩

theorem unionsClean_split (f : Frag) (hf : isDescentF f = false) : ∀ (sx : List Frag) (d : JV), UnionsClean (sx ++ [f]) d →
    UnionsClean sx d ∧ RemPath inclIdx Dev.current f sx d
  | [], d, _ => ⟨trivial, remGood_incl f d hf⟩
  | g :: r, d, h =>
    ⟨⟨h.1, fun m hm => (unionsClean_split f hf r m.2 (h.2 m hm)).1⟩, fun m hm => (unionsClean_split f hf r m.2 (h.2 m hm)).2⟩

/-- THE CODE AS IT IS, every slice: Set, Del, Modify, Remove (all matches, simple data with unique member names, a path
without recursive descent in which no union lists a member twice) that report no error leave exactly
`expectedG inclIdx x d op` — the tree edited at the locations the path selects when slices are read INCLUSIVELY (what
Set creates included). No hypothesis about slices. Where the inclusive and the exclusive reading differ this is NOT what
the property demands (known finding C13-slice-inclusive): it is what the code does. -/
theorem C13_incl (op : Op) (x : List Frag) (d d' : JV) (hnd : NoDescent x) (hw : WF d) (hu : UnionsClean x d)
    (h : runModel false Dev.current false x d op = .ok d') : d' = expectedG inclIdx x d op := by
  apply C13_partial Dev.current op x d d' hnd hw ?_ h
  cases op with
  | set v => exact unionsClean_goodS x d hnd hu
  | del => exact unionsClean_goodS x d hnd hu
  | mod m => exact ⟨unionsClean_good x d hnd hu, fun h => by simp [Dev.current] at h⟩
  | rem =>
    cases hx : x.getLast? with
    | none =>
      have : x = [] := by simpa using hx
      subst this
      simp [runModel, removeM] at h
    | some f =>
      have hne : x ≠ [] := by intro e; subst e; simp at hx
      have hsplit : x = x.dropLast ++ [f] := by
        rw [List.getLast?_eq_some_getLast hne] at hx
        injection hx with hx
        rw [← hx, List.dropLast_concat_getLast hne]
      have hf : isDescentF f = false := hnd f (List.mem_of_getLast? hx)
      have hndl : NoDescent x.dropLast := fun g hg => hnd g (List.dropLast_subset x hg)
      rw [hsplit] at hu
      obtain ⟨h1, h2⟩ := unionsClean_split f hf x.dropLast d hu
      exact ⟨x.dropLast, f, hsplit, unionsClean_good _ d hndl h1, h2⟩

/-- Modify, the code as it is, every slice: no error is possible; hit and frame with respect to the inclusive selection -/
theorem modify_incl (m : Modifier) (x : List Frag) (d : JV) (hnd : NoDescent x) (hw : WF d) (hu : UnionsClean x d) :
    modifyM false Dev.current false m x d = .ok (modifySpecG inclIdx x m d) :=
  modify_eq Dev.current m x d hnd hw (unionsClean_good x d hnd hu) (fun h => by simp [Dev.current] at h)

theorem modify_incl_hit (m : Modifier) (x : List Frag) (d : JV) (hnd : NoDescent x) (hw : WF d) :
    ∀ p ∈ locsG inclIdx x d, valAt p (modifySpecG inclIdx x m d) = (valAt p d).map m.eff := by
  intro p hp
  exact updAll_hit m.eff p (locsG inclIdx x d) d hp (alone_of_noDescent x hnd d hw p hp)

theorem modify_incl_frame (m : Modifier) (x : List Frag) (d : JV) : Frame (locsG inclIdx x d) d (modifySpecG inclIdx x m d) :=
  fun q hq => updAll_frame m.eff q (locsG inclIdx x d) d hq

/-- Remove, the code as it is, every slice: no error is possible -/
theorem remove_incl (sx : List Frag) (f : Frag) (d : JV) (hnd : NoDescent (sx ++ [f])) (hw : WF d)
    (hu : UnionsClean (sx ++ [f]) d) :
    removeM false Dev.current false (sx ++ [f]) d = .ok (removeSpecG inclIdx (sx ++ [f]) d) :=
  have hf : isDescentF f = false := hnd f (by simp)
  remove_eq Dev.current sx f d hnd hw
    (unionsClean_good sx d (fun g hg => hnd g (List.mem_append_left _ hg)) (unionsClean_split f hf sx d hu).1)
    (unionsClean_split f hf sx d hu).2

/-- `Remove $[1:3]` on `[0,1,2,3,4,5]`: the inclusive selection is 1, 2, 3 and that is what is removed -/
example : locsG inclIdx [.slice (some 1) (some 3) none] (ints [0, 1, 2, 3, 4, 5]) = [[.idx 1], [.idx 2], [.idx 3]] ∧
    removeSpecG inclIdx [.slice (some 1) (some 3) none] (ints [0, 1, 2, 3, 4, 5]) = ints [0, 4, 5] ∧
    removeM false Dev.current false [.slice (some 1) (some 3) none] (ints [0, 1, 2, 3, 4, 5]) = .ok (ints [0, 4, 5]) :=
  ⟨by rfl, by rfl, by rfl⟩

/-- the hypotheses are satisfied by an ordinary slice path: `$[0:1].a` on `[{"a":1},{"a":2},{"a":3}]` -/
example : UnionsClean [.slice (some 0) (some 1) none, .child kA] (.arr [objA 1, objA 2, objA 3]) :=
  ⟨fun _ h => (by cases h), fun _ _ => ⟨fun _ h => (by cases h), fun _ _ => trivial⟩⟩

/-! ### the property itself (exclusive reading) for the code as it is: where the two readings agree -/

/-- the exclusions that are left when the code as it is is measured against the PROPERTY (Get's exclusive reading): a
union that lists a member of the value twice; a slice on which the inclusive reading selects other indexes than the
specification on the array at hand — in particular EVERY slice with an explicit end inside the array (`[0:2]` on three
elements); recursive descent -/
def CleanAt (f : Frag) (e : JV) : Prop :=
  match f with
  | .union ms => (unionLocs ms e).Nodup
  | .slice s e' t => ∀ xs, e = .arr xs → inclIdx xs.length s e' t = sliceIdx xs.length s e' t
  | .descent => False
  | _ => True

/-- every fragment of the path is clean on the values it is applied to -/
def CleanPath : List Frag → JV → Prop
  | [], _ => True
  | f :: r, d => CleanAt f d ∧ ∀ m ∈ sel f d, CleanPath r m.2

theorem cleanAt_good (f : Frag) (e : JV) (h : CleanAt f e) : GoodAt sliceIdx Dev.current f e := by
  cases f with
  | filter p => exact Or.inl rfl
  | union ms => exact h
  | slice s e' t => exact h
  | descent => exact h
  | child k => trivial
  | nth i => trivial
  | wild => trivial

theorem cleanAt_goodS (f : Frag) (e : JV) (h : CleanAt f e) : GoodAtS sliceIdx Dev.current f e := by
  cases f with
  | slice s e' t => intro xs hx; rw [setIdx_current]; exact h xs hx
  | union ms => exact h
  | descent => exact h
  | filter p => trivial
  | child k => trivial
  | nth i => trivial
  | wild => trivial

theorem cleanAt_remGood (f : Frag) (c : JV) (h : CleanAt f c) : RemGood sliceIdx Dev.current f c := by
  cases f with
  | union ms => exact Or.inl rfl
  | slice s e t =>
    intro xs hx i hi
    rw [remSel_incl xs.length s e t i hi, h xs hx]
  | descent => exact h
  | child k => trivial
  | nth i => trivial
  | wild => trivial
  | filter p => trivial

theorem cleanPath_good : ∀ (x : List Frag) (d : JV), CleanPath x d → GoodPath sliceIdx Dev.current x d
  | [], _, _ => trivial
  | f :: r, d, h => ⟨cleanAt_good f d h.1, fun m hm => cleanPath_good r m.2 (h.2 m (selG_spec f d ▸ hm))⟩

theorem cleanPath_goodS : ∀ (x : List Frag) (d : JV), CleanPath x d → GoodPathS sliceIdx Dev.current x d
  | [], _, _ => trivial
  | f :: r, d, h => ⟨cleanAt_goodS f d h.1, fun m hm => cleanPath_goodS r m.2 (h.2 m (selG_spec f d ▸ hm))⟩

theorem cleanPath_split (f : Frag) : ∀ (sx : List Frag) (d : JV), CleanPath (sx ++ [f]) d →
    CleanPath sx d ∧ RemPath sliceIdx Dev.current f sx d
  | [], d, h => ⟨trivial, cleanAt_remGood f d h.1⟩
  | g :: r, d, h =>
    ⟨⟨h.1, fun m hm => (cleanPath_split f r m.2 (h.2 m hm)).1⟩,
     fun m hm => (cleanPath_split f r m.2 (h.2 m (selG_spec g d ▸ hm))).2⟩

/-- C13 — the property, exclusive reading — for the code as it is now (all matches, simple data, paths without recursive
descent, no error reported), on CLEAN paths only: no union lists a member of the visited value twice, and on every
array a slice meets the inclusive and the exclusive reading select the same indexes. A slice with an explicit end inside
the array is not clean (see the examples): there the code contradicts the property (C13-slice-inclusive) and `C13_incl`
says what it does instead. The filter, root, from-the-end and step-alignment exclusions of `C13_partial` are discharged
by the repairs. -/
theorem C13_current (op : Op) (x : List Frag) (d d' : JV) (hnd : NoDescent x) (hw : WF d) (hc : CleanPath x d)
    (h : runModel false Dev.current false x d op = .ok d') : d' = expected x d op := by
  apply C13_partial (σ := sliceIdx) Dev.current op x d d' hnd hw ?_ h
  cases op with
  | set v => exact cleanPath_goodS x d hc
  | del => exact cleanPath_goodS x d hc
  | mod m => exact ⟨cleanPath_good x d hc, fun h => by simp [Dev.current] at h⟩
  | rem =>
    cases hx : x.getLast? with
    | none =>
      have : x = [] := by simpa using hx
      subst this
      simp [runModel, removeM] at h
    | some f =>
      have hsplit : x = x.dropLast ++ [f] := by
        have hne : x ≠ [] := by intro e; subst e; simp at hx
        rw [List.getLast?_eq_some_getLast hne] at hx
        injection hx with hx
        rw [← hx, List.dropLast_concat_getLast hne]
      rw [hsplit] at hc
      obtain ⟨h1, h2⟩ := cleanPath_split f x.dropLast d hc
      exact ⟨x.dropLast, f, hsplit, cleanPath_good _ d h1, h2⟩

/-- on a clean path the two readings select the same locations -/
theorem set_hit_current (v : JV) (x : List Frag) (d d' : JV) (hnd : NoDescent x) (hw : WF d) (hc : CleanPath x d)
    (h : setM false Dev.current false (.val v) x d = .ok d') : ∀ p ∈ locs x d, valAt p d' = some v :=
  set_hit (σ := sliceIdx) Dev.current v x d d' hnd hw (cleanPath_goodS x d hc) h

theorem del_frame_current (x : List Frag) (d d' : JV) (hnd : NoDescent x) (hw : WF d) (hc : CleanPath x d)
    (h : setM false Dev.current false .del x d = .ok d') : Frame (locs x d) d d' :=
  del_frame (σ := sliceIdx) Dev.current x d d' hnd hw (cleanPath_goodS x d hc) h

theorem modify_current (m : Modifier) (x : List Frag) (d : JV) (hnd : NoDescent x) (hw : WF d) (hc : CleanPath x d) :
    modifyM false Dev.current false m x d = .ok (modifySpec x m d) :=
  modify_eq (σ := sliceIdx) Dev.current m x d hnd hw (cleanPath_good x d hc) (fun h => by simp [Dev.current] at h)

theorem remove_current (sx : List Frag) (f : Frag) (d : JV) (hnd : NoDescent (sx ++ [f])) (hw : WF d)
    (hc : CleanPath (sx ++ [f]) d) :
    removeM false Dev.current false (sx ++ [f]) d = .ok (removeSpec (sx ++ [f]) d) :=
  remove_eq (σ := sliceIdx) Dev.current sx f d hnd hw (cleanPath_good sx d (cleanPath_split f sx d hc).1) (cleanPath_split f sx d hc).2

/-- which paths are clean. `$[*].a` on `[{"a":1},{"b":2}]` is. Of the slices only those on which the two readings select
the same indexes of the array at hand: an absent end (`[1:]`, `[::2]`: "to the last element" in both readings) or an end
at or beyond the length (`[0:5]` on three elements). A slice with an explicit end INSIDE the array — `[0:2]` or `[0:1]` on
`[1,2,3]`, the ordinary case — is NOT clean. -/
example : CleanPath [.wild, .child kA] (.arr [objA 1, .obj [(kB, .int 2)]]) := ⟨trivial, fun _ _ => ⟨trivial, fun _ _ => trivial⟩⟩

/-- clean: `[1:]`, `[::2]`, `[0:5]` on three elements -/
example : inclIdx 3 (some 1) none none = sliceIdx 3 (some 1) none none ∧
    inclIdx 3 none none (some 2) = sliceIdx 3 none none (some 2) ∧
    inclIdx 3 (some 0) (some 5) none = sliceIdx 3 (some 0) (some 5) none := ⟨by rfl, by rfl, by rfl⟩

example : CleanPath [.slice (some 1) none none] (ints [1, 2, 3]) := by
  refine ⟨?_, fun _ _ => trivial⟩
  intro xs hx
  simp only [ints] at hx
  injection hx with hx
  subst hx
  rfl

/-- not clean: `[0:2]` and `[0:1]` on three elements (inclusive: one element more) -/
example : inclIdx 3 (some 0) (some 2) none = [0, 1, 2] ∧ sliceIdx 3 (some 0) (some 2) none = [0, 1] ∧
    inclIdx 3 (some 0) (some 1) none = [0, 1] ∧ sliceIdx 3 (some 0) (some 1) none = [0] := ⟨by rfl, by rfl, by rfl, by rfl⟩

example : ¬ CleanPath [.slice (some 0) (some 2) none] (ints [1, 2, 3]) := by
  intro h
  have := h.1 _ rfl
  simp [ints] at this
  revert this
  decide

/-- gen data: with f263838 / 99212c8 the two flags that `gen` consults are off, so the model on gen data IS the model on
simple data (near-definitional: `setF_gen`, `modF_gen` are an induction over the path that rewrites `gen && false`); what
it adds to the correspondence run (which compares gen and simple results of the real code case by case) is only that the
MODEL has no other gen-specific branch -/
theorem gen_current (one : Bool) (op : Op) (x : List Frag) (d : JV) :
    runModel true Dev.current one x d op = runModel false Dev.current one x d op := by
  cases op with
  | set v => exact setM_gen Dev.current one _ rfl x d
  | del => exact setM_gen Dev.current one _ rfl x d
  | mod m => exact modifyM_gen Dev.current one m rfl x d
  | rem => exact removeM_gen Dev.current one rfl x d

/-- since f263838 no entry point ends in a run-time fault, on simple and on gen data, for every path -/
theorem reported_current (gen one : Bool) (op : Op) (x : List Frag) (d : JV) : (runModel gen Dev.current one x d op).Reported := by
  cases op with
  | set v => exact setM_reported gen Dev.current one _ x d (by simp [Dev.current])
  | del => exact setM_reported gen Dev.current one _ x d (by simp [Dev.current])
  | mod m => exact modifyM_reported gen Dev.current one m x d
  | rem => exact removeM_reported gen Dev.current one x d


/-! ## the One forms change at most one location -/

/-- SetOne / DelOne: the data afterwards is the data before or differs from it by one member of one container
written, added or deleted -/
theorem one_set (gen : Bool) (dev : Dev) (a : SetArg) (x : List Frag) (d : JV) :
    AtMostOne QAny d ((setM gen dev true a x d).data d) := setOne_atMost gen dev a x d

/-- ModifyOne: the root as it was, the modifier's result on the root (path `$`), or the root with one member of one
container replaced by the modifier's result on it -/
theorem one_modify (gen : Bool) (dev : Dev) (m : Modifier) (x : List Frag) (d : JV) :
    RootOne (fun c v => v = (m c).1) d ((modifyM gen dev true m x d).data d) := modifyOne_atMost gen dev m x d

/-- RemoveOne: the root as it was, or one container (the root or one member of one container) has lost one member -/
theorem one_remove (gen : Bool) (dev : Dev) (x : List Frag) (d : JV) :
    RootOne Drop d ((removeM gen dev true x d).data d) := removeOne_atMost gen dev x d

/-- the all-matches form changes two locations where the One form changes one -/
example : setM false Dev.current true (.val (.int 9)) [.wild] (ints [1, 2]) = .ok (ints [9, 2]) ∧
    setM false Dev.current false (.val (.int 9)) [.wild] (ints [1, 2]) = .ok (ints [9, 9]) := ⟨by rfl, by rfl⟩

/-! ## error, not fault -/

/-- Set/SetOne/Del/DelOne on simple data, and on gen data once the union branch of set.go tests its bounds:
every path, every value: a result or an error, never a run-time fault -/
theorem reported_set (gen : Bool) (dev : Dev) (one : Bool) (a : SetArg) (x : List Frag) (d : JV)
    (h : gen = false ∨ dev.genUnionOOB = false) : (setM gen dev one a x d).Reported :=
  setM_reported gen dev one a x d (by rcases h with h | h <;> simp [h])

/-- Modify/ModifyOne: never a fault, whatever the deviations -/
theorem reported_modify (gen : Bool) (dev : Dev) (one : Bool) (m : Modifier) (x : List Frag) (d : JV) :
    (modifyM gen dev one m x d).Reported := modifyM_reported gen dev one m x d

/-- Remove/RemoveOne: never a fault, whatever the deviations -/
theorem reported_remove (gen : Bool) (dev : Dev) (one : Bool) (x : List Frag) (d : JV) :
    (removeM gen dev one x d).Reported := removeM_reported gen dev one x d

/-! ## simple and gen data

`gen_set`, `gen_modify`, `gen_remove` are MODEL AGAINST MODEL: the model run with `gen = true` equals the model run with
`gen = false` once the one flag it consults on gen data is off. They show that the model has no other gen-specific branch;
they say nothing about the gen.Array/gen.Object branches of set.go, modify.go, remove.go by themselves. The tie of those
code paths to the model is the correspondence run only (every case is made on gen data as well, compared with the
model's gen answer and with the result on simple data). -/

/-- model against model (see the section header): Set/Del on gen data = on simple data when `genUnionOOB` is off -/
theorem gen_set (dev : Dev) (one : Bool) (a : SetArg) (h : dev.genUnionOOB = false) (x : List Frag) (d : JV) :
    setM true dev one a x d = setM false dev one a x d := setM_gen dev one a h x d

/-- model against model: Modify on gen data = on simple data when `genModifyNil` is off -/
theorem gen_modify (dev : Dev) (one : Bool) (m : Modifier) (h : dev.genModifyNil = false) (x : List Frag) (d : JV) :
    modifyM true dev one m x d = modifyM false dev one m x d := modifyM_gen dev one m h x d

/-- model against model: Remove on gen data = on simple data when `genModifyNil` is off -/
theorem gen_remove (dev : Dev) (one : Bool) (h : dev.genModifyNil = false) (x : List Frag) (d : JV) :
    removeM true dev one x d = removeM false dev one x d := removeM_gen dev one h x d

end OjgVerif.C13
