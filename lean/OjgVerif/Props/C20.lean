import OjgVerif.Asm.LemmasOrder
import OjgVerif.Asm.LemmasPrint
import OjgVerif.Asm.LemmasNum
import OjgVerif.Asm.LemmasPlan
import OjgVerif.Asm.LemmasRerun
import OjgVerif.Asm.LemmasTotal
import OjgVerif.Asm.LemmasLayout
import OjgVerif.Asm.LemmasText
import OjgVerif.Asm.LemmasSort
import OjgVerif.Gen.AsmFacts
import OjgVerif.Gen.AsmShapes
/-! # C20 — assembly plans evaluate totally, deterministically and as documented

Over the model of `Asm/Model.lean` (heap of shared cells, the modelled functions, simple paths) and the
specification of `Asm/Spec.lean`. `Dev.current` is the code as it is (after the fix commits 312106f, e5d206a, fb1d065, 52cf3c4, 9281d31,
54cf01b: no deviation is left, `Dev.current = Dev.none`),
`Dev.before` the code before them, `Dev.beforeCondCopy` the code between the first four and 9281d31; each deviation from the documentation is stated at full strength,
refuted by a concrete witness for the code that shows it (`…_false`, marked "before <commit>" where a
commit repaired it) and proved for the code that does not.

1. source ties: the function registry equals the documented table; REGRESSION TRIPWIRES over the lines the
   fix commits patched (`dev_current_source`, `execute_has_recover`): syntactic facts extracted from the
   source that break the build when a patched line changes shape — they are not semantic proofs about Go;
2. totality: no panic leaves `execute`; GENERAL (`execute_total`): every plan over the modelled functions
   that fits the fuel, has its literals in the plan's cells and never calls `equal`/`neq` returns nil or
   an error (or leaves the model / needs a map order) for every root and data — never out of fuel, never
   diverging; the exclusion is needed: `equal` on cyclic data does not end (`total_full_false`);
3. determinism: a run that never needs a map iteration order is the same under every order; a plan
   that enumerates a map is not (`order_matters`); GENERAL (`plan_cells_untouched`, `execute_insert`,
   `rerun_general`): no plan ever edits its own cells, evaluation commutes with inserting cells between
   plan and data, hence executing one plan twice on equal roots gives equal results and leaves the plan
   as it was — false before 52cf3c4 / 9281d31 (`rerun_full_false_before`, `rerun_cond_false_before`);
4. documented results: `eval f args = Spec.describe f (values of args)` for every function whose
   arguments are evaluated values, for arguments of every kind that evaluate without effect — with no
   side condition in the code as it is (`evalFn_describe_current`); the path,
   body and pair taking functions by their own statements; closed forms for integer arithmetic;
5. frame: a plan that calls none of set/setall/del/delall leaves every existing cell as it was; a
   mutator changes at most one existing cell;
6. print: `newPlan (simplify p) = p` for compiled plans (the SEN text layer is tied by the run only). -/
namespace OjgVerif.C20
open OjgVerif OjgVerif.Asm

/-! ## 1. source ties -/

/-- the registry regenerated from asm/*.go is the documented table: names, the Go function behind each
name, compile hooks and description texts -/
theorem fn_table : Gen.AsmFacts.fns = Spec.fnTable := rfl

/-- the model knows exactly the registered names, split into modelled and unmodelled -/
theorem registry_names :
    (Spec.fnTable.map (·.1)).all isRegistered = true ∧
    (modelledFns ++ unmodelledFns).all (fun n => (Spec.fnTable.map (·.1)).contains n) = true ∧
    modelledFns.all (fun f => (fnKind f).isSome) = true ∧
    unmodelledFns.all (fun f => (fnKind f).isNone) = true ∧
    (fnTable.map (·.1)).all (fun f => modelledFns.contains f) = true := by decide

def evalIdent (f : Bytes) : Option String := (Spec.fnTable.find? (fun r => r.1 == f)).map (·.2.1)

/-- names the model treats as one function are one Go function -/
theorem aliases_share_eval :
    ([(b!"+", b!"sum"), (b!"-", b!"dif"), (b!"*", b!"product"), (b!"/", b!"quotient"),
      (b!"<", b!"lt"), (b!"<=", b!"lte"), (b!">", b!"gt"), (b!">=", b!"gte"),
      (b!"eq", b!"equal"), (b!"==", b!"equal"), (b!"!=", b!"neq"), (b!"nil?", b!"null?")] :
        List (Bytes × Bytes)).all (fun p => evalIdent p.1 == evalIdent p.2 && (evalIdent p.1).isSome) = true := by
  decide

/-- `Plan.Execute` runs under a deferred `recover()` -/
theorem execute_has_recover : "Plan.Execute" ∈ Gen.AsmFacts.recoverEntryPoints := by decide

/-- REGRESSION TRIPWIRE, not a semantic proof: the extractor reads a few syntactic shapes off the lines the fix
commits patched, and this theorem pins them to the flags of `Dev.current`; undoing a fix (or rewriting the
line) breaks it and forces a re-examination. That the code BEHAVES as the flags say is decided by the
correspondence run. The shapes:
`lt lte gt gte` switch on the EVALUATED first argument (312106f), `evalArg` hands out a copy of a literal
(52cf3c4), `quotient` tests its two float divisors for zero (e5d206a), the list clause of `evalValue` ends
with a copy of the list (fb1d065 + 9281d31), the comparison functions call the exact helpers `cmpNum` /
`cmpIntFloat` and the chains no longer call `asFloat` (54cf01b) -/
theorem dev_current_source :
    Dev.current.cmpUneval = !(Gen.AsmFacts.cmpSwitchSubjects.all (fun p => p.2 == "evalArg(root, at, args[0])")) ∧
    Gen.AsmFacts.cmpSwitchSubjects.map (·.1) = ["lt", "lte", "gt", "gte"] ∧
    Dev.current.litAlias = !(Gen.AsmFacts.evalArgDefault == "val = dupLiteral(arg)") ∧
    Dev.current.divZeroInf = !(Gen.AsmFacts.quotientZeroTests == 2) ∧
    (Dev.current.condListNil || Dev.current.condListAlias) = !(Gen.AsmFacts.evalValueList == "result = dupLiteral(tv)") ∧
    Dev.current.cmpFloat = !(Gen.AsmFacts.cmpExactCalls ==
      [("lt", "1 exact, 0 asFloat"), ("lte", "1 exact, 0 asFloat"), ("gt", "1 exact, 0 asFloat"),
       ("gte", "1 exact, 0 asFloat"), ("equalVals", "2 exact, 3 asFloat")]) := by
  decide

/-- no deviation is left: the code as it is is the documented behaviour -/
theorem current_is_documented : Dev.current = Dev.none := rfl


/-- REGRESSION TRIPWIRE (syntactic, like `dev_current_source`): the only statements of package asm that assign
into an argument list (`args[i] = …`, `x.Args[i] = …`, `x.Args = …`) are in the functions that BUILD a plan
(`NewPlan`, `Fn.compile`) and in `evalValue` (cond's evaluator, which compiles a call it finds inside a pair — a COPY
of the pair's list since 4f445c7; before, in place: finding C20-cond-compiles-plan-list, fixed). No Eval function writes into its `args` — which alias `Fn.Args`, the
plan itself. The model cannot express such a write (a plan is an immutable `Arg` tree; only its literals are
heap cells, covered by `plan_cells_untouched`); that executing a plan leaves Simplify()/String() as they were and
that a reused plan behaves like a fresh one on ANOTHER root is oracle (b') of the run. -/
theorem plan_args_written_only_when_built :
    (Gen.AsmFacts.argWrites.map (·.1)).all (fun f => ["Fn.compile", "NewPlan", "evalValue"].contains f) = true ∧
    Gen.AsmFacts.argWrites ≠ [] := by decide

/-- the records of the text and conversion functions, read off the model's dispatch table -/
def scalarRecords : List (Bytes × ScalarFn) :=
  fnTable.filterMap (fun p => match p.2 with | .scalar g => some (p.1, g) | _ => none)

/-- the largest accepted argument count (up to 6) -/
def recMaxCount (g : ScalarFn) : Nat := ((List.range 7).filter g.arity).foldl max 0

/-- the indexes of the arguments in the order the record evaluates them, for a call with all of them -/
def recOrder (g : ScalarFn) : List Nat :=
  ((if g.swap then (List.range (recMaxCount g)).reverse else List.range (recMaxCount g)).take (g.wants (recMaxCount g)).length)

/-- what the extractor read off the Eval function registered under `f`: has a guard, accepted counts, order -/
def shapeOf (f : Bytes) : Option (Bool × List Nat × List Nat) :=
  (evalIdent f).bind (fun id => (Gen.AsmShapes.evalShapes.find? (fun r => r.1 == id)).map (·.2))

/-- SOURCE TIE for the functions modelled in round 3 (re-checked on every run against Gen/AsmShapes.lean, which the
extractor regenerates from asm/*.go): for each of the eleven records, the Go function registered under that name
starts with an arity guard that lets through exactly the argument counts the record accepts (0..6 tried), and
evaluates `args[i]` in exactly the order of the record (`string` its format first); `reverse`, `append`, `include`
(second argument first) and `sort` (only its first argument is evaluated) likewise. A changed guard or a reordered
evaluation breaks this theorem (a tripwire over syntactic shapes — what the functions compute with the values is
the correspondence run). -/
theorem text_fns_source_shape :
    scalarRecords.length = 11 ∧
    scalarRecords.all (fun p => shapeOf p.1 == some (true, (List.range 7).filter p.2.arity, recOrder p.2)) = true ∧
    shapeOf b!"reverse" = some (true, [1], [0]) ∧
    shapeOf b!"append" = some (true, [2], [0, 1]) ∧
    shapeOf b!"include" = some (true, [2], [1, 0]) ∧
    shapeOf b!"sort" = some (true, [2], [0]) := by decide

/-- REGRESSION TRIPWIRE over the lines the round-3 fix commits patched (syntactic shapes, like `dev_current_source`):
`appendEval` returns the array it built (`out`), not Go's `append(list, v)` (de3017e, C20-append-shares-backing: the
model's `fnAppend` allocates a new cell); `evalValue` and `Fn.compile` give a compiled nested call a fresh copy of
the rest of its list (`af.Args = make(…)`, 4f445c7, C20-cond-compiles-plan-list: in the model a plan is never
written). Undoing a fix breaks the build; that the code BEHAVES so is the run (copy box, append2, plan-edited oracle). -/
theorem round3_fixes_in_source :
    Gen.AsmShapes.appendReturn = "out" ∧
    Gen.AsmFacts.argWrites.contains ("evalValue", "af.Args = make([]any, len(tv)-1)") = true ∧
    Gen.AsmFacts.argWrites.contains ("Fn.compile", "af.Args = make([]any, len(list)-1)") = true ∧
    (Gen.AsmFacts.argWrites.any (fun w => w.2 == "af.Args = tv[1:]" || w.2 == "af.Args = list[1:]")) = false := by decide

/-! ## 2. totality

The headline is `execute_total` (below): the evaluation itself never faults — never out of fuel, never
diverging — for every plan that fits (`Fit`: literals in the plan's cells, nesting within the fuel, no
`equal`/`neq`, the one traversal that does not end on cyclic data), on a heap laid out as the driver lays
it out (`PlanOrd`, `HeapHi`; checked on every case by `layoutOK`).

The three facts that come first are facts about the MODEL OF THE RECOVER WRAPPER: `execute` is defined to
turn a panic raised inside the evaluation into the outcome `err` when `hasRecover` is set (Model.lean,
`execute`: "a panic inside Execute is turned into an error by the deferred recover" is modelled as
such). They say that this definition leaves no way for the outcome `panic`, nothing more; that the real
`Plan.Execute` has the deferred recover is the extracted fact `execute_has_recover`, and that no panic
escapes the real `Execute` is decided by the run (every case under recover in a worker process). -/

/-- model of the wrapper: with `hasRecover` the outcome `panic` cannot arise (by the definition of
`execute`), whatever the plan, root, heap, deviations, map order and fuel -/
theorem no_panic_escapes (env : Env) (fuel : Nat) (plan : Option Arg) (root : Val) (h : Heap) :
    (execute env true fuel plan root h).1 ≠ .panic := by
  unfold execute
  simp only
  split <;> simp

/-- model of the wrapper: the outcome is nil, an error, or a stop of the model that is not a Go panic -/
theorem outcome_total (env : Env) (fuel : Nat) (plan : Option Arg) (root : Val) (h : Heap) :
    (execute env true fuel plan root h).1 ∈ [Outcome.ok, .err, .diverge, .unmodelled, .enum, .fuel] := by
  have := no_panic_escapes env fuel plan root h
  cases ho : (execute env true fuel plan root h).1 <;> simp_all

def envCur : Env := ⟨Dev.current, none⟩
def envBefore : Env := ⟨Dev.before, none⟩
def envDoc : Env := ⟨Dev.none, none⟩

/-- the wrapper is needed: `[not]` (a wrong arity) panics, and without the recover that panic escapes -/
theorem recover_needed :
    (execute envCur false 5 (some (.call b!"not" [])) (.mref 0) [Cell.map []]).1 = .panic ∧
    (execute envCur true 5 (some (.call b!"not" [])) (.mref 0) [Cell.map []]).1 = .err := by decide

/-- executing the nil plan (NewPlan of an empty array) is an error, not a crash -/
theorem nil_plan_is_error : (execute envCur true 5 none (.mref 0) [Cell.map []]).1 = .err := by decide

/-- full strength: every modelled run completes or returns an error -/
def total_full : Prop :=
  ∀ (fuel : Nat) (plan : Arg) (root : Val) (h : Heap),
    (execute envCur true fuel (some plan) root h).1 ∈ [Outcome.ok, .err, .unmodelled, .enum, .fuel]

/-- `[[set $.asm $] [set $.x [eq $ $]]]`: the root is stored under itself, then compared -/
def cyclicPlan : Arg :=
  .call b!"asm" [
    .call b!"set" [.path ⟨false, [.child b!"asm"]⟩, .path ⟨false, []⟩],
    .call b!"set" [.path ⟨false, [.child b!"x"]⟩, .call b!"eq" [.path ⟨false, []⟩, .path ⟨false, []⟩]]]

/-- not so: a plan can make the data cyclic, and `equal` then recurses without end (in Go: a fatal
stack overflow that no recover catches) — known finding C20-cyclic-data -/
theorem total_full_false : ¬ total_full := by
  intro hf
  have := hf 5 cyclicPlan (.mref 0) [Cell.map []]
  revert this
  decide

/-- model of the wrapper again (a corollary of `outcome_total`): if the outcome is not `diverge` it is one of
the others. The substantive statement about `diverge` and `fuel` is `execute_total`. -/
theorem total_partial (env : Env) (fuel : Nat) (plan : Option Arg) (root : Val) (h : Heap) :
    (execute env true fuel plan root h).1 ≠ .diverge →
    (execute env true fuel plan root h).1 ∈ [Outcome.ok, .err, .unmodelled, .enum, .fuel] := by
  intro hd
  have := no_panic_escapes env fuel plan root h
  cases ho : (execute env true fuel plan root h).1 <;> simp_all

example : (execute envCur true 5 (some (.call b!"set" [.path ⟨false, [.child b!"asm"]⟩, .lit (.int 1)])) (.mref 0)
    [Cell.map []]).1 ≠ .diverge := by decide

/-- GENERAL no-fault theorem for the modelled functions (the model-level counterpart of C06 for asm). Heap
split at `k` as in `rerun_general`: the plan's cells below `k`, laid out children first (`PlanOrd`: the
literals are finite trees), the data from `k` on, not referring to the plan, with the root in it. For
EVERY plan that fits (`Fit k (fuel + 1) plan`: its literals live in the plan's cells, its calls nest no
deeper than the fuel, and it never calls `equal`/`neq` — the named exclusion: structural comparison is
the one modelled traversal that does not end on cyclic data, C20-cyclic-data), every root and every data,
under the deviations of the code as it is: `Execute` returns nil or an error, or the run leaves the model
(`unmodelled`) or needs a map order (`enum`). It never faults: no panic escapes, it never runs out of
fuel, it never diverges — cyclic data or not (a plan without `equal`/`neq` may build cycles freely). -/
theorem execute_total (dev : Dev) (hd : dev.copies) (fuel : Nat) (plan : Arg) (root : Val) (h : Heap) (k : Nat)
    (hk : k ≤ h.length) (hh : HeapHi k h) (hp : PlanOrd k h) (hroot : root.hi k) (hfit : Fit k (fuel + 1) plan) :
    (execute ⟨dev, none⟩ true fuel (some plan) root h).1 ∈ [Outcome.ok, .err, .unmodelled, .enum] := by
  unfold execute
  simp only
  cases plan with
  | lit v => simp
  | raw v es => simp
  | path p => simp
  | unk => simp
  | call f args =>
    simp only
    cases hfit with
    | call _ _ _ hf hargs =>
      have hst := evalFn_st dev hd (eval ⟨dev, none⟩ root fuel) root root hroot hroot f hf args
        (fun a ha => (hargs a ha).argLo)
        (fun a ha at' hat' => eval_st dev hd root hroot fuel a (hargs a ha) at' hat')
        (by
          intro a ha c hc at' hat'
          have hfa := hargs a ha
          cases a <;> simp [condKids] at hc
          cases hfa with
          | raw _ _ _ _ hes => exact eval_st dev hd root hroot fuel c (hes c hc) at' hat')
      have hm := hst.tot.run h hh hk hp
      cases hr : evalFn ⟨dev, none⟩ (eval ⟨dev, none⟩ root fuel) root root f args h with
      | mk res h' =>
        rw [hr] at hm
        cases res with
        | ok v => simp
        | error e =>
          rcases hm e rfl with he | he | he <;> subst he <;> simp

/-- the code as it is -/
theorem execute_total_current (fuel : Nat) (plan : Arg) (root : Val) (h : Heap) (k : Nat)
    (hk : k ≤ h.length) (hh : HeapHi k h) (hp : PlanOrd k h) (hroot : root.hi k) (hfit : Fit k (fuel + 1) plan) :
    (execute envCur true fuel (some plan) root h).1 ∈ [Outcome.ok, .err, .unmodelled, .enum] :=
  execute_total Dev.current ⟨rfl, rfl, rfl⟩ fuel plan root h k hk hh hp hroot hfit

/-- the exclusion is needed: `cyclicPlan` fits in every other respect (no literals, nesting 2) but calls `eq`,
and diverges (`total_full_false`); a plan that builds the same cycle without comparing it,
`[set $.asm $]`, is covered by `execute_total` and ends `ok` -/
example : Fit 0 2 (.call b!"set" [.path ⟨false, [.child b!"asm"]⟩, .path ⟨false, []⟩]) ∧
    (execute envCur true 1 (some (.call b!"set" [.path ⟨false, [.child b!"asm"]⟩, .path ⟨false, []⟩])) (.mref 0)
      [Cell.map []]).1 = .ok := by
  refine ⟨.call _ _ _ (by decide) (fun a ha => ?_), by decide⟩
  simp at ha
  rcases ha with ha | ha <;> subst ha <;> exact .path _ _

/-! ## 3. determinism -/

/-- `execute` is a function of the plan, the root, the heap and the map iteration order; when the run
without an order does not stop with `enum`, the order plays no part: every order gives that very run -/
theorem order_independent (dev : Dev) (o : MapOrd) (r : Bool) (fuel : Nat) (plan : Option Arg) (root : Val) (h : Heap)
    (hne : (execute ⟨dev, none⟩ r fuel plan root h).1 ≠ .enum) :
    execute ⟨dev, some o⟩ r fuel plan root h = execute ⟨dev, none⟩ r fuel plan root h := by
  unfold execute at hne ⊢
  simp only at hne ⊢
  match plan with
  | none => rfl
  | some (.lit _) => rfl
  | some (.raw _ _) => rfl
  | some (.path _) => rfl
  | some .unk => rfl
  | some (.call f args) =>
    simp only at hne ⊢
    have hs := (evalFn_sim (eval ⟨dev, none⟩ root fuel) (eval ⟨dev, some o⟩ root fuel) dev o root root f args
      (fun a _ at' => eval_sim dev o root fuel a at')).same h
    cases hr : evalFn ⟨dev, none⟩ (eval ⟨dev, none⟩ root fuel) root root f args h with
    | mk res h' =>
      rw [hr] at hne hs
      have : res ≠ .error .enum := by
        intro he
        subst he
        simp at hne
      rw [hs this]

/-- an instance of the hypothesis: `[set $.asm [get $.src.a]]` never asks for an order -/
example : (execute ⟨Dev.current, none⟩ true 5
    (some (.call b!"set" [.path ⟨false, [.child b!"asm"]⟩, .call b!"get" [.path ⟨false, [.child b!"src", .child b!"a"]⟩]]))
    (.mref 0) [Cell.map [(b!"src", .mref 1)], Cell.map [(b!"a", .int 1)]]).1 ≠ .enum := by decide

/-- two orders, one run: under the hypothesis of `order_independent` any two orders agree -/
theorem deterministic (dev : Dev) (o1 o2 : MapOrd) (r : Bool) (fuel : Nat) (plan : Option Arg) (root : Val) (h : Heap)
    (hne : (execute ⟨dev, none⟩ r fuel plan root h).1 ≠ .enum) :
    execute ⟨dev, some o1⟩ r fuel plan root h = execute ⟨dev, some o2⟩ r fuel plan root h := by
  rw [order_independent dev o1 r fuel plan root h hne, order_independent dev o2 r fuel plan root h hne]

/-- `[set $.asm [getall $.src.*]]` -/
def enumPlan : Arg :=
  .call b!"set" [.path ⟨false, [.child b!"asm"]⟩, .call b!"getall" [.path ⟨false, [.child b!"src", .wild]⟩]]

def enumHeap : Heap := [Cell.map [(b!"src", .mref 1)], Cell.map [(b!"a", .int 1), (b!"b", .int 2)]]

/-- the hypothesis is needed: a plan that enumerates a map stops with `enum` when no order is given, and
two orders give two different results (known finding C20-map-order) -/
theorem order_matters :
    (execute ⟨Dev.current, none⟩ true 5 (some enumPlan) (.mref 0) enumHeap).1 = .enum ∧
    execute ⟨Dev.current, some id⟩ true 5 (some enumPlan) (.mref 0) enumHeap ≠
      execute ⟨Dev.current, some List.reverse⟩ true 5 (some enumPlan) (.mref 0) enumHeap := by decide

/-- the plan `[[set $.asm {n: 0}] [set $.asm.n [sum $.asm.n 1]]]`, its literal `{n: 0}` being cell 0 -/
def counterPlan : Arg :=
  .call b!"asm" [
    .call b!"set" [.path ⟨false, [.child b!"asm"]⟩, .lit (.mref 0)],
    .call b!"set" [.path ⟨false, [.child b!"asm", .child b!"n"]⟩,
      .call b!"sum" [.path ⟨false, [.child b!"asm", .child b!"n"]⟩, .lit (.int 1)]]]

/-- heap: the literal, and two equal roots `{src: 1}` -/
def counterHeap : Heap := [Cell.map [(b!"n", .int 0)], Cell.map [(b!"src", .int 1)], Cell.map [(b!"src", .int 1)]]

/-- the plan `[[set $.asm [cond [true [0 7]]]] [set $.asm[0] [sum $.asm[0] 1]]]`: the pair is cell 1, its
list value `[0 7]` cell 0 -/
def condCounterPlan : Arg :=
  .call b!"asm" [
    .call b!"set" [.path ⟨false, [.child b!"asm"]⟩,
      .call b!"cond" [.raw (.aref 1) [.lit (.bool true), .raw (.aref 0) [.lit (.int 0), .lit (.int 7)]]]],
    .call b!"set" [.path ⟨false, [.child b!"asm", .nth 0]⟩,
      .call b!"sum" [.path ⟨false, [.child b!"asm", .nth 0]⟩, .lit (.int 1)]]]

def condCounterHeap : Heap :=
  [Cell.arr [.int 0, .int 7], Cell.arr [.bool true, .aref 0], Cell.map [(b!"src", .int 1)], Cell.map [(b!"src", .int 1)]]

/-- what is looked at after a run on root cell `r`: `$.asm.n`, or `$.asm[0]` when `$.asm` is an array -/
def asmN (h : Heap) (r : Nat) : Option Val :=
  match kvGet b!"asm" (h.mapAt r) with
  | some (.mref a) => kvGet b!"n" (h.mapAt a)
  | some (.aref a) => (h.arrAt a).head?
  | _ => none

/-- full strength: executing one plan twice on equal roots gives equal results -/
def rerun_full (dev : Dev) : Prop :=
  ∀ (plan : Arg) (h : Heap) (r1 r2 : Nat), h.mapAt r1 = h.mapAt r2 →
    let run1 := execute ⟨dev, none⟩ true 9 (some plan) (.mref r1) h
    let run2 := execute ⟨dev, none⟩ true 9 (some plan) (.mref r2) run1.2
    asmN run1.2 r1 = asmN run2.2 r2

/-- before 52cf3c4: the first run edits the plan's literal, the second run starts from the edited literal
(1, then 2) — finding C20-literal-aliasing, fixed -/
theorem rerun_full_false_before : ¬ rerun_full Dev.before := by
  intro hf
  have := hf counterPlan counterHeap 1 2 (by decide)
  revert this
  decide

/-- the code as it is copies literals: the same two runs agree (1 and 1) -/
theorem rerun_counter_current :
    let run1 := execute envCur true 9 (some counterPlan) (.mref 1) counterHeap
    let run2 := execute envCur true 9 (some counterPlan) (.mref 2) run1.2
    asmN run1.2 1 = some (.int 1) ∧ asmN run2.2 2 = some (.int 1) := by decide

/-- before 9281d31 (after the other four): one literal was not copied — a list value returned by `cond`
(`result = tv` in evalValue) was the plan's own list, so the same happened through `cond` (1, then 2) —
finding C20-cond-list-alias, fixed -/
theorem rerun_cond_false_before : ¬ rerun_full Dev.beforeCondCopy := by
  intro hf
  have := hf condCounterPlan condCounterHeap 2 3 (by decide)
  revert this
  decide

/-- the code as it is copies that list as well: the two runs agree (1 and 1) -/
theorem rerun_cond_counter_current :
    let run1 := execute envCur true 9 (some condCounterPlan) (.mref 2) condCounterHeap
    let run2 := execute envCur true 9 (some condCounterPlan) (.mref 3) run1.2
    asmN run1.2 2 = some (.int 1) ∧ asmN run2.2 3 = some (.int 1) := by decide

/-- and neither run touches the plan's own cells (the list `[0 7]`, the pair): what they change is new -/
theorem rerun_cond_plan_untouched :
    let run1 := execute envCur true 9 (some condCounterPlan) (.mref 2) condCounterHeap
    let run2 := execute envCur true 9 (some condCounterPlan) (.mref 3) run1.2
    run2.2.take 2 = condCounterHeap.take 2 := by decide

/-- GENERAL: the plan is never edited. Split the heap at `k`: the plan's cells below, the data from `k` on,
the data not referring to the plan (`HeapHi`), the root in the data. Then for every plan over the MODELLED
functions (any literals), fuel and root — a call of an unmodelled function is covered only in the
trivial sense that the model stops there (`unmodelled`) with the heap as it is: nothing is claimed
about what `sort`, `append`, … do to the plan (that is oracle (d)/(b) of the run) — under the
deviations of the code since 312106f, 52cf3c4
and 9281d31 (`Dev.copies`): after `Execute` every cell of the plan is what it was, and the data still
does not refer to the plan — the invariant that makes a plan reusable. (Order: runs that need no map
order; with `order_independent` every order.) -/
theorem plan_cells_untouched (dev : Dev) (hd : dev.copies) (r : Bool) (fuel : Nat) (plan : Option Arg) (root : Val)
    (h : Heap) (k : Nat) (hh : HeapHi k h) (hk : k ≤ h.length) (hroot : root.hi k) :
    (∀ i, i < k → (execute ⟨dev, none⟩ r fuel plan root h).2[i]? = h[i]?) ∧
    HeapHi k (execute ⟨dev, none⟩ r fuel plan root h).2 ∧
    h.length ≤ (execute ⟨dev, none⟩ r fuel plan root h).2.length := by
  unfold execute
  simp only
  match plan with
  | none => exact ⟨fun _ _ => rfl, hh, Nat.le_refl _⟩
  | some (.lit _) => exact ⟨fun _ _ => rfl, hh, Nat.le_refl _⟩
  | some (.raw _ _) => exact ⟨fun _ _ => rfl, hh, Nat.le_refl _⟩
  | some (.path _) => exact ⟨fun _ _ => rfl, hh, Nat.le_refl _⟩
  | some .unk => exact ⟨fun _ _ => rfl, hh, Nat.le_refl _⟩
  | some (.call f args) =>
    simp only
    obtain ⟨g1, g2, g3, _⟩ := (evalFn_safe dev hd (eval ⟨dev, none⟩ root fuel) root root hroot hroot f args
      (fun a at' hat' => eval_safe dev hd root hroot fuel a at' hat')).run h hh hk
    cases hr : evalFn ⟨dev, none⟩ (eval ⟨dev, none⟩ root fuel) root root f args h with
    | mk res h' =>
      rw [hr] at g1 g2 g3
      cases res with
      | ok v => exact ⟨g1, g2, g3⟩
      | error e => cases e <;> exact ⟨g1, g2, g3⟩

/-- the code as it is -/
theorem plan_cells_untouched_current (r : Bool) (fuel : Nat) (plan : Option Arg) (root : Val)
    (h : Heap) (k : Nat) (hh : HeapHi k h) (hk : k ≤ h.length) (hroot : root.hi k) :
    ∀ i, i < k → (execute envCur r fuel plan root h).2[i]? = h[i]? :=
  (plan_cells_untouched Dev.current ⟨rfl, rfl, rfl⟩ r fuel plan root h k hh hk hroot).1

/-- an instance of the hypotheses: the heap of `rerun_cond_counter_current` — plan cells 0 and 1, the two
roots `{src: 1}` from 2 on -/
example : HeapHi 2 condCounterHeap ∧ 2 ≤ condCounterHeap.length ∧ Val.hi 2 (.mref 2) := by
  refine ⟨?_, by decide, (by show 2 ≤ 2; omega)⟩
  intro i c hi hget
  have : i = 2 ∨ i = 3 ∨ 4 ≤ i := by omega
  rcases this with h | h | h
  · subst h; simp [condCounterHeap] at hget; subst hget; intro kv hkv; simp at hkv; subst hkv; trivial
  · subst h; simp [condCounterHeap] at hget; subst hget; intro kv hkv; simp at hkv; subst hkv; trivial
  · have : condCounterHeap[i]? = none := List.getElem?_eq_none (by simp [condCounterHeap]; omega)
    simp [this] at hget

/-- the hypothesis `Dev.copies` is needed: before 52cf3c4 the plan's literal (cell 0) was edited -/
example : (execute envBefore true 9 (some counterPlan) (.mref 1) counterHeap).2[0]? ≠ counterHeap[0]? := by decide

/-- the cells of the plan only refer to cells of the plan (literals are trees of their own) -/
def Cell.lo (k : Nat) : Cell → Prop
  | .arr xs => ∀ v ∈ xs, v.lo k
  | .map kvs => ∀ kv ∈ kvs, kv.2.lo k

def PlanClosed (k : Nat) (h : Heap) : Prop := ∀ i c, i < k → h[i]? = some c → Cell.lo k c

theorem cell_lo_fixed (s : Sh) {c : Cell} (hc : Cell.lo s.k c) : s.cell c = c := by
  cases c with
  | arr xs =>
    simp only [Sh.cell]
    congr 1
    have : ∀ (ys : List Val), (∀ v ∈ ys, v.lo s.k) → ys.map s.val = ys := by
      intro ys
      induction ys with
      | nil => intro _; rfl
      | cons y r ih =>
        intro h
        simp only [List.map]
        rw [Sh.val_lo (h y (List.mem_cons_self ..)), ih (fun v hv => h v (List.mem_cons_of_mem _ hv))]
    exact this xs hc
  | map kvs =>
    simp only [Sh.cell]
    congr 1
    have : ∀ (ys : List (Bytes × Val)), (∀ kv ∈ ys, kv.2.lo s.k) → ys.map (fun kv => (kv.1, s.val kv.2)) = ys := by
      intro ys
      induction ys with
      | nil => intro _; rfl
      | cons y r ih =>
        intro h
        simp only [List.map]
        rw [Sh.val_lo (h y (List.mem_cons_self ..)), ih (fun v hv => h v (List.mem_cons_of_mem _ hv))]
    exact this kvs hc

/-- GENERAL equivariance: insert ANY cells `G` between the plan (the first `k` cells) and the data and
move the data up; for every plan whose literals live in the plan's cells, every root, heap, fuel, under
the deviations of the code as it is (`Dev.copies`): `Execute` has the same outcome and leaves the image
of the heap it leaves without the insertion — wherever the run without the insertion does not end in
`diverge` or `enum` (the two stops whose detection depends on the heap size). -/
theorem execute_insert (dev : Dev) (hd : dev.copies) (r : Bool) (fuel : Nat) (plan : Arg) (root : Val) (h : Heap)
    (s : Sh) (hk : s.k ≤ h.length) (hlo : ArgLo s.k plan)
    (hfirm : (execute ⟨dev, none⟩ r fuel (some plan) root h).1 ≠ .diverge ∧
             (execute ⟨dev, none⟩ r fuel (some plan) root h).1 ≠ .enum) :
    execute ⟨dev, none⟩ r fuel (some plan) (s.val root) (s.heap h) =
      ((execute ⟨dev, none⟩ r fuel (some plan) root h).1, s.heap (execute ⟨dev, none⟩ r fuel (some plan) root h).2) := by
  unfold execute at hfirm ⊢
  simp only at hfirm ⊢
  cases plan with
  | lit v => rfl
  | raw v es => rfl
  | path p => rfl
  | unk => rfl
  | call f args =>
    simp only at hfirm ⊢
    cases hlo with
    | call _ _ hargs =>
      have heq := (evalFn_eqv (s := s) (eval ⟨dev, none⟩ root fuel) (eval ⟨dev, none⟩ (s.val root) fuel) dev hd root root f args
        hargs (fun a ha at' => eval_eqv dev hd root fuel a ha at')).eq h hk
      cases hr : evalFn ⟨dev, none⟩ (eval ⟨dev, none⟩ root fuel) root root f args h with
      | mk res h' =>
        rw [hr] at heq hfirm
        have hf : Firm res := by
          intro e he hs
          subst he
          rcases hs with hs | hs <;> subst hs <;> simp at hfirm
        obtain ⟨e1, _⟩ := heq hf
        rw [e1]
        cases res with
        | ok v => rfl
        | error e => cases e <;> rfl

/-- GENERAL re-run theorem for the modelled functions. Heap `h`: the plan's cells below `k` (closed: they
only refer to each other), then the data, which does not refer to the plan, with the root in it. Run the
plan once; `G` is everything from `k` on that the run leaves (the used root, new cells). Put an equal root
after it — the original data cells, moved — and run THE SAME plan again. Then the second run has the same
outcome, leaves the plan's cells as they were, and leaves as data the image of the data the first run
left: equal results. Excluded, and named: runs that end `diverge` (cyclic data, C20-cyclic-data) or `enum`
(a map iteration order is needed, C20-map-order). -/
theorem rerun_general (dev : Dev) (hd : dev.copies) (r : Bool) (fuel : Nat) (plan : Arg) (root : Val) (h : Heap) (k : Nat)
    (hk : k ≤ h.length) (hlo : ArgLo k plan) (hclosed : PlanClosed k h) (hh : HeapHi k h) (hroot : root.hi k)
    (hfirm : (execute ⟨dev, none⟩ r fuel (some plan) root h).1 ≠ .diverge ∧
             (execute ⟨dev, none⟩ r fuel (some plan) root h).1 ≠ .enum) :
    let run1 := execute ⟨dev, none⟩ r fuel (some plan) root h
    let s : Sh := ⟨k, run1.2.drop k⟩
    -- the heap for the second run: what run 1 left, then the original data again (moved)
    let h2 := run1.2 ++ (h.drop k).map s.cell
    let run2 := execute ⟨dev, none⟩ r fuel (some plan) (s.val root) h2
    run2.1 = run1.1 ∧ run2.2 = s.heap run1.2 ∧ (∀ i, i < k → run2.2[i]? = h[i]?) := by
  intro run1 s h2 run2
  have hun := plan_cells_untouched dev hd r fuel (some plan) root h k hh hk hroot
  have hlen1 : k ≤ run1.2.length := Nat.le_trans hk hun.2.2
  -- the heap for the second run is the insertion of `G` into the first heap
  have htake : (h.take k).map s.cell = run1.2.take k := by
    apply List.ext_getElem?
    intro i
    by_cases hi : i < k
    · rw [List.getElem?_map, List.getElem?_take, List.getElem?_take]
      simp only [hi, if_true]
      rw [hun.1 i hi]
      cases hg : h[i]? with
      | none => rfl
      | some c => simp only [Option.map]; rw [cell_lo_fixed s (hclosed i c hi hg)]
    · rw [List.getElem?_eq_none (by simp [List.length_take]; omega), List.getElem?_eq_none (by simp [List.length_take]; omega)]
  have hh2 : h2 = s.heap h := by
    show run1.2 ++ (h.drop k).map s.cell = (h.take s.k).map s.cell ++ s.G ++ (h.drop s.k).map s.cell
    show run1.2 ++ (h.drop k).map s.cell = (h.take k).map s.cell ++ run1.2.drop k ++ (h.drop k).map s.cell
    rw [htake, List.take_append_drop]
  have hins := execute_insert dev hd r fuel plan root h s hk hlo hfirm
  have hrun2 : run2 = (run1.1, s.heap run1.2) := by
    show execute ⟨dev, none⟩ r fuel (some plan) (s.val root) h2 = _
    rw [hh2]; exact hins
  refine ⟨by rw [hrun2], by rw [hrun2], ?_⟩
  intro i hi
  rw [hrun2]
  have hia : s.ad i = i := by
    have : i < s.k := hi
    unfold Sh.ad; rw [if_pos this]
  show (s.heap run1.2)[i]? = h[i]?
  rw [← hia, Sh.heap_get s run1.2 hlen1 i, hia, hun.1 i hi]
  cases hg : h[i]? with
  | none => rfl
  | some c => simp only [Option.map]; rw [cell_lo_fixed s (hclosed i c hi hg)]

/-- "equal results": whatever a simple path reads under the second root after the second run is the image
of what it reads under the first root after the first run — the same scalar, or the moved reference -/
theorem rerun_reads_equal (s : Sh) (dev : Dev) (h1 : Heap) (hk : s.k ≤ h1.length) (root : Val) (fs : List Frag) :
    pathFirst ⟨dev, none⟩ (s.heap h1) (s.val root) fs = (pathFirst ⟨dev, none⟩ h1 root fs).map (Option.map s.val) :=
  Sh.pathFirst_sh s dev h1 hk fs root

/-- the code as it is -/
theorem rerun_current (r : Bool) (fuel : Nat) (plan : Arg) (root : Val) (h : Heap) (k : Nat)
    (hk : k ≤ h.length) (hlo : ArgLo k plan) (hclosed : PlanClosed k h) (hh : HeapHi k h) (hroot : root.hi k)
    (hfirm : (execute envCur r fuel (some plan) root h).1 ≠ .diverge ∧ (execute envCur r fuel (some plan) root h).1 ≠ .enum) :
    let run1 := execute envCur r fuel (some plan) root h
    let s : Sh := ⟨k, run1.2.drop k⟩
    let run2 := execute envCur r fuel (some plan) (s.val root) (run1.2 ++ (h.drop k).map s.cell)
    run2.1 = run1.1 ∧ run2.2 = s.heap run1.2 ∧ (∀ i, i < k → run2.2[i]? = h[i]?) :=
  rerun_general Dev.current ⟨rfl, rfl, rfl⟩ r fuel plan root h k hk hlo hclosed hh hroot hfirm

/-- an instance of the hypotheses: `condCounterPlan` on `condCounterHeap` with the boundary 2 (cells 0, 1 are
the plan's list `[0 7]` and pair; the literals of the plan are those two cells) — and the run ends `ok` -/
example : ArgLo 2 condCounterPlan ∧ PlanClosed 2 condCounterHeap ∧
    (execute envCur true 9 (some condCounterPlan) (.mref 2) condCounterHeap).1 = .ok := by
  refine ⟨?_, ?_, by decide⟩
  · refine .call _ _ (fun a ha => ?_)
    simp at ha
    rcases ha with ha | ha <;> subst ha
    · refine .call _ _ (fun a ha => ?_)
      simp at ha
      rcases ha with ha | ha <;> subst ha
      · exact .path _
      · refine .call _ _ (fun a ha => ?_)
        simp at ha; subst ha
        refine .raw _ _ (by show 1 < 2; omega) (fun e he => ?_)
        simp at he
        rcases he with he | he <;> subst he
        · exact .lit _ trivial
        · refine .raw _ _ (by show 0 < 2; omega) (fun e he => ?_)
          simp at he
          rcases he with he | he <;> subst he <;> exact .lit _ trivial
    · refine .call _ _ (fun a ha => ?_)
      simp at ha
      rcases ha with ha | ha <;> subst ha
      · exact .path _
      · refine .call _ _ (fun a ha => ?_)
        simp at ha
        rcases ha with ha | ha <;> subst ha
        · exact .path _
        · exact .lit _ trivial
  · intro i c hi hget
    have : i = 0 ∨ i = 1 := by omega
    rcases this with h | h <;> subst h <;> simp [condCounterHeap] at hget <;> subst hget <;>
      intro v hv <;> simp at hv
    · rcases hv with hv | hv <;> subst hv <;> trivial
    · rcases hv with hv | hv <;> subst hv
      · trivial
      · show 0 < 2; omega

/-- an instance of `PlanOrd`: the plan cells of `condCounterHeap` (cell 0 the list `[0 7]`, cell 1 the pair
that refers to cell 0) -/
example : PlanOrd 2 condCounterHeap := by
  intro i c hi hget
  have : i = 0 ∨ i = 1 := by omega
  rcases this with h | h <;> subst h <;> simp [condCounterHeap] at hget <;> subst hget <;>
    intro v hv <;> simp at hv
  · rcases hv with hv | hv <;> subst hv <;> trivial
  · rcases hv with hv | hv <;> subst hv
    · trivial
    · show 0 < 1; omega

/-- the driver's check is sound: `layoutOK k h root plan` (evaluated on every case before every execution; a
failure is reported as a disagreement) implies every hypothesis of `plan_cells_untouched`, `rerun_general`
and `execute_total` about how the heap is laid out — only `Fit`'s two conditions on the plan itself
(nesting within the fuel, no `equal`/`neq`) are not layout -/
theorem layoutOK_sound (k : Nat) (h : Heap) (root : Val) (plan : Arg) (hok : layoutOK k h root (some plan) = true) :
    k ≤ h.length ∧ HeapHi k h ∧ PlanOrd k h ∧ PlanClosed k h ∧ root.hi k ∧ ArgLo k plan := by
  simp only [layoutOK, Bool.and_eq_true, decide_eq_true_eq] at hok
  obtain ⟨⟨⟨hk, hl⟩, hr⟩, ha⟩ := hok
  have hs := heapLayoutB_sound k h 0 hl
  have hord : PlanOrd k h := fun i c hi hg => by simpa using (hs i c hg).1 (by omega)
  refine ⟨hk, fun i c hi hg => (hs i c hg).2 (by omega), hord, ?_, hiB_sound hr, argLoB_sound k 400 plan ha⟩
  intro i c hi hg
  have hb := hord i c hi hg
  cases c with
  | arr xs => intro v hv; exact below_lo (hb v hv) (by omega)
  | map kvs => intro kv hkv; exact below_lo (hb kv hkv) (by omega)

/-- the check holds on the instance used above -/
example : layoutOK 2 condCounterHeap (.mref 2) (some condCounterPlan) = true := by decide

/-! ## 4. documented results -/

/-- the functions whose arguments are all evaluated values -/
def eagerFns : List Bytes :=
  [b!"sum", b!"+", b!"dif", b!"-", b!"product", b!"*", b!"quotient", b!"/", b!"mod",
   b!"lt", b!"<", b!"lte", b!"<=", b!"gt", b!">", b!"gte", b!">=", b!"equal", b!"eq", b!"==", b!"neq", b!"!=",
   b!"and", b!"or", b!"not", b!"at", b!"root", b!"list", b!"nth", b!"size",
   b!"array?", b!"bool?", b!"map?", b!"nil?", b!"null?", b!"num?", b!"string?"]

def cmpFns : List Bytes := [b!"lt", b!"<", b!"lte", b!"<=", b!"gt", b!">", b!"gte", b!">="]

/-- For every eager function, arguments of every syntactic kind (literals, paths, nested calls) that
evaluate without effect to values `vs` of every kind: the evaluator returns what the specification says
about `vs`, in the same heap — for the comparison functions provided the first argument is evaluated
(`cmpUneval = false`, the documented behaviour) or is a literal (all the code as it is accepts). -/
theorem evalFn_describe (env : Env) (ev : Arg → Val → M Val) (root at_ : Val) (h : Heap) (f : Bytes)
    (args : List Arg) (vs : List Val)
    (hp : PureArgs (fun a => ev a at_) h args vs) (hf : f ∈ eagerFns)
    (hcmp : env.dev.cmpUneval = false ∨ f ∉ cmpFns ∨ ∃ v r, args = .lit v :: r ∧ vs.head? = some v) :
    evalFn env ev root at_ f args h = Spec.describe env.dev f vs h := by
  have hc : f ∈ cmpFns → (env.dev.cmpUneval = false ∨ ∃ v r, args = .lit v :: r ∧ vs.head? = some v) := by
    intro hm
    rcases hcmp with h1 | h2 | h3
    · exact Or.inl h1
    · exact absurd hm h2
    · exact Or.inr h3
  simp only [eagerFns, List.mem_cons, List.mem_nil_iff, or_false] at hf
  rcases hf with hf | hf | hf | hf | hf | hf | hf | hf | hf | hf | hf | hf | hf | hf | hf | hf | hf | hf | hf | hf |
    hf | hf | hf | hf | hf | hf | hf | hf | hf | hf | hf | hf | hf | hf | hf | hf | hf <;> subst hf
  -- sum +
  · simp [evalFn, fnKind, fnTable, lookupKind, evalKind, Spec.describe, fnSum_spec _ h args vs hp]
  · simp [evalFn, fnKind, fnTable, lookupKind, evalKind, Spec.describe, fnSum_spec _ h args vs hp]
  -- dif - product * quotient /
  · simp [evalFn, fnKind, fnTable, lookupKind, evalKind, Spec.describe, fnArith_spec _ _ _ h args vs hp, ArithOp.spec]
  · simp [evalFn, fnKind, fnTable, lookupKind, evalKind, Spec.describe, fnArith_spec _ _ _ h args vs hp, ArithOp.spec]
  · simp [evalFn, fnKind, fnTable, lookupKind, evalKind, Spec.describe, fnArith_spec _ _ _ h args vs hp, ArithOp.spec]
  · simp [evalFn, fnKind, fnTable, lookupKind, evalKind, Spec.describe, fnArith_spec _ _ _ h args vs hp, ArithOp.spec]
  · simp [evalFn, fnKind, fnTable, lookupKind, evalKind, Spec.describe, fnArith_spec _ _ _ h args vs hp, ArithOp.spec]
  · simp [evalFn, fnKind, fnTable, lookupKind, evalKind, Spec.describe, fnArith_spec _ _ _ h args vs hp, ArithOp.spec]
  -- mod
  · simp [evalFn, fnKind, fnTable, lookupKind, evalKind, Spec.describe, fnMod_spec _ h args vs hp]
  -- lt < lte <= gt > gte >=
  · simp [evalFn, fnKind, fnTable, lookupKind, evalKind, Spec.describe, fnCmp_spec _ _ _ h args vs hp (hc (by simp [cmpFns]))]
  · simp [evalFn, fnKind, fnTable, lookupKind, evalKind, Spec.describe, fnCmp_spec _ _ _ h args vs hp (hc (by simp [cmpFns]))]
  · simp [evalFn, fnKind, fnTable, lookupKind, evalKind, Spec.describe, fnCmp_spec _ _ _ h args vs hp (hc (by simp [cmpFns]))]
  · simp [evalFn, fnKind, fnTable, lookupKind, evalKind, Spec.describe, fnCmp_spec _ _ _ h args vs hp (hc (by simp [cmpFns]))]
  · simp [evalFn, fnKind, fnTable, lookupKind, evalKind, Spec.describe, fnCmp_spec _ _ _ h args vs hp (hc (by simp [cmpFns]))]
  · simp [evalFn, fnKind, fnTable, lookupKind, evalKind, Spec.describe, fnCmp_spec _ _ _ h args vs hp (hc (by simp [cmpFns]))]
  · simp [evalFn, fnKind, fnTable, lookupKind, evalKind, Spec.describe, fnCmp_spec _ _ _ h args vs hp (hc (by simp [cmpFns]))]
  · simp [evalFn, fnKind, fnTable, lookupKind, evalKind, Spec.describe, fnCmp_spec _ _ _ h args vs hp (hc (by simp [cmpFns]))]
  -- equal eq == neq !=
  · simp [evalFn, fnKind, fnTable, lookupKind, evalKind, Spec.describe, fnEqual_spec _ _ h args vs hp]; cases Spec.equal env.dev h vs <;> rfl
  · simp [evalFn, fnKind, fnTable, lookupKind, evalKind, Spec.describe, fnEqual_spec _ _ h args vs hp]; cases Spec.equal env.dev h vs <;> rfl
  · simp [evalFn, fnKind, fnTable, lookupKind, evalKind, Spec.describe, fnEqual_spec _ _ h args vs hp]; cases Spec.equal env.dev h vs <;> rfl
  · simp [evalFn, fnKind, fnTable, lookupKind, evalKind, Spec.describe, fnEqual_spec _ _ h args vs hp]; cases Spec.equal env.dev h vs <;> rfl
  · simp [evalFn, fnKind, fnTable, lookupKind, evalKind, Spec.describe, fnEqual_spec _ _ h args vs hp]; cases Spec.equal env.dev h vs <;> rfl
  -- and or not
  · simp [evalFn, fnKind, fnTable, lookupKind, evalKind, Spec.describe, fnAnd_spec _ h args vs hp]
  · simp [evalFn, fnKind, fnTable, lookupKind, evalKind, Spec.describe, fnOr_spec _ h args vs hp]
  · simp [evalFn, fnKind, fnTable, lookupKind, evalKind, Spec.describe, fnNot_spec _ h args vs hp]
  -- at root
  · simp [evalFn, fnKind, fnTable, lookupKind, evalKind, Spec.describe, fnPathOf_spec _ _ h args vs hp]
  · simp [evalFn, fnKind, fnTable, lookupKind, evalKind, Spec.describe, fnPathOf_spec _ _ h args vs hp]
  -- list nth size
  · simp [evalFn, fnKind, fnTable, lookupKind, evalKind, Spec.describe, fnList_spec _ h args vs hp]
  · simp [evalFn, fnKind, fnTable, lookupKind, evalKind, Spec.describe, fnNth_spec _ h args vs hp]
  · simp [evalFn, fnKind, fnTable, lookupKind, evalKind, Spec.describe, fnSize_spec _ h args vs hp]
  -- array? bool? map? nil? null? num? string?
  · simp [evalFn, fnKind, fnTable, lookupKind, evalKind, Spec.describe, fnPred_spec _ _ h args vs hp]
  · simp [evalFn, fnKind, fnTable, lookupKind, evalKind, Spec.describe, fnPred_spec _ _ h args vs hp]
  · simp [evalFn, fnKind, fnTable, lookupKind, evalKind, Spec.describe, fnPred_spec _ _ h args vs hp]
  · simp [evalFn, fnKind, fnTable, lookupKind, evalKind, Spec.describe, fnPred_spec _ _ h args vs hp]
  · simp [evalFn, fnKind, fnTable, lookupKind, evalKind, Spec.describe, fnPred_spec _ _ h args vs hp]
  · simp [evalFn, fnKind, fnTable, lookupKind, evalKind, Spec.describe, fnPred_spec _ _ h args vs hp]
  · simp [evalFn, fnKind, fnTable, lookupKind, evalKind, Spec.describe, fnPred_spec _ _ h args vs hp]

/-- an instance of the hypotheses: `[sum $.src.a 2 "x"]` with `$.src.a = 1` evaluates its three arguments
without effect, and the result is the text `3x` -/
example :
    let h : Heap := [Cell.map [(b!"src", .mref 1)], Cell.map [(b!"a", .int 1)]]
    let args : List Arg := [.path ⟨false, [.child b!"src", .child b!"a"]⟩, .lit (.int 2), .lit (.str b!"x")]
    PureArgs (fun a => eval envCur (.mref 0) 3 a (.mref 0)) h args [.int 1, .int 2, .str b!"x"] ∧
    evalFn envCur (eval envCur (.mref 0) 3) (.mref 0) (.mref 0) b!"sum" args h = (.ok (.str b!"3x"), h) := by
  decide

/-- full strength for the comparison functions: whatever the first argument is -/
def cmp_full (dev : Dev) : Prop :=
  ∀ (ev : Arg → Val → M Val) (root at_ : Val) (h : Heap) (f : Bytes) (args : List Arg) (vs : List Val),
    f ∈ cmpFns → PureArgs (fun a => ev a at_) h args vs →
      evalFn ⟨dev, none⟩ ev root at_ f args h = Spec.describe dev f vs h

/-- before 312106f: `[lt $.src.a 5]` with `$.src.a = 1` was an error although 1 < 5 — finding
C20-cmp-unevaluated-first, fixed -/
theorem cmp_full_false_before : ¬ cmp_full Dev.before := by
  intro hf
  have := hf (eval envBefore (.mref 0) 3) (.mref 0) (.mref 0)
    [Cell.map [(b!"src", .mref 1)], Cell.map [(b!"a", .int 1)]] b!"lt"
    [.path ⟨false, [.child b!"src", .child b!"a"]⟩, .lit (.int 5)] [.int 1, .int 5] (by decide) (by decide)
  revert this
  decide

/-- it holds as soon as the first argument is evaluated like the others -/
theorem cmp_full_fixed (dev : Dev) (hd : dev.cmpUneval = false) : cmp_full dev := by
  intro ev root at_ h f args vs hf hp
  have hmem : f ∈ eagerFns := by
    simp only [cmpFns, List.mem_cons, List.mem_nil_iff, or_false] at hf
    rcases hf with hf | hf | hf | hf | hf | hf | hf | hf <;> subst hf <;> decide
  exact evalFn_describe ⟨dev, none⟩ ev root at_ h f args vs hp hmem (Or.inl hd)

/-- the code as it is: the comparison functions compute the documented chain whatever their first
argument is -/
theorem cmp_full_current : cmp_full Dev.current := cmp_full_fixed Dev.current rfl

/-- the code as it is, all eager functions at once: no side condition on the comparison functions is left -/
theorem evalFn_describe_current (ord : Option MapOrd) (ev : Arg → Val → M Val) (root at_ : Val) (h : Heap) (f : Bytes)
    (args : List Arg) (vs : List Val)
    (hp : PureArgs (fun a => ev a at_) h args vs) (hf : f ∈ eagerFns) :
    evalFn ⟨Dev.current, ord⟩ ev root at_ f args h = Spec.describe Dev.current f vs h :=
  evalFn_describe ⟨Dev.current, ord⟩ ev root at_ h f args vs hp hf (Or.inl rfl)

/-- `[lt $.src.a 5]` with `$.src.a = 1` is true now -/
example :
    evalFn envCur (eval envCur (.mref 0) 3) (.mref 0) (.mref 0) b!"lt"
      [.path ⟨false, [.child b!"src", .child b!"a"]⟩, .lit (.int 5)]
      [Cell.map [(b!"src", .mref 1)], Cell.map [(b!"a", .int 1)]] =
    (.ok (.bool true), [Cell.map [(b!"src", .mref 1)], Cell.map [(b!"a", .int 1)]]) := by decide

/-- the documented quotient raises an error on a zero divisor, and so does the code as it is; before
e5d206a `[/ 1.5 0]` was +Inf — finding C20-quotient-float-zero, fixed -/
theorem quotient_zero_current :
    Spec.describe Dev.none b!"/" [.flt (.fin false 3 (-1)), .int 0] [] = (.error .panic, []) ∧
    Spec.describe Dev.current b!"/" [.flt (.fin false 3 (-1)), .int 0] [] = (.error .panic, []) ∧
    Spec.describe Dev.before b!"/" [.flt (.fin false 3 (-1)), .int 0] [] = (.ok (.flt (.inf false)), []) := by
  decide

/-- on the arithmetic functions the code as it is IS the documented function -/
theorem arith_current (op : Spec.Arith) (vs : List Val) : Spec.arith Dev.current op vs = Spec.arith Dev.none op vs := rfl

/-- documented comparison is by value. Before 54cf01b the code rounded integers to float64 first, so 2^53
and 2^53+1 compared equal and `equal` was not transitive across int and float — finding
C20-cmp-float-2p53, fixed -/
theorem cmp_float_before_54cf01b :
    Spec.describe Dev.none b!"lt" [.int 9007199254740992, .int 9007199254740993] [] = (.ok (.bool true), []) ∧
    Spec.describe Dev.beforeCmpExact b!"lt" [.int 9007199254740992, .int 9007199254740993] [] = (.ok (.bool false), []) ∧
    Spec.describe Dev.beforeCmpExact b!"eq" [.flt (.fin false 9007199254740992 0), .int 9007199254740993, .int 9007199254740992] []
      = (.ok (.bool true), []) := by
  decide

/-- the code as it is compares by value: 2^53 < 2^53+1, the float 2^53 is not the integer 2^53+1, MaxInt64 is
less than the float 2^63 -/
theorem cmp_exact_current :
    Spec.describe Dev.current b!"lt" [.int 9007199254740992, .int 9007199254740993] [] = (.ok (.bool true), []) ∧
    Spec.describe Dev.current b!"eq" [.flt (.fin false 9007199254740992 0), .int 9007199254740993, .int 9007199254740992] []
      = (.ok (.bool false), []) ∧
    Spec.describe Dev.current b!"lt" [.int 9223372036854775807, .flt (.fin false 1 63)] [] = (.ok (.bool true), []) ∧
    Spec.describe Dev.current b!"gte" [.int 9223372036854775807, .flt (.fin false 1 63)] [] = (.ok (.bool false), []) := by
  decide

/-- `[cond [true [1 2]]]`: the value is a list that is not a function call; documented "the second can
be any value". Before fb1d065 the answer was nil (finding C20-cond-list-value, fixed); before 9281d31 it
was the plan's own cell 1 (C20-cond-list-alias, fixed); the code as it is answers a copy, which is the
documented behaviour -/
theorem cond_list_current :
    let plan : Arg := .call b!"cond" [.raw (.aref 0) [.lit (.bool true), .raw (.aref 1) [.lit (.int 1), .lit (.int 2)]]]
    let h : Heap := [Cell.arr [.bool true, .aref 1], Cell.arr [.int 1, .int 2]]
    (eval envBefore .null 3 plan .null h).1 = .ok .null ∧
    (eval ⟨Dev.beforeCondCopy, none⟩ .null 3 plan .null h).1 = .ok (.aref 1) ∧
    eval envCur .null 3 plan .null h = (.ok (.aref 2), h ++ [Cell.arr [.int 1, .int 2]]) ∧
    eval envCur .null 3 plan .null h = eval envDoc .null 3 plan .null h := by
  decide

/-- map equality is "same key set, equal values": a member whose key the other map lacks makes the maps
different even when it holds null (found by `kvGet … = none → no`, never by comparing with a missing
value) -/
theorem eqVals_map_missing_key (dev : Dev) (h : Heap) (n : Nat) (seen : List (Nat × Nat)) (a b : Nat) (k : Bytes) (v : Val)
    (hk : (k, v) ∈ h.mapAt a) (hno : kvGet k (h.mapAt b) = none) (hlen : (h.mapAt a).length = (h.mapAt b).length)
    (hseen : seen.contains (a, b) = false) :
    eqVals dev h (n + 1) seen (.mref a) (.mref b) = .no ∨ eqVals dev h (n + 1) seen (.mref a) (.mref b) = .amb := by
  unfold eqVals
  simp only [hlen, hseen, ne_eq, not_true_eq_false, if_false, Bool.false_eq_true]
  generalize hrs : List.map _ (h.mapAt a) = rs
  have hmem : EqRes.no ∈ rs := by
    rw [← hrs]
    refine List.mem_map.mpr ⟨(k, v), hk, ?_⟩
    simp [hno]
  unfold eqCombine
  simp only [List.contains_iff_mem]
  by_cases h1 : EqRes.amb ∈ rs
  · right; simp [h1]
  · by_cases h2 : EqRes.cyc ∈ rs
    · right; simp [h1, hmem, h2]
    · left; simp [h1, hmem, h2]

/-- `{a: 1, b: null}` and `{a: 1, c: 2}` (same size, one key renamed, the extra key of the first holding
null) are different in both argument orders, and a map equals a reordered copy of itself -/
theorem equal_maps_same_keys :
    let h : Heap := [Cell.map [(b!"a", .int 1), (b!"b", .null)], Cell.map [(b!"a", .int 1), (b!"c", .int 2)],
                     Cell.map [(b!"b", .null), (b!"a", .int 1)]]
    Spec.equal Dev.current h [.mref 0, .mref 1] = .ok false ∧
    Spec.equal Dev.current h [.mref 1, .mref 0] = .ok false ∧
    Spec.equal Dev.current h [.mref 0, .mref 2] = .ok true := by decide

/-- closed form: the sum of int64 arguments is the mathematical sum wrapped once (the running int64
accumulator of the code loses nothing more than that) -/
theorem sum_ints (x : Int) (xs : List Int) (hx : inInt64 x) :
    Spec.sum ((x :: xs).map .int) = .ok (.int (wrap64 (x + xs.sum))) := by
  simp only [List.map, Spec.sum]
  rw [← wrap64_of_inInt64 hx, foldAdd_ints xs x, wrap64_of_inInt64 hx]

/-- closed form: `dif` of int64 arguments is first − (sum of the rest), wrapped once -/
theorem dif_ints (dev : Dev) (x : Int) (xs : List Int) (hx : inInt64 x) :
    Spec.arith dev .dif ((x :: xs).map .int) = .ok (.int (wrap64 (x - xs.sum))) := by
  simp only [List.map, Spec.arith, Val.isNum, if_true]
  rw [← wrap64_of_inInt64 hx, foldDif_ints dev xs x, wrap64_of_inInt64 hx]

example : inInt64 9223372036854775807 ∧
    Spec.sum [.int 9223372036854775807, .int 1] = .ok (.int (-9223372036854775808)) := by
  unfold inInt64 minInt64 maxInt64; decide

/-- "each argument is less than any subsequent argument": for integers compared exactly (the documented
comparison) the neighbour chain the code walks is true exactly when ALL pairs are in order -/
theorem lt_ints_pairwise (dev : Dev) (hd : dev.cmpFloat = false) (x : Int) (xs : List Int) :
    Spec.cmp dev .lt ((x :: xs).map .int) = .ok (.bool true) ↔ (x :: xs).Pairwise (· < ·) := by
  have hx : Spec.numOf dev (.int x) = some (exactFlt x) := by simp [Spec.numOf, asFloat, hd, exactFlt]
  simp only [List.map, Spec.cmp, hx, numChain_lt_ints dev hd xs x]
  rw [← intChain_pairwise xs x]
  constructor
  · intro h; injection h with h; injection h
  · intro h; rw [h]

/-- the code as it is: `lt` on integers is true exactly when all pairs are in order -/
theorem lt_ints_pairwise_current (x : Int) (xs : List Int) :
    Spec.cmp Dev.current .lt ((x :: xs).map .int) = .ok (.bool true) ↔ (x :: xs).Pairwise (· < ·) :=
  lt_ints_pairwise Dev.current rfl x xs

/-- not so through float64 (before 54cf01b): 2^53 < 2^53+1 < 2^53+2, but the chain over the rounded values
failed at the first step; now it holds -/
example : Spec.cmp Dev.beforeCmpExact .lt [.int 9007199254740992, .int 9007199254740993, .int 9007199254740994] = .ok (.bool false) ∧
    Spec.cmp Dev.current .lt [.int 9007199254740992, .int 9007199254740993, .int 9007199254740994] = .ok (.bool true) := by
  decide

/-- get/getall/set/setall/del/delall with a path argument, `cond`, `asm`, `each`: the evaluator computes
the specification's function of the path, the evaluated value arguments and the sub-plans' meanings -/
theorem get_spec (env : Env) (e : Arg → M Val) (root at_ : Val) (p : Path) (h : Heap) :
    fnGet env e root at_ [.path p] h = (Spec.get env h p (if p.isAt then at_ else root), h) :=
  fnGet_path env e root at_ p h

theorem get_from_spec (env : Env) (e : Arg → M Val) (root at_ : Val) (p : Path) (d : Arg) (data : Val) (h : Heap)
    (hd : e d h = (.ok data, h)) : fnGet env e root at_ [.path p, d] h = (Spec.get env h p data, h) :=
  fnGet_data env e root at_ p d data h hd

theorem getall_spec (env : Env) (e : Arg → M Val) (root at_ : Val) (p : Path) (h : Heap) :
    fnGetall env e root at_ [.path p] h = Spec.getall env p (if p.isAt then at_ else root) h :=
  fnGetall_path env e root at_ p h

theorem getall_from_spec (env : Env) (e : Arg → M Val) (root at_ : Val) (p : Path) (d : Arg) (data : Val) (h : Heap)
    (hd : e d h = (.ok data, h)) : fnGetall env e root at_ [.path p, d] h = Spec.getall env p data h :=
  fnGetall_data env e root at_ p d data h hd

theorem set_spec (e : Arg → M Val) (root at_ : Val) (p : Path) (b : Arg) (v : Val) (h : Heap)
    (hb : e b h = (.ok v, h)) :
    fnSet e root at_ [.path p, b] h = Spec.setOrDel (some v) p (if p.isAt then at_ else root) at_ h :=
  fnSet_path e root at_ p b v h hb

theorem del_spec (root at_ : Val) (p : Path) (h : Heap) :
    fnDel root at_ [.path p] h = Spec.setOrDel none p (if p.isAt then at_ else root) at_ h :=
  fnDel_path root at_ p h

theorem cond_spec (dev : Dev) (e : Arg → M Val) (args : List Arg) (hno : ∀ a ∈ args, ∀ r, a ≠ .lit (.aref r)) :
    fnCond dev e args = Spec.cond (args.map (condPair dev e)) :=
  fnCond_spec dev e args hno

theorem asm_spec (ev : Arg → Val → M Val) (args : List Arg) (at_ : Val) :
    fnAsm ev args at_ = Spec.asm (args.map (fun a => ev a)) at_ :=
  fnAsm_spec ev args at_

theorem each_spec (ev : Arg → Val → M Val) (at_ : Val) (a0 : Arg) (f : Bytes) (fargs : List Arg) (a : Nat) (h : Heap)
    (h0 : ev a0 at_ h = (.ok (.aref a), h)) :
    fnEach ev at_ [a0, .call f fargs] h = Spec.each (fun at' => ev (.call f fargs) at') b!"asm" a h :=
  fnEach_spec ev at_ a0 f fargs a h h0

theorem each_key_spec (ev : Arg → Val → M Val) (at_ : Val) (a0 k : Arg) (f : Bytes) (fargs : List Arg) (a : Nat)
    (key : Bytes) (h : Heap)
    (h0 : ev a0 at_ h = (.ok (.aref a), h)) (hk : ev k at_ h = (.ok (.str key), h)) :
    fnEach ev at_ [a0, .call f fargs, k] h = Spec.each (fun at' => ev (.call f fargs) at') key a h :=
  fnEach_key_spec ev at_ a0 k f fargs a key h h0 hk

/-- instances of the hypotheses of `cond_spec` and `each_spec`: the plan
`[each $.src.l [set @.asm [cond [[lt 1 @.src] big] [true small]]]]` on `{src: {l: [1 5]}}` — every `cond`
argument is a two-element list, the array argument evaluates without effect — gives `[small big]` -/
example :
    let condArgs : List Arg := [
      .raw (.aref 2) [.call b!"lt" [.lit (.int 1), .path ⟨true, [.child b!"src"]⟩], .lit (.str b!"big")],
      .raw (.aref 3) [.lit (.bool true), .lit (.str b!"small")]]
    let body : Arg := .call b!"set" [.path ⟨true, [.child b!"asm"]⟩, .call b!"cond" condArgs]
    let h : Heap := [Cell.map [(b!"src", .mref 1)], Cell.map [(b!"l", .aref 4)], Cell.arr [], Cell.arr [],
                     Cell.arr [.int 1, .int 5]]
    (∀ a ∈ condArgs, ∀ r, a ≠ .lit (.aref r)) ∧
    eval envCur (.mref 0) 5 (.path ⟨false, [.child b!"src", .child b!"l"]⟩) (.mref 0) h = (.ok (.aref 4), h) ∧
    (match fnEach (eval envCur (.mref 0) 5) (.mref 0) [.path ⟨false, [.child b!"src", .child b!"l"]⟩, body] h with
     | (.ok (.aref c), h') => h'.arrAt c
     | _ => []) = [.str b!"small", .str b!"big"] := by
  refine ⟨?_, by decide, by decide⟩
  intro a ha r
  simp at ha
  rcases ha with ha | ha <;> subst ha <;> simp


/-! ### text, conversion and list functions -/

/-- the text, conversion and list functions whose arguments are all evaluated values -/
def textFns : List Bytes :=
  [b!"tolower", b!"toupper", b!"title", b!"trim", b!"replace", b!"split", b!"substr", b!"join", b!"int", b!"float",
   b!"string", b!"reverse", b!"append", b!"include"]

/-- For the 14 text, conversion and list functions, arguments of every syntactic kind that evaluate without
effect to values `vs` of every kind: the evaluator returns what `Spec.describe` says about `vs` — including
which wrong argument count or kind is an error and which assertion fails first. (For the first eleven the
specification applies the function's record to the values, see the disclosure in Asm/Spec.lean; the
closed forms below state what the records compute.) -/
theorem evalFn_describe_text (env : Env) (ev : Arg → Val → M Val) (root at_ : Val) (h : Heap) (f : Bytes)
    (args : List Arg) (vs : List Val)
    (hp : PureArgs (fun a => ev a at_) h args vs) (hf : f ∈ textFns) :
    evalFn env ev root at_ f args h = Spec.describe env.dev f vs h := by
  simp only [textFns, List.mem_cons, List.mem_nil_iff, or_false] at hf
  rcases hf with hf | hf | hf | hf | hf | hf | hf | hf | hf | hf | hf | hf | hf | hf <;> subst hf
  · simp [evalFn, fnKind, fnTable, lookupKind, evalKind, Spec.describe, fnScalar_spec _ _ h args vs hp]
  · simp [evalFn, fnKind, fnTable, lookupKind, evalKind, Spec.describe, fnScalar_spec _ _ h args vs hp]
  · simp [evalFn, fnKind, fnTable, lookupKind, evalKind, Spec.describe, fnScalar_spec _ _ h args vs hp]
  · simp [evalFn, fnKind, fnTable, lookupKind, evalKind, Spec.describe, fnScalar_spec _ _ h args vs hp]
  · simp [evalFn, fnKind, fnTable, lookupKind, evalKind, Spec.describe, fnScalar_spec _ _ h args vs hp]
  · simp [evalFn, fnKind, fnTable, lookupKind, evalKind, Spec.describe, fnScalar_spec _ _ h args vs hp]
  · simp [evalFn, fnKind, fnTable, lookupKind, evalKind, Spec.describe, fnScalar_spec _ _ h args vs hp]
  · simp [evalFn, fnKind, fnTable, lookupKind, evalKind, Spec.describe, fnScalar_spec _ _ h args vs hp]
  · simp [evalFn, fnKind, fnTable, lookupKind, evalKind, Spec.describe, fnScalar_spec _ _ h args vs hp]
  · simp [evalFn, fnKind, fnTable, lookupKind, evalKind, Spec.describe, fnScalar_spec _ _ h args vs hp]
  · simp [evalFn, fnKind, fnTable, lookupKind, evalKind, Spec.describe, fnScalar_spec _ _ h args vs hp]
  · simp [evalFn, fnKind, fnTable, lookupKind, evalKind, Spec.describe, fnReverse_spec _ h args vs hp]
  · simp [evalFn, fnKind, fnTable, lookupKind, evalKind, Spec.describe, fnAppend_spec _ h args vs hp]
  · simp [evalFn, fnKind, fnTable, lookupKind, evalKind, Spec.describe, fnInclude_spec _ h args vs hp]

/-- all 51 functions whose arguments are evaluated values at once, for the code as it is: the evaluator returns what
`Spec.describe` says, for arguments of every syntactic kind that evaluate without effect -/
theorem evalFn_describe_all (ord : Option MapOrd) (ev : Arg → Val → M Val) (root at_ : Val) (h : Heap) (f : Bytes)
    (args : List Arg) (vs : List Val)
    (hp : PureArgs (fun a => ev a at_) h args vs) (hf : f ∈ eagerFns ++ textFns) :
    evalFn ⟨Dev.current, ord⟩ ev root at_ f args h = Spec.describe Dev.current f vs h := by
  rcases List.mem_append.mp hf with h1 | h1
  · exact evalFn_describe_current ord ev root at_ h f args vs hp h1
  · exact evalFn_describe_text ⟨Dev.current, ord⟩ ev root at_ h f args vs hp h1

/-- an instance of the hypotheses: `[substr $.src.s 1 2]` with `$.src.s = "hello"` is `"el"` -/
example :
    let h : Heap := [Cell.map [(b!"src", .mref 1)], Cell.map [(b!"s", .str b!"hello")]]
    let args : List Arg := [.path ⟨false, [.child b!"src", .child b!"s"]⟩, .lit (.int 1), .lit (.int 2)]
    PureArgs (fun a => eval envCur (.mref 0) 3 a (.mref 0)) h args [.str b!"hello", .int 1, .int 2] ∧
    evalFn envCur (eval envCur (.mref 0) 3) (.mref 0) (.mref 0) b!"substr" args h = (.ok (.str b!"el"), h) := by
  decide

/-! closed forms: what the records compute on well-typed arguments, and that a wrong kind is an error -/

/-- `tolower`/`toupper` map every character of an ASCII text; anything but exactly one string is an error -/
theorem tolower_spec (dev : Dev) (s : Bytes) (hs : isAscii s = true) (h : Heap) :
    Spec.describe dev b!"tolower" [.str s] h = (.ok (.str (s.map lowerB)), h) ∧
    Spec.describe dev b!"toupper" [.str s] h = (.ok (.str (s.map upperB)), h) := by
  simp [Spec.describe, Spec.scalar, Spec.acceptAll, sfCase, Want.accept, asciiOr, hs, Tree.toVal]

theorem text_fn_not_string (dev : Dev) (v : Val) (hv : v.isStr = false) (h : Heap) :
    ∀ f ∈ [b!"tolower", b!"toupper", b!"title", b!"trim"], Spec.describe dev f [v] h = (Spec.raise, h) := by
  intro f hf
  simp only [List.mem_cons, List.mem_nil_iff, or_false] at hf
  rcases hf with hf | hf | hf | hf <;> subst hf <;> cases v <;>
    simp_all [Spec.describe, Spec.scalar, Spec.acceptAll, sfCase, sfTitle, sfTrim, Want.accept, Spec.raise, Val.isStr]

/-- `title`: the first character to upper case, the rest as it is -/
theorem title_spec (dev : Dev) (c : UInt8) (r : Bytes) (hs : isAscii (c :: r) = true) (h : Heap) :
    Spec.describe dev b!"title" [.str (c :: r)] h = (.ok (.str (upperB c :: r)), h) ∧
    Spec.describe dev b!"title" [.str []] h = (.ok (.str []), h) := by
  simp [Spec.describe, Spec.scalar, Spec.acceptAll, sfTitle, Want.accept, asciiOr, hs, Tree.toVal]

/-- `trim`: white space (one argument) or the characters of the cut set (two) removed from both ends -/
theorem trim_spec (dev : Dev) (s cut : Bytes) (hs : isAscii s = true) (hc : isAscii cut = true) (h : Heap) :
    Spec.describe dev b!"trim" [.str s] h = (.ok (.str (trimBoth isSpaceB s)), h) ∧
    Spec.describe dev b!"trim" [.str s, .str cut] h = (.ok (.str (trimBoth (fun c => cut.contains c) s)), h) := by
  have hsc : isAscii (s ++ cut) = true := by simp_all [isAscii]
  simp [Spec.describe, Spec.scalar, Spec.acceptAll, sfTrim, Want.accept, asciiOr, hs, hsc, Tree.toVal]

/-- `replace`: every occurrence (found from left to right) of a non-empty second argument replaced -/
theorem replace_spec (dev : Dev) (s old new : Bytes) (ho : old ≠ []) (h : Heap) :
    Spec.describe dev b!"replace" [.str s, .str old, .str new] h = (.ok (.str (replaceAll s old new)), h) := by
  simp [Spec.describe, Spec.scalar, Spec.acceptAll, sfReplace, Want.accept, ho, Tree.toVal]

/-- `split`: a NEW array of the pieces between the occurrences of a non-empty separator -/
theorem split_spec (dev : Dev) (s sep : Bytes) (hsep : sep ≠ []) (h : Heap) :
    Spec.describe dev b!"split" [.str s, .str sep] h =
      (.ok (.aref h.length), h ++ [.arr ((splitOn s sep).map Val.str)]) := by
  simp [Spec.describe, Spec.scalar, Spec.acceptAll, sfSplit, Want.accept, hsep, List.map_map, Function.comp_def, Tree.toVal]

/-- `substr` with a start inside the text: `count` bytes from `start` (as many as there are), or the rest -/
theorem scalar_of_fin (g : ScalarFn) (vs : List Val) (h : Heap) (acc : List Tree) (s : Bytes)
    (ha : g.arity vs.length = true)
    (hadm : Spec.acceptAll h (g.wants vs.length) (if g.swap = true then vs.reverse else vs) [] = .ok acc)
    (hfin : g.fin vs.length acc = .ok (.str s)) : Spec.scalar g vs h = (.ok (.str s), h) := by
  unfold Spec.scalar
  simp [ha, hadm, hfin, Tree.toVal]

theorem substr_fin3 (s : Bytes) (start count : Nat) (hst : start ≤ s.length)
    (hc : inInt64 ((start : Int) + count)) :
    sfSubstr.fin 3 [.str s, .int start, .int count] = .ok (.str ((s.drop start).take count)) := by
  have hw : wrap64 ((start : Int) + count) = (start : Int) + count := wrap64_of_inInt64 hc
  have h1 : ¬ ((start : Int) < 0) := by omega
  have h2 : ¬ ((count : Int) < 0) := by omega
  simp only [sfSubstr, h1, h2, if_false, hw]
  by_cases hlen : (s.length : Int) < (start : Int) + count
  · have hl2 : s.length - start ≤ count := by omega
    simp [sliceStr, hlen, hst]
    omega
  · have h3 : (start : Int) ≤ (start : Int) + count := by omega
    have h5 : (start : Int) + count ≤ (s.length : Int) := by omega
    have h4 : ((start : Int) + count).toNat - start = count := by omega
    simp [sliceStr, hlen, h3, h4, h5]

/-- see above -/
theorem substr_spec (dev : Dev) (s : Bytes) (start count : Nat) (hst : start ≤ s.length)
    (hc : inInt64 ((start : Int) + count)) (h : Heap) :
    Spec.describe dev b!"substr" [.str s, .int start] h = (.ok (.str (s.drop start)), h) ∧
    Spec.describe dev b!"substr" [.str s, .int start, .int count] h = (.ok (.str ((s.drop start).take count)), h) := by
  constructor
  · have h1 : ¬ ((start : Int) < 0) := by omega
    simp [Spec.describe, Spec.scalar, Spec.acceptAll, sfSubstr, Want.accept, sliceStr, h1, Tree.toVal, hst]
    rw [List.take_of_length_le]; simp
  · have hd : Spec.describe dev b!"substr" [.str s, .int start, .int count] h =
        Spec.scalar sfSubstr [.str s, .int start, .int count] h := by simp [Spec.describe]
    rw [hd]
    exact scalar_of_fin sfSubstr _ h [.str s, .int start, .int count] _ rfl rfl (substr_fin3 s start count hst hc)
theorem treeStrs_strs : ∀ (ss : List Bytes), treeStrs (ss.map (Val.toTreeS ∘ Val.str)) = ss
  | [] => rfl
  | x :: r => by simp [treeStrs, Val.toTreeS, treeStrs_strs r]

/-- `join`: the strings of the list with the separator between them (none: nothing between them) -/
theorem join_spec (dev : Dev) (a : Nat) (ss : List Bytes) (sep : Bytes) (h : Heap) (ha : h.arrAt a = ss.map Val.str) :
    Spec.describe dev b!"join" [.aref a] h = (.ok (.str (joinWith [] ss)), h) ∧
    Spec.describe dev b!"join" [.aref a, .str sep] h = (.ok (.str (joinWith sep ss)), h) := by
  have h1 : ((ss.map Val.str).all Val.isStr) = true := by simp [Val.isStr]
  constructor
  · simp [Spec.describe, Spec.scalar, Spec.acceptAll, sfJoin, Want.accept, ha, h1, treeStrs_strs, Tree.toVal]
  · simp [Spec.describe, Spec.scalar, Spec.acceptAll, sfJoin, Want.accept, ha, h1, treeStrs_strs, Tree.toVal]

/-- `int`: an integer as it is, a float truncated toward zero, a decimal text read; anything else is nil -/
theorem int_spec (dev : Dev) (i : Int) (h : Heap) :
    Spec.describe dev b!"int" [.int i] h = (.ok (.int i), h) ∧
    Spec.describe dev b!"int" [.flt (.fin true 5 (-1))] h = (.ok (.int (-2)), h) ∧
    Spec.describe dev b!"int" [.str b!"-12"] h = (.ok (.int (-12)), h) ∧
    Spec.describe dev b!"int" [.str b!"1x"] h = (.ok .null, h) ∧
    Spec.describe dev b!"int" [.bool true] h = (.ok .null, h) ∧
    Spec.describe dev b!"int" [.aref 0] h = (.ok .null, h) ∧
    Spec.describe dev b!"int" [] h = (Spec.raise, h) := by
  have e1 : (Flt.fin true 5 (-1)).trunc = some (-2) := by decide
  have e2 : parseIntText b!"-12" = some (-12) := by decide
  have e3 : parseIntText b!"1x" = none := by decide
  refine ⟨?_, ?_, ?_, ?_, ?_, ?_, ?_⟩ <;>
    simp [Spec.describe, Spec.scalar, Spec.acceptAll, sfInt, Want.accept, Tree.toVal, Spec.raise, e1, e2, e3]

/-- `float`: an integer converted (rounded to binary64), a float as it is; a list is nil -/
theorem float_spec (dev : Dev) (i : Int) (x : Flt) (h : Heap) :
    Spec.describe dev b!"float" [.int i] h = (.ok (.flt (Flt.ofInt i)), h) ∧
    Spec.describe dev b!"float" [.flt x] h = (.ok (.flt x), h) ∧
    Spec.describe dev b!"float" [.mref 0] h = (.ok .null, h) := by
  refine ⟨?_, ?_, ?_⟩ <;> simp [Spec.describe, Spec.scalar, Spec.acceptAll, sfFloat, Want.accept, Tree.toVal]

/-- `float` of a decimal text is the binary64 NEAREST to its exact value (`strconv.ParseFloat`): 0.1 is
3602879701896397·2^-55, 2^53+1 rounds to even, 1e23 is 2980232238769531·2^25 (not the neighbour a two-step rounding gives), a text that is not
a number gives nil (so does a text beyond the largest float; an underflow gives 0 — compared with the implementation by the
text box of the run, the kernel does not evaluate 10^400) -/
theorem float_text_spec :
    (match floatOfText b!"0.1" with | .ok (.flt f) => Flt.eq f (.fin false 3602879701896397 (-55)) | _ => false) = true ∧
    (match floatOfText b!"9007199254740993" with | .ok (.flt f) => Flt.eq f (.fin false 9007199254740992 0) | _ => false) = true ∧
    (match floatOfText b!"1e23" with | .ok (.flt f) => Flt.eq f (.fin false 2980232238769531 25) | _ => false) = true ∧
    (match floatOfText b!"-0.0" with | .ok (.flt f) => f.isZero | _ => false) = true ∧
    (match floatOfText b!"1.5.2" with | .ok .null => true | _ => false) = true ∧
    (match floatOfText b!"abc" with | .ok .null => true | _ => false) = true ∧
    (match floatOfText b!"0x10" with | .error .unmodelled => true | _ => false) = true := by decide

/-- `string` without a format: `%d` of an integer, the string itself, `%v` of nil and booleans -/
theorem string_spec (dev : Dev) (i : Int) (s : Bytes) (h : Heap) :
    Spec.describe dev b!"string" [.int i] h = (.ok (.str (fmtD i)), h) ∧
    Spec.describe dev b!"string" [.str s] h = (.ok (.str s), h) ∧
    Spec.describe dev b!"string" [.null] h = (.ok (.str b!"<nil>"), h) ∧
    Spec.describe dev b!"string" [.bool true] h = (.ok (.str b!"true"), h) ∧
    Spec.describe dev b!"string" [.int i, .int 3] h = (Spec.raise, h) := by
  refine ⟨?_, ?_, ?_, ?_, ?_⟩ <;>
    simp [Spec.describe, Spec.scalar, Spec.acceptAll, sfString, Want.accept, Tree.toVal, Spec.raise]

/-- `include`: a value is found among scalars by Go's `==`; an int is not the float of the same value -/
theorem include_spec (dev : Dev) (h : Heap) (a : Nat) (ha : h.arrAt a = [.int 1, .str b!"x", .flt (.fin false 2 0)]) :
    Spec.describe dev b!"include" [.aref a, .str b!"x"] h = (.ok (.bool true), h) ∧
    Spec.describe dev b!"include" [.aref a, .int 2] h = (.ok (.bool false), h) ∧
    Spec.describe dev b!"include" [.str b!"hello", .str b!"ell"] h = (.ok (.bool true), h) ∧
    Spec.describe dev b!"include" [.str b!"hello", .int 1] h = (Spec.raise, h) := by
  refine ⟨?_, ?_, ?_, ?_⟩ <;> simp [Spec.describe, Spec.includ, Spec.includes, ha, goEq, Spec.raise] <;> decide

/-! the list functions copy: `reverse`, `append` and `sort` return a NEW array and leave the one they are given
(and every other existing cell) as it was — seeded change C20-m2 ("sort sorts its argument in place") contradicts
`sort_copies` -/

/-- `reverse`, `append`, `sort` (and every other non-mutator) applied to arguments that are evaluated by
mutator-free computations only ADD cells: the array they are given is unchanged -/
theorem list_fns_copy (env : Env) (root at_ : Val) (fuel : Nat) (f : Bytes) (args : List Arg) (h : Heap)
    (hf : f ∈ [b!"reverse", b!"append", b!"sort"]) (hargs : ∀ a ∈ args, NoMut a) :
    ∃ t, (evalFn env (eval env root fuel) root at_ f args h).2 = h ++ t := by
  have hnm : f ∉ mutatorFns := by
    simp only [List.mem_cons, List.mem_nil_iff, or_false] at hf
    rcases hf with hf | hf | hf <;> subst hf <;> decide
  exact (evalFn_pres env (eval env root fuel) root at_ f args hnm
    (fun a ha at' => eval_pres env root fuel a ha at') hargs).ext h

/-- `sort` as documented ("Sort the items in an array and return a copy of the array. Valid types for comparison
are strings, numbers … a type mismatch will raise an error"), for arrays of at most 12 elements (Go's insertion
sort; longer arrays are outside the model): with the first argument evaluating without effect to the array `c`
and a path as second argument, the call returns a NEW array `r` (the heap only grows by that cell) that is a
permutation of the elements of `c` — the same values and references — and is in order by the key the path
selects in each element: no element's key is less than its predecessor's (`SortedBy`; strings with strings,
numbers with numbers by exact value). -/
theorem sort_spec (env : Env) (e : Arg → M Val) (a : Arg) (p : Path) (c : Nat) (h : Heap)
    (ha : e a h = (.ok (.aref c), h)) :
    fnSort env e [a, .path p] h =
      (match sortList env h p.frags (h.arrAt c) with
       | .ok r => (.ok (.aref h.length), h ++ [.arr r])
       | .error er => (.error er, h)) ∧
    ∀ r, sortList env h p.frags (h.arrAt c) = .ok r → List.Perm r (h.arrAt c) ∧ SortedBy env h p.frags r := by
  constructor
  · simp only [fnSort, bind_apply, ha, getHeap_apply, liftE_apply]
    cases sortList env h p.frags (h.arrAt c) <;> simp
  · intro r hr
    exact ⟨sortList_perm env h p.frags _ r hr, sortList_sorted env h p.frags _ r hr⟩

/-- mixed key kinds, a key that is neither a string nor a number, and a second argument that is not a path are
errors; a single element is never compared (no error whatever it is) -/
theorem sort_errors :
    sortList envCur [] [] [.int 3, .str b!"a"] = .error .panic ∧
    sortList envCur [] [] [.bool true, .bool false] = .error .panic ∧
    sortList envCur [] [] [.bool true] = .ok [.bool true] ∧
    sortList envCur [] [] [.int 3, .flt (.fin false 5 (-1)), .int 1, .int 1] = .ok [.int 1, .int 1, .flt (.fin false 5 (-1)), .int 3] ∧
    (fnSort envCur (fun _ => pure (.aref 0)) [.lit .null, .lit (.str b!"x")] [Cell.arr []]).1 = .error .panic := by
  decide

/-- `[sort $.src.l @]` on `{src:{l:[3,1,2]}}`: the result is the new array `[1,2,3]`, `$.src.l` still reads `[3,1,2]` -/
theorem sort_copies :
    let h : Heap := [Cell.map [(b!"src", .mref 1)], Cell.map [(b!"l", .aref 2)], Cell.arr [.int 3, .int 1, .int 2]]
    let r := evalFn envCur (eval envCur (.mref 0) 3) (.mref 0) (.mref 0) b!"sort"
      [.path ⟨false, [.child b!"src", .child b!"l"]⟩, .path ⟨true, []⟩] h
    r.1 = .ok (.aref 3) ∧ r.2 = h ++ [Cell.arr [.int 1, .int 2, .int 3]] := by decide

/-! ## 5. frame -/

/-- A plan that calls none of set/setall/del/delall (anywhere, the elements of its list literals
included) only ever ADDS cells: every cell that existed before `Execute` — the whole of `$.src`, the
rest of the root, the plan's own literals — is unchanged afterwards. Whatever the deviations, order,
fuel and root. -/
theorem src_frame (env : Env) (r : Bool) (fuel : Nat) (plan : Arg) (root : Val) (h : Heap) (hn : NoMut plan) :
    ∃ t, (execute env r fuel (some plan) root h).2 = h ++ t := by
  unfold execute
  simp only
  cases plan with
  | lit v => exact ⟨[], by simp⟩
  | raw v es => exact ⟨[], by simp⟩
  | path p => exact ⟨[], by simp⟩
  | unk => exact ⟨[], by simp⟩
  | call f args =>
    cases hn with
    | call _ _ hf hargs =>
      obtain ⟨t, ht⟩ := (evalFn_pres env (eval env root fuel) root root f args hf
        (fun a ha at' => eval_pres env root fuel a ha at') hargs).ext h
      refine ⟨t, ?_⟩
      simp only
      cases hr : evalFn env (eval env root fuel) root root f args h with
      | mk res h' =>
        rw [hr] at ht
        cases res with
        | ok v => simpa using ht
        | error e => cases e <;> simpa using ht

/-- in particular every existing cell reads as before -/
theorem src_cells_unchanged (env : Env) (r : Bool) (fuel : Nat) (plan : Arg) (root : Val) (h : Heap) (hn : NoMut plan)
    (i : Nat) (hi : i < h.length) :
    (execute env r fuel (some plan) root h).2[i]? = h[i]? := by
  obtain ⟨t, ht⟩ := src_frame env r fuel plan root h hn
  rw [ht, List.getElem?_append_left hi]

/-- an instance: `[get $.src]` is mutator-free -/
example : NoMut (.call b!"get" [.path ⟨false, [.child b!"src"]⟩]) :=
  .call _ _ (by decide) (by intro a ha; simp at ha; subst ha; exact .path _)

/-- the mutators are local: `set`/`setall`/`del`/`delall` at a simple path change at most ONE cell that
existed before (the container their path leads to); whatever else they write is new. With `get_spec …
del_spec` this is all a mutator does to the data. -/
theorem mutator_one_cell (value : Option Val) (p : Path) (data at_ : Val) (h : Heap) :
    ∃ a, ∀ i, i < h.length → i ≠ a → (Spec.setOrDel value p data at_ h).2[i]? = h[i]? := by
  unfold Spec.setOrDel
  by_cases hf : p.frags.isEmpty = true
  · exact ⟨0, by simp [hf]⟩
  · obtain ⟨a, ha⟩ := pathSet_one_cell value p.frags data h
    refine ⟨a, ?_⟩
    intro i hi hne
    simp only [hf]
    cases hps : pathSet value data p.frags h with
    | mk r h' =>
      have := ha i hi hne
      rw [hps] at this
      cases r <;> simpa using this

/-- the hypothesis is needed, and the mutation may reach `$.src` through another name: after
`[set $.asm $.src]` the plan `[set $.asm.a 9]` changes `$.src.a` (the two names denote one map) -/
theorem set_through_alias :
    let plan : Arg := .call b!"asm" [
      .call b!"set" [.path ⟨false, [.child b!"asm"]⟩, .path ⟨false, [.child b!"src"]⟩],
      .call b!"set" [.path ⟨false, [.child b!"asm", .child b!"a"]⟩, .lit (.int 9)]]
    let h : Heap := [Cell.map [(b!"src", .mref 1)], Cell.map [(b!"a", .int 1)]]
    (execute envCur true 5 (some plan) (.mref 0) h).2[1]? = some (Cell.map [(b!"a", .int 9)]) := by decide

/-! ## 6. print -/

/-- `NewPlan(p.Simplify())` is `p` again (tree level): the Simplify form is an array that names the same
function and compiles to the same arguments — for plans inside the model whose paths print to text that
parses back (`pathsRoundTrip`) -/
theorem newPlan_simplify (fuel : Nat) (xs : List Tree) (p : ArgT) (hp : newPlan fuel xs = some p)
    (hrt : pathsRoundTrip (fuel + 1) p = true) :
    ∃ ys, simplify (fuel + 1) p = .arr ys ∧ newPlan fuel ys = some p := by
  have hreg : ∀ name, isModelled name = true → isRegistered name = true := by
    intro name h; simp [isRegistered, isModelled] at h ⊢; exact Or.inl h
  have hcf' : ∀ name ys, isRegistered name = true → callForm (.str name :: ys) = some (name, ys) := by
    intro name ys h; simp [callForm, h]
  have finish : ∀ (name : Bytes) (rest : List Tree), isModelled name = true → name ≠ b!"quote" →
      pathsRoundTrip (fuel + 1) (.call name (rest.map (compileArg fuel))) = true →
      ∃ ys, simplify (fuel + 1) (.call name (rest.map (compileArg fuel))) = .arr ys ∧
        newPlan fuel ys = some (.call name (rest.map (compileArg fuel))) := by
    intro name rest hm hq h
    refine ⟨_, rfl, ?_⟩
    simp only [List.map_map]
    have hne : ∀ (zs : List Tree), newPlan fuel (.str name :: zs) = some (.call name (zs.map (compileArg fuel))) := by
      intro zs
      simp [newPlan, hcf' name zs (hreg name hm), hm, hq]
    rw [hne]
    simp only [List.map_map]
    congr 2
    apply map_congr_mem
    intro x hx
    simp only [pathsRoundTrip, List.all_eq_true, List.mem_map] at h
    exact compile_simplify fuel x (h _ ⟨x, hx, rfl⟩)
  cases xs with
  | nil => simp [newPlan] at hp
  | cons x r =>
    simp only [newPlan] at hp
    cases hcf : callForm (x :: r) with
    | none =>
      simp only [hcf] at hp
      injection hp with hp
      subst hp
      exact finish b!"asm" (x :: r) (by decide) (by decide) hrt
    | some nr =>
      obtain ⟨name, rest⟩ := nr
      simp only [hcf] at hp
      by_cases hm : isModelled name = true
      · simp only [hm, Bool.not_true, Bool.false_eq_true, if_false] at hp
        by_cases hq : name = b!"quote"
        · simp only [hq, if_true] at hp
          injection hp with hp
          subst hp
          refine ⟨_, rfl, ?_⟩
          have hid : ∀ (ys : List Tree), (List.map (simplify fuel ∘ ArgG.lit) ys) = ys := by
            intro ys
            induction ys with
            | nil => rfl
            | cons a r ih => simp [simplify, Function.comp] at ih ⊢; exact ih
          simp only [List.map_map, hid]
          simp [newPlan, hcf' b!"quote" rest (by decide), show isModelled b!"quote" = true by decide]
        · simp only [hq, if_false] at hp
          injection hp with hp
          subst hp
          exact finish name rest hm hq hrt
      · simp only [hm, Bool.not_false, if_true] at hp
        injection hp with hp
        subst hp
        simp [pathsRoundTrip] at hrt

/-- an instance: `[[set $.asm {a: 1}] [get "$.src.l[-1]"]]` compiles (implicit `asm`), its paths round-trip,
and its Simplify form `[asm [set $.asm {a: 1}] [get "$.src.l[-1]"]]` compiles to the same plan -/
example :
    let src : List Tree := [.arr [.str b!"set", .str b!"$.asm", .obj [(b!"a", .int 1)]],
                            .arr [.str b!"get", .str b!"$.src.l[-1]"]]
    ∃ p, newPlan 9 src = some p ∧ pathsRoundTrip 10 p = true ∧
      simplify 10 p = .arr (.str b!"asm" :: src) := by
  exact ⟨_, rfl, by decide, rfl⟩

end OjgVerif.C20
