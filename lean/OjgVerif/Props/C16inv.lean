import OjgVerif.Reflect.RoundTrip
import OjgVerif.Props.C15
import OjgVerif.Props.C16
/-! # C16, title clause — Recompose inverts Decompose on values (PARTIAL: on the model, for the
fragment `rtOK`)

`Recompose(Decompose(v, o), new(T))` gives back a value deeply equal to `v`, nil and empty slices or
maps not distinguished (`norm`), for every struct type `T`, value `v` and option set `o` that satisfy
the executable side condition `rtOK o vf T v`:

* every struct type met satisfies `structOK o`: for each field, the key the encoder writes it under
  (tag name / exact name / lower-case style, under `o`) is one of the four names `recomp` tries for
  its index entry (index key, field name, first letter lowered, all lowered); no OTHER field's key
  and not the create key is among the names the decoder ACTUALLY tries for it (`triedKeys`: in the
  order of the source — the index key first —, only up to the field's own key when the field is always
  written, and, since /repo 1029e85, without the fallback spellings that are the index key of another
  field); no two fields are filed under one index key;
* integers are inside the width of their slot; arrays have their length; a pointer points to a
  scalar, container or struct (not to a pointer or interface);
* a field dropped by `omitempty` is dropped only when it is empty (that is what the encoder does) —
  the theorem shows that such a value is the zero value up to `norm`; a field that is never written
  or never read back (unexported, `json:"-"`) holds a zero value;
* NOT covered (`rtOK` is `false`; the round trip of these is still only run by the harness):
  `interface{}` slots, embedded fields, the `,string` tag option in force on a FLOAT field (on bool and
  integer fields it is covered: `atoi_intText`, `asStr_tagHasString`), a `[]byte` unless `BytesAsArray`,
  `OmitNil` / `OmitEmpty` (outside the encoder model), `NestEmbed` (finding `C16-nest-embed`).

The theorems are about the MODELS of both halves (`Reflect/Model.lean`: `encode .alt Dev.current` =
`alt.Decompose`; `Reflect/Registry.lean`: `recompose` = `alt.Recompose`), each tied to the Go code by
the correspondence run separately. -/
namespace OjgVerif.C16
open OjgVerif OjgVerif.Reflect

/-- the round trip through the reference tree with the ideal registry; `strict` (`oj.Marshal`) is allowed
unless the top-level type is `[]any` (whose nil value Marshal writes as null) -/
theorem recompose_inverts_reference (o : Opts) (tf vf : Nat) (htf : 0 < tf) (hvf : vf ≤ 256)
    (t : GoType) (v : GoVal) (hs : (o.strict && isSliceIface t) = false) (hok : rtOK o vf t v = true) :
    ∃ v', recomposePure o.createKey t (refEncode o tf vf t v) = .ok v' ∧ norm v' = norm v := by
  obtain ⟨tf', rfl⟩ : ∃ tf', tf = tf' + 1 := ⟨tf - 1, by omega⟩
  obtain ⟨v', hn, hrec⟩ := rt_core o tf' vf vf (Nat.le_refl _) 256 hvf true t v (by simpa using hs) hok
  refine ⟨v', ?_, hn⟩
  unfold recomposePure refEncode
  have := hrec [] none 1 (Or.inl rfl)
  show (recompG pureCF o.createKey 256 [] 1 _ t none).slot = _
  rw [this]

/-- **C16, first sentence, Decompose/Recompose, PARTIAL** — for the code as it is now
(`Dev.current`): recomposing (ideal registry: every struct decoded with its own field index) the tree
`alt.Decompose(v, o)` describes gives a value equal to `v` up to nil ~ empty, on every
(type, value, options) inside `rtOK` on which the run of the encoder meets none of the live C15
exclusions (`untriggered`: for `alt` that is `UseTags` without `KeyExact`). -/
theorem recompose_inverts_decompose_partial (o : Opts) (hn : o.omitNil = false) (ho : o.omitEmpty = false)
    (hstrict : o.strict = false) (tf vf : Nat) (htf : 0 < tf) (hvf : vf ≤ 256) (t : GoType) (v : GoVal)
    (hU : untriggered .alt Dev.current o tf (planFixed o tf) vf true false t v = true)
    (hok : rtOK o vf t v = true) :
    ∃ v', recomposePure o.createKey t (encode .alt Dev.current o tf vf t v) = .ok v' ∧ norm v' = norm v := by
  rw [C15.untriggered_current_eq_reference .alt o hn ho tf vf t v hU]
  exact recompose_inverts_reference o tf vf htf hvf t v (by simp [hstrict]) hok

/-- the same on a REAL recomposer (the model of `alt.Recomposer` as it is now) after ANY history of
registrations and earlier recompositions, for target types without `interface{}` slot -/
theorem recompose_inverts_decompose_any_history (o : Opts) (hn : o.omitNil = false) (ho : o.omitEmpty = false)
    (hstrict : o.strict = false) (tf vf : Nat) (htf : 0 < tf) (hvf : vf ≤ 256) (t : GoType) (v : GoVal)
    (hU : untriggered .alt Dev.current o tf (planFixed o tf) vf true false t v = true)
    (hok : rtOK o vf t v = true) (hni : noIface t = true) (h : List Event) :
    ∃ v', recompose false o.createKey (regAfter false o.createKey h) t (encode .alt Dev.current o tf vf t v) = .ok v' ∧
      norm v' = norm v := by
  rw [recompose_current_eq_pure o.createKey h t hni]
  exact recompose_inverts_decompose_partial o hn ho hstrict tf vf htf hvf t v hU hok

/-- **C16, first sentence, Decompose/Recompose, for ALL option sets of the model** (`OmitNil`,
`OmitEmpty` off): the side condition is read under `effOpts o` — the options as the code reads them:
with `UseTags` a field without a tag name is written under its exact name whatever `KeyExact` says
(finding `C15-usetags-keyexact`) — and then NO run of `alt.Decompose` as it is now meets a deviation
(`untriggered_alt_eff`), so the only hypothesis left is `rtOK (effOpts o)`. -/
theorem recompose_inverts_decompose (o : Opts) (hn : o.omitNil = false) (ho : o.omitEmpty = false)
    (hstrict : o.strict = false) (tf vf : Nat) (htf : 0 < tf) (hvf : vf ≤ 256) (t : GoType) (v : GoVal)
    (hok : rtOK (effOpts o) vf t v = true) :
    ∃ v', recomposePure o.createKey t (encode .alt Dev.current o tf vf t v) = .ok v' ∧ norm v' = norm v := by
  have e1 : (effOpts o).omitNil = false := by unfold effOpts; split <;> simpa using hn
  have e2 : (effOpts o).omitEmpty = false := by unfold effOpts; split <;> simpa using ho
  have e3 : (effOpts o).strict = false := by unfold effOpts; split <;> simpa using hstrict
  have e4 : (effOpts o).createKey = o.createKey := by unfold effOpts; split <;> rfl
  rw [← encode_alt_eff, ← e4]
  exact recompose_inverts_decompose_partial (effOpts o) e1 e2 e3 tf vf htf hvf t v
    (untriggered_alt_eff o tf _ vf true false t v) hok

/-- the same on the model of the real recomposer after any history (types without `interface{}` slot) -/
theorem recompose_inverts_decompose_history (o : Opts) (hn : o.omitNil = false) (ho : o.omitEmpty = false)
    (hstrict : o.strict = false) (tf vf : Nat) (htf : 0 < tf) (hvf : vf ≤ 256) (t : GoType) (v : GoVal)
    (hok : rtOK (effOpts o) vf t v = true) (hni : noIface t = true) (h : List Event) :
    ∃ v', recompose false o.createKey (regAfter false o.createKey h) t (encode .alt Dev.current o tf vf t v) = .ok v' ∧
      norm v' = norm v := by
  rw [recompose_current_eq_pure o.createKey h t hni]
  exact recompose_inverts_decompose o hn ho hstrict tf vf htf hvf t v hok

/-! ## the Marshal / Unmarshal route

`oj.Unmarshal` is `Parser.Parse` followed by `Recompose` (oj/oj.go). What is proved here is the TREE
level: the tree `oj.Marshal(v, o)` describes (`encode .oj Dev.current`, `strict` on) recomposes to `v`.
The text layer is a hypothesis of `unmarshal_inverts_marshal_of_text_layer` (`parse (write tree) = tree`:
the content of C04_oj — `parseDoc (written text) = norm tree` — and C02 — the parser returns the tree of
the text — which are about other tree types and are NOT connected formally here). One more gap, said
plainly: `oj.Unmarshal` parses with `ForceFloat` (every number arrives as a float64) and the model of
`recomp` has no case for a float datum in an integer slot (`scalarSlot` answers `outside`): the theorem
speaks about the tree of the PLAIN parser (integers stay integers), as the correspondence run does;
the `ForceFloat` conversion of integer slots is only run (route `oj` of the harness). -/

/-- the tree `oj.Marshal(v, o)` / `oj.JSON(v, o)` describes recomposes to `v`, on runs of the writer that
meet none of the live C15 exclusions (`untriggered .oj`: `UseTags` without `KeyExact`, a `[]byte`
outside the type switch) -/
theorem recompose_inverts_marshal_tree (o : Opts) (hn : o.omitNil = false) (ho : o.omitEmpty = false)
    (tf vf : Nat) (htf : 0 < tf) (hvf : vf ≤ 256) (t : GoType) (v : GoVal)
    (hs : (o.strict && isSliceIface t) = false)
    (hU : untriggered .oj Dev.current o tf (planFixed o tf) vf true false t v = true)
    (hok : rtOK o vf t v = true) :
    ∃ v', recomposePure o.createKey t (encode .oj Dev.current o tf vf t v) = .ok v' ∧ norm v' = norm v := by
  rw [C15.untriggered_current_eq_reference .oj o hn ho tf vf t v hU]
  exact recompose_inverts_reference o tf vf htf hvf t v hs hok

/-- `oj.Unmarshal` as the composition the source has: parse, then recompose (ideal registry) -/
def unmarshalVia (parse : Bytes → Option JV) (ck : Bytes) (t : GoType) (text : Bytes) : Option Slot :=
  (parse text).map (recomposePure ck t)

/-- **Unmarshal ∘ Marshal, with the text layer as a hypothesis**: for any writer/parser pair that
reads back the tree it wrote (for THIS tree), unmarshalling the marshalled text gives `v` back up to
nil ~ empty. -/
theorem unmarshal_inverts_marshal_of_text_layer (parse : Bytes → Option JV) (write : JV → Bytes)
    (o : Opts) (hn : o.omitNil = false) (ho : o.omitEmpty = false)
    (tf vf : Nat) (htf : 0 < tf) (hvf : vf ≤ 256) (t : GoType) (v : GoVal)
    (hs : (o.strict && isSliceIface t) = false)
    (hU : untriggered .oj Dev.current o tf (planFixed o tf) vf true false t v = true)
    (hok : rtOK o vf t v = true)
    (htext : parse (write (encode .oj Dev.current o tf vf t v)) = some (encode .oj Dev.current o tf vf t v)) :
    ∃ v', unmarshalVia parse o.createKey t (write (encode .oj Dev.current o tf vf t v)) = some (.ok v') ∧
      norm v' = norm v := by
  obtain ⟨v', h1, h2⟩ := recompose_inverts_marshal_tree o hn ho tf vf htf hvf t v hs hU hok
  exact ⟨v', by simp [unmarshalVia, htext, h1], h2⟩

/-! ### the hypotheses are satisfiable: a struct with tags, omitempty, a pointer to a struct, slices,
a map, an array, an unexported field -/

def rtLeaf : GoType := .struct "Leaf".toUTF8.toList "pa".toUTF8.toList [(C15.fld "Flag", .bool), (C15.fld "ID" "id,omitempty", .int 3)]

/-- `type Rt struct { Alpha string; Count int8 `json:"count,omitempty"`; Tags []string; P *Leaf;
M map[string]float64; Arr [2]uint16; L []*Leaf; hidden int; Skip int `json:"-"` }` -/
def rtT : GoType := .struct "Rt".toUTF8.toList "pa".toUTF8.toList
  [(C15.fld "Alpha", .str), (C15.fld "Count" "count,omitempty", .int 1), (C15.fld "Tags", .slice .str),
   (C15.fld "P", .ptr rtLeaf), (C15.fld "M", .map (.float false)), (C15.fld "Arr", .array 2 (.int 7)),
   (C15.fld "L", .slice (.ptr rtLeaf)), (C15.fld "hidden", .int 0), (C15.fld "Skip" "-", .int 0)]

def rtV : GoVal := .struct [.str [120], .int 0, .nilSlice, .ptr (.struct [.bool true, .int 0]),
  .map [([107], .flt [49, 46, 53])], .arr [.int 65535, .int 0], .slice [.nilPtr, .ptr (.struct [.bool false, .int 7])],
  .int 0, .int 0]

/-- tags with exact keys (the Go-compatible naming), create key "^" -/
def rtOpts : Opts := ⟨true, true, false, false, false, false, false, false, 0, [94]⟩
/-- lower-case keys, no tags -/
def rtOptsLow : Opts := ⟨false, false, false, false, false, false, false, false, 0, []⟩

example : rtOK rtOpts 8 rtT rtV = true ∧ rtOK rtOptsLow 8 rtT rtV = true ∧ noIface rtT = true ∧
    untriggered .alt Dev.current rtOpts 4 (planFixed rtOpts 4) 8 true false rtT rtV = true ∧
    untriggered .alt Dev.current rtOptsLow 4 (planFixed rtOptsLow 4) 8 true false rtT rtV = true := by
  decide +kernel

/-- `oj.Marshal` under the Go-compatible naming: strict on -/
def rtOptsMarshal : Opts := ⟨true, true, false, false, false, false, false, true, 0, []⟩

example : rtOK rtOptsMarshal 8 rtT rtV = true ∧ (rtOptsMarshal.strict && isSliceIface rtT) = false ∧
    untriggered .oj Dev.current rtOptsMarshal 4 (planFixed rtOptsMarshal 4) 8 true false rtT rtV = true := by
  decide +kernel

/-- the text-layer hypothesis is satisfiable (trivially, by an injective writer with its inverse) -/
example : ∃ (parse : Bytes → Option JV) (write : JV → Bytes),
    parse (write (encode .oj Dev.current rtOptsMarshal 4 8 rtT rtV)) = some (encode .oj Dev.current rtOptsMarshal 4 8 rtT rtV) :=
  ⟨fun _ => some (encode .oj Dev.current rtOptsMarshal 4 8 rtT rtV), fun _ => [], rfl⟩

/-- `UseTags` without `KeyExact` (outside `recompose_inverts_decompose_partial`, inside
`recompose_inverts_decompose`) -/
def rtOptsTags : Opts := ⟨true, false, false, false, false, false, false, false, 0, [94]⟩

example : rtOK (effOpts rtOptsTags) 8 rtT rtV = true ∧
    untriggered .alt Dev.current rtOptsTags 4 (planFixed rtOptsTags 4) 8 true false rtT rtV = false := by
  decide +kernel

/-- a `[]byte` field comes back under `BytesAsArray` only (finding `C16-bytes-text`) -/
example :
    rtOK ⟨false, false, false, false, false, false, false, false, Gen.Root.BytesAsArray_int.toNat, []⟩ 4
      (.struct [] [] [(C15.fld "Raw", .bytes), (C15.fld "P", .ptr .bytes)]) (.struct [.bytes [1, 2, 255], .nilPtr]) = true ∧
    rtOK rtOptsLow 4 (.struct [] [] [(C15.fld "Raw", .bytes)]) (.struct [.bytes [1]]) = false := by
  decide +kernel

/-! ### the order of the decoder's lookups is part of the statement

`fieldDatum` (the model of recomp's struct case) tries the index key — the json tag name — FIRST and the
spellings of the Go field name only when the tree has no member under it; `structOK` is stated over the
names the decoder tries (`triedKeys`), in that order. -/

/-- the source has the lookups of the model, in the model's order, and the guard of the fallback closure
(regenerated by `tools/extract/reflect.go`: every `vm[…]` / `im[…]`, the condition that mentions
`claimed`, and the calls of `other`, in source order): the index key first; then, through `other` —
which refuses a name that is the key of another index entry (`claimed && name != k`, /repo 1029e85) —
the Go name, its first letter lowered, all lowered. On a source that tries the Go-name spellings first
or moves the lookups into a helper (seeded C16-m8), or without the guard (before 1029e85), the
regenerated list differs and this theorem fails. -/
theorem lookup_order_in_source :
    Gen.Reflect.altRecompMemberLookups =
      ["im[k]", "vm[k]", "if:claimed && name != k", "im[name]", "vm[name]", "other(sf.Name)", "name[0] |= 0x20",
       "other(string(name))", "other(strings.ToLower(string(name)))"] := by
  decide +kernel

/-- `struct { Kind string `json:"type"`; Type int `json:"kind"` }`: each field's tag name spells the
OTHER field's Go name -/
def swapT : GoType := .struct [] [] [(C15.fld "Kind" "type", .str), (C15.fld "Type" "kind", .int 0)]
def swapV : GoVal := .struct [.str [120], .int 7]

/-- with tags in use the type is INSIDE the theorem — because the tag name is tried first; the model
gives the fields back unswapped; had `fieldDatum` tried the Go-name spellings first the first lookup
for `Kind` ("Kind", "kind") would hit the member of `Type` -/
example : rtOK (effOpts rtOpts) 4 swapT swapV = true ∧
    slotIs (recomposePure rtOpts.createKey swapT (encode .alt Dev.current rtOpts 4 4 swapT swapV)) swapV = true ∧
    (fieldDatum [] [("kind".toUTF8.toList, .int 7), ("type".toUTF8.toList, .str [120])] "type".toUTF8.toList
        ⟨"Kind".toUTF8.toList, [0], "type".toUTF8.toList⟩).map JV.render = some "S(78)" ∧
    (jvLookup [("kind".toUTF8.toList, JV.int 7), ("type".toUTF8.toList, .str [120])]
        (lowerFirst "Kind".toUTF8.toList)).map JV.render = some "I(7)" := by
  decide +kernel

/-- the same names with `omitempty` on `Kind` are INSIDE since /repo 1029e85 (an empty `Kind` is not
written; the fallback spelling "kind" is the index key of `Type` and is no longer offered — `triedKeys`
filters it out); without tags (the lower-case style) the type stays outside — the encoder writes `Kind`
under "kind", the decoder files it under "type" -/
example :
    structOK (effOpts rtOpts) [(C15.fld "Kind" "type,omitempty", .str), (C15.fld "Type" "kind", .int 0)] = true ∧
    rtOK rtOptsLow 4 swapT swapV = false := by
  decide +kernel

/-! ## full strength

The title clause of C16 as the property states it, on the models: for EVERY value of every type and
every option set (of the encoder model). It is FALSE for the code as it is (one live witness left: `[]byte` as text, C16-bytes-text; the second,
C16-omitted-member-sibling-spelling, was repaired by /repo 1029e85); `rtOK` is the named
fragment the partial theorems above are about. -/

def C16_inverse_full : Prop :=
  ∀ (o : Opts) (tf vf : Nat) (t : GoType) (v : GoVal), o.omitNil = false → o.omitEmpty = false → o.strict = false →
    0 < tf → vf ≤ 256 → hasType vf t v = true →
    ∃ v', recomposePure o.createKey t (encode .alt Dev.current o tf vf t v) = .ok v' ∧ norm v' = norm v

def slotOk : Slot → Bool
  | .ok _ => true
  | _ => false

/-- `type A struct { Kind bool `json:"type,omitempty"`; Type int `json:"kind"` }`, `A{false, 7}` -/
def fallT : GoType := .struct [] [] [(C15.fld "Kind" "type,omitempty", .bool), (C15.fld "Type" "kind", .int 0)]
def fallV : GoVal := .struct [.bool false, .int 7]

/-- finding `C16-omitted-member-sibling-spelling` (FIXED by /repo 1029e85) on the model of the lookups
BEFORE the fix (`fieldDatumBefore`): `Kind` is empty and dropped by `omitempty`, the decomposition is
`{"kind":7}`, and recomp, finding no member "type", fell through to the spellings of the Go name and
gave `Kind` the member of `Type` — an int into a bool: the error result of Recompose / Unmarshal. -/
theorem omitted_member_sibling_spelling_witness_before_1029e85 :
    hasType 4 fallT fallV = true ∧
    (encode .alt Dev.current rtOpts 4 4 fallT fallV).render = "{K(5e)S(-),K(6b696e64)I(7)}" ∧
    (fieldDatumBefore [([94], .str []), ("kind".toUTF8.toList, .int 7)] "type".toUTF8.toList
        ⟨"Kind".toUTF8.toList, [0], "type,omitempty".toUTF8.toList⟩).map JV.render = some "I(7)" ∧
    slotOk (scalarSlot .bool (.int 7) (some ⟨"Kind".toUTF8.toList, [0], "type,omitempty".toUTF8.toList⟩)) = false := by
  decide +kernel

/-- the code as it is now (since 1029e85): "kind" is the key of another index entry and is not offered, the
lookup for `Kind` finds nothing, and the value comes back; the struct is inside `structOK` -/
theorem omitted_member_sibling_spelling_repaired :
    (fieldDatum (indexFields [(C15.fld "Kind" "type,omitempty", .bool), (C15.fld "Type" "kind", .int 0)] 0)
        [([94], .str []), ("kind".toUTF8.toList, .int 7)] "type".toUTF8.toList
        ⟨"Kind".toUTF8.toList, [0], "type,omitempty".toUTF8.toList⟩).map JV.render = none ∧
    slotIs (recomposePure rtOpts.createKey fallT (encode .alt Dev.current rtOpts 4 4 fallT fallV)) fallV = true ∧
    rtOK (effOpts rtOpts) 4 fallT fallV = true := by
  decide +kernel

/-- finding `C16-bytes-text`: a `[]byte` under `BytesAsString` is written as a string, which recomp
refuses -/
theorem bytes_text_witness :
    hasType 4 (.struct [] [] [(C15.fld "Raw", .bytes)]) (.struct [.bytes [97]]) = true ∧
    slotOk (recomposePure rtOptsLow.createKey (.struct [] [] [(C15.fld "Raw", .bytes)])
      (encode .alt Dev.current rtOptsLow 4 4 (.struct [] [] [(C15.fld "Raw", .bytes)]) (.struct [.bytes [97]]))) = false := by
  decide +kernel

theorem C16_inverse_full_false : ¬ C16_inverse_full := by
  intro h
  obtain ⟨v', hv, _⟩ := h rtOptsLow 4 4 (.struct [] [] [(C15.fld "Raw", .bytes)]) (.struct [.bytes [97]]) rfl rfl rfl
    (by decide) (by decide) bytes_text_witness.1
  have := bytes_text_witness.2
  rw [hv] at this
  cases this

/-- the `,string` option in force on an integer and a bool field: `{"n":"-42","b":"true"}` comes back;
on a float field it is outside -/
example :
    rtOK (effOpts rtOpts) 4 (.struct [] [] [(C15.fld "N" "n,string", .int 3), (C15.fld "B" "b,string", .bool)])
      (.struct [.int (-42), .bool true]) = true ∧
    slotIs (recomposePure rtOpts.createKey (.struct [] [] [(C15.fld "N" "n,string", .int 3), (C15.fld "B" "b,string", .bool)])
      (encode .alt Dev.current rtOpts 4 4 (.struct [] [] [(C15.fld "N" "n,string", .int 3), (C15.fld "B" "b,string", .bool)])
        (.struct [.int (-42), .bool true]))) (.struct [.int (-42), .bool true]) = true ∧
    rtOK (effOpts rtOpts) 4 (.struct [] [] [(C15.fld "F" "f,string", .float false)]) (.struct [.flt [49]]) = false := by
  decide +kernel

/-- the side condition does exclude something: two fields that the lower-case style maps to one key -/
example : structOK rtOptsLow [(C15.fld "AB", .int 0), (C15.fld "Ab", .int 0)] = false := by decide +kernel

end OjgVerif.C16
