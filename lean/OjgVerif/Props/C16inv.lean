import OjgVerif.Reflect.RoundTrip
import OjgVerif.Props.C15
import OjgVerif.Props.C16
/-! # C16, title clause — Recompose inverts Decompose on values (PARTIAL: on the model, for the
fragment `rtOK`)

`Recompose(Decompose(v, o), new(T))` gives back a value deeply equal to `v`, nil and empty slices or
maps not distinguished (`norm`), for every struct type `T`, value `v` and option set `o` that satisfy
the executable side condition `rtOK o vf T v`:

* every struct type met satisfies `structOK o`: for each field, the key the encoder writes it under
  (tag name / exact name / lower-case style, under `o`) is one of the four names `recomp` tries for
  its index entry (index key, field name, first letter lowered, all lowered); no OTHER field's key
  and not the create key is one of those names; no two fields are filed under one index key;
* integers are inside the width of their slot; arrays have their length; a pointer points to a
  scalar, container or struct (not to a pointer or interface);
* a field dropped by `omitempty` is dropped only when it is empty (that is what the encoder does) —
  the theorem shows that such a value is the zero value up to `norm`; a field that is never written
  or never read back (unexported, `json:"-"`) holds a zero value;
* NOT covered (`rtOK` is `false`; the round trip of these is still only run by the harness):
  `interface{}` slots, `[]byte`, embedded fields, the `,string` tag option in force, `OmitNil` /
  `OmitEmpty` (outside the encoder model), `NestEmbed` (finding `C16-nest-embed`).

The theorems are about the MODELS of both halves (`Reflect/Model.lean`: `encode .alt Dev.current` =
`alt.Decompose`; `Reflect/Registry.lean`: `recompose` = `alt.Recompose`), each tied to the Go code by
the correspondence run separately. -/
namespace OjgVerif.C16
open OjgVerif OjgVerif.Reflect

/-- the round trip through the reference tree with the ideal registry -/
theorem recompose_inverts_reference (o : Opts) (hstrict : o.strict = false) (tf vf : Nat) (htf : 0 < tf) (hvf : vf ≤ 256)
    (t : GoType) (v : GoVal) (hok : rtOK o vf t v = true) :
    ∃ v', recomposePure o.createKey t (refEncode o tf vf t v) = .ok v' ∧ norm v' = norm v := by
  obtain ⟨tf', rfl⟩ : ∃ tf', tf = tf' + 1 := ⟨tf - 1, by omega⟩
  obtain ⟨v', hn, hrec⟩ := rt_core o hstrict tf' vf vf (Nat.le_refl _) 256 hvf true t v hok
  refine ⟨v', ?_, hn⟩
  unfold recomposePure refEncode
  have := hrec [] none 1 (Or.inl rfl)
  show (recompG pureCF o.createKey 256 [] 1 _ t none).slot = _
  rw [this]

/-- **C16, first sentence, Decompose/Recompose, PARTIAL** — for the code as it is now
(`Dev.current`): recomposing (ideal registry: every struct decoded with its own field index) the tree
`alt.Decompose(v, o)` describes gives a value equal to `v` up to nil ~ empty, on every
(type, value, options) inside `rtOK` on which the run of the encoder meets none of the live C15
exclusions (`untriggered`: for `alt` that is `UseTags` without `KeyExact`). -/
theorem recompose_inverts_decompose_partial (o : Opts) (hn : o.omitNil = false) (ho : o.omitEmpty = false)
    (hstrict : o.strict = false) (tf vf : Nat) (htf : 0 < tf) (hvf : vf ≤ 256) (t : GoType) (v : GoVal)
    (hU : untriggered .alt Dev.current o tf (planFixed o tf) vf true false t v = true)
    (hok : rtOK o vf t v = true) :
    ∃ v', recomposePure o.createKey t (encode .alt Dev.current o tf vf t v) = .ok v' ∧ norm v' = norm v := by
  rw [C15.untriggered_current_eq_reference .alt o hn ho tf vf t v hU]
  exact recompose_inverts_reference o hstrict tf vf htf hvf t v hok

/-- the same on a REAL recomposer (the model of `alt.Recomposer` as it is now) after ANY history of
registrations and earlier recompositions, for target types without `interface{}` slot -/
theorem recompose_inverts_decompose_any_history (o : Opts) (hn : o.omitNil = false) (ho : o.omitEmpty = false)
    (hstrict : o.strict = false) (tf vf : Nat) (htf : 0 < tf) (hvf : vf ≤ 256) (t : GoType) (v : GoVal)
    (hU : untriggered .alt Dev.current o tf (planFixed o tf) vf true false t v = true)
    (hok : rtOK o vf t v = true) (hni : noIface t = true) (h : List Event) :
    ∃ v', recompose false o.createKey (regAfter false o.createKey h) t (encode .alt Dev.current o tf vf t v) = .ok v' ∧
      norm v' = norm v := by
  rw [recompose_current_eq_pure o.createKey h t hni]
  exact recompose_inverts_decompose_partial o hn ho hstrict tf vf htf hvf t v hU hok

/-! ### the hypotheses are satisfiable: a struct with tags, omitempty, a pointer to a struct, slices,
a map, an array, an unexported field -/

def rtLeaf : GoType := .struct "Leaf".toUTF8.toList "pa".toUTF8.toList [(C15.fld "Flag", .bool), (C15.fld "ID" "id,omitempty", .int 3)]

/-- `type Rt struct { Alpha string; Count int8 `json:"count,omitempty"`; Tags []string; P *Leaf;
M map[string]float64; Arr [2]uint16; L []*Leaf; hidden int; Skip int `json:"-"` }` -/
def rtT : GoType := .struct "Rt".toUTF8.toList "pa".toUTF8.toList
  [(C15.fld "Alpha", .str), (C15.fld "Count" "count,omitempty", .int 1), (C15.fld "Tags", .slice .str),
   (C15.fld "P", .ptr rtLeaf), (C15.fld "M", .map (.float false)), (C15.fld "Arr", .array 2 (.int 7)),
   (C15.fld "L", .slice (.ptr rtLeaf)), (C15.fld "hidden", .int 0), (C15.fld "Skip" "-", .int 0)]

def rtV : GoVal := .struct [.str [120], .int 0, .nilSlice, .ptr (.struct [.bool true, .int 0]),
  .map [([107], .flt [49, 46, 53])], .arr [.int 65535, .int 0], .slice [.nilPtr, .ptr (.struct [.bool false, .int 7])],
  .int 0, .int 0]

/-- tags with exact keys (the Go-compatible naming), create key "^" -/
def rtOpts : Opts := ⟨true, true, false, false, false, false, false, false, 0, [94]⟩
/-- lower-case keys, no tags -/
def rtOptsLow : Opts := ⟨false, false, false, false, false, false, false, false, 0, []⟩

example : rtOK rtOpts 8 rtT rtV = true ∧ rtOK rtOptsLow 8 rtT rtV = true ∧ noIface rtT = true ∧
    untriggered .alt Dev.current rtOpts 4 (planFixed rtOpts 4) 8 true false rtT rtV = true ∧
    untriggered .alt Dev.current rtOptsLow 4 (planFixed rtOptsLow 4) 8 true false rtT rtV = true := by
  decide +kernel

/-- the side condition does exclude something: two fields that the lower-case style maps to one key -/
example : structOK rtOptsLow [(C15.fld "AB", .int 0), (C15.fld "Ab", .int 0)] = false := by decide +kernel

end OjgVerif.C16
