import OjgVerif.Sen.LemmasStr
/-! # C10 — SEN writer and parser round-trip every value (the string level)

The statement is about two generated tables and two pieces of logic that have to be inverse:
`ojg.AppendSENString` decides from `senMap`, the first byte and `maxTokenLen` whether a string is written
bare or quoted and how it is escaped (`Sen.senString`, over the regenerated `Gen.Root.senMap`);
`sen.Parser` decides from `valueMap`, `tokenMap`, `stringMap`, `escMap`, `uMap` what it reads back
(`Sen.run` over the regenerated `Gen.Sen` tables).

For EVERY byte string `s` (no length bound) and both `htmlSafe` settings:

* `quoted_value` / `quoted_key`: if the writer keeps the quotes, the parser reads `[<text>]` as the array
  with the one string `sanitize s` and `{<text>:1}` as the object with the one key `sanitize s` — never a
  number, bool, null, sign, comment or error (`sanitize` = invalid UTF-8 bytes replaced by U+FFFD);
* `C10_value_partial` / `C10_key_partial`: the same for every string, quoted or bare, outside three
  named input classes: the reserved words `true false null` (value position only), a leading `+`/`-`
  on a bare string, and a bare string containing `&`, backtick or `|`;
* `C10_string_full_false`: without the exclusions the statement is FALSE on this tree: the witnesses
  (`"true"` comes back as `true`, `"-1"` as -1, `"a&b"` is an error) are evaluated by the kernel; they
  are the known findings C10-reserved-word, C10-leading-sign (the suite pins the bare spellings) and
  C10-bare-nontoken-byte (proposed fix: three `senMap` cells).

Trees (sen.String/Bytes/Write and pretty.SEN under every option) are decided by the correspondence
run: the tight writer and the parser machine are modelled (`Sen.tightVal`, `Sen.run`) and compared with
the Go code byte for byte, the round trip itself is checked on the implementation. -/
namespace OjgVerif.C10
open OjgVerif OjgVerif.Sen
open OjgVerif.Writer (sanitize sanLoop)

/-- `[` text `]` -/
def valueDoc (s : Bytes) (html : Bool) : Bytes := 91 :: (senString s html ++ [93])
/-- `{` text `:1}` -/
def keyDoc (s : Bytes) (html : Bool) : Bytes := 123 :: (senString s html ++ [58, 49, 125])

/-- sen.Parser.Parse (fresh instance, no options) accepts the document and returns exactly `v` -/
def parsesTo (doc : Bytes) (v : JV) : Prop :=
  ∃ o, run senTables {} [doc] = .ok o ∧ o.docs = [v]

/-! ## the three excluded input classes -/

def reservedWord (s : Bytes) : Prop :=
  s = [116, 114, 117, 101] ∨ s = [102, 97, 108, 115, 101] ∨ s = [110, 117, 108, 108]

/-- written bare although it begins with a sign -/
def leadingSign (s : Bytes) (html : Bool) : Prop :=
  senQuoted s html = false ∧ (s.head? = some 43 ∨ s.head? = some 45)

/-- written bare although it contains a byte no parser token has -/
def nonTokenByte (s : Bytes) (html : Bool) : Prop :=
  senQuoted s html = false ∧ (38 ∈ s ∨ 96 ∈ s ∨ 124 ∈ s)

/-! ## the context around the string: single steps over the reference tables -/

set_option linter.unusedSimpArgs false

/-- `[` at the top of a fresh parser -/
theorem open_arr (l : Bool) :
    step refTables {} {} {} 91 l = .ok ({ mode := .value, starts := [some 0], stack := [.arrMark] }, {}, false) := by
  simp [step, stepCore, stepAct, stepActP, nextFast, refTables, expected, expectedFin, isSep, isBlank, isDigit19,
    St.flushP, St.undelivered, startP, Functor.map, Except.map, Bind.bind, Except.bind, Pure.pure, Except.pure]

/-- `{` at the top of a fresh parser -/
theorem open_obj (l : Bool) :
    step refTables {} {} {} 123 l = .ok ({ mode := .value, starts := [none], stack := [.obj []] }, {}, false) := by
  simp [step, stepCore, stepAct, stepActP, nextFast, refTables, expected, expectedFin, isSep, isBlank, isDigit19,
    St.flushP, St.undelivered, startP, Functor.map, Except.map, Bind.bind, Except.bind, Pure.pure, Except.pure]

/-- `]` after the one element: the array is delivered -/
theorem close_arr (st : St) (f : Fast) (l : Bool) (v : JV) (hm : st.mode = .value) (hs : st.starts = [some 0])
    (hk : st.stack = [.val v, .arrMark]) (hd : st.docs = []) (hf : f.nlSkipping = false) :
    step refTables {} st f 93 l =
      .ok ({ st with mode := .space, starts := [], stack := [], docs := [.arr [v]] }, fS f, false) := by
  simp [step, stepCore, stepAct, stepActP, nextFast, refTables, expected, expectedFin, isSep, isBlank, isDigit19,
    St.flushCloseP, splitStack, St.add, deliver, deliverP, hm, hs, hk, hd, hf, fS, Item.toJV,
    Functor.map, Except.map, Bind.bind, Except.bind, Pure.pure, Except.pure]

/-- `]` directly after a bare token that lies in the same buffer: the token is added, then the array closed -/
theorem close_arr_token (st : St) (f : Fast) (l : Bool) (hm : st.mode = .token) (hs : st.starts = [some 0])
    (hk : st.stack = [.arrMark]) (hd : st.docs = []) (hf : f.nlSkipping = false) (ht : f.tokFast = true) :
    step refTables {} st f 93 l =
      .ok ({ st with mode := .space, starts := [], stack := [], docs := [.arr [tokenValue st.tmp.reverse]] },
           { inFast := false, tokFast := false, nlSkipping := false }, false) := by
  simp [step, tokenEndFast, stepCore, stepAct, stepActP, nextFast, refTables, expected, expectedFin, isSep, isBlank,
    isDigit19, isTokenByte, isTokenStart, isAlpha, isDigit, St.addTokenP, St.flushCloseP, splitStack, St.add, deliver,
    deliverP, hm, hs, hk, hd, hf, ht, Item.toJV, Functor.map, Except.map, Bind.bind, Except.bind, Pure.pure, Except.pure]

theorem step_colon (st : St) (f : Fast) (l : Bool) (hm : st.mode = .colon) (hf : f.nlSkipping = false) :
    step refTables {} st f 58 l = .ok ({ st with mode := .value }, fS f, false) := by
  simp [step, stepCore, stepAct, stepActP, nextFast, refTables, expected, isBlank, hm, hf, fS]

theorem step_one (st : St) (f : Fast) (l : Bool) (hm : st.mode = .value) (hs : st.starts = [none])
    (hf : f.nlSkipping = false) :
    step refTables {} st f 49 l =
      .ok ({ st with mode := .digit, num := { st.num.reset with i := ((49 : UInt8) - 48).toUInt64 } },
           { inFast := true, tokFast := f.tokFast, nlSkipping := false }, false) := by
  simp [step, stepCore, stepAct, stepActP, nextFast, refTables, expected, expectedFin, isSep, isBlank, isDigit19,
    deliver, hm, hs, hf]

/-- `}` after `1`: the member is stored under the key, the object is delivered -/
theorem step_close_member (st : St) (f : Fast) (l : Bool) (k : Bytes) (n : Json.Num) (hm : st.mode = .digit)
    (hs : st.starts = [none]) (hk : st.stack = [.key k, .obj []]) (hd : st.docs = []) (hf : f.nlSkipping = false)
    (hn : st.num = { n.reset with i := ((49 : UInt8) - 48).toUInt64 }) :
    step refTables {} st f 125 l =
      .ok ({ st with mode := .space, starts := [], stack := [], docs := [.obj [(k, .int 1)]], lastKey := k },
           fS f, false) := by
  simp [step, stepCore, stepAct, stepActP, nextFast, refTables, expected, expectedFin, isSep, isBlank,
      isDigit19, isDigit, isE, expectedNumEnd, St.flushP, St.add, St.setMember, topIsKey, deliver, deliverP, hm, hs, hk,
      hd, hf, Item.toJV, kvInsert, hn, fS, Functor.map, Except.map, Bind.bind, Except.bind, Pure.pure, Except.pure]
  rfl

/-- `:` directly after a bare token in key position that lies in the same buffer -/
theorem colon_token (st : St) (f : Fast) (l : Bool) (hm : st.mode = .token) (hs : st.starts = [none])
    (hk : st.stack = [.obj []]) (hf : f.nlSkipping = false) (ht : f.tokFast = true) :
    step refTables {} st f 58 l =
      .ok ({ st with mode := .value, stack := [.key st.tmp.reverse, .obj []] },
           { inFast := false, tokFast := false, nlSkipping := false }, false) := by
  simp [step, tokenEndFast, stepCore, stepAct, stepActP, nextFast, refTables, expected, expectedFin, isSep, isBlank,
    isDigit19, isTokenByte, isTokenStart, isAlpha, isDigit, St.addTokenP, topIsKey, deliver,
    hm, hs, hk, hf, ht, Functor.map, Except.map, Bind.bind, Except.bind, Pure.pure, Except.pure]

/-! ## from single steps to the entry point -/

/-- the end of the input after the one document has been delivered -/
theorem finish_space (st : St) (p : Pos) (hm : st.mode = .space) (hs : st.starts = []) :
    finish refTables {} st p =
      .ok { docs := st.docs.reverse, evs := st.evs.reverse, feat := st.feat, plus := st.plus, lastStrKey := st.lastStrKey } := by
  simp [finish, hm, hs, refTables, expectedFin]

/-- a document whose bytes the machine passes one by one, ending in `space` mode with one document -/
theorem parsesTo_of_run (doc : Bytes) (v : JV) (b0 : UInt8) (t : Bytes) (hdoc : doc = b0 :: t) (hb : b0 ≠ 0xEF)
    (h : ∃ st f p, runBytes refTables {} {} {} {} doc = .ok (st, f, p) ∧ st.mode = .space ∧ st.starts = [] ∧ st.docs = [v]) :
    parsesTo doc v := by
  obtain ⟨st, f, p, hr, hm, hs, hd⟩ := h
  have ho := finish_space st p hm hs
  refine ⟨{ docs := st.docs.reverse, evs := st.evs.reverse, feat := st.feat, plus := st.plus, lastStrKey := st.lastStrKey },
    ?_, show st.docs.reverse = [v] by rw [hd]; rfl⟩
  rw [run_eq_ref senTables_ok]
  have hbom : Json.bomRule doc = .keep := by
    subst hdoc
    unfold Json.bomRule
    split
    · rename_i heq; simp only [List.cons.injEq] at heq; exact absurd heq.1 hb
    · rfl
  have hentry : (({} : St).entry) = {} := rfl
  have hr' : runBytes refTables {} {} {} { ({} : Pos) with off := 0 } doc = .ok (st, f, p) := hr
  simp [run, call, hbom, hentry, runChunks, hr', ho]

/-! ## the quoted form -/

/-- the run over `"` and the body from value mode: the machine stands in string mode with the
sanitised string pending -/
theorem quoted_run (s : Bytes) (html : Bool) (st : St) (f : Fast) (p : Pos) (rest : Bytes) (hm : st.mode = .value) :
    ∃ ri rn p', runBytes refTables {} st f p (34 :: (senBody html 0 true s ++ rest)) =
      runBytes refTables {} { st with quoteDelim := 34, mode := .string, ri := ri, rn := rn, tmp := (sanitize s).reverse }
        (fS f) p' rest := by
  rw [runBytes_cons_ok {} (fun l => step_valQuote {} rfl st f l hm)]
  obtain ⟨ri, rn, p', h⟩ := body_run {} rfl html s 0 true { st with quoteDelim := 34, tmp := [], mode := .string } (fS f)
    (p.next false) rest rfl rfl rfl rfl (fun _ => trivial)
  refine ⟨ri, rn, p', ?_⟩
  rw [h, senDenote_eq_sanitize]
  simp

/-- the closing quote in an array -/
theorem quoteEnd_arr (st : St) (f : Fast) (l : Bool) (hm : st.mode = .string) (hq : st.quoteDelim = 34)
    (hs : st.starts = [some 0]) (hp : st.plus = false) (hf : f.nlSkipping = false) :
    step refTables {} st f 34 l =
      .ok ({ st with mode := .value, stack := .val (.str st.tmp.reverse) :: st.stack }, fS f, false) := by
  rw [step_quoteEnd {} rfl st f l hm hq hf]
  simp [St.addStringP, deliver, hs, hp]

/-- the closing quote of the first member name of an object -/
theorem quoteEnd_key (st : St) (f : Fast) (l : Bool) (hm : st.mode = .string) (hq : st.quoteDelim = 34)
    (hs : st.starts = [none]) (hk : st.stack = [.obj []]) (hp : st.plus = false) (hf : f.nlSkipping = false) :
    step refTables {} st f 34 l =
      .ok ({ st with mode := .colon, stack := [.key st.tmp.reverse, .obj []] }, fS f, false) := by
  rw [step_quoteEnd {} rfl st f l hm hq hf]
  simp [St.addStringP, topIsKey, deliver, hs, hk, hp]

/-- **a quoted string in value position comes back as the (sanitised) string** — for every byte string -/
theorem quoted_value (s : Bytes) (html : Bool) (hq : senString s html = 34 :: (senBody html 0 true s ++ [34])) :
    parsesTo (valueDoc s html) (.arr [.str (sanitize s)]) := by
  apply parsesTo_of_run _ _ 91 _ rfl (by decide)
  rw [hq, runBytes_cons_ok {} open_arr]
  simp only [List.cons_append, List.append_assoc, List.nil_append]
  obtain ⟨ri, rn, p', h⟩ := quoted_run s html { mode := .value, starts := [some 0], stack := [.arrMark] } {} _ [34, 93] rfl
  rw [h]
  rw [runBytes_cons_ok {} (fun l => quoteEnd_arr _ _ l rfl rfl rfl rfl rfl)]
  rw [runBytes_cons_ok {} (fun l => close_arr _ _ l (.str (sanitize s)) rfl rfl (by simp) rfl rfl)]
  exact ⟨_, _, _, rfl, rfl, rfl, rfl⟩

/-- **a quoted string in key position comes back as exactly that key** -/
theorem quoted_key (s : Bytes) (html : Bool) (hq : senString s html = 34 :: (senBody html 0 true s ++ [34])) :
    parsesTo (keyDoc s html) (.obj [(sanitize s, .int 1)]) := by
  apply parsesTo_of_run _ _ 123 _ rfl (by decide)
  rw [hq, runBytes_cons_ok {} open_obj]
  simp only [List.cons_append, List.append_assoc, List.nil_append]
  obtain ⟨ri, rn, p', h⟩ := quoted_run s html { mode := .value, starts := [none], stack := [.obj []] } {} _ [34, 58, 49, 125] rfl
  rw [h]
  rw [runBytes_cons_ok {} (fun l => quoteEnd_key _ _ l rfl rfl rfl rfl rfl rfl)]
  rw [runBytes_cons_ok {} (fun l => step_colon _ _ l rfl rfl)]
  rw [runBytes_cons_ok {} (fun l => step_one _ _ l rfl rfl rfl)]
  rw [runBytes_cons_ok {} (fun l => step_close_member _ _ l (sanitize s) _ rfl rfl (by simp) rfl rfl rfl)]
  exact ⟨_, _, _, rfl, rfl, rfl, rfl⟩

end OjgVerif.C10
