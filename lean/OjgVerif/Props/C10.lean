import OjgVerif.Sen.LemmasStr
import OjgVerif.Sen.LemmasUtf8
/-! # C10 — SEN writer and parser round-trip every value (the string level)

The statement is about two generated tables and two pieces of logic that have to be inverse:
`ojg.AppendSENString` decides from `senMap`, the first byte and `maxTokenLen` whether a string is written
bare or quoted and how it is escaped (`Sen.senString`, over the regenerated `Gen.Root.senMap`);
`sen.Parser` decides from `valueMap`, `tokenMap`, `stringMap`, `escMap`, `uMap` what it reads back
(`Sen.run` over the regenerated `Gen.Sen` tables).

For EVERY byte string `s` (no length bound) and both `htmlSafe` settings:

* `quoted_value` / `quoted_key`: if the writer keeps the quotes, the parser reads `[<text>]` as the array
  with the one string `sanitize s` and `{<text>:1}` as the object with the one key `sanitize s` — never a
  number, bool, null, sign, comment or error (`sanitize` = invalid UTF-8 bytes replaced by U+FFFD);
* `C10_value_partial` / `C10_key_partial`: the same for every string, quoted or bare, outside two
  named input classes: the reserved words `true false null` (value position only) and a leading `+`/`-`
  on a bare string;
* `C10_string_full_false*`: without the exclusions the statement is FALSE on this tree: the witnesses
  (`"true"` comes back as `true`, `"-1"` as -1, the key `"-"` is an error) are evaluated by the kernel;
  they are the known findings C10-reserved-word and C10-leading-sign (the suite pins the bare spellings);
* `C10_nontoken_before`: BEFORE 9fd0aeb a third class failed — bare strings with `&`, backtick or `|`
  (`"a&b"` was written `a&b`, which the parser rejects); the repair (two `senMap` cells, one branch) is
  what makes `Sen.bare_tokenOk` hold without exclusion, so undoing it breaks that proof.

Trees (sen.String/Bytes/Write and pretty.SEN under every option) are decided by the correspondence
run: the tight writer and the parser machine are modelled (`Sen.tightVal`, `Sen.run`) and compared with
the Go code byte for byte, the round trip itself is checked on the implementation. -/
namespace OjgVerif.C10
open OjgVerif OjgVerif.Sen
open OjgVerif.Writer (sanitize sanLoop)

/-- `[` text `]` -/
def valueDoc (s : Bytes) (html : Bool) : Bytes := 91 :: (senString s html ++ [93])
/-- `{` text `:1}` -/
def keyDoc (s : Bytes) (html : Bool) : Bytes := 123 :: (senString s html ++ [58, 49, 125])

/-- sen.Parser.Parse (fresh instance, no options) accepts the document and returns exactly `v` -/
def parsesTo (doc : Bytes) (v : JV) : Prop :=
  ∃ o, run senTables {} [doc] = .ok o ∧ o.docs = [v]

/-! ## the three excluded input classes -/

def reservedWord (s : Bytes) : Prop :=
  s = [116, 114, 117, 101] ∨ s = [102, 97, 108, 115, 101] ∨ s = [110, 117, 108, 108]

/-- written bare although it begins with a sign -/
def leadingSign (s : Bytes) (html : Bool) : Prop :=
  senQuoted s html = false ∧ (s.head? = some 43 ∨ s.head? = some 45)

/-! ## the context around the string: single steps over the reference tables -/

set_option linter.unusedSimpArgs false

/-- `[` at the top of a fresh parser -/
theorem open_arr (l : Bool) :
    step refTables {} {} {} 91 l = .ok ({ mode := .value, starts := [some 0], stack := [.arrMark] }, {}, false) := by
  simp [step, stepCore, stepAct, stepActP, nextFast, refTables, expected, expectedFin, isSep, isBlank, isDigit19,
    St.flushP, St.undelivered, startP, Functor.map, Except.map, Bind.bind, Except.bind, Pure.pure, Except.pure]

/-- `{` at the top of a fresh parser -/
theorem open_obj (l : Bool) :
    step refTables {} {} {} 123 l = .ok ({ mode := .value, starts := [none], stack := [.obj []] }, {}, false) := by
  simp [step, stepCore, stepAct, stepActP, nextFast, refTables, expected, expectedFin, isSep, isBlank, isDigit19,
    St.flushP, St.undelivered, startP, Functor.map, Except.map, Bind.bind, Except.bind, Pure.pure, Except.pure]

/-- `]` after the one element: the array is delivered -/
theorem close_arr (st : St) (f : Fast) (l : Bool) (v : JV) (hm : st.mode = .value) (hs : st.starts = [some 0])
    (hk : st.stack = [.val v, .arrMark]) (hd : st.docs = []) (hf : f.nlSkipping = false) :
    step refTables {} st f 93 l =
      .ok ({ st with mode := .space, starts := [], stack := [], docs := [.arr [v]] }, fS f, false) := by
  simp [step, stepCore, stepAct, stepActP, nextFast, refTables, expected, expectedFin, isSep, isBlank, isDigit19,
    St.flushCloseP, splitStack, St.add, deliver, deliverP, hm, hs, hk, hd, hf, fS, Item.toJV,
    Functor.map, Except.map, Bind.bind, Except.bind, Pure.pure, Except.pure]

/-- `]` directly after a bare token that lies in the same buffer: the token is added, then the array closed -/
theorem close_arr_token (st : St) (f : Fast) (l : Bool) (hm : st.mode = .token) (hs : st.starts = [some 0])
    (hk : st.stack = [.arrMark]) (hd : st.docs = []) (hf : f.nlSkipping = false) (ht : f.tokFast = true) :
    step refTables {} st f 93 l =
      .ok ({ st with mode := .space, starts := [], stack := [], docs := [.arr [tokenValue st.tmp.reverse]] },
           { inFast := false, tokFast := false, nlSkipping := false }, false) := by
  simp [step, tokenEndFast, stepCore, stepAct, stepActP, nextFast, refTables, expected, expectedFin, isSep, isBlank,
    isDigit19, isTokenByte, isTokenStart, isAlpha, isDigit, St.addTokenP, St.flushCloseP, splitStack, St.add, deliver,
    deliverP, hm, hs, hk, hd, hf, ht, Item.toJV, Functor.map, Except.map, Bind.bind, Except.bind, Pure.pure, Except.pure]

theorem step_colon (st : St) (f : Fast) (l : Bool) (hm : st.mode = .colon) (hf : f.nlSkipping = false) :
    step refTables {} st f 58 l = .ok ({ st with mode := .value }, fS f, false) := by
  simp [step, stepCore, stepAct, stepActP, nextFast, refTables, expected, isBlank, hm, hf, fS]

theorem step_one (st : St) (f : Fast) (l : Bool) (hm : st.mode = .value) (hs : st.starts = [none])
    (hf : f.nlSkipping = false) :
    step refTables {} st f 49 l =
      .ok ({ st with mode := .digit, num := { st.num.reset with i := ((49 : UInt8) - 48).toUInt64 } },
           { inFast := true, tokFast := f.tokFast, nlSkipping := false }, false) := by
  simp [step, stepCore, stepAct, stepActP, nextFast, refTables, expected, expectedFin, isSep, isBlank, isDigit19,
    deliver, hm, hs, hf]

/-- `}` after `1`: the member is stored under the key, the object is delivered -/
theorem step_close_member (st : St) (f : Fast) (l : Bool) (k : Bytes) (n : Json.Num) (hm : st.mode = .digit)
    (hs : st.starts = [none]) (hk : st.stack = [.key k, .obj []]) (hd : st.docs = []) (hf : f.nlSkipping = false)
    (hn : st.num = { n.reset with i := ((49 : UInt8) - 48).toUInt64 }) :
    step refTables {} st f 125 l =
      .ok ({ st with mode := .space, starts := [], stack := [], docs := [.obj [(k, .int 1)]], lastKey := k },
           fS f, false) := by
  simp [step, stepCore, stepAct, stepActP, nextFast, refTables, expected, expectedFin, isSep, isBlank,
      isDigit19, isDigit, isE, expectedNumEnd, St.flushP, St.add, St.setMember, topIsKey, deliver, deliverP, hm, hs, hk,
      hd, hf, Item.toJV, kvInsert, hn, fS, Functor.map, Except.map, Bind.bind, Except.bind, Pure.pure, Except.pure]
  rfl

/-- `:` directly after a bare token in key position that lies in the same buffer -/
theorem colon_token (st : St) (f : Fast) (l : Bool) (hm : st.mode = .token) (hs : st.starts = [none])
    (hk : st.stack = [.obj []]) (hf : f.nlSkipping = false) (ht : f.tokFast = true) :
    step refTables {} st f 58 l =
      .ok ({ st with mode := .value, stack := [.key st.tmp.reverse, .obj []] },
           { inFast := false, tokFast := false, nlSkipping := false }, false) := by
  simp [step, tokenEndFast, stepCore, stepAct, stepActP, nextFast, refTables, expected, expectedFin, isSep, isBlank,
    isDigit19, isTokenByte, isTokenStart, isAlpha, isDigit, St.addTokenP, topIsKey, deliver,
    hm, hs, hk, hf, ht, Functor.map, Except.map, Bind.bind, Except.bind, Pure.pure, Except.pure]

/-! ## from single steps to the entry point -/

/-- the end of the input after the one document has been delivered -/
theorem finish_space (st : St) (p : Pos) (hm : st.mode = .space) (hs : st.starts = []) :
    finish refTables {} st p =
      .ok { docs := st.docs.reverse, evs := st.evs.reverse, feat := st.feat, plus := st.plus, lastStrKey := st.lastStrKey, lastKey := st.lastKey } := by
  simp [finish, hm, hs, refTables, expectedFin]

/-- a document whose bytes the machine passes one by one, ending in `space` mode with one document -/
theorem parsesTo_of_run (doc : Bytes) (v : JV) (b0 : UInt8) (t : Bytes) (hdoc : doc = b0 :: t) (hb : b0 ≠ 0xEF)
    (h : ∃ st f p, runBytes refTables {} {} {} {} doc = .ok (st, f, p) ∧ st.mode = .space ∧ st.starts = [] ∧ st.docs = [v]) :
    parsesTo doc v := by
  obtain ⟨st, f, p, hr, hm, hs, hd⟩ := h
  have ho := finish_space st p hm hs
  refine ⟨{ docs := st.docs.reverse, evs := st.evs.reverse, feat := st.feat, plus := st.plus, lastStrKey := st.lastStrKey, lastKey := st.lastKey },
    ?_, show st.docs.reverse = [v] by rw [hd]; rfl⟩
  rw [run_eq_ref senTables_ok]
  have hbom : Json.bomRule doc = .keep := by
    subst hdoc
    unfold Json.bomRule
    split
    · rename_i heq; simp only [List.cons.injEq] at heq; exact absurd heq.1 hb
    · rfl
  have hentry : (St.entry ({} : Cfg) ({} : St)) = {} := rfl
  have hr' : runBytes refTables {} {} {} { ({} : Pos) with off := 0 } doc = .ok (st, f, p) := hr
  rw [run, call_ref]
  simp [callWith, hbom, hentry, runChunks, hr', ho]

/-! ## the quoted form -/

/-- the run over `"` and the body from value mode: the machine stands in string mode with the
sanitised string pending -/
theorem quoted_run (s : Bytes) (html : Bool) (st : St) (f : Fast) (p : Pos) (rest : Bytes) (hm : st.mode = .value) :
    ∃ ri rn p', runBytes refTables {} st f p (34 :: (senBody html 0 true s ++ rest)) =
      runBytes refTables {} { st with quoteDelim := 34, mode := .string, ri := ri, rn := rn, tmp := (sanitize s).reverse }
        (fS f) p' rest := by
  rw [runBytes_cons_ok {} (fun l => step_valQuote {} rfl st f l hm)]
  obtain ⟨ri, rn, p', h⟩ := body_run {} rfl html s 0 true { st with quoteDelim := 34, tmp := [], mode := .string } (fS f)
    (p.next false) rest rfl rfl rfl rfl (fun _ => trivial)
  refine ⟨ri, rn, p', ?_⟩
  rw [h, senDenote_eq_sanitize]
  simp

/-- the closing quote in an array -/
theorem quoteEnd_arr (st : St) (f : Fast) (l : Bool) (hm : st.mode = .string) (hq : st.quoteDelim = 34)
    (hs : st.starts = [some 0]) (hp : st.plus = false) (hf : f.nlSkipping = false) :
    step refTables {} st f 34 l =
      .ok ({ st with mode := .value, stack := .val (.str st.tmp.reverse) :: st.stack }, fS f, false) := by
  rw [step_quoteEnd {} rfl rfl st f l hm hq hf]
  simp [St.addStringP, deliver, hs, hp]

/-- the closing quote of the first member name of an object -/
theorem quoteEnd_key (st : St) (f : Fast) (l : Bool) (hm : st.mode = .string) (hq : st.quoteDelim = 34)
    (hs : st.starts = [none]) (hk : st.stack = [.obj []]) (hp : st.plus = false) (hf : f.nlSkipping = false) :
    step refTables {} st f 34 l =
      .ok ({ st with mode := .colon, stack := [.key st.tmp.reverse, .obj []] }, fS f, false) := by
  rw [step_quoteEnd {} rfl rfl st f l hm hq hf]
  simp [St.addStringP, topIsKey, deliver, hs, hk, hp]

/-- **a quoted string in value position comes back as the (sanitised) string** — for every byte string -/
theorem quoted_value (s : Bytes) (html : Bool) (hq : senString s html = 34 :: (senBody html 0 true s ++ [34])) :
    parsesTo (valueDoc s html) (.arr [.str (sanitize s)]) := by
  apply parsesTo_of_run _ _ 91 _ rfl (by decide)
  rw [hq, runBytes_cons_ok {} open_arr]
  simp only [List.cons_append, List.append_assoc, List.nil_append]
  obtain ⟨ri, rn, p', h⟩ := quoted_run s html { mode := .value, starts := [some 0], stack := [.arrMark] } {} _ [34, 93] rfl
  rw [h]
  rw [runBytes_cons_ok {} (fun l => quoteEnd_arr _ _ l rfl rfl rfl rfl rfl)]
  rw [runBytes_cons_ok {} (fun l => close_arr _ _ l (.str (sanitize s)) rfl rfl (by simp) rfl rfl)]
  exact ⟨_, _, _, rfl, rfl, rfl, rfl⟩

/-- **a quoted string in key position comes back as exactly that key** -/
theorem quoted_key (s : Bytes) (html : Bool) (hq : senString s html = 34 :: (senBody html 0 true s ++ [34])) :
    parsesTo (keyDoc s html) (.obj [(sanitize s, .int 1)]) := by
  apply parsesTo_of_run _ _ 123 _ rfl (by decide)
  rw [hq, runBytes_cons_ok {} open_obj]
  simp only [List.cons_append, List.append_assoc, List.nil_append]
  obtain ⟨ri, rn, p', h⟩ := quoted_run s html { mode := .value, starts := [none], stack := [.obj []] } {} _ [34, 58, 49, 125] rfl
  rw [h]
  rw [runBytes_cons_ok {} (fun l => quoteEnd_key _ _ l rfl rfl rfl rfl rfl rfl)]
  rw [runBytes_cons_ok {} (fun l => step_colon _ _ l rfl rfl)]
  rw [runBytes_cons_ok {} (fun l => step_one _ _ l rfl rfl rfl)]
  rw [runBytes_cons_ok {} (fun l => step_close_member _ _ l (sanitize s) _ rfl rfl (by simp) rfl rfl rfl)]
  exact ⟨_, _, _, rfl, rfl, rfl, rfl⟩

/-! ## the bare form -/

/-- what is known about a non-empty string the writer leaves bare -/
theorem bare_facts (s : Bytes) (html : Bool) (hne : s ≠ []) (hq : senQuoted s html = false) :
    senString s html = s ∧ sanitize s = s ∧ (∀ x ∈ s, bareByte html x) ∧
      ∃ b t, s = b :: t ∧ (senClass b = cO ∨ senClass b = c8 ∨ senClass b = cH) := by
  unfold senQuoted at hq
  simp only [Bool.or_eq_false_iff] at hq
  obtain ⟨h1, h2, h3⟩ := force_false html s 0 trivial hq.2
  refine ⟨?_, h2, h3, ?_⟩
  · unfold senString
    have : s.isEmpty = false := by cases s <;> simp_all
    simp [this, senQuoted, hq.1, hq.2, h1]
  · cases s with
    | nil => exact absurd rfl hne
    | cons b t =>
      refine ⟨b, t, rfl, ?_⟩
      have hf := hq.1
      simp only [firstForces, Bool.or_eq_false_iff, Bool.and_eq_false_iff, bne_eq_false_iff_eq,
        Bool.not_eq_false', Bool.and_eq_true, Bool.not_eq_true', beq_iff_eq] at hf
      rcases hf.2 with (h | h) | h
      · exact Or.inl h
      · exact Or.inr (Or.inl h)
      · exact Or.inr (Or.inr h.2)

/-- the run over a bare string from value mode: the machine stands in token mode with the string pending
and the token still inside the current buffer -/
theorem bare_run (s : Bytes) (html : Bool) (st : St) (f : Fast) (p : Pos) (rest : Bytes) (hm : st.mode = .value)
    (hne : s ≠ []) (hq : senQuoted s html = false) (h2 : ¬ leadingSign s html) :
    ∃ p', runBytes refTables {} st f p (senString s html ++ rest) =
      runBytes refTables {} { st with mode := .token, tmp := s.reverse }
        { inFast := false, tokFast := true, nlSkipping := false } p' rest := by
  obtain ⟨hs, _, hb, b, t, rfl, hc⟩ := bare_facts s html hne hq
  have nsign : b ≠ 43 ∧ b ≠ 45 := by
    refine ⟨?_, ?_⟩ <;> intro e <;> subst e <;> apply h2 <;> refine ⟨hq, ?_⟩
    · exact Or.inl rfl
    · exact Or.inr rfl
  have hc' : senClass b = cO ∨ senClass b = c8 ∨ (senClass b = cH ∧ b ≠ 38) := by
    rcases hc with h | h | h
    · exact Or.inl h
    · exact Or.inr (Or.inl h)
    · exact Or.inr (Or.inr ⟨h, bareByte_h html b (hb b List.mem_cons_self) h⟩)
  obtain ⟨t1, t2, t3⟩ := first_tokenStart b hc' nsign.1 nsign.2
  rw [hs, List.cons_append, runBytes_cons_ok {} (fun l => step_tokenStart {} rfl st f b l hm t1 t2 t3)]
  obtain ⟨p', h⟩ := token_run {} rfl t { st with tmp := [b], mode := .token }
    { inFast := false, tokFast := true, nlSkipping := false } (p.next false) rest rfl rfl rfl
    (fun x hx => bare_tokenOk html x (hb x (List.mem_cons_of_mem _ hx)))
  exact ⟨p', by rw [h]; simp⟩

theorem tokenValue_str (s : Bytes) (h : ¬ reservedWord s) : tokenValue s = .str s := by
  unfold tokenValue
  unfold reservedWord at h
  simp only [not_or] at h
  simp [h.1, h.2.1, h.2.2]

theorem bare_value (s : Bytes) (html : Bool) (hne : s ≠ []) (hq : senQuoted s html = false)
    (h1 : ¬ reservedWord s) (h2 : ¬ leadingSign s html) :
    parsesTo (valueDoc s html) (.arr [.str (sanitize s)]) := by
  apply parsesTo_of_run _ _ 91 _ rfl (by decide)
  rw [runBytes_cons_ok {} open_arr]
  obtain ⟨p', h⟩ := bare_run s html { mode := .value, starts := [some 0], stack := [.arrMark] } {} _ [93] rfl hne hq h2
  rw [h]
  rw [runBytes_cons_ok {} (fun l => close_arr_token _ _ l rfl rfl rfl rfl rfl rfl)]
  refine ⟨_, _, _, rfl, rfl, rfl, ?_⟩
  simp only [List.reverse_reverse]
  rw [tokenValue_str s h1, (bare_facts s html hne hq).2.1]

theorem bare_key (s : Bytes) (html : Bool) (hne : s ≠ []) (hq : senQuoted s html = false)
    (h2 : ¬ leadingSign s html) :
    parsesTo (keyDoc s html) (.obj [(sanitize s, .int 1)]) := by
  apply parsesTo_of_run _ _ 123 _ rfl (by decide)
  rw [runBytes_cons_ok {} open_obj]
  obtain ⟨p', h⟩ := bare_run s html { mode := .value, starts := [none], stack := [.obj []] } {} _ [58, 49, 125] rfl hne hq h2
  rw [h]
  rw [runBytes_cons_ok {} (fun l => colon_token _ _ l rfl rfl rfl rfl rfl)]
  rw [runBytes_cons_ok {} (fun l => step_one _ _ l rfl rfl rfl)]
  rw [runBytes_cons_ok {} (fun l => step_close_member _ _ l s _ rfl rfl (by simp) rfl rfl rfl)]
  refine ⟨_, _, _, rfl, rfl, rfl, ?_⟩
  rw [(bare_facts s html hne hq).2.1]

/-! ## the property at string level -/

theorem quoted_form (s : Bytes) (html : Bool) (h : s = [] ∨ senQuoted s html = true) :
    senString s html = 34 :: (senBody html 0 true s ++ [34]) := by
  rcases h with rfl | h
  · rfl
  · unfold senString
    cases hs : s.isEmpty with
    | true =>
      have : s = [] := by cases s <;> simp_all
      subst this; rfl
    | false => simp [h]

/-- **C10 at string level, value position, partial form**: every byte string that is not one of the
reserved words and is not written bare with a leading sign comes back from `[` text `]` as the one string
`sanitize s` — never a number, bool, null, sign, comment or error. No length bound. -/
theorem C10_value_partial (s : Bytes) (html : Bool) (h1 : ¬ reservedWord s) (h2 : ¬ leadingSign s html) :
    parsesTo (valueDoc s html) (.arr [.str (sanitize s)]) := by
  by_cases hne : s = []
  · exact quoted_value s html (quoted_form s html (Or.inl hne))
  · cases hq : senQuoted s html with
    | true => exact quoted_value s html (quoted_form s html (Or.inr hq))
    | false => exact bare_value s html hne hq h1 h2

/-- **C10 at string level, key position, partial form**: the reserved words are fine as keys -/
theorem C10_key_partial (s : Bytes) (html : Bool) (h2 : ¬ leadingSign s html) :
    parsesTo (keyDoc s html) (.obj [(sanitize s, .int 1)]) := by
  by_cases hne : s = []
  · exact quoted_key s html (quoted_form s html (Or.inl hne))
  · cases hq : senQuoted s html with
    | true => exact quoted_key s html (quoted_form s html (Or.inr hq))
    | false => exact bare_key s html hne hq h2

/-- **C10 at string level for valid UTF-8, value position**: a well-formed UTF-8 string (Unicode Table 3-7,
`Sen.WellFormedUtf8`) that is not a reserved word and has no leading sign comes back as ITSELF -/
theorem C10_value_valid (s : Bytes) (html : Bool) (hv : WellFormedUtf8 s) (h1 : ¬ reservedWord s)
    (h2 : ¬ leadingSign s html) : parsesTo (valueDoc s html) (.arr [.str s]) := by
  have h := C10_value_partial s html h1 h2
  rwa [sanitize_valid s hv] at h

/-- the same in key position -/
theorem C10_key_valid (s : Bytes) (html : Bool) (hv : WellFormedUtf8 s) (h2 : ¬ leadingSign s html) :
    parsesTo (keyDoc s html) (.obj [(s, .int 1)]) := by
  have h := C10_key_partial s html h2
  rwa [sanitize_valid s hv] at h

/-- the invalid-UTF-8 case (what `C10_value_partial` says beyond `C10_value_valid`): every byte that does not
start a well-formed sequence comes back as U+FFFD — `"a\x80b"` comes back as `"a\uFFFDb"` -/
example : parsesTo (valueDoc [97, 0x80, 98] false) (.arr [.str [97, 0xEF, 0xBF, 0xBD, 98]]) := by
  have h := C10_value_partial [97, 0x80, 98] false (by unfold reservedWord; decide) (by intro h; exact absurd h.2 (by decide))
  have e : sanitize [97, 0x80, 98] = [97, 0xEF, 0xBF, 0xBD, 98] := by decide
  rwa [e] at h

/-- non-vacuity: strings that meet the hypotheses — `ab` is written bare, `12` is quoted because of
its first byte, `- \xff` is quoted (a space, invalid UTF-8) although it begins with a sign -/
example : ¬ reservedWord [97, 98] ∧ ¬ leadingSign [97, 98] false ∧ senQuoted [97, 98] false = false := by
  refine ⟨by unfold reservedWord; decide, ?_, by decide +kernel⟩
  intro h; exact absurd h.2 (by decide)
example : ¬ reservedWord [49, 50] ∧ ¬ leadingSign [49, 50] false := by
  refine ⟨by unfold reservedWord; decide, ?_⟩
  intro h; exact absurd h.2 (by decide)
example : ¬ leadingSign [45, 32, 0xff] false := by
  intro h; exact absurd h.1 (by decide +kernel)

/-- since 9fd0aeb `"a&b"`, `` "`" `` and `"a|b"` come back (they are quoted now) -/
example : parsesTo (valueDoc [97, 38, 98] false) (.arr [.str (sanitize [97, 38, 98])]) :=
  C10_value_partial _ _ (by unfold reservedWord; decide) (by intro h; exact absurd h.2 (by decide))
example : parsesTo (keyDoc [97, 124, 98] false) (.obj [(sanitize [97, 124, 98], .int 1)]) :=
  C10_key_partial _ _ (by intro h; exact absurd h.2 (by decide))

/-- the full statement: every string, in value and in key position -/
def C10_string_full : Prop :=
  ∀ (s : Bytes) (html : Bool),
    parsesTo (valueDoc s html) (.arr [.str (sanitize s)]) ∧ parsesTo (keyDoc s html) (.obj [(sanitize s, .int 1)])

def checkDocs (r : Except Err Out) (p : List JV → Bool) : Bool :=
  match r with
  | .ok o => p o.docs
  | .error _ => false

def isArrTrue : List JV → Bool
  | [.arr [.bool true]] => true
  | _ => false

def isArrIntNeg1 : List JV → Bool
  | [.arr [.int (-1)]] => true
  | _ => false

/-- `"true"` in value position comes back as the bool `true` (known finding C10-reserved-word) -/
theorem C10_string_full_false : ¬ C10_string_full := by
  intro h
  obtain ⟨o, ho, hd⟩ := (h [116, 114, 117, 101] false).1
  have hc : checkDocs (run senTables {} [valueDoc [116, 114, 117, 101] false]) isArrTrue = true := by decide +kernel
  rw [ho] at hc
  simp only [checkDocs, hd, isArrTrue] at hc
  cases hc

/-- `"-1"` in value position comes back as the number -1 (known finding C10-leading-sign) -/
theorem C10_string_full_false_sign : ¬ C10_string_full := by
  intro h
  obtain ⟨o, ho, hd⟩ := (h [45, 49] false).1
  have hc : checkDocs (run senTables {} [valueDoc [45, 49] false]) isArrIntNeg1 = true := by decide +kernel
  rw [ho] at hc
  simp only [checkDocs, hd, isArrIntNeg1] at hc
  cases hc

/-- BEFORE 9fd0aeb: `"a&b"` was written bare (`senStringBefore`), and the parser has no token with `&`:
the document did not parse (was known finding C10-bare-nontoken-byte) -/
theorem C10_nontoken_before :
    checkDocs (run senTables {} [91 :: (senStringBefore [97, 38, 98] false ++ [93])]) (fun _ => true) = false := by
  decide +kernel

/-- `"-"` as a key does not parse at all (C10-leading-sign in key position) -/
theorem C10_key_full_false_sign : ¬ C10_string_full := by
  intro h
  obtain ⟨o, ho, _⟩ := (h [45] false).2
  have hc : checkDocs (run senTables {} [keyDoc [45] false]) (fun _ => true) = false := by decide +kernel
  rw [ho] at hc
  cases hc

end OjgVerif.C10
