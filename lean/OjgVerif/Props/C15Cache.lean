import OjgVerif.Reflect.EncCache
/-! # C15 — the plan caches: history independence (model `Reflect/EncCache.lean`)

* `cache_wiring`: over the traces REGENERATED from `oj/sinfo.go`, `sen/sinfo.go`, `alt/sinfo.go`
  (`tools/extract/reflect_enc.go`): with `omitEmpty = b`, `getTypeStruct` and `getSinfo` consult
  exactly the map of flag `b` and nothing else, build on a miss with the same flag (`getSinfo` with
  `embedded = false`), and `buildStruct` stores into the map of flag `b`; sen's traces are oj's;
* `cache_cfg_current`: the protocols read from those traces are well keyed;
* `cache_history_independent`: for EVERY well-keyed protocol, type graph, fuel and HISTORY of encoder
  lookups, the plan tree a lookup `(type, OmitEmpty = om)` returns has the flag `om` at every node: every
  nested struct value is written under the caller's `OmitEmpty`, whatever was encoded before;
  `cache_history_independent_current` is the instance for oj, sen and alt as they are;
* `cache_plain_first_history_dependent`: the hypothesis is needed — under the protocol of seeded
  change C15-m7 (a hit in `structMap` is returned before `structEmptyMap` is consulted) the same lookup
  returns a plan whose nested node has the flag `false` after the history "inner type without
  OmitEmpty", and the all-`true` plan without that history.

What is NOT proved here: that the tree an encoder writes depends on the plan tree only through these
flags (the plan entries themselves are a function of the type and the flag: `planOf` of
`Reflect/Model.lean`; the walker of that model takes the nested plan by this flag), and that the Go
maps behave like association lists keyed by type identity. The cache-order stream of the harness
(`harness/cmd/reflect/c15_cache.go`) checks the statement on the implementation. -/
namespace OjgVerif.C15
open OjgVerif.Reflect.EncCache

/-- the cache selection lines of the three packages, as regenerated from the source -/
theorem cache_wiring :
    Gen.ReflectEnc.ojGetTypeStructOff = ["lookup:structMap", "build:embedded:omitEmpty"] ∧
    Gen.ReflectEnc.ojGetTypeStructOn = ["lookup:structEmptyMap", "build:embedded:omitEmpty"] ∧
    Gen.ReflectEnc.ojGetSinfoOff = ["lookup:structMap", "build:false:omitEmpty"] ∧
    Gen.ReflectEnc.ojGetSinfoOn = ["lookup:structEmptyMap", "build:false:omitEmpty"] ∧
    Gen.ReflectEnc.ojBuildStructOff = ["store:structMap", "return"] ∧
    Gen.ReflectEnc.ojBuildStructOn = ["store:structEmptyMap", "return"] ∧
    Gen.ReflectEnc.senGetTypeStructOff = Gen.ReflectEnc.ojGetTypeStructOff ∧
    Gen.ReflectEnc.senGetTypeStructOn = Gen.ReflectEnc.ojGetTypeStructOn ∧
    Gen.ReflectEnc.senGetSinfoOff = Gen.ReflectEnc.ojGetSinfoOff ∧
    Gen.ReflectEnc.senGetSinfoOn = Gen.ReflectEnc.ojGetSinfoOn ∧
    Gen.ReflectEnc.senBuildStructOff = Gen.ReflectEnc.ojBuildStructOff ∧
    Gen.ReflectEnc.senBuildStructOn = Gen.ReflectEnc.ojBuildStructOn ∧
    Gen.ReflectEnc.altGetSinfoOff = ["lookup:structMap", "build:-:omitEmpty"] ∧
    Gen.ReflectEnc.altGetSinfoOn = ["lookup:structEmptyMap", "build:-:omitEmpty"] ∧
    Gen.ReflectEnc.altBuildStructOff = ["store:structMap", "return"] ∧
    Gen.ReflectEnc.altBuildStructOn = ["store:structEmptyMap", "return"] := by
  decide +kernel

/-- the protocols of oj, sen and alt as they are in the source are well keyed; the protocol of the
seeded change is not -/
theorem cache_cfg_current :
    Cfg.oj.wellKeyed = true ∧ Cfg.sen.wellKeyed = true ∧ Cfg.alt.wellKeyed = true ∧ Cfg.plainFirst.wellKeyed = false := by
  decide +kernel

section
variable {K : Type} [DecidableEq K]

/-- every plan in map `m` has flag `m` throughout -/
def CacheInv (c : Cache K) : Prop := ∀ m k p, c.get m k = some p → AllOm m p

theorem cacheInv_none : CacheInv (Cache.none : Cache K) := by
  intro m k p h
  cases m <;> simp [Cache.get, Cache.none, assoc] at h

theorem assoc_cons (k k' : K) (p : Plan K) (l : List (K × Plan K)) :
    assoc k ((k', p) :: l) = if k' = k then some p else assoc k l := rfl

theorem cacheInv_put {c : Cache K} (hc : CacheInv c) (m : Bool) (k : K) (p : Plan K) (hp : AllOm m p) :
    CacheInv (c.put m k p) := by
  intro m' k' p' h
  cases m <;> cases m' <;> simp [Cache.put, Cache.get, assoc_cons] at h
  · by_cases hk : k = k'
    · simp [hk] at h; subst h; exact hp
    · simp [hk] at h; exact hc false k' p' (by simpa [Cache.get] using h)
  · exact hc true k' p' (by simpa [Cache.get] using h)
  · exact hc false k' p' (by simpa [Cache.get] using h)
  · by_cases hk : k = k'
    · simp [hk] at h; subst h; exact hp
    · simp [hk] at h; exact hc true k' p' (by simpa [Cache.get] using h)

theorem firstHit_sound {c : Cache K} (hc : CacheInv c) (k : K) (om : Bool) :
    ∀ (lk : List Bool), (∀ m, m ∈ lk → m = om) → ∀ p, firstHit c k lk = some p → AllOm om p
  | [], _, p, h => by simp [firstHit] at h
  | m :: ms, hl, p, h => by
    unfold firstHit at h
    cases hg : c.get m k with
    | some q =>
      rw [hg] at h
      simp at h
      subst h
      have : m = om := hl m (by simp)
      subst this
      exact hc m k q hg
    | none =>
      rw [hg] at h
      exact firstHit_sound hc k om ms (fun m' hm' => hl m' (by simp [hm'])) p h

/-- a lookup function that keeps the invariant and returns all-`om` plans -/
def GoodGet (om : Bool) (get : Cache K → K → Bool → Plan K × Cache K) : Prop :=
  ∀ c k emb, CacheInv c → AllOm om (get c k emb).1 ∧ CacheInv (get c k emb).2

theorem buildKids_good {om : Bool} {get : Cache K → K → Bool → Plan K × Cache K} (hg : GoodGet om get) :
    ∀ (ks : List (K × Bool)) (c : Cache K), CacheInv c →
      (∀ p, p ∈ (buildKids get c ks).1 → AllOm om p) ∧ CacheInv (buildKids get c ks).2
  | [], c, hc => by simp [buildKids, hc]
  | ke :: r, c, hc => by
    have h1 := hg c ke.1 ke.2 hc
    have h2 := buildKids_good hg r (get c ke.1 ke.2).2 h1.2
    constructor
    · intro p hp
      simp only [buildKids, List.mem_cons] at hp
      rcases hp with hp | hp
      · subst hp; exact h1.1
      · exact h2.1 p hp
    · simpa [buildKids] using h2.2

theorem wellKeyed_spec {cfg : Cfg} (h : cfg.wellKeyed = true) (om : Bool) :
    (∀ m, m ∈ cfg.nestLookups om → m = om) ∧ (∀ m, m ∈ cfg.topLookups om → m = om) ∧ cfg.store om = om := by
  unfold Cfg.wellKeyed at h
  simp only [List.all_cons, List.all_nil, Bool.and_true, Bool.and_eq_true, List.all_eq_true, beq_iff_eq] at h
  cases om
  · exact ⟨h.1.1.1, h.1.1.2, h.1.2⟩
  · exact ⟨h.2.1.1, h.2.1.2, h.2.2⟩

theorem getNested_good {cfg : Cfg} (h : cfg.wellKeyed = true) (env : Env K) (om : Bool) :
    ∀ fuel, GoodGet om (getNested cfg env fuel om)
  | 0 => by
    intro c k emb hc
    exact ⟨AllOm.mk k emb [] (by simp), hc⟩
  | f + 1 => by
    intro c k emb hc
    have hw := wellKeyed_spec h om
    unfold getNested
    cases hf : firstHit c k (cfg.nestLookups om) with
    | some p => exact ⟨firstHit_sound hc k om _ hw.1 p hf, hc⟩
    | none =>
      have hk := buildKids_good (getNested_good h env om f) (env.kids k) c hc
      have hp : AllOm om (Plan.mk k om emb (buildKids (getNested cfg env f om) c (env.kids k)).1) :=
        AllOm.mk k emb _ hk.1
      refine ⟨hp, ?_⟩
      simp only [hw.2.2]
      exact cacheInv_put hk.2 om k _ hp

theorem getTop_good {cfg : Cfg} (h : cfg.wellKeyed = true) (env : Env K) (fuel : Nat) (c : Cache K) (hc : CacheInv c)
    (k : K) (om : Bool) : AllOm om (getTop cfg env fuel c k om).1 ∧ CacheInv (getTop cfg env fuel c k om).2 := by
  have hw := wellKeyed_spec h om
  unfold getTop
  cases hf : firstHit c k (cfg.topLookups om) with
  | some p => exact ⟨firstHit_sound hc k om _ hw.2.1 p hf, hc⟩
  | none =>
    have hk := buildKids_good (getNested_good h env om fuel) (env.kids k) c hc
    have hp : AllOm om (Plan.mk k om false (buildKids (getNested cfg env fuel om) c (env.kids k)).1) :=
      AllOm.mk k false _ hk.1
    refine ⟨hp, ?_⟩
    simp only [hw.2.2]
    exact cacheInv_put hk.2 om k _ hp

theorem run_inv {cfg : Cfg} (h : cfg.wellKeyed = true) (env : Env K) (fuel : Nat) :
    ∀ (hist : List (K × Bool)) (c : Cache K), CacheInv c → CacheInv (run cfg env fuel hist c)
  | [], c, hc => by simpa [run] using hc
  | ko :: r, c, hc => by
    simp only [run]
    exact run_inv h env fuel r _ (getTop_good h env fuel c hc ko.1 ko.2).2

/-- HISTORY INDEPENDENCE of the omit selection. For every well-keyed cache protocol, every type graph,
fuel, and every history of encoder lookups `(type, OmitEmpty)` made before in the process, the plan
tree the lookup `(k, om)` returns carries the flag `om` at every node: the value of `k` and every
struct value nested in it is written under the caller's `OmitEmpty`. -/
theorem cache_history_independent {cfg : Cfg} (h : cfg.wellKeyed = true) (env : Env K) (fuel : Nat)
    (hist : List (K × Bool)) (k : K) (om : Bool) :
    AllOm om (getTop cfg env fuel (run cfg env fuel hist Cache.none) k om).1 :=
  (getTop_good h env fuel _ (run_inv h env fuel hist _ cacheInv_none) k om).1

/-- … and so for the protocols read from the source of oj, sen and alt as they are -/
theorem cache_history_independent_current (env : Env K) (fuel : Nat) (hist : List (K × Bool)) (k : K) (om : Bool) :
    AllOm om (getTop Cfg.oj env fuel (run Cfg.oj env fuel hist Cache.none) k om).1 ∧
    AllOm om (getTop Cfg.sen env fuel (run Cfg.sen env fuel hist Cache.none) k om).1 ∧
    AllOm om (getTop Cfg.alt env fuel (run Cfg.alt env fuel hist Cache.none) k om).1 :=
  ⟨cache_history_independent cache_cfg_current.1 env fuel hist k om,
   cache_history_independent cache_cfg_current.2.1 env fuel hist k om,
   cache_history_independent cache_cfg_current.2.2.1 env fuel hist k om⟩

end

/-- two struct types: 1 (`Mid`) has a field of struct type 0 (`In`) -/
def twoTypes : Env Nat := ⟨fun k => if k = 1 then [(0, true)] else []⟩

/-- the hypothesis of `cache_history_independent` is satisfiable and not vacuous: a well-keyed
protocol, a history, and the plan it returns -/
example : Cfg.oj.wellKeyed = true ∧
    allOmB true 3 (getTop Cfg.oj twoTypes 3 (run Cfg.oj twoTypes 3 [(0, false), (1, false)] Cache.none) 1 true).1 = true := by
  decide +kernel

/-- The seeded protocol is history dependent: after `In` was encoded without `OmitEmpty`, the plan
of `Mid` under `OmitEmpty` holds the plain plan of `In` (flag `false`); as a first call it is all-`true`. -/
theorem cache_plain_first_history_dependent :
    allOmB true 3 (getTop Cfg.plainFirst twoTypes 3 (run Cfg.plainFirst twoTypes 3 [(0, false)] Cache.none) 1 true).1 = false ∧
    allOmB true 3 (getTop Cfg.plainFirst twoTypes 3 Cache.none 1 true).1 = true := by
  decide +kernel

end OjgVerif.C15
