import OjgVerif.Reflect.EncCache
/-! # C15 — the plan caches: history independence (model `Reflect/EncCache.lean`)

* `cache_wiring`: over the traces REGENERATED from `oj/sinfo.go`, `sen/sinfo.go`, `alt/sinfo.go`
  (`tools/extract/reflect_enc.go`): with `omitEmpty = b`, `getTypeStruct` and `getSinfo` consult
  exactly the map of flag `b` and nothing else, build on a miss with the same flag (`getSinfo` with
  `embedded = false`), and `buildStruct` stores into the map of flag `b`; sen's traces are oj's;
* `cache_cfg_current`: the protocols read from those traces are well keyed;
* `cache_history_independent`: for EVERY well-keyed protocol, type graph, fuel and HISTORY of encoder
  lookups, the plan tree a lookup `(type, OmitEmpty = om)` returns has the flag `om` at every node: every
  nested struct value is written under the caller's `OmitEmpty`, whatever was encoded before;
  `cache_history_independent_current` is the instance for oj, sen and alt as they are;
* `cache_history_independent_full`: for every well-keyed protocol and every ACYCLIC type graph (a rank
  function, ranks bounded by the fuel) the WHOLE plan tree a lookup returns after any history equals, up
  to the `embedded` flags, the plan tree it returns as the very first lookup of the process;
  `cache_history_independent_full_current`: the instance for oj, sen, alt as they are;
* `cache_plain_first_history_dependent`: the hypothesis is needed — under the protocol of seeded
  change C15-m7 (a hit in `structMap` is returned before `structEmptyMap` is consulted) the same lookup
  returns a plan whose nested node has the flag `false` after the history "inner type without
  OmitEmpty", and the all-`true` plan without that history.

What is NOT proved here: that the tree an encoder writes depends on the plan tree only through these
flags (the plan entries themselves are a function of the type and the flag: `planOf` of
`Reflect/Model.lean`; the walker of that model takes the nested plan by this flag), and that the Go
maps behave like association lists keyed by type identity. The cache-order stream of the harness
(`harness/cmd/reflect/c15_cache.go`) checks the statement on the implementation. -/
namespace OjgVerif.C15
open OjgVerif.Reflect.EncCache

/-- the cache selection lines of the three packages, as regenerated from the source -/
theorem cache_wiring :
    Gen.ReflectEnc.ojGetTypeStructOff = ["lookup:structMap", "build:embedded:omitEmpty"] ∧
    Gen.ReflectEnc.ojGetTypeStructOn = ["lookup:structEmptyMap", "build:embedded:omitEmpty"] ∧
    Gen.ReflectEnc.ojGetSinfoOff = ["lookup:structMap", "build:false:omitEmpty"] ∧
    Gen.ReflectEnc.ojGetSinfoOn = ["lookup:structEmptyMap", "build:false:omitEmpty"] ∧
    Gen.ReflectEnc.ojBuildStructOff = ["store:structMap", "return"] ∧
    Gen.ReflectEnc.ojBuildStructOn = ["store:structEmptyMap", "return"] ∧
    Gen.ReflectEnc.senGetTypeStructOff = Gen.ReflectEnc.ojGetTypeStructOff ∧
    Gen.ReflectEnc.senGetTypeStructOn = Gen.ReflectEnc.ojGetTypeStructOn ∧
    Gen.ReflectEnc.senGetSinfoOff = Gen.ReflectEnc.ojGetSinfoOff ∧
    Gen.ReflectEnc.senGetSinfoOn = Gen.ReflectEnc.ojGetSinfoOn ∧
    Gen.ReflectEnc.senBuildStructOff = Gen.ReflectEnc.ojBuildStructOff ∧
    Gen.ReflectEnc.senBuildStructOn = Gen.ReflectEnc.ojBuildStructOn ∧
    Gen.ReflectEnc.altGetSinfoOff = ["lookup:structMap", "build:-:omitEmpty"] ∧
    Gen.ReflectEnc.altGetSinfoOn = ["lookup:structEmptyMap", "build:-:omitEmpty"] ∧
    Gen.ReflectEnc.altBuildStructOff = ["store:structMap", "return"] ∧
    Gen.ReflectEnc.altBuildStructOn = ["store:structEmptyMap", "return"] := by
  decide +kernel

/-- the protocols of oj, sen and alt as they are in the source are well keyed; the protocol of the
seeded change is not -/
theorem cache_cfg_current :
    Cfg.oj.wellKeyed = true ∧ Cfg.sen.wellKeyed = true ∧ Cfg.alt.wellKeyed = true ∧ Cfg.plainFirst.wellKeyed = false := by
  decide +kernel

section
variable {K : Type} [DecidableEq K]

/-- every plan in map `m` has flag `m` throughout -/
def CacheInv (c : Cache K) : Prop := ∀ m k p, c.get m k = some p → AllOm m p

theorem cacheInv_none : CacheInv (Cache.none : Cache K) := by
  intro m k p h
  cases m <;> simp [Cache.get, Cache.none, assoc] at h

theorem assoc_cons (k k' : K) (p : Plan K) (l : List (K × Plan K)) :
    assoc k ((k', p) :: l) = if k' = k then some p else assoc k l := rfl

theorem cacheInv_put {c : Cache K} (hc : CacheInv c) (m : Bool) (k : K) (p : Plan K) (hp : AllOm m p) :
    CacheInv (c.put m k p) := by
  intro m' k' p' h
  cases m <;> cases m' <;> simp [Cache.put, Cache.get, assoc_cons] at h
  · by_cases hk : k = k'
    · simp [hk] at h; subst h; exact hp
    · simp [hk] at h; exact hc false k' p' (by simpa [Cache.get] using h)
  · exact hc true k' p' (by simpa [Cache.get] using h)
  · exact hc false k' p' (by simpa [Cache.get] using h)
  · by_cases hk : k = k'
    · simp [hk] at h; subst h; exact hp
    · simp [hk] at h; exact hc true k' p' (by simpa [Cache.get] using h)

theorem firstHit_sound {c : Cache K} (hc : CacheInv c) (k : K) (om : Bool) :
    ∀ (lk : List Bool), (∀ m, m ∈ lk → m = om) → ∀ p, firstHit c k lk = some p → AllOm om p
  | [], _, p, h => by simp [firstHit] at h
  | m :: ms, hl, p, h => by
    unfold firstHit at h
    cases hg : c.get m k with
    | some q =>
      rw [hg] at h
      simp at h
      subst h
      have : m = om := hl m (by simp)
      subst this
      exact hc m k q hg
    | none =>
      rw [hg] at h
      exact firstHit_sound hc k om ms (fun m' hm' => hl m' (by simp [hm'])) p h

/-- a lookup function that keeps the invariant and returns all-`om` plans -/
def GoodGet (om : Bool) (get : Cache K → K → Bool → Plan K × Cache K) : Prop :=
  ∀ c k emb, CacheInv c → AllOm om (get c k emb).1 ∧ CacheInv (get c k emb).2

theorem buildKids_good {om : Bool} {get : Cache K → K → Bool → Plan K × Cache K} (hg : GoodGet om get) :
    ∀ (ks : List (K × Bool)) (c : Cache K), CacheInv c →
      (∀ p, p ∈ (buildKids get c ks).1 → AllOm om p) ∧ CacheInv (buildKids get c ks).2
  | [], c, hc => by simp [buildKids, hc]
  | ke :: r, c, hc => by
    have h1 := hg c ke.1 ke.2 hc
    have h2 := buildKids_good hg r (get c ke.1 ke.2).2 h1.2
    constructor
    · intro p hp
      simp only [buildKids, List.mem_cons] at hp
      rcases hp with hp | hp
      · subst hp; exact h1.1
      · exact h2.1 p hp
    · simpa [buildKids] using h2.2

theorem wellKeyed_spec {cfg : Cfg} (h : cfg.wellKeyed = true) (om : Bool) :
    (∀ m, m ∈ cfg.nestLookups om → m = om) ∧ (∀ m, m ∈ cfg.topLookups om → m = om) ∧ cfg.store om = om := by
  unfold Cfg.wellKeyed at h
  simp only [List.all_cons, List.all_nil, Bool.and_true, Bool.and_eq_true, List.all_eq_true, beq_iff_eq] at h
  cases om
  · exact ⟨h.1.1.1, h.1.1.2, h.1.2⟩
  · exact ⟨h.2.1.1, h.2.1.2, h.2.2⟩

theorem getNested_good {cfg : Cfg} (h : cfg.wellKeyed = true) (env : Env K) (om : Bool) :
    ∀ fuel, GoodGet om (getNested cfg env fuel om)
  | 0 => by
    intro c k emb hc
    exact ⟨AllOm.mk k emb [] (by simp), hc⟩
  | f + 1 => by
    intro c k emb hc
    have hw := wellKeyed_spec h om
    unfold getNested
    cases hf : firstHit c k (cfg.nestLookups om) with
    | some p => exact ⟨firstHit_sound hc k om _ hw.1 p hf, hc⟩
    | none =>
      have hk := buildKids_good (getNested_good h env om f) (env.kids k) c hc
      have hp : AllOm om (Plan.mk k om emb (buildKids (getNested cfg env f om) c (env.kids k)).1) :=
        AllOm.mk k emb _ hk.1
      refine ⟨hp, ?_⟩
      simp only [hw.2.2]
      exact cacheInv_put hk.2 om k _ hp

theorem getTop_good {cfg : Cfg} (h : cfg.wellKeyed = true) (env : Env K) (fuel : Nat) (c : Cache K) (hc : CacheInv c)
    (k : K) (om : Bool) : AllOm om (getTop cfg env fuel c k om).1 ∧ CacheInv (getTop cfg env fuel c k om).2 := by
  have hw := wellKeyed_spec h om
  unfold getTop
  cases hf : firstHit c k (cfg.topLookups om) with
  | some p => exact ⟨firstHit_sound hc k om _ hw.2.1 p hf, hc⟩
  | none =>
    have hk := buildKids_good (getNested_good h env om fuel) (env.kids k) c hc
    have hp : AllOm om (Plan.mk k om false (buildKids (getNested cfg env fuel om) c (env.kids k)).1) :=
      AllOm.mk k false _ hk.1
    refine ⟨hp, ?_⟩
    simp only [hw.2.2]
    exact cacheInv_put hk.2 om k _ hp

theorem run_inv {cfg : Cfg} (h : cfg.wellKeyed = true) (env : Env K) (fuel : Nat) :
    ∀ (hist : List (K × Bool)) (c : Cache K), CacheInv c → CacheInv (run cfg env fuel hist c)
  | [], c, hc => by simpa [run] using hc
  | ko :: r, c, hc => by
    simp only [run]
    exact run_inv h env fuel r _ (getTop_good h env fuel c hc ko.1 ko.2).2

/-- HISTORY INDEPENDENCE of the omit selection. For every well-keyed cache protocol, every type graph,
fuel, and every history of encoder lookups `(type, OmitEmpty)` made before in the process, the plan
tree the lookup `(k, om)` returns carries the flag `om` at every node: the value of `k` and every
struct value nested in it is written under the caller's `OmitEmpty`. -/
theorem cache_history_independent {cfg : Cfg} (h : cfg.wellKeyed = true) (env : Env K) (fuel : Nat)
    (hist : List (K × Bool)) (k : K) (om : Bool) :
    AllOm om (getTop cfg env fuel (run cfg env fuel hist Cache.none) k om).1 :=
  (getTop_good h env fuel _ (run_inv h env fuel hist _ cacheInv_none) k om).1

/-- … and so for the protocols read from the source of oj, sen and alt as they are -/
theorem cache_history_independent_current (env : Env K) (fuel : Nat) (hist : List (K × Bool)) (k : K) (om : Bool) :
    AllOm om (getTop Cfg.oj env fuel (run Cfg.oj env fuel hist Cache.none) k om).1 ∧
    AllOm om (getTop Cfg.sen env fuel (run Cfg.sen env fuel hist Cache.none) k om).1 ∧
    AllOm om (getTop Cfg.alt env fuel (run Cfg.alt env fuel hist Cache.none) k om).1 :=
  ⟨cache_history_independent cache_cfg_current.1 env fuel hist k om,
   cache_history_independent cache_cfg_current.2.1 env fuel hist k om,
   cache_history_independent cache_cfg_current.2.2.1 env fuel hist k om⟩

end

/-- two struct types: 1 (`Mid`) has a field of struct type 0 (`In`) -/
def twoTypes : Env Nat := ⟨fun k => if k = 1 then [(0, true)] else []⟩

/-- the hypothesis of `cache_history_independent` is satisfiable and not vacuous: a well-keyed
protocol, a history, and the plan it returns -/
example : Cfg.oj.wellKeyed = true ∧
    allOmB true 3 (getTop Cfg.oj twoTypes 3 (run Cfg.oj twoTypes 3 [(0, false), (1, false)] Cache.none) 1 true).1 = true := by
  decide +kernel

/-- The seeded protocol is history dependent: after `In` was encoded without `OmitEmpty`, the plan
of `Mid` under `OmitEmpty` holds the plain plan of `In` (flag `false`); as a first call it is all-`true`. -/
theorem cache_plain_first_history_dependent :
    allOmB true 3 (getTop Cfg.plainFirst twoTypes 3 (run Cfg.plainFirst twoTypes 3 [(0, false)] Cache.none) 1 true).1 = false ∧
    allOmB true 3 (getTop Cfg.plainFirst twoTypes 3 Cache.none 1 true).1 = true := by
  decide +kernel

/-! ## the whole plan tree, up to the embedded flags -/

mutual
  /-- forget the `embedded` flags (they select offset- or index-based access to the same field) -/
  def eraseEmb {K : Type} : Plan K → Plan K
    | .mk k om _ ps => .mk k om false (eraseEmbList ps)
  def eraseEmbList {K : Type} : List (Plan K) → List (Plan K)
    | [] => []
    | p :: r => eraseEmb p :: eraseEmbList r
end

section
variable {K : Type}

/-- the plan tree of `k` under flag `om` as a function of the type graph alone -/
def ideal (env : Env K) : Nat → Bool → K → Plan K
  | 0, om, k => .mk k om false []
  | f + 1, om, k => .mk k om false ((env.kids k).map fun ke => ideal env f om ke.1)

/-- the type graph is acyclic: a carried struct type has a smaller rank -/
def Ranked (env : Env K) (rank : K → Nat) : Prop := ∀ k ke, ke ∈ env.kids k → rank ke.1 < rank k

theorem ideal_stable {env : Env K} {rank : K → Nat} (hr : Ranked env rank) (om : Bool) :
    ∀ (f f' : Nat) (k : K), rank k < f → rank k < f' → ideal env f om k = ideal env f' om k := by
  intro f
  induction f with
  | zero => intro f' k h; exact absurd h (Nat.not_lt_zero _)
  | succ n ih =>
    intro f' k h h'
    cases f' with
    | zero => exact absurd h' (Nat.not_lt_zero _)
    | succ m =>
      simp only [ideal]
      congr 1
      apply List.map_congr_left
      intro ke hke
      have := hr k ke hke
      exact ih m ke.1 (by omega) (by omega)

def idealR (env : Env K) (rank : K → Nat) (om : Bool) (k : K) : Plan K := ideal env (rank k + 1) om k

theorem idealR_unfold {env : Env K} {rank : K → Nat} (hr : Ranked env rank) (om : Bool) (k : K) :
    idealR env rank om k = .mk k om false ((env.kids k).map fun ke => idealR env rank om ke.1) := by
  show Plan.mk k om false ((env.kids k).map fun ke => ideal env (rank k) om ke.1) = _
  congr 1
  apply List.map_congr_left
  intro ke hke
  have := hr k ke hke
  exact ideal_stable hr om (rank k) (rank ke.1 + 1) ke.1 (by omega) (by omega)

variable [DecidableEq K]

/-- every plan in map `m` under key `k` is, up to the embedded flags, THE plan of `(k, m)` -/
def CacheInvF (env : Env K) (rank : K → Nat) (c : Cache K) : Prop :=
  ∀ m k p, c.get m k = some p → eraseEmb p = idealR env rank m k

theorem cacheInvF_none (env : Env K) (rank : K → Nat) : CacheInvF env rank (Cache.none : Cache K) := by
  intro m k p h
  cases m <;> simp [Cache.get, Cache.none, assoc] at h

theorem cacheInvF_put {env : Env K} {rank : K → Nat} {c : Cache K} (hc : CacheInvF env rank c) (m : Bool) (k : K) (p : Plan K)
    (hp : eraseEmb p = idealR env rank m k) : CacheInvF env rank (c.put m k p) := by
  intro m' k' p' h
  cases m <;> cases m' <;> simp [Cache.put, Cache.get, assoc_cons] at h
  · by_cases hk : k = k'
    · simp [hk] at h; subst h; subst hk; exact hp
    · simp [hk] at h; exact hc false k' p' (by simpa [Cache.get] using h)
  · exact hc true k' p' (by simpa [Cache.get] using h)
  · exact hc false k' p' (by simpa [Cache.get] using h)
  · by_cases hk : k = k'
    · simp [hk] at h; subst h; subst hk; exact hp
    · simp [hk] at h; exact hc true k' p' (by simpa [Cache.get] using h)

theorem firstHit_full {env : Env K} {rank : K → Nat} {c : Cache K} (hc : CacheInvF env rank c) (k : K) (om : Bool) :
    ∀ (lk : List Bool), (∀ m, m ∈ lk → m = om) → ∀ p, firstHit c k lk = some p → eraseEmb p = idealR env rank om k
  | [], _, p, h => by simp [firstHit] at h
  | m :: ms, hl, p, h => by
    unfold firstHit at h
    cases hg : c.get m k with
    | some q =>
      rw [hg] at h
      simp at h
      subst h
      have : m = om := hl m (by simp)
      subst this
      exact hc m k q hg
    | none =>
      rw [hg] at h
      exact firstHit_full hc k om ms (fun m' hm' => hl m' (by simp [hm'])) p h

theorem buildKids_full {env : Env K} {rank : K → Nat} {om : Bool} {n : Nat}
    {get : Cache K → K → Bool → Plan K × Cache K}
    (hg : ∀ c k emb, rank k < n → CacheInvF env rank c →
      eraseEmb (get c k emb).1 = idealR env rank om k ∧ CacheInvF env rank (get c k emb).2) :
    ∀ (ks : List (K × Bool)) (c : Cache K), (∀ ke, ke ∈ ks → rank ke.1 < n) → CacheInvF env rank c →
      eraseEmbList (buildKids get c ks).1 = ks.map (fun ke => idealR env rank om ke.1) ∧
        CacheInvF env rank (buildKids get c ks).2
  | [], c, _, hc => by simp [buildKids, eraseEmbList, hc]
  | ke :: r, c, hk, hc => by
    have h1 := hg c ke.1 ke.2 (hk ke (by simp)) hc
    have h2 := buildKids_full hg r (get c ke.1 ke.2).2 (fun x hx => hk x (by simp [hx])) h1.2
    constructor
    · simp only [buildKids, eraseEmbList, List.map_cons, h1.1, h2.1]
    · simpa [buildKids] using h2.2

theorem getNested_full {cfg : Cfg} (h : cfg.wellKeyed = true) {env : Env K} {rank : K → Nat} (hr : Ranked env rank) (om : Bool) :
    ∀ (fuel : Nat) (c : Cache K) (k : K) (emb : Bool), rank k < fuel → CacheInvF env rank c →
      eraseEmb (getNested cfg env fuel om c k emb).1 = idealR env rank om k ∧
        CacheInvF env rank (getNested cfg env fuel om c k emb).2
  | 0, _, k, _, hk, _ => absurd hk (Nat.not_lt_zero _)
  | f + 1, c, k, emb, hk, hc => by
    have hw := wellKeyed_spec h om
    unfold getNested
    cases hf : firstHit c k (cfg.nestLookups om) with
    | some p => exact ⟨firstHit_full hc k om _ hw.1 p hf, hc⟩
    | none =>
      have hkids := buildKids_full (env := env) (rank := rank) (om := om) (n := f)
        (fun c k emb hk hc => getNested_full h hr om f c k emb hk hc) (env.kids k) c
        (fun ke hke => by have := hr k ke hke; omega) hc
      have hp : eraseEmb (Plan.mk k om emb (buildKids (getNested cfg env f om) c (env.kids k)).1) = idealR env rank om k := by
        rw [idealR_unfold hr om k]
        simp only [eraseEmb, hkids.1]
      refine ⟨hp, ?_⟩
      simp only [hw.2.2]
      exact cacheInvF_put hkids.2 om k _ hp

theorem getTop_full {cfg : Cfg} (h : cfg.wellKeyed = true) {env : Env K} {rank : K → Nat} (hr : Ranked env rank)
    (fuel : Nat) (c : Cache K) (hc : CacheInvF env rank c) (k : K) (hk : rank k ≤ fuel) (om : Bool) :
    eraseEmb (getTop cfg env fuel c k om).1 = idealR env rank om k ∧ CacheInvF env rank (getTop cfg env fuel c k om).2 := by
  have hw := wellKeyed_spec h om
  unfold getTop
  cases hf : firstHit c k (cfg.topLookups om) with
  | some p => exact ⟨firstHit_full hc k om _ hw.2.1 p hf, hc⟩
  | none =>
    have hkids := buildKids_full (env := env) (rank := rank) (om := om) (n := fuel)
      (fun c k emb hk hc => getNested_full h hr om fuel c k emb hk hc) (env.kids k) c
      (fun ke hke => by have := hr k ke hke; omega) hc
    have hp : eraseEmb (Plan.mk k om false (buildKids (getNested cfg env fuel om) c (env.kids k)).1) = idealR env rank om k := by
      rw [idealR_unfold hr om k]
      simp only [eraseEmb, hkids.1]
    refine ⟨hp, ?_⟩
    simp only [hw.2.2]
    exact cacheInvF_put hkids.2 om k _ hp

theorem run_invF {cfg : Cfg} (h : cfg.wellKeyed = true) {env : Env K} {rank : K → Nat} (hr : Ranked env rank)
    (fuel : Nat) (hb : ∀ k, rank k ≤ fuel) :
    ∀ (hist : List (K × Bool)) (c : Cache K), CacheInvF env rank c → CacheInvF env rank (run cfg env fuel hist c)
  | [], c, hc => by simpa [run] using hc
  | ko :: r, c, hc => by
    simp only [run]
    exact run_invF h hr fuel hb r _ (getTop_full h hr fuel c hc ko.1 (hb _) ko.2).2

/-- HISTORY INDEPENDENCE, whole plan: for every well-keyed protocol and every acyclic type graph
(ranks bounded by the fuel), the plan tree the lookup `(k, om)` returns after ANY history of earlier
lookups is — up to the embedded flags — the plan tree it returns as the very first lookup of the
process: a function of the type and the flag alone. -/
theorem cache_history_independent_full {cfg : Cfg} (h : cfg.wellKeyed = true) {env : Env K} {rank : K → Nat}
    (hr : Ranked env rank) (fuel : Nat) (hb : ∀ k, rank k ≤ fuel) (hist : List (K × Bool)) (k : K) (om : Bool) :
    eraseEmb (getTop cfg env fuel (run cfg env fuel hist Cache.none) k om).1 =
      eraseEmb (getTop cfg env fuel Cache.none k om).1 := by
  rw [(getTop_full h hr fuel _ (run_invF h hr fuel hb hist _ (cacheInvF_none env rank)) k (hb k) om).1,
    (getTop_full h hr fuel _ (cacheInvF_none env rank) k (hb k) om).1]

end

/-- … and so for oj, sen and alt as they are -/
theorem cache_history_independent_full_current {K : Type} [DecidableEq K] {env : Env K} {rank : K → Nat}
    (hr : Ranked env rank) (fuel : Nat) (hb : ∀ k, rank k ≤ fuel) (hist : List (K × Bool)) (k : K) (om : Bool) :
    (eraseEmb (getTop Cfg.oj env fuel (run Cfg.oj env fuel hist Cache.none) k om).1 =
      eraseEmb (getTop Cfg.oj env fuel Cache.none k om).1) ∧
    (eraseEmb (getTop Cfg.sen env fuel (run Cfg.sen env fuel hist Cache.none) k om).1 =
      eraseEmb (getTop Cfg.sen env fuel Cache.none k om).1) ∧
    (eraseEmb (getTop Cfg.alt env fuel (run Cfg.alt env fuel hist Cache.none) k om).1 =
      eraseEmb (getTop Cfg.alt env fuel Cache.none k om).1) :=
  ⟨cache_history_independent_full cache_cfg_current.1 hr fuel hb hist k om,
   cache_history_independent_full cache_cfg_current.2.1 hr fuel hb hist k om,
   cache_history_independent_full cache_cfg_current.2.2.1 hr fuel hb hist k om⟩

/-- the hypotheses are satisfiable: the two-type graph is ranked, with ranks bounded by 1 -/
example : Ranked twoTypes (fun k => if k = 1 then 1 else 0) ∧ ∀ k : Nat, (fun k => if k = 1 then 1 else 0) k ≤ 1 := by
  constructor
  · intro k ke hke
    by_cases h : k = 1
    · subst h
      simp [twoTypes] at hke
      subst hke
      simp
    · simp [twoTypes, h] at hke
  · intro k
    by_cases h : k = 1 <;> simp [h]

end OjgVerif.C15
