import OjgVerif.Json.Lemmas
/-! # C01 — strict JSON front-ends accept exactly the RFC 8259 language

Re-checked on every run against the regenerated tables (`Gen.Oj`, `Gen.GenPkg`). -/
namespace OjgVerif.C01
open OjgVerif OjgVerif.Json

theorem mode_mem_all (m : Mode) : m ∈ Mode.all := by
  cases m <;> decide

/-- a row-wise comparison of a table with a function gives every cell (linear, so that the kernel
can evaluate a whole table set in a second or two) -/
theorem getD_of_rows {α β : Type} (a : Array α) (f : α → β) (g : Nat → β) (d : α)
    (h : (a.toList.take 256).map f = (List.range 256).map g) (i : Nat) (hi : i < 256) :
    f (a.getD i d) = g i := by
  have h1 : ((a.toList.take 256).map f)[i]? = ((List.range 256).map g)[i]? := by rw [h]
  simp only [List.getElem?_map, List.getElem?_take, hi, ↓reduceIte, List.getElem?_range, Option.map_some] at h1
  cases hx : a.toList[i]? with
  | none => rw [hx] at h1; simp at h1
  | some x =>
    rw [hx] at h1
    simp only [Option.map_some, Option.some.injEq] at h1
    have : a[i]? = some x := by simpa using hx
    have hlt : i < a.size := by
      rcases Nat.lt_or_ge i a.size with h | h
      · exact h
      · rw [Array.getElem?_eq_none h] at this; cases this
    rw [Array.getD, dif_pos hlt]
    rw [Array.getElem?_eq_getElem hlt] at this
    cases this
    exact h1

/-- all 21 × 256 cells decode to the reference transition -/
def cellsOK (c : Codes) (tbl : Mode → Array UInt8) : Bool :=
  Mode.all.all fun m =>
    ((tbl m).toList.take 256).map c.decode == (List.range 256).map fun i => expected m (UInt8.ofNat i)

/-- the end markers are the reference ones (the comma table's marker only has to be harmless) -/
def finsOK (tbl : Mode → Array UInt8) : Bool :=
  (Mode.all.all fun m => m == .comma || decodeFin (tbl m) == expectedFin m) &&
    decodeFin (tbl .comma) != .a && decodeFin (tbl .comma) != .n && decodeFin (tbl .comma) != .v

/-- the eight bytes the reference sends to `escOk` -/
def escBytes : List UInt8 := [34, 47, 92, 98, 102, 110, 114, 116]

theorem escOk_mem (b : UInt8) (h : expected .esc b = .escOk) : b ∈ escBytes := by
  simp only [expected] at h
  split at h
  · rename_i hc
    simp only [Bool.or_eq_true, decide_eq_true_eq] at hc
    simp only [escBytes, List.mem_cons, List.not_mem_nil, or_false]
    rcases hc with ((((((h | h) | h) | h) | h) | h) | h) | h <;> simp [h]
  · exfalso
    split at h <;> cases h

/-- the unescape table is right wherever the escape table sends the machine to it -/
def escOK (esc : Array UInt8) : Bool :=
  escBytes.all fun b => esc.getD b.toNat 0 == unesc b

theorem tablesOK_of_checks (c : Codes) (tbl : Mode → Array UInt8) (esc : Array UInt8)
    (h1 : cellsOK c tbl = true) (h2 : finsOK tbl = true) (h3 : escOK esc = true) :
    TablesOK (mkTables c tbl esc) where
  act := by
    intro m b
    simp only [cellsOK, List.all_eq_true, beq_iff_eq] at h1
    have := getD_of_rows (tbl m) c.decode (fun i => expected m (UInt8.ofNat i)) 0 (h1 m (mode_mem_all m)) b.toNat b.toNat_lt
    simpa [mkTables] using this
  fin := by
    intro m hne
    simp only [finsOK, Bool.and_eq_true, List.all_eq_true, Bool.or_eq_true, beq_iff_eq] at h2
    rcases h2.1.1.1 m (mode_mem_all m) with h | h
    · exact absurd h hne
    · simpa [mkTables] using h
  finComma := by
    simp only [finsOK, Bool.and_eq_true, bne_iff_ne, ne_eq] at h2
    exact ⟨h2.1.1.2, h2.1.2, h2.2⟩
  esc := by
    intro b hb
    simp only [escOK, List.all_eq_true, beq_iff_eq] at h3
    simpa [mkTables] using h3 b (escOk_mem b hb)

/-- every cell of the 21 regenerated `oj` mode tables is the reference transition -/
theorem ojTables_ok : TablesOK ojTables :=
  tablesOK_of_checks ojCodes ojTbl _ (by decide +kernel) (by decide +kernel) (by decide +kernel)

/-- every cell of the 21 regenerated `gen` mode tables is the reference transition -/
theorem genTables_ok : TablesOK genTables :=
  tablesOK_of_checks genCodes genTbl _ (by decide +kernel) (by decide +kernel) (by decide +kernel)

end OjgVerif.C01

namespace OjgVerif.C01
open OjgVerif OjgVerif.Json

/-- oj.Parser / oj.Validator / oj.Tokenizer over the regenerated `oj` tables behave exactly like the
reference automaton: same documents, values and error line/column/kind, for every configuration
(single/multi document, reader or `[]byte` entry, integer fast loop) and every chunking. -/
theorem oj_is_reference (cfg : Cfg) (chunks : List Bytes) :
    run ojTables cfg chunks = run refTables cfg chunks :=
  run_eq_ref ojTables_ok cfg chunks

/-- the same for gen.Parser over the regenerated `gen` tables -/
theorem gen_is_reference (cfg : Cfg) (chunks : List Bytes) :
    run genTables cfg chunks = run refTables cfg chunks :=
  run_eq_ref genTables_ok cfg chunks

/-- consequently the two packages' machines agree with each other on every input -/
theorem oj_eq_gen (cfg : Cfg) (chunks : List Bytes) :
    run ojTables cfg chunks = run genTables cfg chunks := by
  rw [oj_is_reference, gen_is_reference]

end OjgVerif.C01
