import OjgVerif.Gen.SenWriterFacts
import OjgVerif.Sen.WriterIndent
/-! # C10 — the source text the writer model was written against (checked tie to sen/writer.go)

`tools/extract/sen.go` prints, from the CURRENT sen/writer.go, the statement that selects the append functions in
`MustSEN` / `MustWrite`, the bodies of the three indented and the three tight append functions (sen/tight.go) and the scalar cases of `appendSEN`
(`Gen.SenWriterFacts`, regenerated on every run). The theorems below compare them, line by line, with the text the
model (`Sen.tightVal`, `Sen.tightElems`, `Sen.tightMembers`, Sen/Writer.lean; `Sen.indentSep`, `Sen.indentVal`, `Sen.indentElems`, `Sen.indentMembers`, `Sen.senWrite`, Sen/WriterIndent.lean)
was written against: any edit of these functions — a changed clamp, separator, bracket, depth, member filter,
dispatch condition — breaks one of them, whether or not the correspondence run finds an input for it. The constants
`spaces` / `tabs` themselves are `Gen.Sen.spaces` / `Gen.Sen.tabs` (`Sen.spaces_shape`, `Sen.tabs_shape`, Props/C10Indent.lean).
(A harmless reformulation of the Go text breaks them too: then the model has to be re-read against the new text;
`python3 /verif/harness/cmd/sen/regen_c10facts.py` takes the regenerated text over as the expected one.) -/
namespace OjgVerif.Sen
open OjgVerif

/-- **which append functions the options select** (`sen.String`, `sen.Bytes`: `MustSEN`): Color off; the indented
functions iff `wr.Tab || 0 < wr.Indent` (model: `Sen.usesIndented`, `Sen.senWrite`), `appendSortObject` /
`tightSortObject` iff `wr.Sort` (model: the members are written in the order given), then `wr.appendSEN(data, 0)`
(model: depth 0) -/
theorem mustSEN_dispatch_src : Gen.SenWriterFacts.mustSENDispatch =
    [
    "if wr.Color {", "wr.colorSEN(data, 0)", "} else {", "wr.appendString = ojg.AppendSENString",
    "if wr.Tab || 0 < wr.Indent {", "wr.appendArray = appendArray", "if wr.Sort {",
    "wr.appendObject = appendSortObject", "} else {", "wr.appendObject = appendObject", "}",
    "wr.appendDefault = appendDefault", "} else {", "wr.appendArray = tightArray", "if wr.Sort {",
    "wr.appendObject = tightSortObject", "} else {", "wr.appendObject = tightObject", "}",
    "wr.appendDefault = tightDefault", "}", "wr.appendSEN(data, 0)", "}"] := by
  decide +kernel

/-- the same statement in `MustWrite` (`sen.Write`) -/
theorem mustWrite_dispatch_src : Gen.SenWriterFacts.mustWriteDispatch =
    [
    "if wr.Color {", "wr.colorSEN(data, 0)", "} else {", "wr.appendString = ojg.AppendSENString",
    "if wr.Tab || 0 < wr.Indent {", "wr.appendArray = appendArray", "if wr.Sort {",
    "wr.appendObject = appendSortObject", "} else {", "wr.appendObject = appendObject", "}",
    "wr.appendDefault = appendDefault", "} else {", "wr.appendArray = tightArray", "if wr.Sort {",
    "wr.appendObject = tightSortObject", "} else {", "wr.appendObject = tightObject", "}",
    "wr.appendDefault = tightDefault", "}", "wr.appendSEN(data, 0)", "}"] := by
  decide +kernel

/-- **`appendArray`**: `is` / `cs` are `tabs[0:min(len(tabs), depth+1)]` / `tabs[0:min(len(tabs), depth+2)]` with Tab, else
`spaces[0:min(len(spaces), depth*Indent+1)]` / `spaces[0:min(len(spaces), (depth+1)*Indent+1)]` (model: `Sen.indentSep`);
a non-empty array is `[`, then `cs` and the element (at depth+1) for every element, then `is`, `]`; the empty one is
`[]` (model: `Sen.indentVal` / `Sen.indentElems`) -/
theorem appendArray_src : Gen.SenWriterFacts.appendArraySrc =
    [
    "{", "var is string", "var cs string", "d2 := depth + 1", "if wr.Tab {", "x := depth + 1", "if len(tabs) < x {",
    "x = len(tabs)", "}", "is = tabs[0:x]", "x = d2 + 1", "if len(tabs) < x {", "x = len(tabs)", "}",
    "cs = tabs[0:x]", "} else {", "x := depth*wr.Indent + 1", "if len(spaces) < x {", "x = len(spaces)", "}",
    "is = spaces[0:x]", "x = d2*wr.Indent + 1", "if len(spaces) < x {", "x = len(spaces)", "}", "cs = spaces[0:x]",
    "}", "if 0 < len(n) {", "wr.buf = append(wr.buf, '[')", "for _, m := range n {",
    "wr.buf = append(wr.buf, cs...)", "wr.appendSEN(m, d2)", "}", "wr.buf = append(wr.buf, is...)",
    "wr.buf = append(wr.buf, ']')", "} else {", "wr.buf = append(wr.buf, \"[]\"...)", "}", "}"] := by
  decide +kernel

/-- **`appendObject`**: the same `is` / `cs`; `{`, then for every member that is not passed over (nil with OmitNil; an empty
string, map or slice with OmitEmpty — model: `Sen.omitted`) `cs`, the member name, `": "`, the value (at depth+1), then
`is`, `}` — also when no member was written (model: `Sen.indentMembers`) -/
theorem appendObject_src : Gen.SenWriterFacts.appendObjectSrc =
    [
    "{", "d2 := depth + 1", "var is string", "var cs string", "if wr.Tab {", "x := depth + 1", "if len(tabs) < x {",
    "x = len(tabs)", "}", "is = tabs[0:x]", "x = d2 + 1", "if len(tabs) < x {", "x = len(tabs)", "}",
    "cs = tabs[0:x]", "} else {", "x := depth*wr.Indent + 1", "if len(spaces) < x {", "x = len(spaces)", "}",
    "is = spaces[0:x]", "x = d2*wr.Indent + 1", "if len(spaces) < x {", "x = len(spaces)", "}", "cs = spaces[0:x]",
    "}", "wr.buf = append(wr.buf, '{')", "for k, m := range n {", "switch tm := m.(type) {", "case nil:",
    "if wr.OmitNil {", "continue", "}", "case string:", "if wr.OmitEmpty && len(tm) == 0 {", "continue", "}",
    "case map[string]any:", "if wr.OmitEmpty && len(tm) == 0 {", "continue", "}", "case []any:",
    "if wr.OmitEmpty && len(tm) == 0 {", "continue", "}", "}", "wr.buf = append(wr.buf, cs...)",
    "wr.buf = wr.appendString(wr.buf, k, !wr.HTMLUnsafe)", "wr.buf = append(wr.buf, \": \"...)",
    "wr.appendSEN(m, d2)", "}", "wr.buf = append(wr.buf, is...)", "wr.buf = append(wr.buf, '}')", "}"] := by
  decide +kernel

/-- **`appendSortObject`**: `appendObject` over the sorted keys -/
theorem appendSortObject_src : Gen.SenWriterFacts.appendSortObjectSrc =
    [
    "{", "d2 := depth + 1", "var is string", "var cs string", "if wr.Tab {", "x := depth + 1", "if len(tabs) < x {",
    "x = len(tabs)", "}", "is = tabs[0:x]", "x = d2 + 1", "if len(tabs) < x {", "x = len(tabs)", "}",
    "cs = tabs[0:x]", "} else {", "x := depth*wr.Indent + 1", "if len(spaces) < x {", "x = len(spaces)", "}",
    "is = spaces[0:x]", "x = d2*wr.Indent + 1", "if len(spaces) < x {", "x = len(spaces)", "}", "cs = spaces[0:x]",
    "}", "keys := make([]string, 0, len(n))", "for k := range n {", "keys = append(keys, k)", "}",
    "sort.Strings(keys)", "wr.buf = append(wr.buf, '{')", "for _, k := range keys {", "m := n[k]",
    "switch tm := m.(type) {", "case nil:", "if wr.OmitNil {", "continue", "}", "case string:",
    "if wr.OmitEmpty && len(tm) == 0 {", "continue", "}", "case map[string]any:",
    "if wr.OmitEmpty && len(tm) == 0 {", "continue", "}", "case []any:", "if wr.OmitEmpty && len(tm) == 0 {",
    "continue", "}", "}", "wr.buf = append(wr.buf, cs...)", "wr.buf = wr.appendString(wr.buf, k, !wr.HTMLUnsafe)",
    "wr.buf = append(wr.buf, \": \"...)", "wr.appendSEN(m, d2)", "}", "wr.buf = append(wr.buf, is...)",
    "wr.buf = append(wr.buf, '}')", "}"] := by
  decide +kernel

/-- **`tightArray`** (sen/tight.go): `[`, every element (depth 0) followed by one blank when it was a scalar (`wr.needSep`),
the last blank overwritten by `]` (else `]` appended); the empty array is `[]` (model: `Sen.tightVal` / `Sen.tightElems`) -/
theorem tightArray_src : Gen.SenWriterFacts.tightArraySrc =
    [
    "{", "if 0 < len(n) {", "space := false", "wr.buf = append(wr.buf, '[')", "for _, m := range n {",
    "wr.appendSEN(m, 0)", "if wr.needSep {", "wr.buf = append(wr.buf, ' ')", "space = true", "} else {",
    "space = false", "}", "}", "if space {", "wr.buf[len(wr.buf)-1] = ']'", "} else {",
    "wr.buf = append(wr.buf, ']')", "}", "} else {", "wr.buf = append(wr.buf, \"[]\"...)", "}", "}"] := by
  decide +kernel

/-- **`tightObject`**: `{`, for every member that is not passed over (the same filter as in `appendObject`: `Sen.omitted`)
the name, `:`, the value and one blank, the last blank overwritten by `}` (model: `Sen.tightMembers`) -/
theorem tightObject_src : Gen.SenWriterFacts.tightObjectSrc =
    [
    "{", "comma := false", "wr.buf = append(wr.buf, '{')", "for k, m := range n {", "switch tm := m.(type) {",
    "case nil:", "if wr.OmitNil {", "continue", "}", "case string:", "if wr.OmitEmpty && len(tm) == 0 {",
    "continue", "}", "case map[string]any:", "if wr.OmitEmpty && len(tm) == 0 {", "continue", "}", "case []any:",
    "if wr.OmitEmpty && len(tm) == 0 {", "continue", "}", "}",
    "wr.buf = ojg.AppendSENString(wr.buf, k, !wr.HTMLUnsafe)", "wr.buf = append(wr.buf, ':')", "wr.appendSEN(m, 0)",
    "wr.buf = append(wr.buf, ' ')", "comma = true", "}", "if comma {", "wr.buf[len(wr.buf)-1] = '}'", "} else {",
    "wr.buf = append(wr.buf, '}')", "}", "}"] := by
  decide +kernel

/-- **`tightSortObject`**: `tightObject` over the sorted keys -/
theorem tightSortObject_src : Gen.SenWriterFacts.tightSortObjectSrc =
    [
    "{", "comma := false", "wr.buf = append(wr.buf, '{')", "keys := make([]string, 0, len(n))",
    "for k := range n {", "keys = append(keys, k)", "}", "sort.Strings(keys)", "for _, k := range keys {",
    "m := n[k]", "switch tm := m.(type) {", "case nil:", "if wr.OmitNil {", "continue", "}", "case string:",
    "if wr.OmitEmpty && len(tm) == 0 {", "continue", "}", "case map[string]any:",
    "if wr.OmitEmpty && len(tm) == 0 {", "continue", "}", "case []any:", "if wr.OmitEmpty && len(tm) == 0 {",
    "continue", "}", "}", "wr.buf = ojg.AppendSENString(wr.buf, k, !wr.HTMLUnsafe)", "wr.buf = append(wr.buf, ':')",
    "wr.appendSEN(m, 0)", "wr.buf = append(wr.buf, ' ')", "comma = true", "}", "if comma {",
    "wr.buf[len(wr.buf)-1] = '}'", "} else {", "wr.buf = append(wr.buf, '}')", "}", "}"] := by
  decide +kernel

/-- **how `appendSEN` writes the scalars** (both layouts): `null`, `true` / `false`, `strconv.AppendInt(…, 10)`
(`Sen.fmtInt`), `strconv.AppendFloat(…, 'g', -1, 64)` unless FloatFormat is set (the float text is an input of the
model: `JV.flt`), `wr.appendString` = `ojg.AppendSENString` (`Sen.senString`); `[]any` and `map[string]any` go to
`wr.appendArray` / `wr.appendObject` with the SAME depth -/
theorem appendSEN_cases_src : Gen.SenWriterFacts.appendSENCases =
    [
    "nil => wr.buf = append(wr.buf, \"null\"...)",
    "bool => if td { wr.buf = append(wr.buf, \"true\"...) } else { wr.buf = append(wr.buf, \"false\"...) }",
    "int => wr.buf = strconv.AppendInt(wr.buf, int64(td), 10)",
    "int8 => wr.buf = strconv.AppendInt(wr.buf, int64(td), 10)",
    "int16 => wr.buf = strconv.AppendInt(wr.buf, int64(td), 10)",
    "int32 => wr.buf = strconv.AppendInt(wr.buf, int64(td), 10)",
    "int64 => wr.buf = strconv.AppendInt(wr.buf, td, 10)",
    "uint => wr.buf = strconv.AppendUint(wr.buf, uint64(td), 10)",
    "uint8 => wr.buf = strconv.AppendUint(wr.buf, uint64(td), 10)",
    "uint16 => wr.buf = strconv.AppendUint(wr.buf, uint64(td), 10)",
    "uint32 => wr.buf = strconv.AppendUint(wr.buf, uint64(td), 10)",
    "uint64 => wr.buf = strconv.AppendUint(wr.buf, td, 10)",
    "float32 => if 0 < len(wr.FloatFormat) { wr.buf = fmt.Appendf(wr.buf, wr.FloatFormat, float64(td)) } else { wr.buf = strconv.AppendFloat(wr.buf, float64(td), 'g', -1, 32) }",
    "float64 => if 0 < len(wr.FloatFormat) { wr.buf = fmt.Appendf(wr.buf, wr.FloatFormat, td) } else { wr.buf = strconv.AppendFloat(wr.buf, td, 'g', -1, 64) }",
    "string => wr.buf = wr.appendString(wr.buf, td, !wr.HTMLUnsafe)",
    "[]byte => switch wr.BytesAs { case ojg.BytesAsBase64: wr.buf = wr.appendString(wr.buf, base64.StdEncoding.EncodeToString(td), !wr.HTMLUnsafe) case ojg.BytesAsArray: a := make([]any, len(td)) for i, m := range td { a[i] = int64(m) } wr.appendArray(wr, a, depth) default: wr.buf = wr.appendString(wr.buf, string(td), !wr.HTMLUnsafe) }",
    "time.Time => wr.buf = wr.AppendTime(wr.buf, td, true)", "[]any => wr.appendArray(wr, td, depth)",
    "map[string]any => wr.appendObject(wr, td, depth)"] := by
  decide +kernel

/-- the two entry points select the append functions by the same statement -/
theorem dispatch_same : Gen.SenWriterFacts.mustSENDispatch = Gen.SenWriterFacts.mustWriteDispatch := by decide +kernel

/-- the model's dispatch: the indented writer iff `Tab || 0 < Indent` -/
theorem usesIndented_iff (io : IOpts) : usesIndented io = true ↔ (io.tab = true ∨ 0 < io.indent) := by
  simp [usesIndented]

end OjgVerif.Sen
