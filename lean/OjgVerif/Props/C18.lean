import OjgVerif.Conv.LemmasConv
/-! Property C18 — generic and simple forms convert losslessly and copy deeply.

All statements are about the heap model `Conv.conv` (Conv/Model.lean), which is tied to the Go code
by the correspondence run of `harness/cmd/conv`. `denote n H r = some t` is the explicit
finite-depth/acyclicity hypothesis: the root `r` of heap `H` unfolds, within `n` levels, to the value
tree `t` (sharing allowed). `owns n H r = some S ∧ S.Nodup` says in addition that no cell below `r` is
shared (needed for the in-place variants only: on shared cells the Go casts reinterpret memory that
was already rewritten). -/
namespace OjgVerif.C18
open OjgVerif.Conv OjgVerif.Gen.Conv

/-- options that keep nulls (and everything else) -/
def KeepsNulls (opt : Opt) : Prop := opt.omitNil = false ∧ opt.omitEmpty = false

/-- the value denoted by the result of `k1` followed by `k2` -/
def roundTrip (k1 k2 : Kind) (n : Nat) (opt : Opt) (H : Heap) (r : Ref) : Option T :=
  match pipeline n [(k1, opt), (k2, opt)] H r with
  | some (H2, r2) => denote n H2 r2
  | none => none

/-! ## which options flow where (read from the source, `Gen/Conv.lean`) -/

theorem keepInv_generify : KeepInv .generify (fun o => o.omitNil = false) :=
  ⟨fun o h => by simpa [Kind.dropsNil] using h,
   fun o h => by simpa [Kind.arrOpt, generifyArrPassesOpt] using h,
   fun o h => by simpa [Kind.mapOpt, generifyMapPassesOpt] using h⟩

theorem keepInv_simplify : KeepInv .simplify (fun _ => True) :=
  ⟨fun _ _ => rfl, fun _ _ => trivial, fun _ _ => trivial⟩

theorem keepInv_nodeAlter : KeepInv .nodeAlter (fun _ => True) :=
  ⟨fun _ _ => rfl, fun _ _ => trivial, fun _ _ => trivial⟩

theorem keepInv_genDup : KeepInv .genDup (fun _ => True) :=
  ⟨fun _ _ => rfl, fun _ _ => trivial, fun _ _ => trivial⟩

theorem keepInv_decompose : KeepInv .decompose KeepsNulls :=
  ⟨fun o h => by simp [Kind.dropsNil, h.1, h.2], fun _ h => h, fun _ h => h⟩

theorem keepInv_altAlter : KeepInv .altAlter KeepsNulls :=
  ⟨fun o h => by simp [Kind.dropsNil, h.1, h.2], fun _ h => h, fun _ h => h⟩

/-! ## the copy / in-place table against the source -/

/-- For every conversion and both of its container arms, the syntactic classification extracted
from the Go source (does the arm call `make` / use a composite literal, does it cast through
unsafe.Pointer or assign `v[i] = …` into its argument) equals the model's `Kind.inPlace`. A tripwire,
not a semantics: an arm that builds a container and still leaks its argument is for the
mutate-after-copy experiments and the aliasing correspondence of the run to find. -/
theorem inPlace_matches_source : ∀ k : Kind, k.sourceArms.all k.armAgrees = true := by
  intro k; cases k <;> decide

/-- For the four copying methods of gen.Array / gen.Object (`Simplify`, `Dup`) the member loop of the
source stores, for EVERY member kind alike, the result of the dynamically dispatched recursive call
(`m.Dup()`, `m.Simplify()`; nil for nil) — the model's discipline `forEach (conv k n _)`, under which
`fresh_spec` gives every container of the result a cell of its own. A loop that duplicates some
member kinds and stores the others as they are (e.g. `case Object: a[i] = tm.Dup(); default: a[i] = m`,
which shares an Array that is a member of an Array) makes this stop checking. A tripwire over the
shape of the loop, not a semantics of `m.Dup()`: that the dispatch lands in the modelled methods is
for the aliasing correspondence of the run to show. -/
theorem copy_elements_match_source : ∀ k : Kind, k.elemFns.all elemDisciplineAgrees = true := by
  intro k; cases k <;> decide

/-! ## value preservation -/

/-- composition of a first conversion (any kind, described by its result) with a copying one -/
theorem then_copy {k2 : Kind} (hk2 : k2.inPlace = false) {n : Nat} {opt : Opt} {H1 : Heap} {r1 : Ref}
    {t1 : T} (hoe : opt.omitEmpty = false) (hd1 : denote n H1 r1 = some t1)
    (hp : t1.pure k2.src = true) (hkp : t1.keeps k2 opt = true) :
    ∃ H2 r2, conv k2 n opt H1 r1 = some (H2, r2) ∧ denote n H2 r2 = some (t1.toForm k2.dst k2.fillsNil) := by
  obtain ⟨H2, r2, hc, _, hd, _⟩ := copy_spec k2 hk2 n opt H1 r1 t1 hoe hd1 hp hkp
  exact ⟨H2, r2, hc, hd⟩

/-- `Simplify(Generify(v)) = v` -/
theorem generify_simplify (n : Nat) (opt : Opt) (H : Heap) (r : Ref) (t : T) (ho : KeepsNulls opt)
    (hd : denote n H r = some t) (hs : t.JsonLike) :
    roundTrip .generify .simplify n opt H r = some t := by
  obtain ⟨H1, r1, hc1, _, hd1, _⟩ := copy_spec .generify rfl n opt H r t ho.2 hd hs.1
    (keeps_of_inv keepInv_generify t opt ho.1)
  obtain ⟨H2, r2, hc2, hd2⟩ := then_copy (k2 := .simplify) rfl ho.2 hd1
    (pure_toForm .gen .simple _ t hs.1) (keeps_of_inv keepInv_simplify _ opt trivial)
  simp only [roundTrip, pipeline, hc1, hc2]
  rw [hd2]
  simp [Kind.dst, Kind.fillsNil, toForm_toForm]
  rw [toForm_of_pure .simple _ t hs.1 (Or.inr hs.2)]

/-- `Generify(v).Alter() = v` (the fresh generic tree is converted back in place) -/
theorem generify_nodeAlter (n : Nat) (opt : Opt) (H : Heap) (r : Ref) (t : T) (ho : KeepsNulls opt)
    (hd : denote n H r = some t) (hs : t.JsonLike) :
    roundTrip .generify .nodeAlter n opt H r = some t := by
  obtain ⟨H1, r1, hc1, _, hd1, S, hS, hnd, _⟩ := copy_spec .generify rfl n opt H r t ho.2 hd hs.1
    (keeps_of_inv keepInv_generify t opt ho.1)
  obtain ⟨H2, r2, hc2, _, _, hd2, _⟩ := alter_spec .nodeAlter rfl n opt H1 r1 _ S ho.2 hd1 hS hnd
    (pure_toForm .gen .simple _ t hs.1) (keeps_of_inv keepInv_nodeAlter _ opt trivial)
  simp only [roundTrip, pipeline, hc1, hc2]
  rw [hd2]
  simp [Kind.dst, Kind.fillsNil, toForm_toForm]
  rw [toForm_of_pure .simple _ t hs.1 (Or.inr hs.2)]

/-- `alt.Dup(v) = alt.Decompose(v) = v` -/
theorem decompose_value (n : Nat) (opt : Opt) (H : Heap) (r : Ref) (t : T) (ho : KeepsNulls opt)
    (hd : denote n H r = some t) (hs : t.JsonLike) :
    ∃ H' r', conv .decompose n opt H r = some (H', r') ∧ denote n H' r' = some t := by
  obtain ⟨H1, r1, hc1, _, hd1, _⟩ := copy_spec .decompose rfl n opt H r t ho.2 hd hs.1
    (keeps_of_inv keepInv_decompose t opt ho)
  refine ⟨H1, r1, hc1, ?_⟩
  rw [hd1]
  simp only [Kind.dst, Kind.fillsNil]
  rw [toForm_of_pure .simple _ t hs.1 (Or.inr hs.2)]

/-- `Node.Dup` on a generic tree -/
theorem genDup_value (n : Nat) (opt : Opt) (H : Heap) (r : Ref) (t : T) (hoe : opt.omitEmpty = false)
    (hd : denote n H r = some t) (hs : t.pure .gen = true) :
    ∃ H' r', conv .genDup n opt H r = some (H', r') ∧ denote n H' r' = some t := by
  obtain ⟨H1, r1, hc1, _, hd1, _⟩ := copy_spec .genDup rfl n opt H r t hoe hd hs
    (keeps_of_inv keepInv_genDup t opt trivial)
  refine ⟨H1, r1, hc1, ?_⟩
  rw [hd1]
  simp only [Kind.dst, Kind.fillsNil]
  rw [toForm_of_pure .gen _ t hs (Or.inl rfl)]

/-- `alt.Alter(v) = v` on simple data, in place: same cells, same value -/
theorem altAlter_value (n : Nat) (opt : Opt) (H : Heap) (r : Ref) (t : T) (S : List Addr)
    (ho : KeepsNulls opt) (hd : denote n H r = some t) (hS : owns n H r = some S) (hnd : S.Nodup)
    (hs : t.Simple) :
    ∃ H' r', conv .altAlter n opt H r = some (H', r') ∧ denote n H' r' = some t ∧ r'.addr? = r.addr? := by
  obtain ⟨H1, r1, hc1, _, _, hd1, _, had⟩ := alter_spec .altAlter rfl n opt H r t S ho.2 hd hS hnd hs
    (keeps_of_inv keepInv_altAlter t opt ho)
  refine ⟨H1, r1, hc1, ?_, had⟩
  rw [hd1]
  simp only [Kind.dst, Kind.fillsNil]
  rw [toForm_of_pure .simple _ t hs (Or.inl rfl)]

/-! ### GenAlter

`GenAlter` hands its options to the recursive calls as the source says (`Kind.arrOpt`,
`Kind.mapOpt`); `T.keeps .genAlter opt t` follows that flow and says that no member of `t` is left
out. The partial theorems hold for whatever the flow is; whether the full statement holds is decided
by `genAlter_full_status` below. -/

/-- a member of `t` is lost by `GenAlter` under `opt`. With the code as first examined (the slice
clause called `GenAlter(m)` without options and the package default omits nulls) this was: a null
member of an object below a slice. With the code as it is (`GenAlter(m, opt)`, repository commit
"GenAlter passes its options on to the elements of a slice") it never holds for null-keeping options:
`genAlter_full`. -/
def GenAlterLoses (opt : Opt) (t : T) : Prop := t.keeps .genAlter opt = false

/-- `GenAlter(v).Alter() = v` unless `GenAlterLoses` -/
theorem genAlter_nodeAlter_partial (n : Nat) (opt : Opt) (H : Heap) (r : Ref) (t : T) (S : List Addr)
    (ho : KeepsNulls opt) (hd : denote n H r = some t) (hS : owns n H r = some S) (hnd : S.Nodup)
    (hs : t.Simple) (hl : ¬ GenAlterLoses opt t) :
    roundTrip .genAlter .nodeAlter n opt H r = some t := by
  have hk : t.keeps .genAlter opt = true := by
    simp only [GenAlterLoses, Bool.not_eq_false] at hl; exact hl
  obtain ⟨H1, r1, hc1, _, _, hd1, hS1, _⟩ := alter_spec .genAlter rfl n opt H r t S ho.2 hd hS hnd hs hk
  obtain ⟨H2, r2, hc2, _, _, hd2, _⟩ := alter_spec .nodeAlter rfl n opt H1 r1 _ S ho.2 hd1 hS1 hnd
    (pure_toForm .gen .simple _ t hs) (keeps_of_inv keepInv_nodeAlter _ opt trivial)
  simp only [roundTrip, pipeline, hc1, hc2]
  rw [hd2]
  simp [Kind.dst, Kind.fillsNil, toForm_toForm]
  rw [toForm_of_pure .simple _ t hs (Or.inl rfl)]

/-- `Simplify(GenAlter(v)) = v` unless `GenAlterLoses` -/
theorem genAlter_simplify_partial (n : Nat) (opt : Opt) (H : Heap) (r : Ref) (t : T) (S : List Addr)
    (ho : KeepsNulls opt) (hd : denote n H r = some t) (hS : owns n H r = some S) (hnd : S.Nodup)
    (hs : t.Simple) (hl : ¬ GenAlterLoses opt t) :
    roundTrip .genAlter .simplify n opt H r = some t := by
  have hk : t.keeps .genAlter opt = true := by
    simp only [GenAlterLoses, Bool.not_eq_false] at hl; exact hl
  obtain ⟨H1, r1, hc1, _, _, hd1, _⟩ := alter_spec .genAlter rfl n opt H r t S ho.2 hd hS hnd hs hk
  obtain ⟨H2, r2, hc2, hd2⟩ := then_copy (k2 := .simplify) rfl ho.2 hd1
    (pure_toForm .gen .simple _ t hs) (keeps_of_inv keepInv_simplify _ opt trivial)
  simp only [roundTrip, pipeline, hc1, hc2]
  rw [hd2]
  simp [Kind.dst, Kind.fillsNil, toForm_toForm]
  rw [toForm_of_pure .simple _ t hs (Or.inl rfl)]

/-- the full statement for `GenAlter` -/
def C18_genAlter_full : Prop :=
  ∀ (n : Nat) (opt : Opt) (H : Heap) (r : Ref) (t : T) (S : List Addr), KeepsNulls opt →
    denote n H r = some t → owns n H r = some S → S.Nodup → t.Simple →
    roundTrip .genAlter .nodeAlter n opt H r = some t

/-- witness `[{"b":null},{}]` -/
def witnessHeap : Heap := [.obj [("62", .null)], .obj [], .arr [.obj .simple 0, .obj .simple 1]]
def witnessRoot : Ref := .arr .simple 2
def witnessTree : T := .arr .simple [.obj .simple [("62", .null)], .obj .simple []]

example : denote 3 witnessHeap witnessRoot = some witnessTree := rfl
example : owns 3 witnessHeap witnessRoot = some [2, 0, 1] := rfl

/-- The full statement holds iff nulls survive the option flow of the slice clause. Exactly one of
the two cases typechecks for a given source tree: with `GenAlter(m)` in the slice clause the first
(the witness comes back as `[{},{}]`); with `GenAlter(m, opt)` — the code as it is — the second. The
disjunction is kept so that the history of the finding stays checkable against either tree;
`genAlter_full` below states the present situation outright. -/
theorem genAlter_full_status :
    (GenAlterLoses ⟨false, false⟩ witnessTree ∧ ¬ C18_genAlter_full) ∨
    (KeepInv .genAlter (fun o => o.omitNil = false) ∧ C18_genAlter_full) := by
  first
  | refine Or.inl ⟨rfl, fun h => ?_⟩
    have h1 := h 3 ⟨false, false⟩ witnessHeap witnessRoot witnessTree [2, 0, 1] ⟨rfl, rfl⟩ rfl rfl
      (by decide) rfl
    have h2 : roundTrip .genAlter .nodeAlter 3 ⟨false, false⟩ witnessHeap witnessRoot
        = some (.arr .simple [.obj .simple [], .obj .simple []]) := rfl
    rw [h2] at h1
    simp [witnessTree] at h1
  | have inv : KeepInv .genAlter (fun o => o.omitNil = false) :=
      ⟨fun o h => by simpa [Kind.dropsNil] using h,
       fun o h => by simpa [Kind.arrOpt, genAlterArrPassesOpt] using h,
       fun o h => by simpa [Kind.mapOpt, genAlterMapPassesOpt] using h⟩
    exact Or.inr ⟨inv, fun n opt H r t S ho hd hS hnd hs =>
      genAlter_nodeAlter_partial n opt H r t S ho hd hS hnd hs
        (by simp [GenAlterLoses, keeps_of_inv inv t opt ho.1])⟩

/-- the option flow of `GenAlter` as the source has it now keeps null-keeping options null-keeping
(a regression tripwire over the patched slice clause: it stops checking if `opt` is dropped again) -/
theorem keepInv_genAlter : KeepInv .genAlter (fun o => o.omitNil = false) :=
  ⟨fun o h => by simpa [Kind.dropsNil] using h,
   fun o h => by simpa [Kind.arrOpt, genAlterArrPassesOpt] using h,
   fun o h => by simpa [Kind.mapOpt, genAlterMapPassesOpt] using h⟩

/-- `GenAlter(v).Alter() = v`: the full statement, for the code as it is -/
theorem genAlter_full : C18_genAlter_full := fun n opt H r t S ho hd hS hnd hs =>
  genAlter_nodeAlter_partial n opt H r t S ho hd hS hnd hs
    (by simp [GenAlterLoses, keeps_of_inv keepInv_genAlter t opt ho.1])

/-- `Simplify(GenAlter(v)) = v`: the full statement, for the code as it is -/
theorem genAlter_simplify (n : Nat) (opt : Opt) (H : Heap) (r : Ref) (t : T) (S : List Addr)
    (ho : KeepsNulls opt) (hd : denote n H r = some t) (hS : owns n H r = some S) (hnd : S.Nodup)
    (hs : t.Simple) : roundTrip .genAlter .simplify n opt H r = some t :=
  genAlter_simplify_partial n opt H r t S ho hd hS hnd hs
    (by simp [GenAlterLoses, keeps_of_inv keepInv_genAlter t opt ho.1])

/-- the in-place variants return the cell they were given (they alias by design) -/
theorem genAlter_same_cell (n : Nat) (opt : Opt) (H : Heap) (r : Ref) (t : T) (S : List Addr)
    (hoe : opt.omitEmpty = false) (hd : denote n H r = some t) (hS : owns n H r = some S) (hnd : S.Nodup)
    (hs : t.Simple) (hk : t.keeps .genAlter opt = true) :
    ∃ H' r', conv .genAlter n opt H r = some (H', r') ∧ r'.addr? = r.addr? ∧ H'.length = H.length := by
  obtain ⟨H1, r1, hc1, hl, _, _, _, had⟩ := alter_spec .genAlter rfl n opt H r t S hoe hd hS hnd hs hk
  exact ⟨H1, r1, hc1, had, hl⟩

/-! ## the two directions by themselves, and the writers clause -/

/-- `Generify(v)` is `v` written in the generic form -/
theorem generify_value (n : Nat) (opt : Opt) (H : Heap) (r : Ref) (t : T) (ho : KeepsNulls opt)
    (hd : denote n H r = some t) (hs : t.Simple) :
    ∃ H' r', conv .generify n opt H r = some (H', r') ∧ denote n H' r' = some (t.toForm .gen true) := by
  obtain ⟨H1, r1, hc1, _, hd1, _⟩ := copy_spec .generify rfl n opt H r t ho.2 hd hs
    (keeps_of_inv keepInv_generify t opt ho.1)
  exact ⟨H1, r1, hc1, hd1⟩

/-- `n.Simplify()` is `n` written in the simple form -/
theorem simplify_value (n : Nat) (opt : Opt) (H : Heap) (r : Ref) (t : T) (hoe : opt.omitEmpty = false)
    (hd : denote n H r = some t) (hs : t.pure .gen = true) :
    ∃ H' r', conv .simplify n opt H r = some (H', r') ∧ denote n H' r' = some (t.toForm .simple false) := by
  obtain ⟨H1, r1, hc1, _, hd1, _⟩ := copy_spec .simplify rfl n opt H r t hoe hd hs
    (keeps_of_inv keepInv_simplify t opt trivial)
  exact ⟨H1, r1, hc1, hd1⟩

/-- Writers clause for `oj` and `sen`: whatever the writer does with simple data (`w`), a generic tree
and its simple equivalent are written identically — because the writers' only clause that matches a
generic node writes its `Simplify()` result (`WriterPkg.viaSimplify`, read from the source). -/
theorem writers_clause {α : Type} (p : WriterPkg) (w : T → α) (n : Nat) (Hg : Heap) (rg : Ref)
    (Hs : Heap) (rs : Ref) (t : T) (hg : denote n Hg rg = some t) (hp : t.pure .gen = true)
    (hs : denote n Hs rs = some (t.toForm .simple false)) :
    writeRoot p w n Hg rg = writeRoot p w n Hs rs ∧ writeRoot p w n Hs rs = some (w (t.toForm .simple false)) := by
  have hps : (t.toForm .simple false).pure .simple = true := pure_toForm .simple .gen false t hp
  have hR : writeRoot p w n Hs rs = some (w (t.toForm .simple false)) := by simp [writeRoot, hs, hps]
  refine ⟨?_, hR⟩
  rw [hR]
  by_cases hsimp : t.pure .simple = true
  · simp [writeRoot, hg, hsimp, toForm_of_pure .simple false t hsimp (Or.inl rfl)]
  · obtain ⟨H', r', hc, hd'⟩ := simplify_value n ⟨false, false⟩ Hg rg t rfl hg hp
    have hv : p.viaSimplify = true := by cases p <;> rfl
    simp [writeRoot, hg, hsimp, hv, hc, hd']

/-! ## no shared mutable state (copying variants)

These hold for EVERY option setting (whatever is left out of the copy): the hypotheses are only that
the input has finite depth and is written in the form the conversion is for. -/

/-- The frame theorem. For a copying conversion `k` applied to root `r` of heap `H`: the result heap
`H'` agrees with `H` on every old cell, no cell is reachable both from the result and from the input
(in `H` or in `H'`), and the result is a tree (no cell of it is shared) even if the input was not. -/
theorem copy_noalias (k : Kind) (hk : k.inPlace = false) (n : Nat) (opt : Opt) (H : Heap) (r : Ref) (t : T)
    (hd : denote n H r = some t) (hp : t.pure k.src = true) :
    ∃ H' r', conv k n opt H r = some (H', r') ∧
      (∀ a, Reach H' r' a → ¬ Reach H r a ∧ ¬ Reach H' r a) ∧
      (∀ a, Reach H r a → H'[a]? = H[a]?) ∧
      (∀ a, a < H.length → H'[a]? = H[a]?) ∧
      ∃ S', owns n H' r' = some S' ∧ S'.Nodup := by
  obtain ⟨H', r', hc, e, S', hS', hnd, hge⟩ := fresh_spec k hk n opt H r t hd hp
  obtain ⟨S0, hS0⟩ := denote_owns n H r t hd
  have hlt := owns_lt n H r S0 hS0
  refine ⟨H', r', hc, ?_, ?_, fun a ha => e.old ha, S', hS', hnd⟩
  · intro a ha
    have h1 : H.length ≤ a := hge a (reach_mem_owns ha n S' hS')
    exact ⟨fun hr => Nat.lt_irrefl _ (Nat.lt_of_lt_of_le (hlt a (reach_mem_owns hr n S0 hS0)) h1),
      fun hr => Nat.lt_irrefl _ (Nat.lt_of_lt_of_le
        (hlt a (reach_mem_owns hr n S0 (owns_ext e n r S0 hS0))) h1)⟩
  · intro a ha
    exact e.old (hlt a (reach_mem_owns ha n S0 hS0))

/-- mutating any cell of the copy (any new content) never changes the value of the original -/
theorem mutate_copy_keeps_original (k : Kind) (hk : k.inPlace = false) (n : Nat) (opt : Opt) (H : Heap)
    (r : Ref) (t : T) (hd : denote n H r = some t) (hp : t.pure k.src = true) :
    ∃ H' r', conv k n opt H r = some (H', r') ∧
      ∀ (a : Addr) (c : Cell), Reach H' r' a → denote n (H'.set a c) r = some t := by
  obtain ⟨H', r', hc, e, S', hS', _, hge⟩ := fresh_spec k hk n opt H r t hd hp
  obtain ⟨S0, hS0⟩ := denote_owns n H r t hd
  refine ⟨H', r', hc, fun a c ha => ?_⟩
  have h1 : H.length ≤ a := hge a (reach_mem_owns ha n S' hS')
  have hS0' := owns_ext e n r S0 hS0
  have := (frame (H := H') (H2 := H'.set a c) n r S0 hS0' fun b hb =>
    List.getElem?_set_ne (fun (hab : a = b) => by
      have h2 : b < H.length := owns_lt n H r S0 hS0 b hb
      rw [hab] at h1
      exact Nat.lt_irrefl _ (Nat.lt_of_lt_of_le h2 h1))).2
  rw [this]
  exact denote_ext e n r t hd

/-- mutating any cell of the original (any new content) never changes the value of the copy -/
theorem mutate_original_keeps_copy (k : Kind) (hk : k.inPlace = false) (n : Nat) (opt : Opt) (H : Heap)
    (r : Ref) (t : T) (hd : denote n H r = some t) (hp : t.pure k.src = true) :
    ∃ H' r', conv k n opt H r = some (H', r') ∧
      ∀ (a : Addr) (c : Cell), Reach H r a → denote n (H'.set a c) r' = denote n H' r' := by
  obtain ⟨H', r', hc, _, S', hS', _, hge⟩ := fresh_spec k hk n opt H r t hd hp
  obtain ⟨S0, hS0⟩ := denote_owns n H r t hd
  refine ⟨H', r', hc, fun a c ha => ?_⟩
  have h1 : a < H.length := owns_lt n H r S0 hS0 a (reach_mem_owns ha n S0 hS0)
  exact (frame (H := H') (H2 := H'.set a c) n r' S' hS' fun b hb =>
    List.getElem?_set_ne (fun (hab : a = b) => by
      have h2 : H.length ≤ b := hge b hb
      rw [hab] at h1
      exact Nat.lt_irrefl _ (Nat.lt_of_lt_of_le h1 h2))).2

/-! ### the four copying conversions by name -/

/-- `alt.Generify` on simple data -/
theorem generify_noalias (n : Nat) (opt : Opt) (H : Heap) (r : Ref) (t : T)
    (hd : denote n H r = some t) (hs : t.Simple) :
    ∃ H' r', conv .generify n opt H r = some (H', r') ∧
      (∀ a, Reach H' r' a → ¬ Reach H r a ∧ ¬ Reach H' r a) ∧ (∀ a, Reach H r a → H'[a]? = H[a]?) := by
  obtain ⟨H', r', hc, h1, h2, _⟩ := copy_noalias .generify rfl n opt H r t hd hs
  exact ⟨H', r', hc, h1, h2⟩

/-- `Node.Simplify` on generic data -/
theorem simplify_noalias (n : Nat) (opt : Opt) (H : Heap) (r : Ref) (t : T)
    (hd : denote n H r = some t) (hs : t.pure .gen = true) :
    ∃ H' r', conv .simplify n opt H r = some (H', r') ∧
      (∀ a, Reach H' r' a → ¬ Reach H r a ∧ ¬ Reach H' r a) ∧ (∀ a, Reach H r a → H'[a]? = H[a]?) := by
  obtain ⟨H', r', hc, h1, h2, _⟩ := copy_noalias .simplify rfl n opt H r t hd hs
  exact ⟨H', r', hc, h1, h2⟩

/-- `alt.Dup` = `alt.Decompose` on simple data -/
theorem decompose_noalias (n : Nat) (opt : Opt) (H : Heap) (r : Ref) (t : T)
    (hd : denote n H r = some t) (hs : t.Simple) :
    ∃ H' r', conv .decompose n opt H r = some (H', r') ∧
      (∀ a, Reach H' r' a → ¬ Reach H r a ∧ ¬ Reach H' r a) ∧ (∀ a, Reach H r a → H'[a]? = H[a]?) := by
  obtain ⟨H', r', hc, h1, h2, _⟩ := copy_noalias .decompose rfl n opt H r t hd hs
  exact ⟨H', r', hc, h1, h2⟩

/-- `Node.Dup` on generic data -/
theorem genDup_noalias (n : Nat) (opt : Opt) (H : Heap) (r : Ref) (t : T)
    (hd : denote n H r = some t) (hs : t.pure .gen = true) :
    ∃ H' r', conv .genDup n opt H r = some (H', r') ∧
      (∀ a, Reach H' r' a → ¬ Reach H r a ∧ ¬ Reach H' r a) ∧ (∀ a, Reach H r a → H'[a]? = H[a]?) := by
  obtain ⟨H', r', hc, h1, h2, _⟩ := copy_noalias .genDup rfl n opt H r t hd hs
  exact ⟨H', r', hc, h1, h2⟩

/-! ## the hypotheses are satisfiable by non-trivial data

`{"a":[1,null,[]],"b":<the same slice again>,"c":{"d":"x","e":null}}`: nested containers, a null
member, an empty slice and a shared cell (the input of a copying conversion may be a DAG). -/

def exHeap : Heap :=
  [.arr [], .arr [.int .simple 1, .null, .arr .simple 0],
   .obj [("64", .str .simple "78"), ("65", .null)],
   .obj [("61", .arr .simple 1), ("62", .arr .simple 1), ("63", .obj .simple 2)]]
def exRoot : Ref := .obj .simple 3
def exTree : T :=
  .obj .simple
    [("61", .arr .simple [.int .simple 1, .null, .arr .simple []]),
     ("62", .arr .simple [.int .simple 1, .null, .arr .simple []]),
     ("63", .obj .simple [("64", .str .simple "78"), ("65", .null)])]

example : denote 3 exHeap exRoot = some exTree := rfl
example : exTree.Simple := rfl
example : exTree.JsonLike := ⟨rfl, rfl⟩
-- a nil slice and an empty slice are different values; the allocating conversions turn the first into
-- the second (so `JsonLike`, not `Simple`, is the hypothesis of their round trips), the others keep it
example : denote 1 [] (.nilArr .simple) = some (.nilArr .simple) := rfl
example : denote 1 [.arr []] (.arr .simple 0) = some (.arr .simple []) := rfl
example : conv .generify 1 ⟨false, false⟩ [] (.nilArr .simple) = some ([.arr []], .arr .gen 0) := rfl
example : conv .decompose 1 ⟨false, false⟩ [] (.nilArr .simple) = some ([.arr []], .arr .simple 0) := rfl
example : conv .simplify 1 ⟨false, false⟩ [] (.nilArr .gen) = some ([], .nilArr .simple) := rfl
example : conv .simplify 1 ⟨false, false⟩ [.arr []] (.arr .gen 0) = some ([.arr [], .arr []], .arr .simple 1) := rfl
example : owns 3 exHeap exRoot = some [3, 1, 0, 1, 0, 2] := rfl          -- shared: not a tree
example : roundTrip .generify .simplify 3 ⟨false, false⟩ exHeap exRoot = some exTree := rfl
example : ∃ S, owns 3 witnessHeap witnessRoot = some S ∧ S.Nodup := ⟨[2, 0, 1], rfl, by decide⟩
example : ¬ GenAlterLoses ⟨false, false⟩ exTree := by unfold GenAlterLoses; decide
example : Reach exHeap exRoot 0 :=
  .step (r := exRoot) (r' := .arr .simple 1) (a := 3) rfl rfl (by simp [Cell.refs])
    (.step (r := .arr .simple 1) (r' := .arr .simple 0) (a := 1) rfl rfl (by simp [Cell.refs]) (.here rfl))

end OjgVerif.C18
