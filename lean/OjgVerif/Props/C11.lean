import OjgVerif.Props.C05
import OjgVerif.JPath.LemmasRfc
import OjgVerif.JPath.LemmasMach
import OjgVerif.JPath.LemmasTyped
import OjgVerif.JPath.LemmasBudget
import OjgVerif.JPath.LemmasNodes
import OjgVerif.Gen.JpathFacts
/-! # C11 — every JSONPath evaluator and data representation agrees with Get

**What the models are, up front.**
* Every evaluator is the shared traversal skeleton `evalSel` over per-evaluator *selection functions*. For `Get`
  the skeleton is proved equal to the work-list machine (C05.machine_eq_skeleton); for the others it is tied to
  the code by the correspondence run only.
* Since round 3 FirstFound, Has, Locate and Walk ALSO exist as programs of their own (`JPath/Machines.lean`:
  `firstMach`, `hasMach` — the work-list loops of get.go FirstFound / has.go transcribed round by round;
  `locateRec` with the budget `max`, `walkRecM` — the recursion of the `locate`/`Walk` methods). The sections
  "FirstFound and Has as programs of their own", "Locate and Walk as the recursive programs they are" and
  "The machines on every representation" prove them equal to the Get machine's head / non-emptiness and to the
  skeleton models below; those theorems are not definitional.
* In the SKELETON models `firstM`/`hasM` FirstFound and Has are **not** independent programs: where get.go/has.go
  copy Get's code, the skeleton reuses Get's functions, so part of `C11_first`/`C11_has` is definitional. The code paths the model has
  of its own are: the last-position branches (`First.last`: first element only; the slice test `start < end`
  / `end < start` and `tv[start]`, `First.sliceLast`), the inner slice push (`First.sliceInner`), on typed data
  `reflectGetWildOne` (`First.wildOne`, flag `firstTypedWildOne`) and `reflectGetNth(tv, start)` (flag
  `firstTypedSlice`), Has's missing kinds and missing descent `default:` (flags `hasTypedMap`,
  `hasTypedDescent`, `Has.sel.sets`). The theorems say these agree with Get's; that the model has the right
  code paths is the run's business.
* A **representation** (`Rep`) is a two-field tag (array kind, object kind) on the same `JV` value. It selects
  between branch tables of the model: the slice normalisation (`Get.normFor`: `[]any`/`Indexed` clamp the end for
  both step signs, `gen.Array` for a positive step only, typed data go through `reflectGetSlice` = `Get.rnorm`
  and push the reversed result instead of using the truncated division), the members a wildcard, descent or
  filter sees (`Get.wildKids`, `Get.filterKids`, `nodesInnerCut`: flags `typedMapWild`, `typedObjFilter`), what
  First/Has/Walk do on typed data (flags above, `walkTypedArray`). Reflection, `Keyed`, `Indexed`, struct tags,
  pointers are **not** modelled; `C11_repr_current` says that these branch tables select the same elements —
  that the branch tables are what the reflect/Keyed/Indexed code does is established by the correspondence run
  on real typed Go data (reflect.SliceOf/ArrayOf/StructOf/MapOf values and two hand-written collections).
* Filters are an abstract predicate (see Props/C05.lean): every theorem here says that two evaluators handed
  THE SAME predicate agree. Which predicate a script denotes for an evaluator is outside the theorems: it is
  the run that gives each model the predicate of its evaluator (`FilterSpec.filterOf` with the root that
  evaluator hands to a script, `Driver.rootFor`) and judges the agreement. For a script that reads from `$`
  that was not the same predicate everywhere before 049a508: `Filter.locate` handed nil and `Filter.Walk` the
  tested element where Get, FirstFound, Has, GetNodes and FirstNode hand their own argument (flags
  `locFilterRootNil`, `walkFilterRootSelf`; repaired findings C11-locate-filter-root, C11-walk-filter-root).
  Now every entry point hands the query argument, and the run checks that with `$` operands in filters below
  the root (stream `root_box`, random scripts).

Deviations are flags of `Cfg`; the general theorems are parametric in the configuration and name the flags
they need off. `*_current` are the statements for **the code as it is now** (`Cfg.pinned`, after the fixes
baff053, 0e0caaf, fa2ed77, 5d79291, 360668e, 1af5385, 21977aa, 6d09ec9, 6f19325, 927d89c, c654348, 049a508,
22c4424): only `locStartClamp` and `firstTypedSlice`, both pinned by the suite, are still on. `*_before_*`
document what failed before a fix (`Cfg.original`). -/
namespace OjgVerif.C11
open OjgVerif OjgVerif.JPath

/-! ## First / FirstFound -/

/-- **FirstFound returns the first of Get's results** (every configuration, every path, every tree) -/
theorem C11_first (cfg : Cfg) (x : List Frag) (d : JV) :
    firstM cfg Rep.simple x d = (getM cfg Rep.simple x d).head? := by
  rw [C05.machine_eq_skeleton cfg Rep.simple (C05.simple_not_cut cfg)]
  simp only [firstM, getS, List.head?_map]
  congr 1
  apply evalSel_head_congr' (First.sel cfg Rep.simple) (Get.sel cfg Rep.simple) cfg.descentSiblings
  · intro f v; exact first_inner cfg f v
  · rfl
  · intro f v
    simp only [First.sel, Get.sel]
    rw [first_last, head?_take_one]

/-! ## Has -/

/-- **Has is true exactly when Get is non-empty** — for the pinned code where no descent follows another
fragment directly (`descentSiblings`: Get's `default:` case sets the descent flag for a non-container
that a filter handed on, Has has no such case), for the repaired code always -/
theorem C11_has (cfg : Cfg) (x : List Frag) (d : JV)
    (hs : cfg.descentSiblings = false ∨ noDescAfter x = true) :
    hasM cfg Rep.simple x d = !(getM cfg Rep.simple x d).isEmpty := by
  rw [C05.machine_eq_skeleton cfg Rep.simple (C05.simple_not_cut cfg)]
  have h := evalSel_head_congr (Has.sel cfg Rep.simple) (Get.sel cfg Rep.simple) cfg.descentSiblings
    (by intro f v; simp only [Has.sel]; rw [has_inner, first_inner])
    (by intro f v; simp only [Has.sel, Get.sel]; rw [first_last, head?_take_one]) x d hs
  simp only [hasM, getS]
  cases h1 : evalSel (Has.sel cfg Rep.simple) cfg.descentSiblings x d with
  | nil =>
    cases h2 : evalSel (Get.sel cfg Rep.simple) cfg.descentSiblings x d with
    | nil => simp
    | cons b t => rw [h1, h2] at h; simp at h
  | cons a s =>
    cases h2 : evalSel (Get.sel cfg Rep.simple) cfg.descentSiblings x d with
    | nil => rw [h1, h2] at h; simp at h
    | cons b t => simp

/-- non-trivial instance of the hypothesis of `C11_has` for the pinned code: `$..a[0][?]` -/
example : Cfg.pinned.descentSiblings = false ∨
    noDescAfter [.descent, .child [97], .nth 0, .filter (fun _ => true)] = true := Or.inr (by decide)

/-- **Has ⇔ Get non-empty, for the code as it is now**: every path, every tree -/
theorem C11_has_current (x : List Frag) (d : JV) :
    hasM Cfg.pinned Rep.simple x d = !(getM Cfg.pinned Rep.simple x d).isEmpty :=
  C11_has Cfg.pinned x d (Or.inl rfl)

theorem C11_first_current (x : List Frag) (d : JV) :
    firstM Cfg.pinned Rep.simple x d = (getM Cfg.pinned Rep.simple x d).head? :=
  C11_first Cfg.pinned x d

theorem C11_has_fixed (x : List Frag) (d : JV) :
    hasM Cfg.fixed Rep.simple x d = !(getM Cfg.fixed Rep.simple x d).isEmpty :=
  C11_has Cfg.fixed x d (Or.inl rfl)

def C11_has_full (cfg : Cfg) : Prop :=
  ∀ (x : List Frag) (d : JV), hasM cfg Rep.simple x d = !(getM cfg Rep.simple x d).isEmpty

/-- `$[?(true)]..a` on `[1,[{"a":5}]]`: Get handed the leaf `1` to the descent first, which set the flag on
the shared marker, and `[{"a":5}]` was not descended into; Has dropped the leaf without setting the flag -/
def w4path : List Frag := [.filter (fun _ => true), .descent, .child [97]]
def w4data : JV := .arr [.int 1, .arr [.obj [([97], .int 5)]]]

/-- before baff053 Has and Get could disagree; now `C11_has_full Cfg.pinned` is `C11_has_current` -/
theorem C11_has_full_false_before_baff053 : ¬ C11_has_full Cfg.original := by
  intro h
  have h1 := h w4path w4data
  have h2 : hasM Cfg.original Rep.simple w4path w4data = true := by decide
  have h3 : (getM Cfg.original Rep.simple w4path w4data).isEmpty = true := by decide
  rw [h2, h3] at h1
  simp at h1

/-! ## FirstFound and Has as programs of their own

`firstMach`/`hasMach` (JPath/Machines.lean) are the work-list loops of `Expr.FirstFound` (jp/get.go) and
`Expr.Has` (jp/has.go) transcribed from their own text — stack frames, markers, flags, early `return` — not the
skeleton `evalSel`. The theorems below are about these two programs and the Get machine `getM`; nothing in them
is definitional: the proof is a round-by-round simulation (`first_step_sim`, `has_step_sim`). -/

/-- **FirstFound (the machine) returns the first of Get's results** — every configuration of the deviation
flags, every tree, every path that does not end in a bare descent (the property's quantifier; with a trailing
descent the two loops differ by construction: `C11_first_machine_trailing_descent`) -/
theorem C11_first_machine (cfg : Cfg) (x : List Frag) (d : JV) (ht : endsInDescent x = false) :
    firstMach cfg Rep.simple x d = (getM cfg Rep.simple x d).head? := by
  cases x with
  | nil => simp [firstMach, getM]
  | cons f r =>
    simp only [firstMach, getM, first_pushV_simple]
    exact first_run_sim _ (Get.lastV cfg Rep.simple) (Get.pushV cfg Rep.simple) (f :: r) _
      (first_ret_simple cfg) (drop_ne_descent _ ht) _ _

/-- **Has (the machine) is true exactly when Get is non-empty** — every configuration in which has.go's
descent has a case for every element (`hasTypedDescent` off: so since 21977aa), every tree, every path that
does not end in a bare descent. No condition on `descentSiblings`: the machines share the marker discipline. -/
theorem C11_has_machine (cfg : Cfg) (hd : cfg.hasTypedDescent = false) (x : List Frag) (d : JV)
    (ht : endsInDescent x = false) :
    hasMach cfg Rep.simple x d = !(getM cfg Rep.simple x d).isEmpty := by
  cases x with
  | nil => simp [hasMach, getM]
  | cons f r =>
    simp only [hasMach, getM, has_pushV_simple]
    exact has_run_sim _ (Get.lastV cfg Rep.simple) (Get.pushV cfg Rep.simple) (f :: r) _
      (has_sets_simple cfg hd) _ (has_ret_simple cfg) (drop_ne_descent _ ht) _ _

/-- non-trivial instance of the hypothesis: `$..a[1:3][?]..b` does not end in a bare descent -/
example : endsInDescent [.descent, .child [97], .slice (some 1) (some 3) none, .filter (fun _ => true),
    .descent, .child [98]] = false := by decide

/-- **for the code as it is now**: the FirstFound machine returns the head of the Get machine's results, the
Has machine says whether there are any, and both are what the skeleton models `firstM`/`hasM` compute -/
theorem C11_first_has_machine_current (x : List Frag) (d : JV) (ht : endsInDescent x = false) :
    firstMach Cfg.pinned Rep.simple x d = (getM Cfg.pinned Rep.simple x d).head? ∧
    hasMach Cfg.pinned Rep.simple x d = !(getM Cfg.pinned Rep.simple x d).isEmpty ∧
    firstMach Cfg.pinned Rep.simple x d = firstM Cfg.pinned Rep.simple x d ∧
    hasMach Cfg.pinned Rep.simple x d = hasM Cfg.pinned Rep.simple x d :=
  ⟨C11_first_machine Cfg.pinned x d ht, C11_has_machine Cfg.pinned rfl x d ht,
   (C11_first_machine Cfg.pinned x d ht).trans (C11_first_current x d).symm,
   (C11_has_machine Cfg.pinned rfl x d ht).trans (C11_has_current x d).symm⟩

/-- every flag off -/
theorem C11_first_has_machine_fixed (x : List Frag) (d : JV) (ht : endsInDescent x = false) :
    firstMach Cfg.fixed Rep.simple x d = (getM Cfg.fixed Rep.simple x d).head? ∧
    hasMach Cfg.fixed Rep.simple x d = !(getM Cfg.fixed Rep.simple x d).isEmpty :=
  ⟨C11_first_machine Cfg.fixed x d ht, C11_has_machine Cfg.fixed rfl x d ht⟩

/-- where the loops differ, outside the property: `$..` on `[]` — Get reports the node itself in the second
pass of a last descent, FirstFound and Has drop it (get.go:1424, has.go:447: the `else` branch only puts the
element back for the next fragment) -/
theorem C11_first_machine_trailing_descent :
    (firstMach Cfg.pinned Rep.simple [.descent] (.arr [])).isSome = false ∧
    hasMach Cfg.pinned Rep.simple [.descent] (.arr []) = false ∧
    (getM Cfg.pinned Rep.simple [.descent] (.arr [])).length = 1 := by decide

/-! ## Locate and Expr.Walk

The model reports (normalized path, value); a normalized path is a list of member names and absolute
indexes by construction (`Path = List Loc`). With the flags of slice.go `startEndStep` off (and, for
Walk, `walkDescentNoSelf`) both report exactly the locations the path denotes, hence — by
`C05.C05_located` — exactly the locations of Get's results; as multisets: Locate visits a descent parents
first and a filter back to front, Get children first and front to back. -/

/-- the path-level form of `ClampFree`: the start clamp is off, or no slice of the path has a positive start -/
def ClampFreePath (cfg : Cfg) (x : List Frag) : Prop :=
  cfg.locStartClamp = false ∨ (cfg.locEmptyArray = false ∧ x.all lowStart = true)

theorem clampFree_of_path (cfg : Cfg) (x : List Frag) (h : ClampFreePath cfg x) : ∀ f ∈ x, ClampFree cfg f := by
  intro f hf
  rcases h with h | ⟨h1, h2⟩
  · exact Or.inl h
  · exact Or.inr ⟨h1, (List.all_eq_true.mp h2) f hf⟩

theorem C11_locate (cfg : Cfg) (hn : cfg.locNegEnd = false) (x : List Frag) (d : JV)
    (hc : ClampFreePath cfg x) (hx : x ≠ [] ∨ cfg.locateRoot = false)
    (ht : endsInDescent x = false) (hz : (jsize d : Int) ≤ maxEnd) :
    (locateM cfg Rep.simple x d).Perm (eval x d) ∧ Locate.fault cfg Rep.simple x d = false := by
  refine ⟨?_, locate_fault cfg hn x d (clampFree_of_path cfg x hc)⟩
  cases x with
  | nil =>
    rcases hx with h | h
    · exact absurd rfl h
    · simp [locateM, h, eval]
  | cons f r => exact locate_perm_eval cfg hn (f :: r) d (clampFree_of_path cfg _ hc) ht hz

/-- Locate against Get itself (the property's own comparison) -/
theorem C11_locate_get (cfg : Cfg) (hn : cfg.locNegEnd = false) (x : List Frag) (d : JV)
    (hc : ClampFreePath cfg x) (hx : x ≠ [] ∨ cfg.locateRoot = false)
    (hs : cfg.descentSiblings = false ∨ noDescAfter x = true)
    (he : cfg.innerEmptySlice = false ∨ x.dropLast.all narrow = true)
    (ht : endsInDescent x = false) (hz : (jsize d : Int) ≤ maxEnd) :
    (locateM cfg Rep.simple x d).Perm (getS cfg Rep.simple x d) := by
  rw [C05.C05_located cfg x d hs he ht hz]
  exact (C11_locate cfg hn x d hc hx ht hz).1

theorem C11_walk (cfg : Cfg) (hn : cfg.locNegEnd = false) (hw : cfg.walkDescentNoSelf = false)
    (x : List Frag) (d : JV) (hc : ClampFreePath cfg x)
    (ht : endsInDescent x = false) (hz : (jsize d : Int) ≤ maxEnd) :
    (walkM cfg Rep.simple x d).Perm (eval x d) :=
  walk_perm_eval cfg hn hw x d (clampFree_of_path cfg x hc) ht hz

theorem C11_walk_get (cfg : Cfg) (hn : cfg.locNegEnd = false) (hw : cfg.walkDescentNoSelf = false)
    (x : List Frag) (d : JV) (hc : ClampFreePath cfg x)
    (hs : cfg.descentSiblings = false ∨ noDescAfter x = true)
    (he : cfg.innerEmptySlice = false ∨ x.dropLast.all narrow = true)
    (ht : endsInDescent x = false) (hz : (jsize d : Int) ≤ maxEnd) :
    (walkM cfg Rep.simple x d).Perm (getS cfg Rep.simple x d) := by
  rw [C05.C05_located cfg x d hs he ht hz]
  exact C11_walk cfg hn hw x d hc ht hz

/-- **Locate and Walk for the code as it is now.** RESTRICTION FIRST: the theorem covers only paths in which
**no slice fragment has a positive start** (`lowStart`: start absent, 0 or negative) — slice.go `startEndStep`
clamps a start at or beyond the length to the last element (pinned by TestExprLocateAny), which Get does not,
and whether a positive start is beyond the length depends on the data; known finding C11-locate-start-clamp,
refuted in general by `C11_locate_full_false`. For the paths it covers, not ending in a bare descent: Locate
and Walk report exactly the locations of Get's results (as multisets) and Locate does not fault. -/
theorem C11_locate_walk_current (x : List Frag) (d : JV) (hlow : x.all lowStart = true)
    (ht : endsInDescent x = false) (hz : (jsize d : Int) ≤ maxEnd) :
    (locateM Cfg.pinned Rep.simple x d).Perm (getS Cfg.pinned Rep.simple x d) ∧
    Locate.fault Cfg.pinned Rep.simple x d = false ∧
    (walkM Cfg.pinned Rep.simple x d).Perm (getS Cfg.pinned Rep.simple x d) :=
  ⟨C11_locate_get Cfg.pinned rfl x d (Or.inr ⟨rfl, hlow⟩) (Or.inr rfl) (Or.inl rfl) (Or.inl rfl) ht hz,
   (C11_locate Cfg.pinned rfl x d (Or.inr ⟨rfl, hlow⟩) (Or.inr rfl) ht hz).2,
   C11_walk_get Cfg.pinned rfl rfl x d (Or.inr ⟨rfl, hlow⟩) (Or.inl rfl) (Or.inl rfl) ht hz⟩

/-- included: `$.a[:3]..b[-2:]`, `$[0:2]`, `$[-3::2]`; excluded: `$[1:3]`, `$.a[2:]`, `$[5:0:-1]` (a positive
start) -/
example : [Frag.slice (some 0) (some 2) none].all lowStart = true ∧
    [Frag.slice (some (-3)) none (some 2)].all lowStart = true ∧
    [Frag.slice (some 1) (some 3) none].all lowStart = false ∧
    [Frag.child [97], .slice (some 2) none none].all lowStart = false ∧
    [Frag.slice (some 5) (some 0) (some (-1))].all lowStart = false := by decide

/-- non-trivial instance of the hypotheses of `C11_locate_walk_current`: `$.a[:3]..b[-2:]` -/
example : [Frag.child [97], .slice none (some 3) none, .descent, .child [98], .slice (some (-2)) none none].all lowStart = true ∧
    endsInDescent [.child [97], .slice none (some 3) none, .descent, .child [98], .slice (some (-2)) none none] = false := by
  decide

/-- a normalized path run through Get (the code as it is now) yields exactly the element it addresses -/
theorem get_of_address (d : JV) (p : Path) (c : JV) (h : Addr d p c) (hz : (jsize d : Int) ≤ maxEnd) :
    getM Cfg.pinned Rep.simple (p.map Loc.toFrag) d = [c] := by
  rw [C05.C05_current _ d (toFrag_not_descent p) hz, evalV, h]
  rfl

/-- **"Locate and Walk report exactly the normalized paths whose individual Get yields those results"**, for
the code as it is now, on data whose objects have unique member names (`wf`; a Go map has), under the
restriction of `C11_locate_walk_current`: every reported location `(p, v)` is a list of member names and
absolute indexes (by type), `Get` of the path `p` (as `child`/`nth` fragments) on the same data returns exactly
`[v]`, and the reported values are, as a multiset, Get's results of the original path -/
theorem C11_locate_walk_addresses_current (x : List Frag) (d : JV) (hw : wf d = true)
    (hlow : x.all lowStart = true) (ht : endsInDescent x = false) (hz : (jsize d : Int) ≤ maxEnd) :
    (∀ m ∈ locateM Cfg.pinned Rep.simple x d, getM Cfg.pinned Rep.simple (m.1.map Loc.toFrag) d = [m.2]) ∧
    ((locateM Cfg.pinned Rep.simple x d).map (·.2)).Perm (getM Cfg.pinned Rep.simple x d) ∧
    (∀ m ∈ walkM Cfg.pinned Rep.simple x d, getM Cfg.pinned Rep.simple (m.1.map Loc.toFrag) d = [m.2]) ∧
    ((walkM Cfg.pinned Rep.simple x d).map (·.2)).Perm (getM Cfg.pinned Rep.simple x d) := by
  have hl := (C11_locate Cfg.pinned rfl x d (Or.inr ⟨rfl, hlow⟩) (Or.inr rfl) ht hz).1
  have hk := C11_walk Cfg.pinned rfl rfl x d (Or.inr ⟨rfl, hlow⟩) ht hz
  have hg : getM Cfg.pinned Rep.simple x d = (eval x d).map (·.2) := by rw [C05.C05_current x d ht hz]; rfl
  refine ⟨?_, ?_, ?_, ?_⟩
  · intro m hm
    exact get_of_address d m.1 m.2 (eval_address x d hw m (hl.mem_iff.mp hm)).1 hz
  · rw [hg]; exact hl.map _
  · intro m hm
    exact get_of_address d m.1 m.2 (eval_address x d hw m (hk.mem_iff.mp hm)).1 hz
  · rw [hg]; exact hk.map _

/-- the same without the restriction on slices, for the denotation itself: every located element of
`Spec.eval` is addressed by its path (`eval_address`) -/
theorem C11_eval_addresses (x : List Frag) (d : JV) (hw : wf d = true) :
    ∀ m ∈ eval x d, eval (m.1.map Loc.toFrag) d = [m] :=
  fun m hm => (eval_address x d hw m hm).1

/-- non-trivial instance of `wf`: `{"a":[{"b":1},{"b":2}],"c":{}}`; a repeated name is not well-formed -/
example : wf (.obj [([97], .arr [.obj [([98], .int 1)], .obj [([98], .int 2)]]), ([99], .obj [])]) = true ∧
    wf (.obj [([97], .int 1), ([97], .int 2)]) = false := by decide

/-- every flag off: every path not ending in a bare descent -/
theorem C11_locate_walk_fixed (x : List Frag) (d : JV) (ht : endsInDescent x = false)
    (hz : (jsize d : Int) ≤ maxEnd) :
    (locateM Cfg.fixed Rep.simple x d).Perm (getS Cfg.fixed Rep.simple x d) ∧
    (walkM Cfg.fixed Rep.simple x d).Perm (getS Cfg.fixed Rep.simple x d) :=
  ⟨C11_locate_get Cfg.fixed rfl x d (Or.inl rfl) (Or.inr rfl) (Or.inl rfl) (Or.inl rfl) ht hz,
   C11_walk_get Cfg.fixed rfl rfl x d (Or.inl rfl) (Or.inl rfl) (Or.inl rfl) ht hz⟩

def C11_locate_full (cfg : Cfg) : Prop :=
  ∀ (x : List Frag) (d : JV), endsInDescent x = false → (jsize d : Int) ≤ maxEnd →
    (locateM cfg Rep.simple x d).Perm (getS cfg Rep.simple x d)

def C11_walk_full (cfg : Cfg) : Prop :=
  ∀ (x : List Frag) (d : JV), endsInDescent x = false → (jsize d : Int) ≤ maxEnd →
    (walkM cfg Rep.simple x d).Perm (getS cfg Rep.simple x d)

/-- `$[5:0:-1]` on `[1,2,3]`: the start is clamped to the last element, Locate and Walk report `$[2] $[1]`,
Get nothing (still so: pinned by TestExprLocateAny) -/
def w8path : List Frag := [.slice (some 5) (some 0) (some (-1))]
def w8data : JV := .arr [.int 1, .int 2, .int 3]

theorem C11_locate_full_false : ¬ C11_locate_full Cfg.pinned := by
  intro h
  have h1 := (h w8path w8data (by decide) (by decide)).length_eq
  have h2 : (locateM Cfg.pinned Rep.simple w8path w8data).length = 2 := by decide
  have h3 : (getS Cfg.pinned Rep.simple w8path w8data).length = 0 := by decide
  omega

theorem C11_walk_full_false : ¬ C11_walk_full Cfg.pinned := by
  intro h
  have h1 := (h w8path w8data (by decide) (by decide)).length_eq
  have h2 : (walkM Cfg.pinned Rep.simple w8path w8data).length = 2 := by decide
  have h3 : (getS Cfg.pinned Rep.simple w8path w8data).length = 0 := by decide
  omega

/-- `$[0:-1]` on `[1,2,3]`: before fa2ed77 Locate reported three locations, Get two elements; now two -/
def w5path : List Frag := [.slice (some 0) (some (-1)) none]
def w5data : JV := .arr [.int 1, .int 2, .int 3]

theorem C11_locate_negative_end_before_fa2ed77 :
    (locateM Cfg.original Rep.simple w5path w5data).length = 3 ∧
    (getS Cfg.original Rep.simple w5path w5data).length = 2 ∧
    (locateM Cfg.pinned Rep.simple w5path w5data).length = 2 := by decide

/-- `$..a` on `{"a":1}`: before 5d79291 Walk reported nothing; now the one location -/
def w6path : List Frag := [.descent, .child [97]]
def w6data : JV := .obj [([97], .int 1)]

theorem C11_walk_descent_self_before_5d79291 :
    (walkM Cfg.original Rep.simple w6path w6data).length = 0 ∧
    (getS Cfg.original Rep.simple w6path w6data).length = 1 ∧
    (walkM Cfg.pinned Rep.simple w6path w6data).length = 1 := by decide

/-! ## Locate and Walk as the recursive programs they are

`locateRec`/`walkRecM` (JPath/Machines.lean) transcribe the per-fragment `locate` and `Walk` methods: recursion
on the rest of the path, the descent walking the tree, Locate's budget `max` threaded through
`locateContinueFrag`. They are proved equal to the skeleton models `locateM`/`walkM`, so every statement above
about `locateM`/`walkM` is a statement about these programs. -/

/-- **the recursive Walk methods are the skeleton model**: every configuration, representation tag, path, tree -/
theorem C11_walk_recursive (cfg : Cfg) (rep : Rep) (x : List Frag) (d : JV) :
    walkRecM cfg rep x d = walkM cfg rep x d :=
  walkRec_eq_evalSel cfg rep x d

/-- **the recursive locate methods without a budget (`max ≤ 0`) are the skeleton model**: every configuration
and representation tag in which the descent sees the members of every object (`typedMapWild` off or not a
typed map), every path that does not end in a bare descent, every tree -/
theorem C11_locate_recursive (cfg : Cfg) (rep : Rep)
    (hcut : (cfg.typedMapWild && decide (rep.ok = OKind.rmap)) = false) (max : Int) (hm : max ≤ 0)
    (x : List Frag) (d : JV) (ht : endsInDescent x = false) :
    locateRec cfg rep x max d = locateM cfg rep x d := by
  cases x with
  | nil => rfl
  | cons f r => exact locRec_eq_evalSel cfg rep hcut max hm (f :: r) d (by simp) ht

/-- **Locate and Walk, the recursive programs, for the code as it is now**, under the restriction of
`C11_locate_walk_current` (no slice with a positive start, no trailing bare descent): they report exactly the
locations of Get's results (as multisets) -/
theorem C11_locate_walk_recursive_current (x : List Frag) (d : JV) (hlow : x.all lowStart = true)
    (ht : endsInDescent x = false) (hz : (jsize d : Int) ≤ maxEnd) :
    (locateRec Cfg.pinned Rep.simple x 0 d).Perm (getS Cfg.pinned Rep.simple x d) ∧
    (walkRecM Cfg.pinned Rep.simple x d).Perm (getS Cfg.pinned Rep.simple x d) := by
  rw [C11_locate_recursive Cfg.pinned Rep.simple rfl 0 (by omega) x d ht, C11_walk_recursive]
  exact ⟨(C11_locate_walk_current x d hlow ht hz).1, (C11_locate_walk_current x d hlow ht hz).2.2⟩

/-- the budget, on `[1,2,3,4]`: `$[*]` with `max = 1` returns one path; `$[0:3]` with `max = 1` returns three —
a slice in the last position has no budget test (slice.go:439-441; the doc comment of `Locate` says "limited to
the max specified"; the property does not speak of `max`) -/
theorem C11_locate_budget_witness :
    (locateRec Cfg.pinned Rep.simple [.wild] 1 (.arr [.int 1, .int 2, .int 3, .int 4])).length = 1 ∧
    (locateRec Cfg.pinned Rep.simple [.slice (some 0) (some 3) none] 1 (.arr [.int 1, .int 2, .int 3, .int 4])).length = 3 ∧
    (locateRec Cfg.pinned Rep.simple [.descent] 2 (.arr [.arr [.int 1, .int 2], .arr [.int 3]])).length = 2 := by
  decide

/-- **Locate respects its budget on every path without a slice fragment**: for `max > 0` the recursive `locate`
methods return at most `max` paths — every configuration, representation tag and tree. (With a slice the claim is
false: `C11_locate_budget_witness`. "The returned slice is limited to the max specified" is Locate's doc comment; the
property C11 does not speak of `max`.) -/
theorem C11_locate_budget (cfg : Cfg) (rep : Rep) (x : List Frag) (hx : x.all noSlice = true)
    (max : Int) (hm : 0 < max) (d : JV) : ((locateRec cfg rep x max d).length : Int) ≤ max := by
  cases x with
  | nil => simp only [locateRec]; split <;> simp <;> omega
  | cons f r => exact locRec_le cfg rep (f :: r) hx max d hm

/-- non-trivial instance of the hypothesis: `$..a[*][?].b[1,2]` has no slice fragment -/
example : [Frag.descent, .child [97], .wild, .filter (fun _ => true), .child [98], .union [.idx 1, .idx 2]].all noSlice = true := by
  decide

/-! ## GetNodes, FirstNode (gen data) and Get on other representations -/

theorem gen_not_cut (cfg : Cfg) : (cfg.typedMapWild && decide (Rep.gen.ok = OKind.rmap)) = false := by
  cases cfg.typedMapWild <;> rfl

/-- **GetNodes is Get on gen data** (node.go's flags and `innerEmptySlice` off, and no descent after a
fragment while `descentSiblings` is on: node.go's descent has no case for a non-container) -/
theorem C11_nodes (cfg : Cfg) (he : cfg.innerEmptySlice = false) (hu : cfg.nodesUnionNil = false)
    (hr : cfg.nodesFilterRev = false) (hz : cfg.nodesFilterNull = false) (x : List Frag) (d : JV)
    (hs : cfg.descentSiblings = false ∨ noDescAfter x = true) :
    nodesM cfg x d = getM cfg Rep.gen x d := by
  rw [C05.machine_eq_skeleton cfg Rep.gen (gen_not_cut cfg)]
  simp only [nodesM, getS]
  rw [evalSel_congr (Nodes.sel cfg) (Get.sel cfg Rep.gen) cfg.descentSiblings
    (fun f v => nodes_inner cfg he hz f v) (fun f v => nodes_last cfg hu hr hz f v) x d hs]

/-- FirstNode returns the first of GetNodes' results (flags `firstNodeLast`, `nodesUnionNil`,
`nodesFilterRev` off) -/
theorem C11_firstnode (cfg : Cfg) (hl : cfg.firstNodeLast = false) (hu : cfg.nodesUnionNil = false)
    (hr : cfg.nodesFilterRev = false) (x : List Frag) (d : JV) :
    firstNodeM cfg x d = (nodesM cfg x d).head? := by
  simp only [firstNodeM, nodesM, List.head?_map]
  congr 1
  apply evalSel_head_congr' (FirstNode.sel cfg) (Nodes.sel cfg) cfg.descentSiblings
  · intro f v; rfl
  · rfl
  · intro f v
    simp only [FirstNode.sel, Nodes.sel]
    rw [firstNode_last cfg hl hu hr, head?_take_one]

/-- **Get on gen nodes selects the corresponding elements** (`innerEmptySlice` off: get.go clamps the end
of a `gen.Array` slice for a positive step only, which moves the deviation) -/
theorem C11_repr_gen (cfg : Cfg) (he : cfg.innerEmptySlice = false) (x : List Frag) (d : JV) :
    getM cfg Rep.gen x d = getM cfg Rep.simple x d := by
  rw [C05.machine_eq_skeleton cfg Rep.gen (gen_not_cut cfg),
    C05.machine_eq_skeleton cfg Rep.simple (C05.simple_not_cut cfg)]
  simp only [getS]
  rw [evalSel_congr' (Get.sel cfg Rep.gen) (Get.sel cfg Rep.simple) cfg.descentSiblings
    (fun f v => get_inner_gen cfg he f v) rfl (fun f v => get_last_gen cfg f v) x d]

/-- **Get on user Indexed/Keyed collections selects the corresponding elements** (every configuration) -/
theorem C11_repr_user (cfg : Cfg) (x : List Frag) (d : JV) :
    getM cfg ⟨.indexed, .keyed⟩ x d = getM cfg Rep.simple x d := by
  have hcut : (cfg.typedMapWild && decide ((⟨.indexed, .keyed⟩ : Rep).ok = OKind.rmap)) = false := by
    cases cfg.typedMapWild <;> rfl
  rw [C05.machine_eq_skeleton cfg _ hcut, C05.machine_eq_skeleton cfg Rep.simple (C05.simple_not_cut cfg)]
  simp only [getS]
  rw [evalSel_congr' (Get.sel cfg ⟨.indexed, .keyed⟩) (Get.sel cfg Rep.simple) cfg.descentSiblings _ rfl _ x d]
  · intro f v
    cases f with
    | wild => cases v <;> simp [Get.sel, Get.push, Get.wildKids, Rep.simple]
    | filter p => cases v <;> simp [Get.sel, Get.push, Get.filterKids, Rep.simple, OKind.typed]
    | descent => simp [Get.sel, Get.push, hcut, C05.simple_not_cut cfg]
    | slice s e t => cases v <;> simp [Get.sel, Get.push, Get.slicePush, Get.normFor, Rep.simple, AK.typed]
    | _ => rfl
  · intro f v
    cases f with
    | wild => cases v <;> simp [Get.sel, Get.last, Get.wildKids, Rep.simple]
    | filter p => cases v <;> simp [Get.sel, Get.last, Get.filterKids, Rep.simple, OKind.typed]
    | slice s e t => cases v <;> simp [Get.sel, Get.last, Get.sliceLast, Get.normFor, Rep.simple]
    | _ => rfl

/-- **for the code as it is now**: GetNodes is Get on gen data, FirstNode the first of it, Get on gen data is
Get on simple data — every path, every tree -/
theorem C11_nodes_current (x : List Frag) (d : JV) :
    nodesM Cfg.pinned x d = getM Cfg.pinned Rep.gen x d ∧
    firstNodeM Cfg.pinned x d = (nodesM Cfg.pinned x d).head? ∧
    getM Cfg.pinned Rep.gen x d = getM Cfg.pinned Rep.simple x d ∧
    getM Cfg.pinned ⟨.indexed, .keyed⟩ x d = getM Cfg.pinned Rep.simple x d :=
  ⟨C11_nodes Cfg.pinned rfl rfl rfl rfl x d (Or.inl rfl), C11_firstnode Cfg.pinned rfl rfl rfl x d,
   C11_repr_gen Cfg.pinned rfl x d, C11_repr_user Cfg.pinned x d⟩

def C11_nodes_full (cfg : Cfg) : Prop := ∀ (x : List Frag) (d : JV), nodesM cfg x d = getM cfg Rep.gen x d

/-- `$[5,0]` on `[7]`: before 360668e GetNodes returned a nil and the element -/
def w7path : List Frag := [.union [.idx 5, .idx 0]]
def w7data : JV := .arr [.int 7]

theorem C11_nodes_full_false_before_360668e : ¬ C11_nodes_full Cfg.original := by
  intro h
  have h1 := congrArg List.length (h w7path w7data)
  have h2 : (nodesM Cfg.original w7path w7data).length = 2 := by decide
  have h3 : (getM Cfg.original Rep.gen w7path w7data).length = 1 := by decide
  omega

/-- **the GetNodes machine** (`nodesMach`: Get's round with node.go's one difference in control flow — a leaf handed
to a descent is dropped, there is no `default:` arm) **computes the skeleton model `nodesM`**, hence, for the code as
it is now, is Get on gen data and Get on the plain data: every tree, every path not ending in a bare descent -/
theorem C11_nodes_machine (cfg : Cfg) (hs : cfg.descentSiblings = false) (x : List Frag) (d : JV)
    (ht : endsInDescent x = false) : nodesMach cfg x d = nodesM cfg x d :=
  nodesMach_eq_nodesM cfg hs x d ht

theorem C11_nodes_machine_current (x : List Frag) (d : JV) (ht : endsInDescent x = false) :
    nodesMach Cfg.pinned x d = getM Cfg.pinned Rep.gen x d ∧
    nodesMach Cfg.pinned x d = getM Cfg.pinned Rep.simple x d := by
  have h := C11_nodes_current x d
  rw [C11_nodes_machine Cfg.pinned rfl x d ht]
  exact ⟨h.1, h.1.trans h.2.2.1⟩

/-- **the FirstNode machine** (`firstNodeMach`: FirstFound's round with node.go's dropped-leaf branch) **returns the
first of what the GetNodes machine returns** (node.go's flags off: since 360668e; every configuration of the others),
hence, for the code as it is now, the first of Get's results on the plain data -/
theorem C11_firstnode_machine (cfg : Cfg) (hl : cfg.firstNodeLast = false) (hu : cfg.nodesUnionNil = false)
    (hr : cfg.nodesFilterRev = false) (x : List Frag) (d : JV) (ht : endsInDescent x = false) :
    firstNodeMach cfg x d = (nodesMach cfg x d).head? :=
  firstNodeMach_eq_head cfg hl hu hr x d ht

theorem C11_firstnode_machine_current (x : List Frag) (d : JV) (ht : endsInDescent x = false) :
    firstNodeMach Cfg.pinned x d = (getM Cfg.pinned Rep.simple x d).head? := by
  rw [C11_firstnode_machine Cfg.pinned rfl rfl rfl x d ht, (C11_nodes_machine_current x d ht).2]

/-! ## Typed (reflect) representations

With `typedMapWild` (927d89c) and `typedObjFilter` (c654348) off, Get's selection functions on typed slices,
arrays, structs and maps are those on `[]any`/`map[string]any` (the slice code of `reflectGetSlice` visits the
same indexes: `modelIdxR_eq`), so Get on every representation is Get on the simple data. -/

/-- **Get on any representation selects the corresponding elements** (flags `innerEmptySlice`,
`typedMapWild`, `typedObjFilter` off) -/
theorem C11_repr (cfg : Cfg) (he : cfg.innerEmptySlice = false) (hm : cfg.typedMapWild = false)
    (ht : cfg.typedObjFilter = false) (rep : Rep) (x : List Frag) (d : JV) :
    getM cfg rep x d = getM cfg Rep.simple x d := by
  have hcut : ∀ r : Rep, (cfg.typedMapWild && decide (r.ok = OKind.rmap)) = false := by
    intro r; simp [hm]
  rw [C05.machine_eq_skeleton cfg rep (hcut rep), C05.machine_eq_skeleton cfg Rep.simple (hcut _)]
  simp only [getS]
  rw [evalSel_congr' (Get.sel cfg rep) (Get.sel cfg Rep.simple) cfg.descentSiblings
    (fun f v => get_inner_rep cfg he hm ht rep f v) rfl (fun f v => get_last_rep cfg hm ht rep f v) x d]

/-- **for the code as it is now**: Get on gen nodes, Indexed/Keyed collections, typed slices, arrays, structs
and maps is Get on the simple data — every representation, every path, every tree -/
theorem C11_repr_current (rep : Rep) (x : List Frag) (d : JV) :
    getM Cfg.pinned rep x d = getM Cfg.pinned Rep.simple x d :=
  C11_repr Cfg.pinned rfl rfl rfl rep x d

/-- `$.*` on `{"a":1}` held as `map[string]int64`: before 927d89c Get saw no member; now one -/
theorem C11_typed_map_before_927d89c :
    (getS Cfg.original ⟨.rslice, .rmap⟩ [.wild] (.obj [([97], .int 1)])).length = 0 ∧
    (getS Cfg.pinned ⟨.rslice, .rmap⟩ [.wild] (.obj [([97], .int 1)])).length = 1 := by decide

/-- `$[?(true)]` on `{"a":1}` held as a struct: before c654348 the filter selected nothing; now the member -/
theorem C11_typed_filter_before_c654348 :
    (getS Cfg.original ⟨.rslice, .struct⟩ [.filter (fun _ => true)] (.obj [([97], .int 1)])).length = 0 ∧
    (getS Cfg.pinned ⟨.rslice, .struct⟩ [.filter (fun _ => true)] (.obj [([97], .int 1)])).length = 1 ∧
    (walkM Cfg.original ⟨.rslice, .struct⟩ [.filter (fun _ => true)] (.obj [([97], .int 1)])).length = 0 ∧
    (walkM Cfg.pinned ⟨.rslice, .struct⟩ [.filter (fun _ => true)] (.obj [([97], .int 1)])).length = 1 := by decide

/-- `$[0:2]` on `[1,2,3]` held as a typed array: before 6f19325 Walk reported nothing; now two locations -/
theorem C11_walk_typed_array_before_6f19325 :
    (walkM Cfg.original ⟨.rarray, .struct⟩ [.slice (some 0) (some 2) none] (.arr [.int 1, .int 2, .int 3])).length = 0 ∧
    (walkM Cfg.pinned ⟨.rarray, .struct⟩ [.slice (some 0) (some 2) none] (.arr [.int 1, .int 2, .int 3])).length = 2 := by
  decide

/-- `$[*][0]` on `[[],[7]]` held as typed slices: before 6d09ec9 FirstFound and Has searched element 0 only -/
theorem C11_first_typed_wildcard_before_6d09ec9 :
    firstM Cfg.original ⟨.rslice, .struct⟩ [.wild, .nth 0] (.arr [.arr [], .arr [.int 7]]) = none ∧
    hasM Cfg.original ⟨.rslice, .struct⟩ [.wild, .nth 0] (.arr [.arr [], .arr [.int 7]]) = false ∧
    (firstM Cfg.pinned ⟨.rslice, .struct⟩ [.wild, .nth 0] (.arr [.arr [], .arr [.int 7]])).isSome = true ∧
    hasM Cfg.pinned ⟨.rslice, .struct⟩ [.wild, .nth 0] (.arr [.arr [], .arr [.int 7]]) = true := by decide

/-- still so (pinned by TestExprFirst/TestExprHas): on typed data FirstFound and Has read a slice fragment as
`Nth(start)`: `$[1:1]` on `[1,2,3]` finds `2`, Get nothing -/
theorem C11_first_typed_slice_witness :
    (firstM Cfg.pinned ⟨.rslice, .struct⟩ [.slice (some 1) (some 1) none] (.arr [.int 1, .int 2, .int 3])).isSome = true ∧
    hasM Cfg.pinned ⟨.rslice, .struct⟩ [.slice (some 1) (some 1) none] (.arr [.int 1, .int 2, .int 3]) = true ∧
    (getM Cfg.pinned ⟨.rslice, .struct⟩ [.slice (some 1) (some 1) none] (.arr [.int 1, .int 2, .int 3])).length = 0 := by
  decide

/-! ## The machines on every representation; typed slices and arrays exactly -/

/-- **the FirstFound machine computes the skeleton model on every representation tag** (so every statement about
`firstM` is one about the machine): every configuration, every tree, every path not ending in a bare descent -/
theorem C11_first_machine_skeleton (cfg : Cfg) (rep : Rep)
    (hcut : (cfg.typedMapWild && decide (rep.ok = OKind.rmap)) = false)
    (x : List Frag) (d : JV) (ht : endsInDescent x = false) :
    firstMach cfg rep x d = firstM cfg rep x d :=
  firstMach_eq_firstM cfg rep hcut x d ht

/-- the same for Has (has.go's kind lists complete: `hasTypedMap`, `hasTypedDescent` off, since 21977aa) -/
theorem C11_has_machine_skeleton (cfg : Cfg) (rep : Rep) (hd : cfg.hasTypedDescent = false)
    (hh : cfg.hasTypedMap = false) (hcut : (cfg.typedMapWild && decide (rep.ok = OKind.rmap)) = false)
    (x : List Frag) (d : JV) (ht : endsInDescent x = false) :
    hasMach cfg rep x d = hasM cfg rep x d :=
  hasMach_eq_hasM cfg rep hd hh hcut x d ht

/-- **FirstFound and Has on gen nodes and on user Indexed/Keyed collections** (every representation tag whose
array and object kinds are not reached by reflection), the machines, every configuration with has.go's kind
lists complete, every tree, every path not ending in a bare descent: the first of / whether there are results
of Get on the plain data -/
theorem C11_first_has_untyped (cfg : Cfg) (hd : cfg.hasTypedDescent = false) (hh : cfg.hasTypedMap = false)
    (rep : Rep) (ha : rep.ak.typed = false) (ho : rep.ok.typed = false)
    (x : List Frag) (d : JV) (ht : endsInDescent x = false) :
    firstMach cfg rep x d = (getM cfg Rep.simple x d).head? ∧
    hasMach cfg rep x d = !(getM cfg Rep.simple x d).isEmpty := by
  have hcut : (cfg.typedMapWild && decide (rep.ok = OKind.rmap)) = false := by
    have := (untyped_facts rep ha ho).1
    simp [this]
  refine ⟨?_, ?_⟩
  · rw [firstMach_eq_firstM cfg rep hcut x d ht, ← C11_first cfg x d]
    simp only [firstM, first_sel_untyped cfg rep ha ho]
  · rw [hasMach_eq_hasM cfg rep hd hh hcut x d ht, ← C11_has_machine cfg hd x d ht,
      hasMach_eq_hasM cfg Rep.simple hd hh (C05.simple_not_cut cfg) x d ht]
    simp only [hasM, has_sel_untyped cfg rep ha ho]

/-- the hypotheses hold for gen data and for Indexed/Keyed collections -/
example : (Rep.gen.ak.typed = false ∧ Rep.gen.ok.typed = false) ∧
    ((⟨.indexed, .keyed⟩ : Rep).ak.typed = false ∧ (⟨.indexed, .keyed⟩ : Rep).ok.typed = false) := by decide

/-- **FirstFound and Has on typed slices and arrays, for the code as it is now, exactly.** The one deviation
left (`firstTypedSlice`, pinned by TestExprFirst/TestExprHas) is that a slice fragment `[s:e:t]` is read as the
index `[s]` (`typedView`; nothing if the step is written 0). With that reading of the path, on every typed
representation (typed slice or array; struct or typed map), every path not ending in a bare descent, every
tree: **Has (the machine) is true exactly when Get — on the plain `[]any`/`map[string]any` data — has a result
for the viewed path**, and, when the objects are not structs (`reflectGetWildOne` returns the last field of a
struct, so the order differs there), **FirstFound (the machine) returns the first of those results**. -/
theorem C11_typed_first_has_current (rep : Rep) (hty : rep.ak.typed = true) (x : List Frag) (d : JV)
    (ht : endsInDescent x = false) :
    hasMach Cfg.pinned rep x d = !(getM Cfg.pinned Rep.simple (x.map typedView) d).isEmpty ∧
    (rep.ok ≠ OKind.struct →
      firstMach Cfg.pinned rep x d = (getM Cfg.pinned Rep.simple (x.map typedView) d).head?) := by
  have hg : getM Cfg.pinned Rep.simple (x.map typedView) d
      = (getS Cfg.pinned rep (x.map typedView) d).map (·.2) := by
    rw [← C11_repr_current rep, C05.machine_eq_skeleton Cfg.pinned rep rfl]
  refine ⟨?_, ?_⟩
  · rw [hasMach_eq_hasM Cfg.pinned rep rfl rfl rfl x d ht, has_typed_view Cfg.pinned rep hty rfl rfl rfl rfl rfl x d, hg]
    simp
  · intro hst
    rw [firstMach_eq_firstM Cfg.pinned rep rfl x d ht, first_typed_view Cfg.pinned rep hty rfl rfl rfl hst x d, hg]

/-- the view is the identity on a path without a slice fragment -/
theorem typedView_noSlice (x : List Frag) (h : x.all (fun f => match f with | .slice _ _ _ => false | _ => true) = true) :
    x.map typedView = x := by
  induction x with
  | nil => rfl
  | cons f t ih =>
    simp only [List.all_cons, Bool.and_eq_true] at h
    rw [List.map_cons, ih h.2]
    cases f <;> simp_all [typedView]

/-- **C11 for First/Has on typed representations, paths without a slice fragment** (the code as it is now):
Has ⇔ Get non-empty, FirstFound = the first of Get's results (objects not structs) -/
theorem C11_typed_no_slice_current (rep : Rep) (hty : rep.ak.typed = true) (x : List Frag) (d : JV)
    (hns : x.all (fun f => match f with | .slice _ _ _ => false | _ => true) = true)
    (ht : endsInDescent x = false) :
    hasMach Cfg.pinned rep x d = !(getM Cfg.pinned Rep.simple x d).isEmpty ∧
    (rep.ok ≠ OKind.struct → firstMach Cfg.pinned rep x d = (getM Cfg.pinned Rep.simple x d).head?) := by
  have h := C11_typed_first_has_current rep hty x d ht
  rwa [typedView_noSlice x hns] at h

/-- non-trivial instances: `$..a[1:3][?]` viewed is `$..a[1][?]`; `$[::0]` viewed selects nothing; the
hypotheses hold for `⟨typed slice, typed map⟩` and `$..a[*].b` -/
example : (AK.typed (Rep.ak ⟨.rslice, .rmap⟩) = true) ∧ (Rep.ok ⟨.rslice, .rmap⟩ ≠ OKind.struct) ∧
    endsInDescent [.descent, .child [97], .wild, .child [98]] = false ∧
    [Frag.descent, .child [97], .wild, .child [98]].all (fun f => match f with | .slice _ _ _ => false | _ => true) = true := by
  decide

/-! ## History: the model evaluators are functions of (path, data)

A parsed `jp.Expr` is a Go value that callers keep and reuse; an evaluator that wrote into it (seeded C11-m7:
`Filter.withRoot` rooting the caller's filter in place, so that `Get(docB)` after `Locate(docA)` read `$` from
docA) would make the answer depend on the calls made before. **Nothing in the Lean model can express that**: the
model evaluators take the path as a value and return only results. The statement below records exactly this —
in the model a sequence of calls on one path is answered call by call — so that it is clear what the theorems of
this file do *not* cover: that the Go evaluators leave the Expr alone is checked by the run (stream `history`:
one parsed Expr, a sequence of calls over three documents, each compared with a freshly parsed Expr) and by
the tripwire `exprNotWritten` of `pinned_is_source`. -/

/-- an evaluator call -/
inductive Call where
  | get | first | has | locate | walk | nodes | firstnode
  deriving DecidableEq

/-- what a call answers in the model (for the code as it is now; the machines / recursive programs) -/
structure Ans where
  vals : List JV := []
  located : List (Path × JV) := []
  found : Option JV := none
  has : Bool := false

def answerOf (rep : Rep) (x : List Frag) (c : Call) (d : JV) : Ans :=
  match c with
  | .get => { vals := getM Cfg.pinned rep x d }
  | .first => { found := firstMach Cfg.pinned rep x d }
  | .has => { has := hasMach Cfg.pinned rep x d }
  | .locate => { located := locateRec Cfg.pinned rep x 0 d }
  | .walk => { located := walkRecM Cfg.pinned rep x d }
  | .nodes => { vals := nodesM Cfg.pinned x d }
  | .firstnode => { found := firstNodeM Cfg.pinned x d }

/-- one path value through a sequence of calls on any documents: the model has no state to carry -/
def answerAll (rep : Rep) (x : List Frag) : List (Call × JV) → List Ans
  | [] => []
  | (c, d) :: r => answerOf rep x c d :: answerAll rep x r

/-- **history independence of the model** (by construction — see the section comment for what this does and
does not say): the answer to the `i`-th call depends on that call's evaluator and document only -/
theorem model_history_independent (rep : Rep) (x : List Frag) (h : List (Call × JV)) :
    answerAll rep x h = h.map fun cd => answerOf rep x cd.1 cd.2 := by
  induction h with
  | nil => rfl
  | cons a t ih => obtain ⟨c, d⟩ := a; simp [answerAll, ih]

/-! ## The model of the current code is the current code's -/

/-- A **regression tripwire**, not a proof about the code: `Gen.JpathFacts` holds one Bool per deviation,
computed by the extractor by searching the printed function bodies of jp/*.go for the line a repair put in or
took out (tools/extract/jpath.go); this theorem is `decide` over those Bools. It says `Cfg.pinned` carries
exactly the deviations whose tell-tale lines are in the source now, so undoing a repair (or repairing one of
the pinned deviations) breaks the build. That the model matches the code otherwise is the run's business. -/
theorem pinned_is_source :
    Cfg.pinned.innerEmptySlice = Gen.JpathFacts.innerEmptySlice ∧
    Cfg.pinned.descentSiblings = Gen.JpathFacts.descentSiblings ∧
    Cfg.pinned.locNegEnd = Gen.JpathFacts.locNegEnd ∧
    Cfg.pinned.locStartClamp = Gen.JpathFacts.locStartClamp ∧
    Cfg.pinned.locEmptyArray = Gen.JpathFacts.locEmptyArray ∧
    Cfg.pinned.locateRoot = Gen.JpathFacts.locateRoot ∧
    Cfg.pinned.walkDescentNoSelf = Gen.JpathFacts.walkDescentNoSelf ∧
    Cfg.pinned.nodesUnionNil = Gen.JpathFacts.nodesUnionNil ∧
    Cfg.pinned.nodesFilterRev = Gen.JpathFacts.nodesFilterRev ∧
    Cfg.pinned.firstNodeLast = Gen.JpathFacts.firstNodeLast ∧
    Cfg.pinned.nodesFilterNull = Gen.JpathFacts.nodesFilterNull ∧
    Cfg.pinned.typedMapWild = Gen.JpathFacts.typedMapWild ∧
    Cfg.pinned.typedObjFilter = Gen.JpathFacts.typedObjFilter ∧
    Cfg.pinned.firstTypedSlice = Gen.JpathFacts.firstTypedSlice ∧
    Cfg.pinned.firstTypedWildOne = Gen.JpathFacts.firstTypedWildOne ∧
    Cfg.pinned.hasTypedMap = Gen.JpathFacts.hasTypedMap ∧
    Cfg.pinned.hasTypedDescent = Gen.JpathFacts.hasTypedDescent ∧
    Cfg.pinned.walkTypedArray = Gen.JpathFacts.walkTypedArray ∧
    Cfg.pinned.nestedFilterRoot = Gen.JpathFacts.nestedFilterRoot ∧
    Cfg.pinned.locFilterRootNil = Gen.JpathFacts.locFilterRootNil ∧
    Cfg.pinned.walkFilterRootSelf = Gen.JpathFacts.walkFilterRootSelf ∧
    -- not a flag: Get, FirstFound, Has, GetNodes and FirstNode hand their own argument to a filter as its root
    Gen.JpathFacts.filterRootIsArgument = true ∧
    -- not a flag: no evaluator (nor Filter.withRoot / Expr.rootedFilters / nestedRoot) writes through the Expr or
    -- Filter it is given; rooting a filter makes a new one (seeded C11-m7 rooted the caller's filter in place)
    Gen.JpathFacts.exprNotWritten = true ∧
    -- not flags (mixed data and pointers are outside the model): the descent case of Get, FirstFound and Has gives
    -- every member it pushes a marker of its own (172dffb), a filter follows a pointer (46bed20)
    Gen.JpathFacts.descentMarkerMissing = false ∧
    Gen.JpathFacts.filterPointerBlind = false := by decide

end OjgVerif.C11
