import OjgVerif.Props.C05
/-! # C11 — every JSONPath evaluator and data representation agrees with Get

All evaluators are the shared skeleton `evalSel` over per-evaluator selection functions transcribed from
get.go (FirstFound), has.go, the `locate`/`Walk` methods, node.go; for `Get` the skeleton is proved equal
to the work-list machine (C05.machine_eq_skeleton), for the others it is tied by the correspondence run.
The theorems reduce agreement to equalities of selection functions (index arithmetic).

Deviations of the pinned code are flags of `Cfg`; every theorem is parametric in the configuration and
names the flags it needs off (they are off in `Cfg.fixed`, the code after the proposed fixes). -/
set_option linter.unusedSimpArgs false
namespace OjgVerif.C11
open OjgVerif OjgVerif.JPath

/-! ## First / FirstFound -/

/-- **FirstFound returns the first of Get's results** (every configuration, every path, every tree) -/
theorem C11_first (cfg : Cfg) (x : List Frag) (d : JV) :
    firstM cfg Rep.simple x d = (getM cfg Rep.simple x d).head? := by
  rw [C05.machine_eq_skeleton cfg Rep.simple (C05.simple_not_cut cfg)]
  simp only [firstM, getS, List.head?_map]
  congr 1
  apply evalSel_head_congr' (First.sel cfg Rep.simple) (Get.sel cfg Rep.simple) cfg.descentSiblings
  · intro f v; exact first_inner cfg f v
  · rfl
  · intro f v
    simp only [First.sel, Get.sel]
    rw [first_last, head?_take_one]

/-! ## Has -/

/-- **Has is true exactly when Get is non-empty** — for the pinned code where no descent follows another
fragment directly (`descentSiblings`: Get's `default:` case sets the descent flag for a non-container
that a filter handed on, Has has no such case), for the repaired code always -/
theorem C11_has (cfg : Cfg) (x : List Frag) (d : JV)
    (hs : cfg.descentSiblings = false ∨ noDescAfter x = true) :
    hasM cfg Rep.simple x d = !(getM cfg Rep.simple x d).isEmpty := by
  rw [C05.machine_eq_skeleton cfg Rep.simple (C05.simple_not_cut cfg)]
  have h := evalSel_head_congr (Has.sel cfg Rep.simple) (Get.sel cfg Rep.simple) cfg.descentSiblings
    (by intro f v; simp only [Has.sel]; rw [has_inner, first_inner])
    (by intro f v; simp only [Has.sel, Get.sel]; rw [first_last, head?_take_one]) x d hs
  simp only [hasM, getS]
  cases h1 : evalSel (Has.sel cfg Rep.simple) cfg.descentSiblings x d with
  | nil =>
    cases h2 : evalSel (Get.sel cfg Rep.simple) cfg.descentSiblings x d with
    | nil => simp
    | cons b t => rw [h1, h2] at h; simp at h
  | cons a s =>
    cases h2 : evalSel (Get.sel cfg Rep.simple) cfg.descentSiblings x d with
    | nil => rw [h1, h2] at h; simp at h
    | cons b t => simp

/-- non-trivial instance of the hypothesis of `C11_has` for the pinned code: `$..a[0][?]` -/
example : Cfg.pinned.descentSiblings = false ∨
    noDescAfter [.descent, .child [97], .nth 0, .filter (fun _ => true)] = true := Or.inr (by decide)

theorem C11_has_fixed (x : List Frag) (d : JV) :
    hasM Cfg.fixed Rep.simple x d = !(getM Cfg.fixed Rep.simple x d).isEmpty :=
  C11_has Cfg.fixed x d (Or.inl rfl)

def C11_has_full : Prop :=
  ∀ (x : List Frag) (d : JV), hasM Cfg.pinned Rep.simple x d = !(getM Cfg.pinned Rep.simple x d).isEmpty

/-- `$[?(true)]..a` on `[1,[{"a":5}]]`: Get hands the leaf `1` to the descent first, which sets the flag on
the shared marker, and `[{"a":5}]` is not descended into; Has drops the leaf without setting the flag -/
def w4path : List Frag := [.filter (fun _ => true), .descent, .child [97]]
def w4data : JV := .arr [.int 1, .arr [.obj [([97], .int 5)]]]

theorem C11_has_full_false : ¬ C11_has_full := by
  intro h
  have h1 := h w4path w4data
  have h2 : hasM Cfg.pinned Rep.simple w4path w4data = true := by decide
  have h3 : (getM Cfg.pinned Rep.simple w4path w4data).isEmpty = true := by decide
  rw [h2, h3] at h1
  simp at h1

/-! ## Locate and Expr.Walk

The model reports (normalized path, value); a normalized path is a list of member names and absolute
indexes by construction (`Path = List Loc`). With the flags of slice.go `startEndStep` off (and, for
Walk, `walkDescentNoSelf`) both report exactly the locations the path denotes, hence — by
`C05.C05_located` — exactly the locations of Get's results; as multisets: Locate visits a descent parents
first and a filter back to front, Get children first and front to back. -/

theorem C11_locate (cfg : Cfg) (hn : cfg.locNegEnd = false) (hc : cfg.locStartClamp = false)
    (x : List Frag) (d : JV) (hx : x ≠ [] ∨ cfg.locateRoot = false)
    (ht : endsInDescent x = false) (hz : (jsize d : Int) ≤ maxEnd) :
    (locateM cfg Rep.simple x d).Perm (eval x d) ∧ Locate.fault cfg Rep.simple x d = false := by
  refine ⟨?_, locate_fault cfg hn hc x d⟩
  cases x with
  | nil =>
    rcases hx with h | h
    · exact absurd rfl h
    · simp [locateM, h, eval]
  | cons f r => exact locate_perm_eval cfg hn hc (f :: r) d ht hz

/-- Locate against Get itself (the property's own comparison) -/
theorem C11_locate_get (cfg : Cfg) (hn : cfg.locNegEnd = false) (hc : cfg.locStartClamp = false)
    (x : List Frag) (d : JV) (hx : x ≠ [] ∨ cfg.locateRoot = false)
    (hs : cfg.descentSiblings = false ∨ noDescAfter x = true)
    (he : cfg.innerEmptySlice = false ∨ x.dropLast.all narrow = true)
    (ht : endsInDescent x = false) (hz : (jsize d : Int) ≤ maxEnd) :
    (locateM cfg Rep.simple x d).Perm (getS cfg Rep.simple x d) := by
  rw [C05.C05_located cfg x d hs he ht hz]
  exact (C11_locate cfg hn hc x d hx ht hz).1

theorem C11_walk (cfg : Cfg) (hn : cfg.locNegEnd = false) (hc : cfg.locStartClamp = false)
    (hw : cfg.walkDescentNoSelf = false) (x : List Frag) (d : JV)
    (ht : endsInDescent x = false) (hz : (jsize d : Int) ≤ maxEnd) :
    (walkM cfg Rep.simple x d).Perm (eval x d) :=
  walk_perm_eval cfg hn hc hw x d ht hz

theorem C11_walk_get (cfg : Cfg) (hn : cfg.locNegEnd = false) (hc : cfg.locStartClamp = false)
    (hw : cfg.walkDescentNoSelf = false) (x : List Frag) (d : JV)
    (hs : cfg.descentSiblings = false ∨ noDescAfter x = true)
    (he : cfg.innerEmptySlice = false ∨ x.dropLast.all narrow = true)
    (ht : endsInDescent x = false) (hz : (jsize d : Int) ≤ maxEnd) :
    (walkM cfg Rep.simple x d).Perm (getS cfg Rep.simple x d) := by
  rw [C05.C05_located cfg x d hs he ht hz]
  exact C11_walk cfg hn hc hw x d ht hz

/-- non-trivial instances of the hypotheses of `C11_locate_get` / `C11_walk_get`: the repaired
configuration satisfies the flag hypotheses, `$.a[1:3]..b` the path hypotheses -/
example : Cfg.fixed.locNegEnd = false ∧ Cfg.fixed.locStartClamp = false ∧ Cfg.fixed.walkDescentNoSelf = false ∧
    endsInDescent [.child [97], .slice (some 1) (some 3) none, .descent, .child [98]] = false := by decide

/-- after the proposed fixes: every path not ending in a bare descent -/
theorem C11_locate_walk_fixed (x : List Frag) (d : JV) (ht : endsInDescent x = false)
    (hz : (jsize d : Int) ≤ maxEnd) :
    (locateM Cfg.fixed Rep.simple x d).Perm (getS Cfg.fixed Rep.simple x d) ∧
    (walkM Cfg.fixed Rep.simple x d).Perm (getS Cfg.fixed Rep.simple x d) :=
  ⟨C11_locate_get Cfg.fixed rfl rfl x d (Or.inr rfl) (Or.inl rfl) (Or.inl rfl) ht hz,
   C11_walk_get Cfg.fixed rfl rfl rfl x d (Or.inl rfl) (Or.inl rfl) ht hz⟩

def C11_locate_full : Prop :=
  ∀ (x : List Frag) (d : JV), endsInDescent x = false → (jsize d : Int) ≤ maxEnd →
    (locateM Cfg.pinned Rep.simple x d).Perm (getS Cfg.pinned Rep.simple x d)

/-- `$[0:-1]` on `[1,2,3]`: Locate reports three locations, Get two elements -/
def w5path : List Frag := [.slice (some 0) (some (-1)) none]
def w5data : JV := .arr [.int 1, .int 2, .int 3]

theorem C11_locate_full_false : ¬ C11_locate_full := by
  intro h
  have h1 := (h w5path w5data (by decide) (by decide)).length_eq
  have h2 : (locateM Cfg.pinned Rep.simple w5path w5data).length = 3 := by decide
  have h3 : (getS Cfg.pinned Rep.simple w5path w5data).length = 2 := by decide
  omega

def C11_walk_full : Prop :=
  ∀ (x : List Frag) (d : JV), endsInDescent x = false → (jsize d : Int) ≤ maxEnd →
    (walkM Cfg.pinned Rep.simple x d).Perm (getS Cfg.pinned Rep.simple x d)

/-- `$..a` on `{"a":1}`: Walk reports nothing -/
def w6path : List Frag := [.descent, .child [97]]
def w6data : JV := .obj [([97], .int 1)]

theorem C11_walk_full_false : ¬ C11_walk_full := by
  intro h
  have h1 := (h w6path w6data (by decide) (by decide)).length_eq
  have h2 : (walkM Cfg.pinned Rep.simple w6path w6data).length = 0 := by decide
  have h3 : (getS Cfg.pinned Rep.simple w6path w6data).length = 1 := by decide
  omega

/-! ## GetNodes, FirstNode (gen data) and Get on other representations -/

theorem gen_not_cut (cfg : Cfg) : (cfg.typedMapWild && decide (Rep.gen.ok = OKind.rmap)) = false := by
  cases cfg.typedMapWild <;> rfl

/-- **GetNodes is Get on gen data** (node.go's flags and `innerEmptySlice` off, and no descent after a
fragment while `descentSiblings` is on: node.go's descent has no case for a non-container) -/
theorem C11_nodes (cfg : Cfg) (he : cfg.innerEmptySlice = false) (hu : cfg.nodesUnionNil = false)
    (hr : cfg.nodesFilterRev = false) (hz : cfg.nodesFilterNull = false) (x : List Frag) (d : JV)
    (hs : cfg.descentSiblings = false ∨ noDescAfter x = true) :
    nodesM cfg x d = getM cfg Rep.gen x d := by
  rw [C05.machine_eq_skeleton cfg Rep.gen (gen_not_cut cfg)]
  simp only [nodesM, getS]
  rw [evalSel_congr (Nodes.sel cfg) (Get.sel cfg Rep.gen) cfg.descentSiblings
    (fun f v => nodes_inner cfg he hz f v) (fun f v => nodes_last cfg hu hr hz f v) x d hs]

/-- FirstNode returns the first of GetNodes' results (flags `firstNodeLast`, `nodesUnionNil`,
`nodesFilterRev` off) -/
theorem C11_firstnode (cfg : Cfg) (hl : cfg.firstNodeLast = false) (hu : cfg.nodesUnionNil = false)
    (hr : cfg.nodesFilterRev = false) (x : List Frag) (d : JV) :
    firstNodeM cfg x d = (nodesM cfg x d).head? := by
  simp only [firstNodeM, nodesM, List.head?_map]
  congr 1
  apply evalSel_head_congr' (FirstNode.sel cfg) (Nodes.sel cfg) cfg.descentSiblings
  · intro f v; rfl
  · rfl
  · intro f v
    simp only [FirstNode.sel, Nodes.sel]
    rw [firstNode_last cfg hl hu hr, head?_take_one]

/-- **Get on gen nodes selects the corresponding elements** (`innerEmptySlice` off: get.go clamps the end
of a `gen.Array` slice for a positive step only, which moves the deviation) -/
theorem C11_repr_gen (cfg : Cfg) (he : cfg.innerEmptySlice = false) (x : List Frag) (d : JV) :
    getM cfg Rep.gen x d = getM cfg Rep.simple x d := by
  rw [C05.machine_eq_skeleton cfg Rep.gen (gen_not_cut cfg),
    C05.machine_eq_skeleton cfg Rep.simple (C05.simple_not_cut cfg)]
  simp only [getS]
  rw [evalSel_congr' (Get.sel cfg Rep.gen) (Get.sel cfg Rep.simple) cfg.descentSiblings
    (fun f v => get_inner_gen cfg he f v) rfl (fun f v => get_last_gen cfg f v) x d]

/-- **Get on user Indexed/Keyed collections selects the corresponding elements** (every configuration) -/
theorem C11_repr_user (cfg : Cfg) (x : List Frag) (d : JV) :
    getM cfg ⟨.indexed, .keyed⟩ x d = getM cfg Rep.simple x d := by
  have hcut : (cfg.typedMapWild && decide ((⟨.indexed, .keyed⟩ : Rep).ok = OKind.rmap)) = false := by
    cases cfg.typedMapWild <;> rfl
  rw [C05.machine_eq_skeleton cfg _ hcut, C05.machine_eq_skeleton cfg Rep.simple (C05.simple_not_cut cfg)]
  simp only [getS]
  rw [evalSel_congr' (Get.sel cfg ⟨.indexed, .keyed⟩) (Get.sel cfg Rep.simple) cfg.descentSiblings _ rfl _ x d]
  · intro f v
    cases f with
    | wild => cases v <;> simp [Get.sel, Get.push, Get.wildKids, Rep.simple]
    | filter p => cases v <;> simp [Get.sel, Get.push, Get.filterKids, Rep.simple, OKind.typed]
    | descent => simp [Get.sel, Get.push, hcut, C05.simple_not_cut cfg]
    | slice s e t => cases v <;> simp [Get.sel, Get.push, Get.slicePush, Get.normFor, Rep.simple, AK.typed]
    | _ => rfl
  · intro f v
    cases f with
    | wild => cases v <;> simp [Get.sel, Get.last, Get.wildKids, Rep.simple]
    | filter p => cases v <;> simp [Get.sel, Get.last, Get.filterKids, Rep.simple, OKind.typed]
    | slice s e t => cases v <;> simp [Get.sel, Get.last, Get.sliceLast, Get.normFor, Rep.simple]
    | _ => rfl

def C11_nodes_full : Prop := ∀ (x : List Frag) (d : JV), nodesM Cfg.pinned x d = getM Cfg.pinned Rep.gen x d

/-- `$[5]`-style union `$[5,0]` on `[7]`: GetNodes returns a nil and the element -/
def w7path : List Frag := [.union [.idx 5, .idx 0]]
def w7data : JV := .arr [.int 7]

theorem C11_nodes_full_false : ¬ C11_nodes_full := by
  intro h
  have h1 := congrArg List.length (h w7path w7data)
  have h2 : (nodesM Cfg.pinned w7path w7data).length = 2 := by decide
  have h3 : (getM Cfg.pinned Rep.gen w7path w7data).length = 1 := by decide
  omega

end OjgVerif.C11
