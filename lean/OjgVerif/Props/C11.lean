import OjgVerif.Props.C05
/-! # C11 — every JSONPath evaluator and data representation agrees with Get

All evaluators are the shared skeleton `evalSel` over per-evaluator selection functions transcribed from
get.go (FirstFound), has.go, the `locate`/`Walk` methods, node.go; for `Get` the skeleton is proved equal
to the work-list machine (C05.machine_eq_skeleton), for the others it is tied by the correspondence run.
The theorems reduce agreement to equalities of selection functions (index arithmetic).

Deviations of the pinned code are flags of `Cfg`; every theorem is parametric in the configuration and
names the flags it needs off (they are off in `Cfg.fixed`, the code after the proposed fixes). -/
namespace OjgVerif.C11
open OjgVerif OjgVerif.JPath

/-! ## First / FirstFound -/

/-- **FirstFound returns the first of Get's results** (every configuration, every path, every tree) -/
theorem C11_first (cfg : Cfg) (x : List Frag) (d : JV) :
    firstM cfg Rep.simple x d = (getM cfg Rep.simple x d).head? := by
  rw [C05.machine_eq_skeleton cfg Rep.simple (C05.simple_not_cut cfg)]
  simp only [firstM, getS, List.head?_map]
  congr 1
  apply evalSel_head_congr' (First.sel cfg Rep.simple) (Get.sel cfg Rep.simple) cfg.descentSiblings
  · intro f v; exact first_inner cfg f v
  · rfl
  · intro f v
    simp only [First.sel, Get.sel]
    rw [first_last, head?_take_one]

/-! ## Has -/

/-- **Has is true exactly when Get is non-empty** — for the pinned code where no descent follows another
fragment directly (`descentSiblings`: Get's `default:` case sets the descent flag for a non-container
that a filter handed on, Has has no such case), for the repaired code always -/
theorem C11_has (cfg : Cfg) (x : List Frag) (d : JV)
    (hs : cfg.descentSiblings = false ∨ noDescAfter x = true) :
    hasM cfg Rep.simple x d = !(getM cfg Rep.simple x d).isEmpty := by
  rw [C05.machine_eq_skeleton cfg Rep.simple (C05.simple_not_cut cfg)]
  have h := evalSel_head_congr (Has.sel cfg Rep.simple) (Get.sel cfg Rep.simple) cfg.descentSiblings
    (by intro f v; simp only [Has.sel]; rw [has_inner, first_inner])
    (by intro f v; simp only [Has.sel, Get.sel]; rw [first_last, head?_take_one]) x d hs
  simp only [hasM, getS]
  cases h1 : evalSel (Has.sel cfg Rep.simple) cfg.descentSiblings x d with
  | nil =>
    cases h2 : evalSel (Get.sel cfg Rep.simple) cfg.descentSiblings x d with
    | nil => simp
    | cons b t => rw [h1, h2] at h; simp at h
  | cons a s =>
    cases h2 : evalSel (Get.sel cfg Rep.simple) cfg.descentSiblings x d with
    | nil => rw [h1, h2] at h; simp at h
    | cons b t => simp

theorem C11_has_fixed (x : List Frag) (d : JV) :
    hasM Cfg.fixed Rep.simple x d = !(getM Cfg.fixed Rep.simple x d).isEmpty :=
  C11_has Cfg.fixed x d (Or.inl rfl)

def C11_has_full : Prop :=
  ∀ (x : List Frag) (d : JV), hasM Cfg.pinned Rep.simple x d = !(getM Cfg.pinned Rep.simple x d).isEmpty

/-- `$[?(true)]..a` on `[1,[{"a":5}]]`: Get hands the leaf `1` to the descent first, which sets the flag on
the shared marker, and `[{"a":5}]` is not descended into; Has drops the leaf without setting the flag -/
def w4path : List Frag := [.filter (fun _ => true), .descent, .child [97]]
def w4data : JV := .arr [.int 1, .arr [.obj [([97], .int 5)]]]

theorem C11_has_full_false : ¬ C11_has_full := by
  intro h
  have h1 := h w4path w4data
  have h2 : hasM Cfg.pinned Rep.simple w4path w4data = true := by decide
  have h3 : (getM Cfg.pinned Rep.simple w4path w4data).isEmpty = true := by decide
  rw [h2, h3] at h1
  simp at h1

end OjgVerif.C11
