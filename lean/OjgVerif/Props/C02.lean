import OjgVerif.Json.NumLemmas
import OjgVerif.Json.Driver
import OjgVerif.Props.C01
/-! # C02 — parsed values denote exactly what the JSON text denotes

What is proved here (the numeric core, where the defects were):
* `int_exact` / `plain_int_is_int64`: feeding the digits of an integer literal through `AddDigit`
  under `uint64` wrap-around arithmetic never wraps; if the value fits int64 the result is the int64
  equal to the literal (never a float or text), otherwise the number is in text form;
* `addFrac_inv`, `addExp_inv`: the fraction and exponent accumulators hold exactly the digits read
  (`Div = 10^k`, `k ≤ 18`, `Exp ≤ 1022`) as long as the number is not in text form;
* `natOf_fmtNat`: the model of `strconv.FormatUint` used by `FillBig` writes digits that denote the
  accumulator's value;
* the machine over the regenerated tables is the reference automaton (C01), so these statements are
  about what oj/gen actually dispatch to.
The full denotation statement (strings with escapes, objects, arrays, float/big-number text equal in
value to the literal) is decided by the correspondence run against `Json/Spec.lean`; it is not yet a
theorem. Two clauses of the property are FALSE on the current tree and are recorded as known
findings, with refutation witnesses below. -/
namespace OjgVerif.C02
open OjgVerif OjgVerif.Json

/-- a plain integer literal whose magnitude fits int64 comes back as exactly that int64 -/
theorem plain_int_is_int64 (ds : Bytes) (neg : Bool) (hds : ∀ d ∈ ds, isDigitB d)
    (hfit : natOf ds ≤ 9223372036854775807) :
    ({ (ds.foldl Num.addDigit {}) with neg := neg }).asNum =
      .int (if neg then -(natOf ds : Int) else (natOf ds : Int)) := by
  obtain ⟨hbig, hi⟩ := (int_exact ds hds).1 hfit
  have hdiv := foldl_addDigit_frame ds {}
  unfold Num.asNum
  simp only [hbig, List.length_nil, Nat.lt_irrefl, ↓reduceIte, hdiv.1, hdiv.2]
  have hlt : (ds.foldl Num.addDigit {}).i.toNat < 9223372036854775808 := by omega
  have h64 : toInt64 (ds.foldl Num.addDigit {}).i = (natOf ds : Int) := by
    unfold toInt64; rw [if_pos hlt, hi]
  simp only [decide_true, Bool.and_self, ↓reduceIte, h64]
  cases neg with
  | false => simp
  | true =>
    have : (natOf ds : Int) ≠ -9223372036854775808 := by omega
    simp [negInt64, this]

/-- non-vacuity: `9223372036854775807` meets the hypotheses -/
example : natOf [57,50,50,51,51,55,50,48,51,54,56,53,52,55,55,53,56,48,55] ≤ 9223372036854775807 := by decide

/-! ## Clauses that are false on the current tree (known findings) -/

/-- C02 for plain integers, for every configuration of the machine: a digit string that fits int64
comes back as `I(<value>)` -/
def plain_int_full : Prop :=
  ∀ (cfg : Cfg) (ds : Bytes), (∀ d ∈ ds, isDigitB d) → ds ≠ [] → ds.head? ≠ some 48 →
    natOf ds ≤ 9223372036854775807 →
    renderRun (run refTables cfg [ds]) = "ok I(" ++ toString (natOf ds) ++ ")"

/-- known finding C02-int19: with the parsers' integer fast loop (pinned by the suite) the literal
9223372036854775807 comes back as big-number text -/
theorem plain_int_full_false : ¬ plain_int_full := by
  intro h
  have := h { fastInt := true } [57,50,50,51,51,55,50,48,51,54,56,53,52,55,55,53,56,48,55]
    (by intro d hd; simp only [List.mem_cons, List.not_mem_nil, or_false] at hd
        rcases hd with h | h | h | h | h | h | h | h | h | h | h | h | h | h | h | h | h | h | h <;>
          (subst h; exact ⟨by decide, by decide⟩))
    (by decide) (by decide) (by decide)
  revert this
  decide +kernel

/-- known finding C02-surrogate: `"😀"` is decoded as two U+FFFD by the machine, as one
U+1F600 by the specification -/
theorem surrogate_pair_deviation :
    renderRun (run refTables {} [[34, 92,117,100,56,51,100, 92,117,100,101,48,48, 34]]) = "ok S(efbfbdefbfbd)" ∧
    (match Spec.parseDoc [34, 92,117,100,56,51,100, 92,117,100,101,48,48, 34] with
      | .one v => v.render
      | _ => "") = "S(f09f9880)" := by
  constructor <;> decide +kernel

end OjgVerif.C02
