import OjgVerif.Json.BufMain
import OjgVerif.Json.BufTok
import OjgVerif.Props.C01Lang
import OjgVerif.Props.C03Fast
import OjgVerif.Props.C06
import OjgVerif.Props.C09Viable
/-! # The Go fast paths under the theorems (C01, C03, C06, C09 for the buffer-level model)

`Json/BufModel.lean` transcribes ONE call of `(*oj.Parser).parseBuffer` on one read buffer, with the
whitespace skip, the string scan, the literal look-ahead, the integer loop and the fraction loop, their
buffer-end guards, Go's stale range-loop variables and partial slice expressions. `Json.runBuf_eq_fold`
(`Json/BufMain.lean`) shows that such a call is the fold of the byte-at-a-time `step` over the buffer.
Here the property theorems are transferred to the entry points over the buffer-level model (`runB`). -/
namespace OjgVerif.C01
open OjgVerif OjgVerif.Json

/-- oj.Parser, buffer level = byte level: every configuration with the parsers' integer loop, every
input, every chunking — same documents and values, or the same error at the same position -/
theorem oj_buf_is_machine (cfg : Cfg) (h : cfg.fastInt = true) (chunks : List Bytes) :
    runB ojTables cfg FP.all chunks = run ojTables cfg chunks :=
  runB_eq_run ojTables_ok cfg FP.all h chunks

/-- the same transcription over the gen tables (gen.Parser.parseBuffer has the same fast paths) -/
theorem gen_buf_is_machine (cfg : Cfg) (h : cfg.fastInt = true) (chunks : List Bytes) :
    runB genTables cfg FP.all chunks = run genTables cfg chunks :=
  runB_eq_run genTables_ok cfg FP.all h chunks

/-- a transcription with any subset of the fast paths (the integer loop is tied to the configuration) -/
theorem buf_is_machine_of_tablesOK {T : Tables} (hT : TablesOK T) (cfg : Cfg) (fp : FP)
    (h : cfg.fastInt = fp.int) (chunks : List Bytes) : runB T cfg fp chunks = run T cfg chunks :=
  runB_eq_run hT cfg fp h chunks

/-- **C01 at buffer level**: `oj.Parse` with all its fast paths accepts exactly the blank texts and
the single RFC 8259 texts (behind an optional BOM) -/
theorem oj_parser_buf_accepts_spec (bs : Bytes) :
    (toOpt (runB ojTables cfgP FP.all [bs])).isSome = Spec.accepts bs := by
  rw [oj_buf_is_machine cfgP rfl]; exact oj_parser_accepts_spec bs

/-- … and `oj.ParseReader`, whatever the reader's chunking -/
theorem oj_parser_buf_reader_accepts_spec (chunks : List Bytes) :
    (toOpt (runB ojTables cfgPR FP.all chunks)).isSome = Spec.accepts chunks.flatten := by
  rw [oj_buf_is_machine cfgPR rfl]; exact oj_parser_reader_accepts_spec chunks

/-- oj.Validator, buffer level (`Json/BufModelV.lean`: its own string scan — no guard, `i = 0`,
`b == '"' && 0 < i` —, `i = 0` before the skip loop of `numNewline`, the parser's whitespace skip and
literal look-ahead, no digit loops) = byte level -/
theorem oj_validator_buf_is_machine (cfg : Cfg) (h : cfg.fastInt = false) (chunks : List Bytes) :
    runBV ojTables cfg chunks = run ojTables cfg chunks :=
  runBV_eq_run ojTables_ok cfg h chunks

/-- oj.Tokenizer, buffer level (the parser's fast paths, with the integer loop in which `AddDigit`
decides at the limit) = byte level -/
theorem oj_tokenizer_buf_is_machine (cfg : Cfg) (h : cfg.fastInt = false) (chunks : List Bytes) :
    runBT ojTables cfg chunks = run ojTables cfg chunks :=
  runBT_eq_run ojTables_ok cfg h chunks

/-- **C01 at buffer level for oj.Validate / oj.ValidateReader and oj.Tokenizer** -/
theorem oj_validator_buf_accepts_spec (bs : Bytes) :
    (toOpt (runBV ojTables cfg1 [bs])).isSome = Spec.accepts bs := by
  rw [oj_validator_buf_is_machine cfg1 rfl]; exact oj_accepts_spec bs

theorem oj_validator_buf_reader_accepts_spec (chunks : List Bytes) :
    (toOpt (runBV ojTables cfgR chunks)).isSome = Spec.accepts chunks.flatten := by
  rw [oj_validator_buf_is_machine cfgR rfl]; exact oj_reader_accepts_spec chunks

theorem oj_tokenizer_buf_accepts_spec (bs : Bytes) :
    (toOpt (runBT ojTables cfg1 [bs])).isSome = Spec.accepts bs := by
  rw [oj_tokenizer_buf_is_machine cfg1 rfl]; exact oj_accepts_spec bs

theorem oj_tokenizer_buf_reader_accepts_spec (chunks : List Bytes) :
    (toOpt (runBT ojTables cfgR chunks)).isSome = Spec.accepts chunks.flatten := by
  rw [oj_tokenizer_buf_is_machine cfgR rfl]; exact oj_reader_accepts_spec chunks

example : (toOpt (runBV ojTables cfgR [[91, 34], [34, 44, 34, 97], [34, 44, 10], [32, 49, 93]])).isSome = true := by
  decide +kernel

-- non-vacuity: the buffer model on a document that takes every fast path, cut inside a string, a
-- literal and a number
example : (toOpt (runB ojTables cfgPR FP.all
    [[123, 34, 97], [98, 34, 58, 91, 116, 114], [117, 101, 44, 10, 32, 32, 49, 50],
     [46, 53, 44, 110, 117, 108, 108, 93, 125]])).isSome = true := by
  decide +kernel

end OjgVerif.C01

namespace OjgVerif.C06
open OjgVerif OjgVerif.Json

/-- **C06 at buffer level, NO INDEX OR SLICE OUT OF RANGE in the fast paths**: the buffer-level model
keeps every slice expression of `parseBuffer` partial (`sliceOf`; the outcome of an out-of-range slice
is an error of kind `fault`), and no call, on any input under any chunking, ends in a fault -/
theorem oj_buf_no_fault (cfg : Cfg) (hc : cfg.fastInt = true) (chunks : List Bytes) (e : Err)
    (h : runB ojTables cfg FP.all chunks = .error e) : e.kind.isFault = false := by
  rw [C01.oj_buf_is_machine cfg hc] at h
  exact oj_no_fault cfg chunks e h

theorem buf_no_fault_of_tablesOK {T : Tables} (hT : TablesOK T) (cfg : Cfg) (fp : FP) (hc : cfg.fastInt = fp.int)
    (chunks : List Bytes) (e : Err) (h : runB T cfg fp chunks = .error e) : e.kind.isFault = false := by
  rw [runB_eq_run hT cfg fp hc] at h
  exact no_fault_of_tablesOK hT cfg chunks e h

/-- the same for the validator's and the tokenizer's buffer-level models -/
theorem oj_validator_buf_no_fault (cfg : Cfg) (hc : cfg.fastInt = false) (chunks : List Bytes) (e : Err)
    (h : runBV ojTables cfg chunks = .error e) : e.kind.isFault = false := by
  rw [C01.oj_validator_buf_is_machine cfg hc] at h
  exact oj_no_fault cfg chunks e h

theorem oj_tokenizer_buf_no_fault (cfg : Cfg) (hc : cfg.fastInt = false) (chunks : List Bytes) (e : Err)
    (h : runBT ojTables cfg chunks = .error e) : e.kind.isFault = false := by
  rw [C01.oj_tokenizer_buf_is_machine cfg hc] at h
  exact oj_no_fault cfg chunks e h

/-- the fault outcome is really there in the model: a slice beyond the buffer is `none` -/
example : sliceOf [1, 2, 3] 2 5 = none := by decide

end OjgVerif.C06

namespace OjgVerif.C03
open OjgVerif OjgVerif.Json

/-- **C03 at buffer level**: `oj.ParseReader` with all its fast paths gives the same outcome for a
chunking and for the whole input in one buffer — where the buffer boundaries fall (inside a string, a
literal, a number, behind a newline) does not matter — with the exact exclusion of known finding C03-int19 -/
theorem oj_parser_buf_chunks_irrelevant (chunks : List Bytes)
    (h1 : NoHitCall true chunks) (h2 : NoHitCall true [chunks.flatten]) :
    runB ojTables (cfgParser true) FP.all chunks = runB ojTables (cfgParser true) FP.all [chunks.flatten] := by
  rw [C01.oj_buf_is_machine _ rfl, C01.oj_buf_is_machine _ rfl]
  exact oj_parser_chunks_irrelevant chunks h1 h2

/-- **C03 at buffer level, full statement, for the front-ends without the pinned loop**: the validator's and
the tokenizer's outcome over their buffer-level models depends only on the concatenation of the reads -/
theorem oj_validator_buf_chunks_irrelevant (chunks : List Bytes) :
    runBV ojTables C01.cfgR chunks = runBV ojTables C01.cfgR [chunks.flatten] := by
  rw [C01.oj_validator_buf_is_machine _ rfl, C01.oj_validator_buf_is_machine _ rfl]
  exact chunks_irrelevant ojTables C01.cfgR rfl rfl chunks

theorem oj_tokenizer_buf_chunks_irrelevant (chunks : List Bytes) :
    runBT ojTables C01.cfgR chunks = runBT ojTables C01.cfgR [chunks.flatten] := by
  rw [C01.oj_tokenizer_buf_is_machine _ rfl, C01.oj_tokenizer_buf_is_machine _ rfl]
  exact chunks_irrelevant ojTables C01.cfgR rfl rfl chunks

end OjgVerif.C03

namespace OjgVerif.C09
open OjgVerif OjgVerif.Json

/-- **C09 at buffer level**: when one call of `parseBuffer` (all fast paths) rejects a buffer, the
reported line and column designate the first byte behind which no extension is in the language -/
theorem buf_error_position_first_unextendable (bs : Bytes) (e : Err)
    (h : runBuf ojTables C01.cfgP FP.all {} bs = .error e) :
    ∃ pre b post, bs = pre ++ b :: post ∧ (e.line, e.col) = lineColOf pre ∧
      (∃ q, InLang (pre ++ q)) ∧ ∀ q, ¬ InLang (pre ++ b :: q) := by
  have hs := runBuf_eq_fold C01.ojTables_ok C01.cfgP FP.all rfl {} {} bs rel_init rfl NumInv.init
  rw [h] at hs
  cases hy : runBytes ojTables C01.cfgP {} bs with
  | ok m => rw [hy] at hs; exact hs.elim
  | error e' =>
    rw [hy] at hs
    have he : e = e' := hs
    subst he
    rw [Json.runBytes_eq_ref C01.ojTables_ok] at hy
    have hr := runBytes_rel C01.cfgP cfg1 rfl bs (a := {}) (b := {}) rfl
    rw [hy] at hr
    cases hz : runBytes refTables cfg1 {} bs with
    | ok m => rw [hz] at hr; simp [eraseR] at hr
    | error e'' =>
      rw [hz] at hr
      simp only [eraseR, Except.error.injEq] at hr
      subst hr
      apply error_position_first_unextendable bs e
      rw [Json.runBytes_eq_ref C01.ojTables_ok]; exact hz

end OjgVerif.C09
