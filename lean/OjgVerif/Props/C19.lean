import OjgVerif.Diff.Lemmas
import OjgVerif.Gen.AltDiff
/-! # C19 — Diff, Compare and Match report exactly the real differences

Statements are about the model of `alt/diff.go` (`Diff/Model.lean`), which the correspondence run
ties to the Go code, for every Go map iteration order (`OrdOK ord`) and both data flavours.
`Dev` names the five places where the pinned code (d4b55cf) deviated from the property; the
theorems are proved for every `D : Dev` on the inputs that the switched-on deviations cannot touch
(`Clear`), for trees whose integers are machine integers (`MachineTree`: -2^63 ≤ i < 2^64, the
values `int64` and `uint64` hold — the domain of the model, not an exclusion). All five defects
are repaired in the repository (`fix:` commits c0c8224, 2f372fe, 36b721b, 23c2317, d149f2d), so
`Dev.current` — the code as it is now — has every flag off: `C19_current` / `C19_holds` are the
property at full strength, with no exclusion. `source_is_current` ties `Dev.current` to the
regenerated source facts (`Gen/AltDiff.lean`): a tree that loses one of the repairs breaks it. The
`full_false_*` theorems keep one kernel-evaluated witness per deviation as the record of the
repaired defects (they are about the model with the flag switched on);
`C19_full_false_before_23c2317` and `C19_full_false_before_d149f2d` are the former `C19_full_false`. -/
namespace OjgVerif.C19
open OjgVerif OjgVerif.Diff

/-- a Go map iteration order: any arrangement (even with repetitions) of exactly the given names -/
def OrdOK (ord : List Bytes → List Bytes) : Prop := ∀ l k, k ∈ ord l ↔ k ∈ l

/-- the input is out of reach of every deviation that `D` switches on -/
structure Clear (D : Dev) (fl : Flavour) (a b : JV) (ign : List Path) : Prop where
  /-- C19-multi-index-ignore needs two ignore paths of more than one fragment, one of them with an
  index before its last fragment (or a negative such index) -/
  idx : D.lastIndex = true → IdxSafe ign
  /-- C19-ignored-length-index needs an ignore path that ends in an index -/
  tail : D.tailSkip = true → NoFinalIdx ign
  /-- C19-int-float-2p53 needs an integer of magnitude ≥ 2^53 on the right -/
  flt : D.floatRound = true → AllInts IsFloatExact b
  /-- C19-gen-root-number needs generic data whose roots are an integer and a float -/
  gen : D.genRoot = true → fl = .gen → numKindMix a b = false
  /-- C19-uint64-wrap needs an unsigned integer above `MaxInt64` (or, vacuously, below `MinInt64`) -/
  wrap : D.uintWrap = true → Int64Tree a ∧ Int64Tree b

theorem clear_fixed (fl : Flavour) (a b : JV) (ign : List Path) : Clear Dev.fixed fl a b ign :=
  ⟨fun h => (by simp [Dev.fixed] at h), fun h => (by simp [Dev.fixed] at h), fun h => (by simp [Dev.fixed] at h),
    fun h => (by simp [Dev.fixed] at h), fun h => (by simp [Dev.fixed] at h)⟩

section
variable {D : Dev} {ord : List Bytes → List Bytes} {fl : Flavour} {a b : JV} {ign : List Path}

/-- the paths returned by Diff are exactly the leaf differences that no ignore path covers -/
theorem diff_exact (hord : OrdOK ord) (ha : MachineTree a) (hb : MachineTree b) (hc : Clear D fl a b ign) (p : Path) :
    p ∈ (diff D ord fl a b ign).map norm ↔ LeafDiff a b p ∧ ¬ Ignored ign p := by
  unfold diff
  rw [diffTop_eq_fixed D ord fl false a b ign hc.idx hc.tail hc.flt hc.gen hc.wrap]
  simp only [diffTop, Ignored]
  rw [mem_ndiffF ord hord _ a b ign p (Nat.lt_succ_self _) ha hb]
  simp

/-- Diff is empty exactly when the trees are equal once the ignored locations are disregarded -/
theorem diff_empty (hord : OrdOK ord) (ha : MachineTree a) (hb : MachineTree b) (hc : Clear D fl a b ign) :
    diff D ord fl a b ign = [] ↔ EquivModulo ign a b := by
  constructor
  · intro h q hq
    by_cases hi : Ignored ign q
    · exact hi
    · have := (diff_exact hord ha hb hc q).2 ⟨hq, hi⟩
      rw [h] at this; simp at this
  · intro h
    cases hd : diff D ord fl a b ign with
    | nil => rfl
    | cons p r =>
      have hm : norm p ∈ (diff D ord fl a b ign).map norm := List.mem_map.2 ⟨p, by rw [hd]; exact List.mem_cons_self, rfl⟩
      have := (diff_exact hord ha hb hc (norm p)).1 hm
      exact absurd (h _ this.1) this.2

/-- every returned path leads to a genuine difference — in fact to a leaf difference — and is not ignored -/
theorem diff_sound (hord : OrdOK ord) (ha : MachineTree a) (hb : MachineTree b) (hc : Clear D fl a b ign) {p : Path}
    (hp : p ∈ diff D ord fl a b ign) :
    DiffersAt a b (norm p) ∧ LeafDiff a b (norm p) ∧ ¬ Ignored ign (norm p) := by
  have := (diff_exact hord ha hb hc (norm p)).1 (List.mem_map.2 ⟨p, hp, rfl⟩)
  exact ⟨leafDiff_differsAt this.1, this.1, this.2⟩

/-- every leaf difference that is not ignored lies under (is) a returned path -/
theorem diff_complete (hord : OrdOK ord) (ha : MachineTree a) (hb : MachineTree b) (hc : Clear D fl a b ign) {q : Path}
    (hq : LeafDiff a b q) (hi : ¬ Ignored ign q) :
    ∃ p, p ∈ diff D ord fl a b ign ∧ norm p <+: q := by
  obtain ⟨p, hp, he⟩ := List.mem_map.1 ((diff_exact hord ha hb hc q).2 ⟨hq, hi⟩)
  exact ⟨p, hp, by rw [he]; exact List.prefix_refl q⟩

end

/-- without ignore paths: Diff is empty exactly when the trees are equal up to numeric width and
null-versus-absent members -/
theorem diff_empty_iff_equiv {D : Dev} {ord : List Bytes → List Bytes} {fl : Flavour} {a b : JV}
    (hord : OrdOK ord) (ha : MachineTree a) (hb : MachineTree b) (hc : Clear D fl a b []) :
    diff D ord fl a b [] = [] ↔ Equiv a b := by
  rw [diff_empty hord ha hb hc, equiv_iff_no_leafDiff]
  constructor
  · intro h q hq
    have := h q hq
    simp [Ignored, ignoredB] at this
  · intro h q hq
    exact absurd hq (h q)

/-! ## Compare — for every `D`, no exclusion needed -/

theorem diffTop_one (D : Dev) (ord : List Bytes → List Bytes) (fl : Flavour) (a b : JV) (ign : List Path) :
    diffTop D ord fl true a b ign = (diffTop D ord fl false a b ign).take 1 := by
  cases fl with
  | simple => exact diffF_one D ord _ a b ign
  | gen =>
    simp only [diffTop]
    split
    · exact diffF_one D ord _ a b ign
    · rfl

/-- Compare returns nil exactly when Diff is empty -/
theorem compare_none (D : Dev) (ord : List Bytes → List Bytes) (fl : Flavour) (a b : JV) (ign : List Path) :
    Diff.compare D ord fl a b ign = none ↔ diff D ord fl a b ign = [] := by
  unfold Diff.compare diff
  rw [diffTop_one]
  cases diffTop D ord fl false a b ign <;> simp

/-- otherwise it returns one of Diff's paths (the first in the same iteration order) -/
theorem compare_mem (D : Dev) (ord : List Bytes → List Bytes) (fl : Flavour) (a b : JV) (ign : List Path)
    {p : Path} (h : Diff.compare D ord fl a b ign = some p) : p ∈ diff D ord fl a b ign := by
  unfold Diff.compare at h
  unfold diff
  rw [diffTop_one] at h
  cases hd : diffTop D ord fl false a b ign with
  | nil => rw [hd] at h; simp at h
  | cons x r =>
    rw [hd] at h
    simp at h
    rw [← h]; exact List.mem_cons_self

/-! ## Match -/

/-- Match holds exactly when every member of the fingerprint is matched in the target -/
theorem match_iff {D : Dev} {fl : Flavour} {f t : JV} (hf : MachineTree f) (ht : MachineTree t)
    (h3 : D.floatRound = true → AllInts IsFloatExact t)
    (h4 : D.genRoot = true → fl = .gen → numKindMix f t = false)
    (h5 : D.uintWrap = true → Int64Tree f ∧ Int64Tree t) :
    altMatch D fl f t = true ↔ FpMatch f t := by
  rw [altMatch_eq_fixed D fl f t h3 h4 h5]
  exact matchF_iff _ f t (Nat.lt_succ_self _) hf ht

/-! ## the property at full strength, for a given set of deviations -/

/-- C19 for the model with deviations `D` -/
def Full (D : Dev) : Prop :=
  ∀ (ord : List Bytes → List Bytes), OrdOK ord → ∀ (fl : Flavour) (a b : JV) (ign : List Path), MachineTree a → MachineTree b →
    (∀ p, p ∈ (diff D ord fl a b ign).map norm ↔ LeafDiff a b p ∧ ¬ Ignored ign p) ∧
    (diff D ord fl a b ign = [] ↔ EquivModulo ign a b) ∧
    (Diff.compare D ord fl a b ign = none ↔ diff D ord fl a b ign = []) ∧
    (∀ p, Diff.compare D ord fl a b ign = some p → p ∈ diff D ord fl a b ign) ∧
    (altMatch D fl a b = true ↔ FpMatch a b)

/-- the code with the proposed fixes satisfies C19 at full strength -/
theorem full_fixed : Full Dev.fixed := by
  intro ord hord fl a b ign ha hb
  have hc := clear_fixed fl a b ign
  exact ⟨diff_exact hord ha hb hc, diff_empty hord ha hb hc, compare_none _ _ _ _ _ _, fun _ => compare_mem _ _ _ _ _ _,
    match_iff ha hb hc.flt hc.gen hc.wrap⟩

/-- C19 for the code as it is now -/
def C19_full : Prop := Full Dev.current

/-- integers that fit `int64` are machine integers -/
theorem machine_of_int64 {a : JV} (h : Int64Tree a) : MachineTree a := by
  have key : ∀ (n : Nat) (a : JV), a.depth < n → Int64Tree a → MachineTree a := by
    intro n
    induction n with
    | zero => intro a h; omega
    | succ n ih =>
      intro a hd h
      cases h with
      | null => exact AllInts.null
      | bool b => exact AllInts.bool b
      | int i hi => exact AllInts.int i ⟨hi.1, by have := hi.2; omega⟩
      | flt t => exact AllInts.flt t
      | big t => exact AllInts.big t
      | num t => exact AllInts.num t
      | str t => exact AllInts.str t
      | arr xs hx =>
        refine AllInts.arr xs (fun x hm => ?_)
        obtain ⟨i, hi⟩ := List.getElem?_of_mem hm
        exact ih x (by have := depth_elem hi; omega) (hx x hm)
      | obj m hm =>
        refine AllInts.obj m (fun kv hkv => ?_)
        have hdk : kv.2.depth ≤ JV.depthKvs m := by
          clear hm hd
          induction m with
          | nil => cases hkv
          | cons e r ihr =>
            cases e with
            | mk k v =>
              rcases List.mem_cons.1 hkv with rfl | h'
              · simp [JV.depthKvs]; omega
              · have := ihr h'; simp [JV.depthKvs]; omega
        exact ih kv.2 (by simp [JV.depth] at hd; omega) (hm kv hkv)
  exact key _ a (Nat.lt_succ_self _) h

/-- the code satisfies C19 on every input that is clear of the deviations `Dev.current` switches on
(generic form; `C19_current` spells it out for today's `Dev.current`) -/
theorem C19_partial {ord : List Bytes → List Bytes} (hord : OrdOK ord) {fl : Flavour} {a b : JV} {ign : List Path}
    (ha : MachineTree a) (hb : MachineTree b) (hc : Clear Dev.current fl a b ign) :
    (∀ p, p ∈ (diff Dev.current ord fl a b ign).map norm ↔ LeafDiff a b p ∧ ¬ Ignored ign p) ∧
    (diff Dev.current ord fl a b ign = [] ↔ EquivModulo ign a b) ∧
    (Diff.compare Dev.current ord fl a b ign = none ↔ diff Dev.current ord fl a b ign = []) ∧
    (∀ p, Diff.compare Dev.current ord fl a b ign = some p → p ∈ diff Dev.current ord fl a b ign) ∧
    (altMatch Dev.current fl a b = true ↔ FpMatch a b) :=
  ⟨diff_exact hord ha hb hc, diff_empty hord ha hb hc, compare_none _ _ _ _ _ _, fun _ => compare_mem _ _ _ _ _ _,
    match_iff ha hb hc.flt hc.gen hc.wrap⟩

/-- no exclusion is left for the code as it is now -/
theorem clear_current (fl : Flavour) (a b : JV) (ign : List Path) : Clear Dev.current fl a b ign :=
  ⟨fun h => (by simp [Dev.current] at h), fun h => (by simp [Dev.current] at h),
    fun h => (by simp [Dev.current] at h), fun h => (by simp [Dev.current] at h),
    fun h => (by simp [Dev.current] at h)⟩

/-- **C19 for the code as it is now, at full strength**: for every map iteration order, both data
flavours, every ignore set and every pair of trees whose integers are machine integers
(-2^63 ≤ i < 2^64: the domain of the model, not an exclusion): Diff returns exactly the leaf
differences that no ignore path covers — hence it is empty iff the trees are equivalent modulo the
ignore paths, sound and complete —, Compare is nil iff Diff is empty and otherwise one of Diff's
paths, and Match is the fingerprint relation. No hypothesis on ignore paths, generic roots,
magnitudes or signedness. -/
theorem C19_current {ord : List Bytes → List Bytes} (hord : OrdOK ord) {fl : Flavour} {a b : JV} {ign : List Path}
    (ha : MachineTree a) (hb : MachineTree b) :
    (∀ p, p ∈ (diff Dev.current ord fl a b ign).map norm ↔ LeafDiff a b p ∧ ¬ Ignored ign p) ∧
    (diff Dev.current ord fl a b ign = [] ↔ EquivModulo ign a b) ∧
    (∀ p, p ∈ diff Dev.current ord fl a b ign →
      DiffersAt a b (norm p) ∧ LeafDiff a b (norm p) ∧ ¬ Ignored ign (norm p)) ∧
    (∀ q, LeafDiff a b q → ¬ Ignored ign q → ∃ p, p ∈ diff Dev.current ord fl a b ign ∧ norm p <+: q) ∧
    (Diff.compare Dev.current ord fl a b ign = none ↔ diff Dev.current ord fl a b ign = []) ∧
    (∀ p, Diff.compare Dev.current ord fl a b ign = some p → p ∈ diff Dev.current ord fl a b ign) ∧
    (altMatch Dev.current fl a b = true ↔ FpMatch a b) :=
  have hc : Clear Dev.current fl a b ign := clear_current fl a b ign
  ⟨diff_exact hord ha hb hc, diff_empty hord ha hb hc, fun _ hp => diff_sound hord ha hb hc hp,
    fun _ hq hi => diff_complete hord ha hb hc hq hi, compare_none _ _ _ _ _ _, fun _ => compare_mem _ _ _ _ _ _,
    match_iff ha hb hc.flt hc.gen hc.wrap⟩

/-- without ignore paths: Diff is empty exactly when the trees are equal up to numeric width and
null-versus-absent members -/
theorem C19_current_equiv {ord : List Bytes → List Bytes} (hord : OrdOK ord) {fl : Flavour} {a b : JV}
    (ha : MachineTree a) (hb : MachineTree b) : diff Dev.current ord fl a b [] = [] ↔ Equiv a b :=
  diff_empty_iff_equiv hord ha hb (clear_current fl a b [])

/-- the full statement holds for the code as it is now -/
theorem C19_holds : C19_full := by
  intro ord hord fl a b ign ha hb
  have h := C19_current (ord := ord) hord (fl := fl) (a := a) (b := b) (ign := ign) ha hb
  exact ⟨h.1, h.2.1, h.2.2.2.2.1, h.2.2.2.2.2.1, h.2.2.2.2.2.2⟩

/-! ## the source carries the repairs, and only those -/

/-- the deviation set read off the regenerated facts about `alt/diff.go` (`tools/extract/diff.go`):
* `lastIndex` unless the child ignore paths are built per element, inside the element loop;
* `floatRound` unless `floatEqual` exists, compares through `asInt`, and is what the float cases of
  both `diff` and `Match` call;
* `tailSkip` unless the `len(t1) <= i` test comes first in the element loop and consults `ignoreIndex`;
* `genRoot` unless `gen.Int` / `gen.Float` are named in the integer / float cases of both switches;
* `uintWrap` unless `intEqual` exists, it and `floatEqual` consult `asBigUint`, and `intEqual` is what
  the integer cases of both `diff` and `Match` call. -/
def Dev.ofSource : Dev where
  lastIndex := !Gen.AltDiff.arrChildIgnoresInsideLoop
  floatRound := !(Gen.AltDiff.hasFloatEqual && Gen.AltDiff.floatEqualCalls.contains "asInt" &&
    Gen.AltDiff.diffFloatCaseCalls.contains "floatEqual" && Gen.AltDiff.matchFloatCaseCalls.contains "floatEqual")
  tailSkip := !(Gen.AltDiff.arrLengthTestFirst && Gen.AltDiff.arrLengthTestHonoursIgnore)
  genRoot := !(Gen.AltDiff.diffIntCaseTypes.contains "gen.Int" && Gen.AltDiff.matchIntCaseTypes.contains "gen.Int" &&
    Gen.AltDiff.diffFloatCaseTypes.contains "gen.Float" && Gen.AltDiff.matchFloatCaseTypes.contains "gen.Float")
  uintWrap := !(Gen.AltDiff.hasIntEqual && Gen.AltDiff.intEqualCalls.contains "asBigUint" &&
    Gen.AltDiff.floatEqualCalls.contains "asBigUint" &&
    Gen.AltDiff.diffIntCaseCalls.contains "intEqual" && Gen.AltDiff.matchIntCaseCalls.contains "intEqual")

/-- the source the check runs against has the shape of the model's `Dev.current` -/
theorem source_is_current : Dev.ofSource = Dev.current := by decide

/-! ## witnesses: each deviation alone refutes the full statement -/

theorem ordOK_id : OrdOK id := fun _ _ => Iff.rfl

def kA : Bytes := [97]
def kB : Bytes := [98]

/-- `[{a:1,b:2},{a:3,b:4}]` -/
def w1a : JV := .arr [.obj [(kA, .int 1), (kB, .int 2)], .obj [(kA, .int 3), (kB, .int 4)]]
/-- `[{a:9,b:2},{a:8,b:4}]` -/
def w1b : JV := .arr [.obj [(kA, .int 9), (kB, .int 2)], .obj [(kA, .int 8), (kB, .int 4)]]
/-- `Path{0,"a"}, Path{1,"b"}` -/
def w1ign : List Path := [[.idx 0, .key kA], [.idx 1, .key kB]]

/-- the integers of `w1a` and `w1b` satisfy any predicate that holds of 1, 2, 3, 4, 8, 9 -/
theorem w1_all (P : Int → Prop) (h : P 1 ∧ P 2 ∧ P 3 ∧ P 4 ∧ P 8 ∧ P 9) : AllInts P w1a ∧ AllInts P w1b := by
  constructor <;>
  · refine AllInts.arr _ (fun x hx => ?_)
    simp only [List.mem_cons, List.not_mem_nil, or_false] at hx
    rcases hx with rfl | rfl <;>
    · refine AllInts.obj _ (fun kv hkv => ?_)
      simp only [List.mem_cons, List.not_mem_nil, or_false] at hkv
      rcases hkv with rfl | rfl <;>
        first
        | exact AllInts.int _ h.1 | exact AllInts.int _ h.2.1 | exact AllInts.int _ h.2.2.1
        | exact AllInts.int _ h.2.2.2.1 | exact AllInts.int _ h.2.2.2.2.1 | exact AllInts.int _ h.2.2.2.2.2

theorem w1a_int64 : Int64Tree w1a := (w1_all IsInt64 (by decide)).1
theorem w1b_int64 : Int64Tree w1b := (w1_all IsInt64 (by decide)).2
theorem w1a_machine : MachineTree w1a := (w1_all IsMachineInt (by decide)).1
theorem w1b_machine : MachineTree w1b := (w1_all IsMachineInt (by decide)).2

/-- an instance on the former multi-index witness: the ignore paths `Path{0,"a"}, Path{1,"b"}` need
no exclusion any more -/
example : (∀ p, p ∈ (diff Dev.current id .simple w1a w1b w1ign).map norm ↔
    LeafDiff w1a w1b p ∧ ¬ Ignored w1ign p) :=
  (C19_current ordOK_id w1a_machine w1b_machine).1

/-- before c0c8224: `Diff(a, b, Path{0,"a"}, Path{1,"b"})` is `[[0 a]]`: the ignored `[0].a` is reported … -/
theorem w1_model : diff ⟨true, false, false, false, false⟩ id .simple w1a w1b w1ign = [[.idx 0, .key kA]] := by
  decide +kernel

/-- … and `[1].a`, a difference that is not ignored, is missed -/
theorem full_false_lastIndex : ¬ Full ⟨true, false, false, false, false⟩ := by
  intro h
  have h1 := (h id ordOK_id .simple w1a w1b w1ign w1a_machine w1b_machine).1 [.idx 1, .key kA]
  rw [w1_model] at h1
  have hl : LeafDiff w1a w1b [.idx 1, .key kA] :=
    LeafDiff.elem (i := 1) rfl rfl (LeafDiff.member (k := kA) (LeafDiff.here (by decide)))
  have hi : ¬ Ignored w1ign [.idx 1, .key kA] := by decide
  have := h1.2 ⟨hl, hi⟩
  revert this
  decide

/-- 2^53 as a float -/
def w2a : JV := .flt [57, 48, 48, 55, 49, 57, 57, 50, 53, 52, 55, 52, 48, 57, 57, 50]
/-- 2^53 + 1 as an integer -/
def w2b : JV := .int 9007199254740993

theorem w2_model : diff ⟨false, true, false, false, false⟩ id .simple w2a w2b [] = [] := by decide +kernel
theorem w2_pinned : diff Dev.pinned id .simple w2a w2b [] = [] := by decide +kernel

theorem w2_leaf : LeafDiff w2a w2b [] := LeafDiff.here (by decide +kernel)

/-- before 23c2317: `Diff(float64(1<<53), int64(1<<53+1))` is empty although the numbers differ -/
theorem full_false_floatRound : ¬ Full ⟨false, true, false, false, false⟩ := by
  intro h
  have h1 := (h id ordOK_id .simple w2a w2b [] (AllInts.flt _) (AllInts.int _ (by decide))).1 []
  rw [w2_model] at h1
  have := h1.2 ⟨w2_leaf, by decide⟩
  simp at this

/-- the former `C19_full_false`: until 23c2317 `Dev.current` was `⟨false, true, false, false, false⟩` and
the code did not satisfy C19 at full strength -/
theorem C19_full_false_before_23c2317 : ¬ Full ⟨false, true, false, false, false⟩ := full_false_floatRound

/-- the pinned code (all four deviations) did not satisfy C19 -/
theorem full_false_pinned : ¬ Full Dev.pinned := by
  intro h
  have h1 := (h id ordOK_id .simple w2a w2b [] (AllInts.flt _) (AllInts.int _ (by decide))).1 []
  rw [w2_pinned] at h1
  have := h1.2 ⟨w2_leaf, by decide⟩
  simp at this

/-- after 23c2317 the same pair is reported: the model of the code as it is now returns `[[nil]]` -/
theorem w2_now : diff Dev.current id .simple w2a w2b [] = [here] := by decide +kernel

/-- `[1,2,3]` against `[1]` with `Path{1}` ignored -/
def w3a : JV := .arr [.int 1, .int 2, .int 3]
def w3b : JV := .arr [.int 1]

theorem w3a_machine : MachineTree w3a := by
  refine AllInts.arr _ (fun x hx => ?_)
  simp only [List.mem_cons, List.not_mem_nil, or_false] at hx
  rcases hx with rfl | rfl | rfl <;> exact AllInts.int _ (by decide)

theorem w3b_machine : MachineTree w3b := by
  refine AllInts.arr _ (fun x hx => ?_)
  simp only [List.mem_cons, List.not_mem_nil, or_false] at hx
  subst hx; exact AllInts.int _ (by decide)

theorem w3_model : diff ⟨false, false, true, false, false⟩ id .simple w3a w3b [[.idx 1]] = [[.idx 2]] := by decide +kernel

/-- before 2f372fe: `Diff([1,2,3], [1], Path{1})` is `[[2]]`: not a leaf difference (the length mismatch lives at
`[1]`, which is ignored; with the arrays swapped the code returns nothing) -/
theorem full_false_tailSkip : ¬ Full ⟨false, false, true, false, false⟩ := by
  intro h
  have h1 := (h id ordOK_id .simple w3a w3b [[.idx 1]] w3a_machine w3b_machine).1 [.idx 2]
  rw [w3_model] at h1
  have := (h1.1 (by decide)).1
  cases this with
  | elem h2 h3 _ => simp at h3

theorem w4_model : diff ⟨false, false, false, true, false⟩ id .gen (.int 3) (.flt [51]) [] = [here] := by decide +kernel

/-- before 36b721b: `Diff(gen.Int(3), gen.Float(3))` is `[[nil]]` although 3 = 3.0 -/
theorem full_false_genRoot : ¬ Full ⟨false, false, false, true, false⟩ := by
  intro h
  have h1 := (h id ordOK_id .gen (.int 3) (.flt [51]) [] (AllInts.int _ (by decide)) (AllInts.flt _)).1 []
  rw [w4_model] at h1
  have := (h1.1 (by decide)).1
  cases this with
  | here hc => revert hc; decide +kernel

/-- 2^63 as a `uint64` -/
def w5a : JV := .int 9223372036854775808
/-- `math.MinInt64` -/
def w5b : JV := .int (-9223372036854775808)

theorem w5_model : diff ⟨false, false, false, false, true⟩ id .simple w5a w5b [] = [] := by decide +kernel
theorem w5_leaf : LeafDiff w5a w5b [] := LeafDiff.here (by decide +kernel)

/-- before d149f2d: `Diff(uint64(1<<63), int64(math.MinInt64))` is empty although the numbers differ -/
theorem full_false_uintWrap : ¬ Full ⟨false, false, false, false, true⟩ := by
  intro h
  have h1 := (h id ordOK_id .simple w5a w5b [] (AllInts.int _ (by decide)) (AllInts.int _ (by decide))).1 []
  rw [w5_model] at h1
  have := h1.2 ⟨w5_leaf, by decide⟩
  simp at this

/-- the former `C19_full_false`: until d149f2d `Dev.current` was `⟨false, false, false, false, true⟩`
and the code did not satisfy C19 at full strength -/
theorem C19_full_false_before_d149f2d : ¬ Full ⟨false, false, false, false, true⟩ := full_false_uintWrap

/-- after d149f2d the pair is reported, and 2^63 as a `uint64` and as a float — reported different
before — are equal: an instance of `C19_current` outside the int64 range -/
theorem w5_now : diff Dev.current id .simple w5a w5b [] = [here]
    ∧ diff Dev.current id .simple w5a (.flt [57, 50, 50, 51, 51, 55, 50, 48, 51, 54, 56, 53, 52, 55, 55, 53, 56, 48, 56]) [] = []
    ∧ diff ⟨false, false, false, false, true⟩ id .simple w5a
        (.flt [57, 50, 50, 51, 51, 55, 50, 48, 51, 54, 56, 53, 52, 55, 55, 53, 56, 48, 56]) [] = [here] := by
  refine ⟨?_, ?_, ?_⟩ <;> decide +kernel

/-! ## non-trivial instances of the hypotheses -/

/-- an ignore set with a wildcard and names is clear of the ignore-path deviations -/
example : NoInnerIdx [[.wild, .key kA], [.key kB]] ∧ NoFinalIdx [[.wild, .key kA], [.key kB]] := by
  constructor <;> intro g hg <;> simp only [List.mem_cons, List.not_mem_nil, or_false] at hg <;>
    rcases hg with rfl | rfl <;> rfl

/-- a single index at the end of a path is clear of C19-multi-index-ignore -/
example : NoInnerIdx [[.key kA, .idx 2]] := by
  intro g hg; simp only [List.mem_cons, List.not_mem_nil, or_false] at hg; subst hg; rfl

/-- so is one path through an array index next to any number of one-fragment paths
(`Path{"a", 1, "b"}, Path{"b"}, Path{0}`: the use the repository's tests make of indexes) -/
example : IdxSafe [[.key kA, .idx 1, .key kB], [.key kB], [.idx 0]] := by
  refine Or.inr ⟨by decide, fun g hg => ?_⟩
  simp only [List.mem_cons, List.not_mem_nil, or_false] at hg
  rcases hg with rfl | rfl | rfl <;> rfl

/-- the whole of `Clear` for the pinned code, on a case with a real difference and an ignore path -/
example : Clear Dev.pinned .simple w1a w1b [[.wild, .key kB]] :=
  ⟨fun _ => Or.inl (fun g hg => by simp only [List.mem_cons, List.not_mem_nil, or_false] at hg; subst hg; rfl),
   fun _ g hg => by simp only [List.mem_cons, List.not_mem_nil, or_false] at hg; subst hg; rfl,
   fun _ => by
     refine AllInts.arr _ (fun x hx => ?_)
     simp only [List.mem_cons, List.not_mem_nil, or_false] at hx
     rcases hx with rfl | rfl <;>
     · refine AllInts.obj _ (fun kv hkv => ?_)
       simp only [List.mem_cons, List.not_mem_nil, or_false] at hkv
       rcases hkv with rfl | rfl <;> exact AllInts.int _ (by decide),
   fun _ h => (by cases h), fun _ => ⟨w1a_int64, w1b_int64⟩⟩

/-- a leaf difference below an array and an object, not covered by `Path{nil,"b"}` -/
example : LeafDiff w1a w1b [.idx 0, .key kA] ∧ ¬ Ignored [[.wild, .key kB]] [.idx 0, .key kA] :=
  ⟨LeafDiff.elem (i := 0) rfl rfl (LeafDiff.member (k := kA) (LeafDiff.here (by decide))), by decide⟩

/-- equal up to numeric width and a null member: `{a:1, b:null}` and `{a:1.0}` -/
example : Equiv (.obj [(kA, .int 1), (kB, .null)]) (.obj [(kA, .flt [49])]) := by
  refine Equiv.obj (fun k => ?_)
  simp only [member]
  by_cases h1 : kA = k
  · simp only [h1, if_true]; exact Equiv.atom (by decide +kernel)
  · by_cases h2 : kB = k
    · simp only [h1, h2, if_true, if_false]; exact Equiv.atom rfl
    · simp only [h1, h2, if_false]; exact Equiv.atom rfl

/-- a fingerprint with a null member against a target without it -/
example : FpMatch (.obj [(kA, .null)]) (.obj [(kB, .int 2)]) := by
  refine FpMatch.obj (fun k hk => ?_)
  simp only [keysOf, List.map_cons, List.map_nil, List.mem_cons, List.not_mem_nil, or_false] at hk
  subst hk
  exact FpMatch.atom (by decide)

example : OrdOK List.reverse := fun _ _ => List.mem_reverse

end OjgVerif.C19
