import OjgVerif.Props.C18
import OjgVerif.Props.C01
/-! Property C18, parser clause: `gen.Parser` output equals `Generify` of `oj.Parser` output.

Two halves at model level. (1) The byte-level machines of the two packages deliver the same documents
(`OjgVerif.C01.oj_eq_gen`, over the regenerated tables); a document `v : JV` is what `oj.Parser`
builds in the simple form (`ofJV .simple v`) and what `gen.Parser` builds in the generic form
(`ofJV .gen v`). (2) `Generify` turns any heap representation of `ofJV .simple v` into a
representation of `ofJV .gen v`, provided the document holds no number kept as text. Such numbers
are outside the domain of the conversion theorems (`T.pure` excludes them: `Big.Simplify` gives a plain
string, so they do not round-trip); since the repository commit "Generify and GenAlter convert a
json.Number to gen.Big" the model's `scalar` maps them to `big gen` (`generifyBigCase = true`) and the
parser clause of the run covers them. The tie of both halves to the Go parsers is the
correspondence run of the `json` family and the parser clause of the `conv` harness. -/
namespace OjgVerif.C18
open OjgVerif OjgVerif.Conv OjgVerif.Json

mutual
  /-- a parsed document written in form `f` (payloads as hex text) -/
  def ofJV (f : Form) : JV → T
    | .null => .null
    | .bool b => .bool f b
    | .int i => .int f i
    | .flt t => .flt f (toHex t)
    | .big t => .big f (toHex t)
    | .num t => .big f (toHex t)
    | .str s => .str f (toHex s)
    | .arr xs => .arr f (ofJVList f xs)
    | .obj kvs => .obj f (ofJVKvs f kvs)
  def ofJVList (f : Form) : List JV → List T
    | [] => []
    | x :: xs => ofJV f x :: ofJVList f xs
  def ofJVKvs (f : Form) : List (Bytes × JV) → List (String × T)
    | [] => []
    | (k, x) :: xs => (toHex k, ofJV f x) :: ofJVKvs f xs
end

mutual
  /-- no number kept as text -/
  def noBig : JV → Bool
    | .big _ => false
    | .num _ => false
    | .arr xs => noBigList xs
    | .obj kvs => noBigKvs kvs
    | _ => true
  def noBigList : List JV → Bool
    | [] => true
    | x :: xs => noBig x && noBigList xs
  def noBigKvs : List (Bytes × JV) → Bool
    | [] => true
    | (_, x) :: xs => noBig x && noBigKvs xs
end

mutual
  theorem ofJV_pure (f : Form) : ∀ v : JV, noBig v = true → (ofJV f v).pure f = true
    | .null, _ => rfl
    | .bool _, _ => by simp [ofJV, T.pure]
    | .int _, _ => by simp [ofJV, T.pure]
    | .flt _, _ => by simp [ofJV, T.pure]
    | .str _, _ => by simp [ofJV, T.pure]
    | .big _, h => by simp [noBig] at h
    | .num _, h => by simp [noBig] at h
    | .arr xs, h => by simp [noBig] at h; simp [ofJV, T.pure, ofJVList_pure f xs h]
    | .obj kvs, h => by simp [noBig] at h; simp [ofJV, T.pure, ofJVKvs_pure f kvs h]
  theorem ofJVList_pure (f : Form) : ∀ xs : List JV, noBigList xs = true → T.pureList f (ofJVList f xs) = true
    | [], _ => rfl
    | x :: xs, h => by
      simp [noBigList] at h
      simp [ofJVList, T.pureList, ofJV_pure f x h.1, ofJVList_pure f xs h.2]
  theorem ofJVKvs_pure (f : Form) :
      ∀ xs : List (Bytes × JV), noBigKvs xs = true → T.pureKvs f (ofJVKvs f xs) = true
    | [], _ => rfl
    | (k, x) :: xs, h => by
      simp [noBigKvs] at h
      simp [ofJVKvs, T.pureKvs, ofJV_pure f x h.1, ofJVKvs_pure f xs h.2]
end

mutual
  theorem toForm_ofJV (f g : Form) (b : Bool) : ∀ v : JV, (ofJV f v).toForm g b = ofJV g v
    | .null => rfl
    | .bool _ => rfl
    | .int _ => rfl
    | .flt _ => rfl
    | .str _ => rfl
    | .big _ => rfl
    | .num _ => rfl
    | .arr xs => by simp [ofJV, T.toForm, toFormList_ofJV f g b xs]
    | .obj kvs => by simp [ofJV, T.toForm, toFormKvs_ofJV f g b kvs]
  theorem toFormList_ofJV (f g : Form) (b : Bool) :
      ∀ xs : List JV, T.toFormList g b (ofJVList f xs) = ofJVList g xs
    | [] => rfl
    | x :: xs => by simp [ofJVList, T.toFormList, toForm_ofJV f g b x, toFormList_ofJV f g b xs]
  theorem toFormKvs_ofJV (f g : Form) (b : Bool) :
      ∀ xs : List (Bytes × JV), T.toFormKvs g b (ofJVKvs f xs) = ofJVKvs g xs
    | [] => rfl
    | (k, x) :: xs => by simp [ofJVKvs, T.toFormKvs, toForm_ofJV f g b x, toFormKvs_ofJV f g b xs]
end

mutual
  /-- a parsed document holds no nil slice and no nil map -/
  theorem ofJV_noNil (f : Form) : ∀ v : JV, (ofJV f v).noNil = true
    | .null => rfl
    | .bool _ => rfl
    | .int _ => rfl
    | .flt _ => rfl
    | .str _ => rfl
    | .big _ => rfl
    | .num _ => rfl
    | .arr xs => by simp [ofJV, T.noNil, ofJVList_noNil f xs]
    | .obj kvs => by simp [ofJV, T.noNil, ofJVKvs_noNil f kvs]
  theorem ofJVList_noNil (f : Form) : ∀ xs : List JV, T.noNilList (ofJVList f xs) = true
    | [] => rfl
    | x :: xs => by simp [ofJVList, T.noNilList, ofJV_noNil f x, ofJVList_noNil f xs]
  theorem ofJVKvs_noNil (f : Form) : ∀ xs : List (Bytes × JV), T.noNilKvs (ofJVKvs f xs) = true
    | [] => rfl
    | (k, x) :: xs => by simp [ofJVKvs, T.noNilKvs, ofJV_noNil f x, ofJVKvs_noNil f xs]
end

/-- what `oj.Parser` delivers (numbers held as text aside) is JSON-like simple data: the round-trip
theorems of C18 apply to it -/
theorem ofJV_jsonLike (v : JV) (hv : noBig v = true) : (ofJV .simple v).JsonLike :=
  ⟨ofJV_pure .simple v hv, ofJV_noNil .simple v⟩

/-- half 1: the two parsers' machines deliver the same documents (or the same error) on every input,
configuration and chunking -/
theorem parser_machines_agree (cfg : Cfg) (chunks : List Bytes) :
    run genTables cfg chunks = run ojTables cfg chunks :=
  (OjgVerif.C01.oj_eq_gen cfg chunks).symm

/-- half 2: `Generify` of the simple form of a document is its generic form -/
theorem generify_ofJV (v : JV) (hv : noBig v = true) (n : Nat) (opt : Opt) (H : Heap) (r : Ref)
    (ho : KeepsNulls opt) (hd : denote n H r = some (ofJV .simple v)) :
    ∃ H' r', conv .generify n opt H r = some (H', r') ∧ denote n H' r' = some (ofJV .gen v) := by
  obtain ⟨H1, r1, hc1, _, hd1, _⟩ := Conv.copy_spec .generify rfl n opt H r _ ho.2 hd
    (ofJV_pure .simple v hv) (keeps_of_inv keepInv_generify _ opt ho.1)
  refine ⟨H1, r1, hc1, ?_⟩
  rw [hd1]
  simp only [Kind.dst, toForm_ofJV]

/-- the parser clause for one input: whatever document the `oj` machine delivers, the `gen` machine
delivers the same one, and `Generify` maps its simple form to its generic form -/
theorem parser_clause (cfg : Cfg) (chunks : List Bytes) (docs : List JV)
    (hoj : run ojTables cfg chunks = .ok docs) :
    run genTables cfg chunks = .ok docs ∧
    ∀ v, v ∈ docs → noBig v = true → ∀ (n : Nat) (opt : Opt) (H : Heap) (r : Ref), KeepsNulls opt →
      denote n H r = some (ofJV .simple v) →
      ∃ H' r', conv .generify n opt H r = some (H', r') ∧ denote n H' r' = some (ofJV .gen v) :=
  ⟨by rw [parser_machines_agree, hoj], fun v _ hv n opt H r ho hd => generify_ofJV v hv n opt H r ho hd⟩

/-! ## the writers clause on documents

`wr : JV → α` stands for a writer model on documents (e.g. `Writer.ojWrite o ord` of Writer/OjModel.lean,
which is defined on form-free documents `JV` and has no clause for generic nodes), `w : T → α` for what
the Go writer does with a simple tree. If `w` writes the simple tree of document `v` as `wr v`, then the
writer applied to ANY generic representation of `v` — reached through its `case alt.Simplifier` clause,
`WriterPkg.viaSimplify`, read from oj/writer.go and sen/writer.go — gives `wr v` as well, and so does the
writer applied to `Generify` of any simple representation of `v`. -/

theorem writers_clause_doc {α : Type} (p : WriterPkg) (wr : JV → α) (w : T → α) (v : JV)
    (hv : noBig v = true) (hw : w (ofJV .simple v) = wr v) (n : Nat) (Hg : Heap) (rg : Ref)
    (hg : denote n Hg rg = some (ofJV .gen v)) :
    writeRoot p w n Hg rg = some (wr v) := by
  have hp := ofJV_pure .gen v hv
  obtain ⟨H', r', _, hd'⟩ := simplify_value n ⟨false, false⟩ Hg rg _ rfl hg hp
  obtain ⟨h1, h2⟩ := writers_clause p w n Hg rg H' r' _ hg hp hd'
  rw [h1, h2, toForm_ofJV, hw]

/-- `write (Generify v) = write v` -/
theorem write_generify_doc {α : Type} (p : WriterPkg) (wr : JV → α) (w : T → α) (v : JV)
    (hv : noBig v = true) (hw : w (ofJV .simple v) = wr v) (n : Nat) (opt : Opt) (H : Heap) (r : Ref)
    (ho : KeepsNulls opt) (hd : denote n H r = some (ofJV .simple v)) :
    ∃ H' r', conv .generify n opt H r = some (H', r') ∧
      writeRoot p w n H' r' = writeRoot p w n H r ∧ writeRoot p w n H r = some (wr v) := by
  obtain ⟨H', r', hc, hd'⟩ := generify_ofJV v hv n opt H r ho hd
  refine ⟨H', r', hc, ?_⟩
  have hs : writeRoot p w n H r = some (wr v) := by
    simp [writeRoot, hd, ofJV_pure .simple v hv, hw]
  rw [hs, writers_clause_doc p wr w v hv hw n H' r' hd']
  exact ⟨rfl, rfl⟩

-- the hypothesis on `w` is satisfiable for every `wr` and `v`
example {α : Type} (wr : JV → α) (v : JV) : ∃ w : T → α, w (ofJV .simple v) = wr v := ⟨fun _ => wr v, rfl⟩

/-! the hypotheses are satisfiable: `[1,{"a":null}]` as delivered by the machine, and a heap for it -/
example : (match run ojTables {} [[91, 49, 44, 123, 34, 97, 34, 58, 110, 117, 108, 108, 125, 93]] with
    | .ok [.arr [.int 1, .obj [(k, .null)]]] => k == [97]
    | _ => false) = true := by decide +kernel
example : noBig (.arr [.int 1, .obj [([97], .null)]]) = true := rfl
example : denote 2 [.obj [("61", .null)], .arr [.int .simple 1, .obj .simple 0]] (.arr .simple 1)
    = some (ofJV .simple (.arr [.int 1, .obj [([97], .null)]])) := by rfl

end OjgVerif.C18
