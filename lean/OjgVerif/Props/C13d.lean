import OjgVerif.Props.C13b
import OjgVerif.JPMut.LemmasDescent
import OjgVerif.JPMut.LemmasDescentRem
import OjgVerif.JPMut.LemmasDescentOne
import OjgVerif.JPMut.LemmasDescentOneSet
import OjgVerif.JPMut.LemmasDescentDel
/-! # C13, continued: Modify through a recursive descent

Round 3. The exactness theorems of Props/C13.lean / C13b.lean exclude every path with a descent. Here: paths with ONE
descent, `pre ++ [..] ++ rest`, `rest` non-empty and free of filters and further descents.

* `modify_descent` — Modify (all matches, simple data; any deviation set with `descentSiblings` off; any reading `σ` of slices
  the code agrees with; a modifier that returns well-formed values on well-formed values): the returned tree is
  `updAll m.eff (locsG σ x d) d` — the modifier applied at exactly the locations the path selects, where the selection is the
  shared denotation `JPath.eval` INCLUDING its descent clause (`desc`: every node, members first). The model's descent
  work-list (`descGo`: the rest of the path on the members' subtrees first, then on the node as it is after those edits) is
  thereby proved equal to the denotation's simultaneous, inner-first edit. `modify_descent_frame`: the frame.
* `modify_descent_current` — the instance for the code as it is (inclusive slices) under `GoodPre inclIdx Dev.current`;
  `goodPre_noUnion`: that hypothesis holds for EVERY data tree when the path has no union.
* What is excluded, exactly, and why: a FILTER after the descent — `witness_descent_filter`: the bottom-up traversal
  re-evaluates the filter on the edited node (known finding C13-descent-filter-reevaluated); a second descent or a repeated
  union member (C13-repeated-location). Not covered (open): Set/Del through a descent (creation below a descent adds members
  in traversal order: equal to the specification only up to member order), Remove through a descent (Remove `$..a` is
  refused — "last fragment is a Descent" after the last fragment is split off —, `$..a.b` needs `upd_rem` for descents),
  the One forms through a descent.
-/
namespace OjgVerif.C13
open OjgVerif OjgVerif.JPath OjgVerif.JPMut

variable {σ : SliceFn} [NodupSlice σ]

/-- MODIFY THROUGH ONE DESCENT = the specification -/
theorem modify_descent (dev : Dev) (hsib : dev.descentSiblings = false) (m : Modifier) (hm : ∀ c, WF c → WF (m.eff c))
    (pre rest : List Frag) (hp : NoDescent pre) (hne : rest ≠ []) (hnd : NoDescent rest) (hnf : NoFilter rest) (d : JV) (hw : WF d)
    (hg : GoodPre σ dev rest pre d) :
    modifyM false dev false m (pre ++ .descent :: rest) d = .ok (modifySpecG σ (pre ++ .descent :: rest) m d) :=
  modifyM_descent_eq dev hsib m hm pre rest hp hne hnd hnf d hw hg

/-- frame: every location that is not at, above or below a selected location holds what it held -/
theorem modify_descent_frame (m : Modifier) (x : List Frag) (d : JV) : Frame (locsG σ x d) d (modifySpecG σ x m d) :=
  fun q hq => updAll_frame m.eff q (locsG σ x d) d hq

/-- hit, for the nested selections a descent produces: every OUTERMOST selected location (no selected location above it) that exists
holds the modifier's result on its subtree as edited inside; for a modifier that returns a constant `v`: it holds `v`
("Get at each selected location returns the new value" is demanded of the outermost ones, Spec.lean) -/
theorem modify_descent_hit (m : Modifier) (x : List Frag) (d c : JV) (p : Path) (hp : p ∈ locsG σ x d)
    (hout : ∀ p' ∈ locsG σ x d, p'.isPrefixOf p = true → p' = p) (hv : valAt p d = some c) :
    ∃ c', valAt p (modifySpecG σ x m d) = some (m.eff c') :=
  updAll_hit_outer m.eff p (locsG σ x d) d c hp hout hv

theorem modify_descent_hit_const (m : Modifier) (v : JV) (hm : ∀ c, m c = (v, true)) (x : List Frag) (d c : JV) (p : Path)
    (hp : p ∈ locsG σ x d) (hout : ∀ p' ∈ locsG σ x d, p'.isPrefixOf p = true → p' = p) (hv : valAt p d = some c) :
    valAt p (modifySpecG σ x m d) = some v := by
  obtain ⟨c', h⟩ := modify_descent_hit (σ := σ) m x d c p hp hout hv
  rw [h]
  simp [Modifier.eff, hm]

/-- `Modify $..a` with the constant 0 on `{"a":{"a":1}}`: both `$.a.a` and `$.a` are selected; the outermost one holds 0 -/
example : modifyM false Dev.current false (fun _ => (.int 0, true)) [.descent, .child kA] (.obj [(kA, .obj [(kA, .int 1)])]) =
    .ok (.obj [(kA, .int 0)]) := by rfl

/-- the descent work-list alone: `descGo` with the rest of the path = the simultaneous edit at everything `..rest` selects -/
theorem descent_worklist (dev : Dev) (m : Modifier) (hm : ∀ c, WF c → WF (m.eff c)) (rest : List Frag) (hne : rest ≠ [])
    (hnd : NoDescent rest) (hnf : NoFilter rest) (d : JV) (hw : WF d) (hg : GoodD σ dev rest d) :
    descGo (modF false dev false m rest false) d = ⟨updAll m.eff (locsG σ (.descent :: rest) d) d, .go⟩ :=
  descGo_upd dev m hm rest hne hnd hnf d hw hg

/-- no fragment of the path is a union -/
def NoUnion (x : List Frag) : Prop := ∀ f ∈ x, ∀ ms, f ≠ .union ms

theorem goodPath_noUnion : ∀ (x : List Frag), NoDescent x → NoUnion x → ∀ (d : JV), GoodPath inclIdx Dev.current x d
  | [], _, _, _ => trivial
  | f :: r, hnd, hnu, d =>
    ⟨goodAt_incl f d (hnd f (by simp)) (fun ms h => absurd h (hnu f (by simp) ms)),
     fun m _ => goodPath_noUnion r (fun g hg => hnd g (List.mem_cons_of_mem _ hg)) (fun g hg => hnu g (List.mem_cons_of_mem _ hg)) m.2⟩

mutual
  theorem goodD_noUnion (rest : List Frag) (hnd : NoDescent rest) (hnu : NoUnion rest) : ∀ (d : JV), GoodD inclIdx Dev.current rest d
    | .arr xs => ⟨goodPath_noUnion rest hnd hnu _, goodDL_noUnion rest hnd hnu xs⟩
    | .obj kvs => ⟨goodPath_noUnion rest hnd hnu _, goodDK_noUnion rest hnd hnu kvs⟩
    | .null => trivial
    | .bool _ => trivial
    | .int _ => trivial
    | .flt _ => trivial
    | .big _ => trivial
    | .num _ => trivial
    | .str _ => trivial
  theorem goodDL_noUnion (rest : List Frag) (hnd : NoDescent rest) (hnu : NoUnion rest) : ∀ (xs : List JV), GoodDL inclIdx Dev.current rest xs
    | [] => trivial
    | x :: r => ⟨goodD_noUnion rest hnd hnu x, goodDL_noUnion rest hnd hnu r⟩
  theorem goodDK_noUnion (rest : List Frag) (hnd : NoDescent rest) (hnu : NoUnion rest) : ∀ (kvs : List (Bytes × JV)),
      GoodDK inclIdx Dev.current rest kvs
    | [] => trivial
    | m :: r => ⟨goodD_noUnion rest hnd hnu m.2, goodDK_noUnion rest hnd hnu r⟩
end

/-- a path without a union is good on every data tree (the code as it is, inclusive slices) -/
theorem goodPre_noUnion (rest : List Frag) (hnd : NoDescent rest) (hnu : NoUnion rest) : ∀ (pre : List Frag), NoDescent pre → NoUnion pre →
    ∀ (d : JV), GoodPre inclIdx Dev.current rest pre d
  | [], _, _, d => goodD_noUnion rest hnd hnu d
  | f :: p, hp, hu, d =>
    ⟨goodAt_incl f d (hp f (by simp)) (fun ms h => absurd h (hu f (by simp) ms)),
     fun m _ => goodPre_noUnion rest hnd hnu p (fun g hg => hp g (List.mem_cons_of_mem _ hg)) (fun g hg => hu g (List.mem_cons_of_mem _ hg)) m.2⟩

/-- Modify through one descent, the code as it is, every slice, a path without unions: NO hypothesis about the data beyond
unique member names — the returned tree is the input edited at exactly the (inclusively) selected locations; no error -/
theorem modify_descent_current (m : Modifier) (hm : ∀ c, WF c → WF (m.eff c)) (pre rest : List Frag) (hp : NoDescent pre)
    (hne : rest ≠ []) (hnd : NoDescent rest) (hnf : NoFilter rest) (hu1 : NoUnion pre) (hu2 : NoUnion rest) (d : JV) (hw : WF d) :
    modifyM false Dev.current false m (pre ++ .descent :: rest) d = .ok (modifySpecG inclIdx (pre ++ .descent :: rest) m d) :=
  modify_descent Dev.current rfl m hm pre rest hp hne hnd hnf d hw (goodPre_noUnion rest hnd hu2 pre hp hu1 d)

/-- REMOVE THROUGH ONE DESCENT (all matches, simple data; `pre ++ [..] ++ rest ++ [f]`, `rest` non-empty, no filter or descent in
`rest`, `f` not a descent): no error; the returned tree is the input with `f`'s remover applied — inner locations first — at
exactly the PARENTS the path without `f` selects (`JPath.eval` with its descent clause); on every well-formed container that
remover removes exactly what `f` selects there (`removeAllOf_eff`). NOT proved: that this equals `removeSpecG` (= `remAll` at
the locations of the full path) — the two agree for descent-free paths (`upd_rem`), for a descent the composition lemma for
`remAll` is open. (`Remove $..a`, the descent directly before the last fragment, is refused: "last fragment is a Descent".) -/
theorem remove_descent (dev : Dev) (hsib : dev.descentSiblings = false) (pre rest : List Frag) (f : Frag) (m : Modifier)
    (hm : removeAllOf dev f = some m) (hf : isDescentF f = false) (hrg : ∀ c, RemGood σ dev f c)
    (hp : NoDescent pre) (hne : rest ≠ []) (hnd : NoDescent rest) (hnf : NoFilter rest) (d : JV) (hw : WF d)
    (hg : GoodPre σ dev rest pre d) :
    removeM false dev false (pre ++ .descent :: rest ++ [f]) d = .ok (updAll m.eff (locsG σ (pre ++ .descent :: rest) d) d) :=
  removeM_descent_eq dev hsib pre rest f m hm hf hrg hp hne hnd hnf d hw hg

/-- the code as it is, a path without unions before the last fragment: no hypothesis on the data beyond unique member names -/
theorem remove_descent_current (pre rest : List Frag) (f : Frag) (m : Modifier) (hm : removeAllOf Dev.current f = some m)
    (hf : isDescentF f = false) (hp : NoDescent pre) (hne : rest ≠ []) (hnd : NoDescent rest) (hnf : NoFilter rest)
    (hu1 : NoUnion pre) (hu2 : NoUnion rest) (d : JV) (hw : WF d) :
    removeM false Dev.current false (pre ++ .descent :: rest ++ [f]) d =
      .ok (updAll m.eff (locsG inclIdx (pre ++ .descent :: rest) d) d) :=
  remove_descent Dev.current rfl pre rest f m hm hf (fun c => remGood_incl f c hf) hp hne hnd hnf d hw
    (goodPre_noUnion rest hnd hu2 pre hp hu1 d)

/-- REMOVE THROUGH ONE DESCENT = THE SPECIFICATION: with, in addition, a last fragment that is not a filter and `GoodPre` for
`rest ++ [f]` too, the tree `remove_descent` describes IS `removeSpecG σ x d` = `remAll` at exactly the locations the full
path selects (removals below a node lie too deep to change what `rest ++ [f]` selects from it: `remAll_shape`; deeper
removals followed by shallower ones compose: `remAll_seq`; `upd_rem_desc` by mutual structural induction over the tree) -/
theorem remove_descent_spec (dev : Dev) (hsib : dev.descentSiblings = false) (pre rest : List Frag) (f : Frag) (m : Modifier)
    (hm : removeAllOf dev f = some m) (hf : isDescentF f = false) (hff : isFilterF f = false) (hrg : ∀ c, RemGood σ dev f c)
    (hp : NoDescent pre) (hne : rest ≠ []) (hnd : NoDescent rest) (hnf : NoFilter rest) (d : JV) (hw : WF d)
    (hg : GoodPre σ dev rest pre d) (hg' : GoodPre σ dev (rest ++ [f]) pre d) :
    removeM false dev false (pre ++ .descent :: rest ++ [f]) d = .ok (removeSpecG σ (pre ++ .descent :: rest ++ [f]) d) :=
  removeM_descent_spec dev hsib pre rest f m hm hf hff hrg hp hne hnd hnf d hw hg hg'

/-- the code as it is, no union in the path: Remove through one descent leaves exactly `removeSpecG inclIdx x d`, for EVERY
data tree with unique member names; no error -/
theorem remove_descent_spec_current (pre rest : List Frag) (f : Frag) (hf : isDescentF f = false) (hff : isFilterF f = false)
    (hp : NoDescent pre) (hne : rest ≠ []) (hnd : NoDescent rest) (hnf : NoFilter rest)
    (hu1 : NoUnion pre) (hu2 : NoUnion (rest ++ [f])) (d : JV) (hw : WF d) :
    removeM false Dev.current false (pre ++ .descent :: rest ++ [f]) d =
      .ok (removeSpecG inclIdx (pre ++ .descent :: rest ++ [f]) d) := by
  obtain ⟨m, hm⟩ : ∃ m, removeAllOf Dev.current f = some m := by
    cases f <;> simp_all [removeAllOf, isDescentF]
  have hu2' : NoUnion rest := fun g hg => hu2 g (List.mem_append_left _ hg)
  exact remove_descent_spec Dev.current rfl pre rest f m hm hf hff (fun c => remGood_incl f c hf) hp hne hnd hnf d hw
    (goodPre_noUnion rest hnd hu2' pre hp hu1 d)
    (goodPre_noUnion (rest ++ [f]) (noDescent_snoc rest f hnd hf) hu2 pre hp hu1 d)

/-- `Remove $..b.a` on `{"b":{"a":1,"b":{"a":2,"c":3}}}`: both `a` below a `b` go -/
example : removeM false Dev.current false [.descent, .child kB, .child kA]
      (.obj [(kB, .obj [(kA, .int 1), (kB, .obj [(kA, .int 2), ([99], .int 3)])])]) =
    .ok (.obj [(kB, .obj [(kB, .obj [([99], .int 3)])])]) := by rfl

/-- the hypotheses of `remove_descent_spec_current` are satisfiable: `$..b.a` = `[] ++ [..] ++ [b] ++ [a]` -/
example : isDescentF (Frag.child kA) = false ∧ isFilterF (Frag.child kA) = false ∧ NoDescent ([] : List Frag) ∧ ([Frag.child kB] ≠ []) ∧
    NoDescent [Frag.child kB] ∧ NoFilter [Frag.child kB] ∧ NoUnion ([] : List Frag) ∧ NoUnion ([Frag.child kB] ++ [Frag.child kA]) := by
  refine ⟨rfl, rfl, (fun _ h => nomatch h), (by simp), ?_, ?_, (fun _ h => nomatch h), ?_⟩
  · intro f hf; simp at hf; subst hf; rfl
  · intro f hf; simp at hf; subst hf; rfl
  · intro f hf ms h; simp at hf; rcases hf with rfl | rfl <;> cases h

/-- and that is the specification's tree -/
example : removeSpecG inclIdx [.descent, .child kB, .child kA] (.obj [(kB, .obj [(kA, .int 1), (kB, .obj [(kA, .int 2), ([99], .int 3)])])]) =
    .obj [(kB, .obj [(kB, .obj [([99], .int 3)])])] := by rfl

/-- MODIFYONE THROUGH ONE DESCENT (simple data; `rest` non-empty without a further descent — filters ARE allowed: a One form has
edited nothing before its single edit): no error; the returned tree is `updAll m.eff [p] d` for ONE location `p` the path
selects (`JPath.eval` with its descent clause) at which the modifier reports a change — the first the work-list meets
(members' subtrees before the node) —, or the input itself when no selected location wants a change; hence the property's
demand on a One form (`OneOKG`) -/
theorem one_modify_descent (dev : Dev) (hsib : dev.descentSiblings = false) (m : Modifier) (hfm : dev.filterMapNil = false)
    (pre rest : List Frag) (hp : NoDescent pre) (hne : rest ≠ []) (hnd : NoDescent rest) (d : JV) (hw : WF d)
    (hg : GoodPre σ dev rest pre d) :
    ∃ d', modifyM false dev true m (pre ++ .descent :: rest) d = .ok d' ∧ ModOneOut σ m (pre ++ .descent :: rest) d d' ∧
      OneOKG σ (pre ++ .descent :: rest) d d' (.mod m) := by
  obtain ⟨d', h1, h2⟩ := modifyOne_descent (σ := σ) dev hsib m hfm pre rest hp hne hnd d hw hg
  exact ⟨d', h1, h2, oneOKG_of_modOneOut m _ d d' hw h2⟩

/-- the code as it is, a path without unions -/
theorem one_modify_descent_current (m : Modifier) (pre rest : List Frag) (hp : NoDescent pre) (hne : rest ≠ []) (hnd : NoDescent rest)
    (hu1 : NoUnion pre) (hu2 : NoUnion rest) (d : JV) (hw : WF d) :
    ∃ d', modifyM false Dev.current true m (pre ++ .descent :: rest) d = .ok d' ∧
      OneOKG inclIdx (pre ++ .descent :: rest) d d' (.mod m) := by
  obtain ⟨d', h1, _, h3⟩ := one_modify_descent (σ := inclIdx) Dev.current rfl m rfl pre rest hp hne hnd d hw
    (goodPre_noUnion rest hnd hu2 pre hp hu1 d)
  exact ⟨d', h1, h3⟩

/-- REMOVEONE THROUGH ONE DESCENT (simple data; `rest` non-empty without a further descent; any last fragment but a descent,
filters included): no error; the returned tree is `remAll [q] d` for ONE location `q` the full path selects, or the input
itself when it selects nothing -/
theorem one_remove_descent (dev : Dev) (hsib : dev.descentSiblings = false) (hfm : dev.filterMapNil = false) (pre rest : List Frag)
    (f : Frag) (hf : isDescentF f = false) (hrg : ∀ c, RemGood σ dev f c) (hp : NoDescent pre) (hne : rest ≠ [])
    (hnd : NoDescent rest) (d : JV) (hw : WF d) (hg : GoodPre σ dev rest pre d) :
    ∃ d', removeM false dev true (pre ++ .descent :: rest ++ [f]) d = .ok d' ∧
      OneOKG σ (pre ++ .descent :: rest ++ [f]) d d' .rem :=
  removeOne_descent dev hsib hfm pre rest f hf hrg hp hne hnd d hw hg

/-- the code as it is, no union before the last fragment -/
theorem one_remove_descent_current (pre rest : List Frag) (f : Frag) (hf : isDescentF f = false) (hp : NoDescent pre) (hne : rest ≠ [])
    (hnd : NoDescent rest) (hu1 : NoUnion pre) (hu2 : NoUnion rest) (d : JV) (hw : WF d) :
    ∃ d', removeM false Dev.current true (pre ++ .descent :: rest ++ [f]) d = .ok d' ∧
      OneOKG inclIdx (pre ++ .descent :: rest ++ [f]) d d' .rem :=
  one_remove_descent Dev.current rfl rfl pre rest f hf (fun c => remGood_incl f c hf) hp hne hnd d hw
    (goodPre_noUnion rest hnd hu2 pre hp hu1 d)

/-- SETONE / DELONE THROUGH ONE DESCENT (simple data; `delOneAbsent`, `descentSiblings` off; `rest` non-empty without a further
descent): when no error is reported the data is the input with the value written (the member deleted, the element null) at ONE
location the path selects, or (Set) with ONE member created, or the input itself — that only when nothing is selected and
nothing is to be created -/
theorem one_set_descent (dev : Dev) (hsib : dev.descentSiblings = false) (hda : dev.delOneAbsent = false) (a : SetArg)
    (pre rest : List Frag) (hp : NoDescent pre) (hne : rest ≠ []) (hnd : NoDescent rest) (d d' : JV) (hw : WF d)
    (hg : GoodPreS σ dev rest pre d) (h : setM false dev true a (pre ++ .descent :: rest) d = .ok d') :
    OneOKG σ (pre ++ .descent :: rest) d d' a.op :=
  setOne_descent dev hsib hda a pre rest hp hne hnd d d' hw hg h

theorem goodPathS_noUnion : ∀ (x : List Frag), NoDescent x → NoUnion x → ∀ (d : JV), GoodPathS inclIdx Dev.current x d
  | [], _, _, _ => trivial
  | f :: r, hnd, hnu, d =>
    ⟨goodAtS_incl f d (hnd f (by simp)) (fun ms h => absurd h (hnu f (by simp) ms)),
     fun m _ => goodPathS_noUnion r (fun g hg => hnd g (List.mem_cons_of_mem _ hg)) (fun g hg => hnu g (List.mem_cons_of_mem _ hg)) m.2⟩

mutual
  theorem goodDS_noUnion (rest : List Frag) (hnd : NoDescent rest) (hnu : NoUnion rest) : ∀ (d : JV), GoodDS inclIdx Dev.current rest d
    | .arr xs => ⟨goodPathS_noUnion rest hnd hnu _, goodDSL_noUnion rest hnd hnu xs⟩
    | .obj kvs => ⟨goodPathS_noUnion rest hnd hnu _, goodDSK_noUnion rest hnd hnu kvs⟩
    | .null => trivial
    | .bool _ => trivial
    | .int _ => trivial
    | .flt _ => trivial
    | .big _ => trivial
    | .num _ => trivial
    | .str _ => trivial
  theorem goodDSL_noUnion (rest : List Frag) (hnd : NoDescent rest) (hnu : NoUnion rest) : ∀ (xs : List JV), GoodDSL inclIdx Dev.current rest xs
    | [] => trivial
    | x :: r => ⟨goodDS_noUnion rest hnd hnu x, goodDSL_noUnion rest hnd hnu r⟩
  theorem goodDSK_noUnion (rest : List Frag) (hnd : NoDescent rest) (hnu : NoUnion rest) : ∀ (kvs : List (Bytes × JV)),
      GoodDSK inclIdx Dev.current rest kvs
    | [] => trivial
    | m :: r => ⟨goodDS_noUnion rest hnd hnu m.2, goodDSK_noUnion rest hnd hnu r⟩
end

theorem goodPreS_noUnion (rest : List Frag) (hnd : NoDescent rest) (hnu : NoUnion rest) : ∀ (pre : List Frag), NoDescent pre → NoUnion pre →
    ∀ (d : JV), GoodPreS inclIdx Dev.current rest pre d
  | [], _, _, d => goodDS_noUnion rest hnd hnu d
  | f :: p, hp, hu, d =>
    ⟨goodAtS_incl f d (hp f (by simp)) (fun ms h => absurd h (hu f (by simp) ms)),
     fun m _ => goodPreS_noUnion rest hnd hnu p (fun g hg => hp g (List.mem_cons_of_mem _ hg)) (fun g hg => hu g (List.mem_cons_of_mem _ hg)) m.2⟩

/-- the code as it is, a path without unions -/
theorem one_set_descent_current (a : SetArg) (pre rest : List Frag) (hp : NoDescent pre) (hne : rest ≠ []) (hnd : NoDescent rest)
    (hu1 : NoUnion pre) (hu2 : NoUnion rest) (d d' : JV) (hw : WF d)
    (h : setM false Dev.current true a (pre ++ .descent :: rest) d = .ok d') :
    OneOKG inclIdx (pre ++ .descent :: rest) d d' a.op :=
  one_set_descent Dev.current rfl rfl a pre rest hp hne hnd d d' hw (goodPreS_noUnion rest hnd hu2 pre hp hu1 d) h

/-- DEL THROUGH A DESCENT AT THE HEAD OF THE PATH (`$..rest`; all matches, simple data; `rest` non-empty, free of filters and
descents and good on every value): when no error is reported the data is `delSpecG σ x d` — the object members `JPath.eval`
(descent clause included) selects gone, the selected array elements null. (`Expr.set` runs on the path as it is, so the
descent at the head is the whole `pre = []` case; Del creates nothing, so exact equality holds — for Set it would hold only
up to member order.) -/
theorem del_descent (dev : Dev) (rest : List Frag) (hne : rest ≠ []) (hnd : NoDescent rest) (hnf : NoFilter rest)
    (hgm : ∀ c, GoodPath σ dev rest c) (hgs : ∀ c, GoodPathS σ dev rest c) (d d' : JV) (hw : WF d)
    (h : setM false dev false .del (.descent :: rest) d = .ok d') : d' = delSpecG σ (.descent :: rest) d :=
  delM_descent dev rest hne hnd hnf hgm hgs d d' hw h

/-- the code as it is, a rest without unions: every data tree with unique member names -/
theorem del_descent_current (rest : List Frag) (hne : rest ≠ []) (hnd : NoDescent rest) (hnf : NoFilter rest) (hu : NoUnion rest)
    (d d' : JV) (hw : WF d) (h : setM false Dev.current false .del (.descent :: rest) d = .ok d') :
    d' = delSpecG inclIdx (.descent :: rest) d :=
  del_descent Dev.current rest hne hnd hnf (fun c => goodPath_noUnion rest hnd hu c) (fun c => goodPathS_noUnion rest hnd hu c) d d' hw h

/-- `Del $..a` on `{"a":1,"b":{"a":2,"c":[{"a":3}]}}` -/
example : setM false Dev.current false .del [.descent, .child kA]
      (.obj [(kA, .int 1), (kB, .obj [(kA, .int 2), ([99], .arr [.obj [(kA, .int 3)]])])]) =
    .ok (.obj [(kB, .obj [([99], .arr [.obj []])])]) := by rfl

/-- `SetOne $..a` with 9 on `{"b":{"a":2},"a":1}`: the member's subtree first — `$.b.a` is written -/
example : setM false Dev.current true (.val (.int 9)) [.descent, .child kA] (.obj [(kB, .obj [(kA, .int 2)]), (kA, .int 1)]) =
    .ok (.obj [(kB, .obj [(kA, .int 9)]), (kA, .int 1)]) := by rfl

/-- `ModifyOne $..a` with `inc` on `{"a":1,"b":{"a":2}}`: the member's subtree first — `$.b.a` is the one edited -/
example : modifyM false Dev.current true inc [.descent, .child kA] (.obj [(kA, .int 1), (kB, .obj [(kA, .int 2)])]) =
    .ok (.obj [(kA, .int 1), (kB, .obj [(kA, .int 3)])]) := by rfl

/-- `inc` returns well-formed values -/
theorem inc_wf : ∀ c, WF c → WF (inc.eff c) := by
  intro c hc
  cases c <;> simp_all [Modifier.eff, inc, WF]

/-- `Modify $..a` with `inc` on `{"a":1,"b":{"a":2}}` -/
example : modifyM false Dev.current false inc [.descent, .child kA] (.obj [(kA, .int 1), (kB, .obj [(kA, .int 2)])]) =
    .ok (.obj [(kA, .int 2), (kB, .obj [(kA, .int 3)])]) ∧
    locsG inclIdx [.descent, .child kA] (.obj [(kA, .int 1), (kB, .obj [(kA, .int 2)])]) = [[.key kB, .key kA], [.key kA]] :=
  ⟨by rfl, by rfl⟩

/-- the hypotheses of `modify_descent_current` are satisfiable: `$.b..a` -/
example : NoDescent [Frag.child kB] ∧ ([Frag.child kA] ≠ []) ∧ NoDescent [Frag.child kA] ∧ NoFilter [Frag.child kA] ∧
    NoUnion [Frag.child kB] ∧ NoUnion [Frag.child kA] := by
  refine ⟨?_, by simp, ?_, ?_, ?_, ?_⟩ <;> intro f hf <;> simp at hf <;> subst hf <;> first | rfl | (intro ms h; cases h)

/-- a filter for the witness below: an integer 1, or an object whose only member is 1 -/
def oneish : JV → Bool
  | .int i => i == 1
  | .obj [(_, .int i)] => i == 1
  | _ => false

/-- why a FILTER after the descent is excluded (known finding C13-descent-filter-reevaluated): `Modify $..[?oneish]` with
the constant 0 on `{"x":{"a":1}}`. Get selects `$.x.a` and `$.x` (both as the tree was); the mutator edits `$.x.a`, then
evaluates the filter on `$.x` as it is NOW (`{"a":0}`: no longer selected) and leaves it -/
theorem witness_descent_filter :
    modifyM false Dev.current false (fun _ => (.int 0, true)) [.descent, .filter oneish] (.obj [([120], .obj [(kA, .int 1)])]) =
      .ok (.obj [([120], .obj [(kA, .int 0)])]) ∧
    modifySpec [.descent, .filter oneish] (fun _ => (.int 0, true)) (.obj [([120], .obj [(kA, .int 1)])]) = .obj [([120], .int 0)] ∧
    locs [.descent, .filter oneish] (.obj [([120], .obj [(kA, .int 1)])]) = [[.key [120], .key kA], [.key [120]]] :=
  ⟨by rfl, by rfl, by rfl⟩

end OjgVerif.C13
