import OjgVerif.Props.C13
import OjgVerif.JPMut.LemmasErr
import OjgVerif.JPMut.LemmasOneExact
import OjgVerif.JPMut.LemmasOneSet
/-! # C13, continued: what an ERRORING mutation leaves behind; the One forms exactly

Round 3. The exactness theorems of Props/C13.lean speak about calls that report no error. `Expr.set` edits in place as it
goes and can fail half-way (`$[*].a[5]` on `[{"a":[1]},…]`: out of bounds at the first element after nothing, or at the
second after the first was edited; `$.a.b.c` where `b` holds a number: "can not follow"). The property's frame clause —
"change only those, leaving every other part of the data equal to before" — does not depend on success:

* `frame_set` / `err_frame_set` — Set, SetOne, Del, DelOne, simple and gen data, every deviation set, a path without
  recursive descent: WHATEVER is reported (a result, a One form's early stop, an error after some edits), every location
  that is not at, above or below a selected location — or, Set, a member the path may create (`createRootsG`) — holds what
  it held. Proved on the traversal itself (LemmasErr.lean), not via the exactness theorems.
* `err_same_modify` / `err_same_remove` — Modify, ModifyOne, Remove, RemoveOne, EVERY path (descent included): once the
  `gen.Node` assertion cannot fail (`genModifyNil` off — `Dev.current`; or simple data) the traversal of `Expr.modify` has
  no error exit: an error means the request was refused up front (last fragment a Descent / not removable) and the data is
  untouched.
* `err_frame` — the four mutators, all matches and One, simple and gen data, the code as it is: an error outcome satisfies
  the frame w.r.t. the inclusive selection (no hypothesis about slices); `err_frame_current` — w.r.t. Get's selection on
  clean paths, which is literally the `.err` clause of `C13_full` (`Holds`): `holds_err_current`.
-/
namespace OjgVerif.C13
open OjgVerif OjgVerif.JPath OjgVerif.JPMut

variable {σ : SliceFn} [NodupSlice σ]

/-- the locations outside which nothing may change, under the reading `σ` of slices (`frameSet` = the instance `sliceIdx`) -/
def frameSetG (σ : SliceFn) (x : List Frag) (d : JV) : Op → List Path
  | .set _ => locsG σ x d ++ createRootsG σ x d
  | .del => locsG σ x d
  | .mod _ => locsG σ x d
  | .rem => (locsG σ x d).map List.dropLast

theorem frameSetG_spec (x : List Frag) (d : JV) (op : Op) : frameSetG sliceIdx x d op = frameSet x d op := by
  cases op <;> rfl

/-- FRAME WHATEVER THE OUTCOME — Set/SetOne (`a = .val v`), Del/DelOne (`a = .del`), simple and gen data, any deviation
set: the data the call leaves (after a result, a One form's stop, or an error following partial edits) agrees with the
data before at every location that is not at, above or below a location of `setFrameG σ a x d` = the selected locations
plus, for Set, the members the path may create -/
theorem frame_set (gen : Bool) (dev : Dev) (one : Bool) (a : SetArg) (x : List Frag) (d : JV) (hnd : NoDescent x) (hw : WF d)
    (hg : GoodPathS σ dev x d) : Frame (setFrameG σ a x d) d ((setM gen dev one a x d).data d) :=
  setM_frame gen dev one a x d hnd hw hg

/-- the error case spelled out: after an erroring Set/Del every location not selected (nor creatable) holds its old value -/
theorem err_frame_set (gen : Bool) (dev : Dev) (one : Bool) (a : SetArg) (x : List Frag) (d d' : JV) (e : E) (hnd : NoDescent x)
    (hw : WF d) (hg : GoodPathS σ dev x d) (h : setM gen dev one a x d = .err e d') : Frame (setFrameG σ a x d) d d' := by
  have := frame_set (σ := σ) gen dev one a x d hnd hw hg
  rw [h] at this
  exact this

/-- an erroring call that has edited: `Set $[*].a[1]` on `[{"a":[1,2]},{"a":[3]}]` replaces `$[0].a[1]`, then reports
"out of bounds" at `$[1].a` — the edit stays, everything else is as it was -/
example : setM false Dev.current false (.val (.int 9)) [.wild, .child kA, .nth 1]
      (.arr [.obj [(kA, ints [1, 2])], .obj [(kA, ints [3])]]) =
    .err .outOfBounds (.arr [.obj [(kA, ints [1, 9])], .obj [(kA, ints [3])]]) := by rfl

/-- the hypotheses of `err_frame_set` hold there -/
example : NoDescent [.wild, .child kA, .nth 1] ∧
    GoodPathS σ Dev.current [.wild, .child kA, .nth 1] (.arr [.obj [(kA, ints [1, 2])], .obj [(kA, ints [3])]]) := by
  refine ⟨?_, trivial, fun _ _ => ⟨trivial, fun _ _ => ⟨trivial, fun _ _ => trivial⟩⟩⟩
  intro f hf; simp at hf; rcases hf with rfl | rfl | rfl <;> rfl

/-- Modify / ModifyOne, EVERY path (recursive descent included), simple and gen data: an error means the request was
refused before the traversal began — the data is untouched (and the error is "last fragment is a Descent") -/
theorem err_same_modify (gen : Bool) (dev : Dev) (one : Bool) (m : Modifier) (h : gen = false ∨ dev.genModifyNil = false)
    (x : List Frag) (d d' : JV) (e : E) (he : modifyM gen dev one m x d = .err e d') : d' = d ∧ e = .lastDescent :=
  modifyCore_err_same gen dev one m (by rcases h with h | h <;> simp [h]) x d d' e he

/-- Remove / RemoveOne, EVERY path: an error means the request was refused before anything was touched -/
theorem err_same_remove (gen : Bool) (dev : Dev) (one : Bool) (h : gen = false ∨ dev.genModifyNil = false)
    (x : List Frag) (d d' : JV) (e : E) (he : removeM gen dev one x d = .err e d') : d' = d :=
  removeM_err_same gen dev one (by rcases h with h | h <;> simp [h]) x d d' e he

example : modifyM false Dev.current false inc [.child kA, .descent] (.obj [(kA, .int 1)]) = .err .lastDescent (.obj [(kA, .int 1)]) := by rfl

theorem setFrame_sub_frameSet (a : SetArg) (x : List Frag) (d : JV) :
    ∀ p ∈ setFrameG σ a x d, p ∈ frameSetG σ x d (match a with | .val v => Op.set v | .del => Op.del) := by
  intro p hp
  cases a with
  | val v => exact hp
  | del => simpa [setFrameG, crG, frameSetG] using hp

/-- ERR_FRAME — the code as it is, the four mutators, all matches and One, simple and gen data, a path without
recursive descent in which no union lists a member twice: after an ERROR every location that is not at, above or below
a location selected under the inclusive reading (or, Set, creatable) holds its old value. No hypothesis about slices. -/
theorem err_frame (gen one : Bool) (op : Op) (x : List Frag) (d d' : JV) (e : E) (hnd : NoDescent x) (hw : WF d)
    (hu : UnionsClean x d) (h : runModel gen Dev.current one x d op = .err e d') : Frame (frameSetG inclIdx x d op) d d' := by
  cases op with
  | set v => exact err_frame_set gen Dev.current one (.val v) x d d' e hnd hw (unionsClean_goodS x d hnd hu) h
  | del =>
    exact (err_frame_set gen Dev.current one .del x d d' e hnd hw (unionsClean_goodS x d hnd hu) h).mono
      (setFrame_sub_frameSet .del x d)
  | mod m => rw [(err_same_modify gen Dev.current one m (Or.inr rfl) x d d' e h).1]; exact Frame.refl _ _
  | rem => rw [err_same_remove gen Dev.current one (Or.inr rfl) x d d' e h]; exact Frame.refl _ _

/-- the same against the PROPERTY's selection (Get's, exclusive slices) on clean paths -/
theorem err_frame_current (gen one : Bool) (op : Op) (x : List Frag) (d d' : JV) (e : E) (hnd : NoDescent x) (hw : WF d)
    (hc : CleanPath x d) (h : runModel gen Dev.current one x d op = .err e d') : Frame (frameSet x d op) d d' := by
  rw [← frameSetG_spec]
  cases op with
  | set v => exact err_frame_set gen Dev.current one (.val v) x d d' e hnd hw (cleanPath_goodS x d hc) h
  | del =>
    exact (err_frame_set gen Dev.current one .del x d d' e hnd hw (cleanPath_goodS x d hc) h).mono
      (setFrame_sub_frameSet .del x d)
  | mod m => rw [(err_same_modify gen Dev.current one m (Or.inr rfl) x d d' e h).1]; exact Frame.refl _ _
  | rem => rw [err_same_remove gen Dev.current one (Or.inr rfl) x d d' e h]; exact Frame.refl _ _

/-- the `.err` clause of `C13_full` holds for the code as it is on clean paths: all matches and One, simple and gen data -/
theorem holds_err_current (gen one : Bool) (op : Op) (x : List Frag) (d d' : JV) (e : E) (hnd : NoDescent x) (hw : WF d)
    (hc : CleanPath x d) (h : runModel gen Dev.current one x d op = .err e d') :
    Holds op one x d (runModel gen Dev.current one x d op) := by
  rw [h]
  exact err_frame_current gen one op x d d' e hnd hw hc h

/-! ## the One forms exactly

`one_set`, `one_modify`, `one_remove` (Props/C13.lean) say: at most one member of one container changes. The theorems
below say WHICH change it is, for paths without recursive descent on simple data: the all-matches edit at ONE selected
location (`single p d op` with `p ∈ locs x d`), and no change only when there is nothing to do. -/

/-- ModifyOne EXACTLY, any deviation set with `filterMapNil` off, any reading `σ` of slices the code agrees with on the arrays
met (`GoodPath`): no error is possible; the returned tree is `updAll m.eff [p] d` for ONE selected location `p` at which
the modifier reports a change (`ModOneOut`, second case) — the first such location in the order modify.go pops them —, or
the input itself when the modifier reports no change at any selected location (first case). Hence `OneOKG`. -/
theorem one_modify_exact (dev : Dev) (m : Modifier) (x : List Frag) (d : JV) (hfm : dev.filterMapNil = false) (hnd : NoDescent x)
    (hw : WF d) (hg : GoodPath σ dev x d) (hroot : ¬ (x = [] ∧ dev.rootScalar = true ∧ isContainer d = false)) :
    ∃ d', modifyM false dev true m x d = .ok d' ∧ ModOneOut σ m x d d' ∧ OneOKG σ x d d' (.mod m) :=
  modifyOne_exact dev m x d hfm hnd hw hg hroot

/-- ModifyOne, the code as it is, every slice (inclusive reading) -/
theorem one_modify_incl (m : Modifier) (x : List Frag) (d : JV) (hnd : NoDescent x) (hw : WF d) (hu : UnionsClean x d) :
    ∃ d', modifyM false Dev.current true m x d = .ok d' ∧ ModOneOut inclIdx m x d d' ∧ OneOKG inclIdx x d d' (.mod m) :=
  one_modify_exact Dev.current m x d rfl hnd hw (unionsClean_good x d hnd hu) (fun h => by simp [Dev.current] at h)

/-- ModifyOne, the code as it is, against the PROPERTY (`OneOK` of Spec.lean, Get's selection) on clean paths -/
theorem one_modify_current (m : Modifier) (x : List Frag) (d : JV) (hnd : NoDescent x) (hw : WF d) (hc : CleanPath x d) :
    ∃ d', modifyM false Dev.current true m x d = .ok d' ∧ OneOK x d d' (.mod m) := by
  obtain ⟨d', h1, _, h3⟩ := one_modify_exact (σ := sliceIdx) Dev.current m x d rfl hnd hw (cleanPath_good x d hc)
    (fun h => by simp [Dev.current] at h)
  exact ⟨d', h1, (oneOKG_spec x d d' _).1 h3⟩

/-- `ModifyOne $[*].a` with `inc` on `[{"a":1},{"a":2}]`: modify.go pops the LAST element first — `$[1].a` is the one edited -/
example : modifyM false Dev.current true inc [.wild, .child kA] (.arr [objA 1, objA 2]) = .ok (.arr [objA 1, objA 3]) ∧
    single [.idx 1, .key kA] (.arr [objA 1, objA 2]) (.mod inc) = .arr [objA 1, objA 3] := ⟨by rfl, by rfl⟩

/-- SetOne / DelOne EXACTLY, any deviation set with `delOneAbsent` off, any reading `σ` the code's slice arithmetic agrees
with: when no error is reported the data is the input with the new value written (Del: the member gone, the element null)
at ONE selected location, or (Set) with ONE member created along a name/index chain, or the input itself — that only when
nothing is selected and nothing is to be created -/
theorem one_set_exact (dev : Dev) (hda : dev.delOneAbsent = false) (a : SetArg) (x : List Frag) (d d' : JV) (hnd : NoDescent x)
    (hw : WF d) (hg : GoodPathS σ dev x d) (h : setM false dev true a x d = .ok d') : OneOKG σ x d d' a.op :=
  setOne_exact dev hda a x d d' hnd hw hg h

/-- RemoveOne EXACTLY: no error is possible; the returned tree is the input with ONE selected member removed, or the
input itself when nothing is selected -/
theorem one_remove_exact (dev : Dev) (sx : List Frag) (f : Frag) (d : JV) (hfm : dev.filterMapNil = false)
    (hnd : NoDescent (sx ++ [f])) (hw : WF d) (hg : GoodPath σ dev sx d) (hr : RemPath σ dev f sx d) :
    ∃ d', removeM false dev true (sx ++ [f]) d = .ok d' ∧ OneOKG σ (sx ++ [f]) d d' .rem :=
  removeOne_exact dev sx f d hfm hnd hw hg hr

/-- every `removeOne` method (and `remove` of Child/Nth) drops ONE member its fragment selects, or nothing when it
selects nothing -/
theorem removeOne_methods (dev : Dev) (f : Frag) (m : Modifier) (hm : removeOneOf dev f = some m) (c : JV)
    (hw : TopNodup c) (hg : RemGood σ dev f c) : RemOne σ f m c := removeOneOf_single dev f m hm c hw hg

theorem split_last (x : List Frag) (f : Frag) (hx : x.getLast? = some f) : x = x.dropLast ++ [f] := by
  have hne : x ≠ [] := by intro e; subst e; simp at hx
  rw [List.getLast?_eq_some_getLast hne] at hx
  injection hx with hx
  rw [← hx, List.dropLast_concat_getLast hne]

/-- THE ONE FORMS, the code as it is, every slice (inclusive reading): a One form that reports no error leaves the edit of
ONE selected location (or one created member), the input itself only when nothing is selected -/
theorem one_incl (op : Op) (x : List Frag) (d d' : JV) (hnd : NoDescent x) (hw : WF d) (hu : UnionsClean x d)
    (h : runModel false Dev.current true x d op = .ok d') : OneOKG inclIdx x d d' op := by
  cases op with
  | set v => exact one_set_exact Dev.current rfl (.val v) x d d' hnd hw (unionsClean_goodS x d hnd hu) h
  | del => exact one_set_exact Dev.current rfl .del x d d' hnd hw (unionsClean_goodS x d hnd hu) h
  | mod m =>
    obtain ⟨d'', h1, _, h3⟩ := one_modify_incl m x d hnd hw hu
    simp only [runModel, h1] at h
    injection h with h
    rw [← h]; exact h3
  | rem =>
    cases hx : x.getLast? with
    | none =>
      have : x = [] := by simpa using hx
      subst this
      simp [runModel, removeM] at h
    | some f =>
      have hsplit := split_last x f hx
      have hf : isDescentF f = false := hnd f (List.mem_of_getLast? hx)
      have hndl : NoDescent x.dropLast := fun g hg => hnd g (List.dropLast_subset x hg)
      have hu' := hu
      rw [hsplit] at hu' hnd
      obtain ⟨h1, h2⟩ := unionsClean_split f hf x.dropLast d hu'
      obtain ⟨d'', h3, h4⟩ := one_remove_exact (σ := inclIdx) Dev.current x.dropLast f d rfl hnd hw
        (unionsClean_good _ d hndl h1) h2
      rw [← hsplit] at h3 h4
      simp only [runModel, h3] at h
      injection h with h
      rw [← h]; exact h4

/-- THE ONE FORMS against the PROPERTY (`OneOK` of Spec.lean: Get's selection), the code as it is, clean paths -/
theorem one_current (op : Op) (x : List Frag) (d d' : JV) (hnd : NoDescent x) (hw : WF d) (hc : CleanPath x d)
    (h : runModel false Dev.current true x d op = .ok d') : OneOK x d d' op := by
  rw [← oneOKG_spec]
  cases op with
  | set v => exact one_set_exact Dev.current rfl (.val v) x d d' hnd hw (cleanPath_goodS x d hc) h
  | del => exact one_set_exact Dev.current rfl .del x d d' hnd hw (cleanPath_goodS x d hc) h
  | mod m =>
    obtain ⟨d'', h1, _, h3⟩ := one_modify_exact (σ := sliceIdx) Dev.current m x d rfl hnd hw (cleanPath_good x d hc)
      (fun h => by simp [Dev.current] at h)
    simp only [runModel, h1] at h
    injection h with h
    rw [← h]; exact h3
  | rem =>
    cases hx : x.getLast? with
    | none =>
      have : x = [] := by simpa using hx
      subst this
      simp [runModel, removeM] at h
    | some f =>
      have hsplit := split_last x f hx
      have hc' := hc
      rw [hsplit] at hc' hnd
      obtain ⟨h1, h2⟩ := cleanPath_split f x.dropLast d hc'
      obtain ⟨d'', h3, h4⟩ := one_remove_exact (σ := sliceIdx) Dev.current x.dropLast f d rfl hnd hw
        (cleanPath_good _ d h1) h2
      rw [← hsplit] at h3 h4
      simp only [runModel, h3] at h
      injection h with h
      rw [← h]; exact h4

/-- C13 ON CLEAN PATHS, EVERY CLAUSE — the code as it is, the four mutators, all matches AND One, simple AND gen data, a
result AND an error: on a path without recursive descent that is clean on the data (no repeated union member, slices on
which the inclusive and the exclusive reading agree) the outcome satisfies what `C13_full` demands (`Holds`): the
all-matches forms leave exactly `expected`, the One forms satisfy `OneOK`, an error respects the frame, and there is no
fault. (`C13_full_false`: without the cleanness hypothesis the statement is false.) -/
theorem C13_clean (gen one : Bool) (op : Op) (x : List Frag) (d : JV) (hnd : NoDescent x) (hw : WF d) (hc : CleanPath x d) :
    Holds op one x d (runModel gen Dev.current one x d op) := by
  have hrep := reported_current gen one op x d
  cases hout : runModel gen Dev.current one x d op with
  | ok d' =>
    have hout : runModel false Dev.current one x d op = .ok d' := by
      cases gen with
      | false => exact hout
      | true => rw [← gen_current]; exact hout
    cases one with
    | true => simp only [Holds, if_true]; exact one_current op x d d' hnd hw hc hout
    | false => simp only [Holds, Bool.false_eq_true, if_false]; exact C13_current op x d d' hnd hw hc hout
  | err e d' => exact err_frame_current gen one op x d d' e hnd hw hc hout
  | fault d' => rw [hout] at hrep; exact hrep
  | unmodelled => rw [hout] at hrep; exact hrep

/-- `SetOne $[*].a` with 9 on `[{"b":3},{"a":1}]`: the first element lacks `a` — the member is CREATED there (one created
member), the selected `$[1].a` is not touched -/
example : setM false Dev.current true (.val (.int 9)) [.wild, .child kA] (.arr [.obj [(kB, .int 3)], objA 1]) =
    .ok (.arr [.obj [(kB, .int 3), (kA, .int 9)], objA 1]) := by rfl

/-- `RemoveOne $[1:]` on `[0,1,2,3]` removes element 1 (the first selected) -/
example : removeM false Dev.current true [.slice (some 1) none none] (ints [0, 1, 2, 3]) = .ok (ints [0, 2, 3]) := by rfl

end OjgVerif.C13
